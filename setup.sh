#!/bin/sh
# Builds the whole framework from files on disk only (offline): translator, harness, the
# Coq development (full .vo build).
set -e
cd "$(dirname "$0")"
export GOFLAGS=-mod=mod GOPROXY=off GOSUMDB=off GOTOOLCHAIN=local CGO_ENABLED=0
mkdir -p work evidence/replays harness/bin
cp /repo/go.sum harness/go.sum
(cd harness && go build -tags verif -o bin/translate ./cmd/translate && go build -tags verif -o bin/dump ./cmd/dump)
(cd /repo && go build -tags verif -o /verif/harness/bin/inkfem .)
./harness/bin/translate -repo /repo -out coq/Gen
(cd coq && coq_makefile -f _CoqProject -o Makefile >/dev/null && timeout 3000 make -j16 >work_build.log 2>&1 || (tail -50 work_build.log; exit 1))
rm -f coq/work_build.log
echo setup done
