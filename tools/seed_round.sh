#!/bin/sh
# seed_round.sh <property> <name> ... : confirm the sub-agent's deliveries /tmp/agents/<property>-out/<name>
# (compiles, suite passes, demo fails with / passes without), file them under seeded/, then run the
# property's quick check against each in isolation.
export GOFLAGS=-mod=mod GOPROXY=off GOSUMDB=off GOTOOLCHAIN=local
prop=$1; shift
for k in "$@"; do
  python3 /verif/tools/verify_seed.py /tmp/agents/$prop-out/$k $prop $k 2>&1 | tail -3
  [ -d /verif/seeded/$prop-$k ] && /verif/tools/run_seed_iso.sh $prop-$k $prop-$k $prop
done
