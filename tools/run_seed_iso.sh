#!/bin/sh
# run_seed_iso.sh <patch file | seed dir name under /verif/seeded> <tag> [property ...]
# Runs quick checks against a scratch worktree of /repo with the change applied, from a
# scratch copy of /verif, so that neither /repo nor /verif is touched and several seeds can be
# examined at the same time.  Prints one line per property: "<tag> <prop> exit=<rc> <last VIOLATION / OK line>".
# Everything it creates under /tmp is removed at the end.
p=$1; tag=$2; shift 2
[ -f "$p" ] || p=/verif/seeded/$p/patch.diff
[ -f "$p" ] || { echo "no patch $p"; exit 2; }
props=${*:-$(echo $tag | cut -d- -f1)}
wt=/tmp/seedwt-$tag; vc=/tmp/seedvf-$tag
git -C /repo worktree remove --force $wt >/dev/null 2>&1; rm -rf $wt $vc
git -C /repo worktree add -q --detach $wt HEAD || exit 2
git -C $wt apply $p || { echo "$tag: patch does not apply"; git -C /repo worktree remove --force $wt; exit 2; }
mkdir -p $vc && rsync -a --exclude .git --exclude work --exclude 'evidence/replays' /verif/ $vc/
sed -i "s#=> /repo#=> $wt#" $vc/harness/go.mod
mkdir -p /verif/work/seedlogs
for prop in $props; do
  (cd $vc && VERIF_REPO=$wt timeout 3000 ./check $prop --tier ${TIER:-quick} > /verif/work/seedlogs/${tag}_$prop.log 2>&1; echo "exit=$?" >> /verif/work/seedlogs/${tag}_$prop.log)
  rc=$(tail -1 /verif/work/seedlogs/${tag}_$prop.log)
  echo "$tag $prop $rc $(grep -c '^VIOLATION' /verif/work/seedlogs/${tag}_$prop.log) violations; $(grep '^# ' /verif/work/seedlogs/${tag}_$prop.log | head -1 | cut -c1-200)"
done
git -C /repo worktree remove --force $wt; rm -rf $wt $vc
