"""C13 — CLI file contract: outputs are complete, in place, and honour the flags."""
import os
import random
import re
from fractions import Fraction as Fr

from .. import cli
from .. import common as C
from .. import gen_struct as G
from .. import stages as S
from . import C11, C12


def numbers(text):
    return [float(x) for x in re.findall(r"(?<![\w.])[-+]?\d+\.?\d*(?:[eE][-+]?\d+)?(?![\w.])", text)]


def close_texts(a, b, rel=1e-4, abs_=2e-5):
    """two .inkfemsol texts hold the same results up to solver noise: same reactions, same displacement
    series, and diagrams that are the same functions of the position (whether two equal values at a node
    are merged into one line depends on noise of the order of the requested error)"""
    pa, pb = C11.parse_sol(a), C11.parse_sol(b)
    if isinstance(pa, str) or isinstance(pb, str):
        return "not well-formed: %s" % (pa if isinstance(pa, str) else pb)

    def near(x, y):
        return abs(x - y) <= abs_ + rel * max(abs(x), abs(y))
    ra, rb = {r[0]: r[1:] for r in pa[1]}, {r[0]: r[1:] for r in pb[1]}
    if set(ra) != set(rb):
        return "reactions for %s vs %s" % (sorted(ra), sorted(rb))
    rscale = max([abs(float(x)) for v in list(ra.values()) + list(rb.values()) for x in v] + [0.0])
    for k in ra:
        if not all(abs(float(x) - float(y)) <= 1e-3 + 1e-6 * rscale + rel * max(abs(float(x)), abs(float(y))) for x, y in zip(ra[k], rb[k])):
            return "reaction of %s: %s vs %s" % (k, ra[k], rb[k])
    if [x["ID"] for x in pa[2]] != [x["ID"] for x in pb[2]]:
        return "bars %s vs %s" % ([x["ID"] for x in pa[2]], [x["ID"] for x in pb[2]])
    for ba, bb in zip(pa[2], pb[2]):
        for key in C11.KEYS:
            sa, sb = ba["Series"][key], bb["Series"][key]

            def fn(s):
                m = {}
                for t_, v in zip(s["T"], s["V"]):
                    m.setdefault(t_, []).append(float(v))
                return {k: (v[0], v[-1]) for k, v in m.items()}
            fa, fb = fn(sa), fn(sb)
            if set(fa) != set(fb):
                return "bar %s %s: positions differ" % (ba["ID"], key)
            # values that should vanish carry solver noise proportional to the size of the series
            scale = max([abs(float(v)) for v in sa["V"] + sb["V"]] + [0.0])

            def near(x, y, scale=scale):
                return abs(x - y) <= abs_ + rel * max(abs(x), abs(y)) + (1e-3 + 1e-3 * scale) * (1 if key in C11.KEYS[6:] else 0) + 1e-6 * scale
            for t_ in fa:
                if not (near(fa[t_][0], fb[t_][0]) and near(fa[t_][1], fb[t_][1])):
                    return "bar %s %s at %s: %s vs %s" % (ba["ID"], key, t_, fa[t_], fb[t_])
    return None


def marginal(r):
    """the run stopped in the convergence check within a factor 50 of the allowed error: the solver's own
    run-to-run noise decides such cases (known finding K-C09-absolute-residual-threshold)"""
    mm = re.search(r"error ([-+0-9.eE]+) in equation \d+ \(max allowed is ([-+0-9.eE]+)\)", (r.stderr or "") + (r.stdout or ""))
    return r.status != 0 and bool(mm) and float(mm.group(1)) <= 50 * float(mm.group(2))


def canon_pre(text):
    """a .inkfempre text up to the order of the lines of its map-backed sections (nodes, materials,
    sections are Go maps: their iteration order is not part of the content)"""
    out, block, sec = [], [], None
    for l in text.split("\n"):
        m = re.match(r"^\|(\w+)\|", l.strip())
        if m:
            out += sorted(block) if sec in ("nodes", "materials", "sections") else block
            block, sec = [], m.group(1)
            out.append(l)
        else:
            block.append(l)
    out += sorted(block) if sec in ("nodes", "materials", "sections") else block
    return "\n".join(out)


def version_builds(ctx, viol):
    """--version reports the build version, whatever build/VERSION says: the working tree is copied to a
    scratch directory (removed afterwards), built there with other VERSION files, and the binary is asked."""
    import shutil
    import subprocess
    import tempfile
    versions = ["v1.10", "v12.107"] if ctx.tier == "quick" else ["v1.10", "v12.107", "v0.0", "v3.25", "v2.9", "v10.1", "v1.100"]
    runs = 0
    d = tempfile.mkdtemp(prefix="inkfem-version-")
    try:
        src = os.path.join(d, "src")
        shutil.copytree(C.REPO, src, ignore=shutil.ignore_patterns(".git"))
        text = "inkfem v1.1\n\n|nodes|\nn1 -> 0 0 { dx dy rz }\nn2 -> 100 0 { }\n\n|materials|\n'm' -> 1 21000000 8100000 0.3 27500 43000\n\n|sections|\n's' -> 10 170 16 34 5.8\n\n|loads|\nfy lc b1 1 -10\n\n|bars|\nb1 -> n1 { dx dy rz } n2 { dx dy rz } 'm' 's'\n"
        for v in versions:
            open(os.path.join(src, "build", "VERSION"), "w").write(v + "\n")
            exe = os.path.join(d, "inkfem-" + v)
            rc, out = C.sh(["go", "build", "-tags", "verif", "-o", exe, "."], cwd=src, env=C.GOENV, timeout=600)
            if rc != 0:
                viol("the tree does not build with build/VERSION = %s: %s" % (v, out[-400:]), {"version_file": v})
                continue
            want = "inkfem " + v
            wd = os.path.join(d, "run")
            shutil.rmtree(wd, ignore_errors=True)
            os.makedirs(wd)
            open(os.path.join(wd, "x.inkfem"), "w").write(text)
            outs = {}
            for args in (["--version"], ["generate", "-t", "retic", "-s", "1", "-l", "1"], ["solve", "-p", "x.inkfem"]):
                p = subprocess.run([exe] + args, cwd=wd, stdout=subprocess.PIPE, stderr=subprocess.PIPE, text=True, timeout=120)
                outs[" ".join(args)] = (p.returncode, p.stdout)
                runs += 1
            rc, so = outs["--version"]
            if rc != 0 or not re.search(r"\b%s\b(?!\d)" % re.escape(v), so):
                viol("built with build/VERSION = %s, --version prints %r" % (v, so[:80]), {"version_file": v, "args": ["--version"]})
                continue
            firsts = {"generate": outs["generate -t retic -s 1 -l 1"][1].split("\n")[0]}
            for fn in ("x.inkfempre", "x.inkfemsol"):
                pth = os.path.join(wd, fn)
                if os.path.exists(pth):
                    firsts[fn] = open(pth).read().split("\n")[0]
            for k, first in firsts.items():
                if first.strip() != want:
                    viol("built with build/VERSION = %s, the first line of %s is %r" % (v, k, first[:60]), {"version_file": v, "output": k})
                    break
    finally:
        shutil.rmtree(d, ignore_errors=True)
    return runs


def run(ctx):
    rng = random.Random(ctx.seed)
    res = C.prove(ctx, "Properties/C13.v")
    ctx.log("proof stage:", "ok (%d theorems)" % res["discharged"] if res["ok"] else "BROKEN at " + res["stage"] + " " + str(res.get("failed_at", "")))
    vtxt = open(os.path.join(C.REPO, "build", "VERSION")).read().strip()
    concrete, runs = 0, 0
    structs = []
    for i in range(3 if ctx.tier == "quick" else 20):
        s = [G.gen_portal, G.gen_beam, G.gen_chain][i % 3](rng)
        structs.append(s)
    # a structure whose .inkfempre is large: the late writer really has work left when the main flow is done
    import subprocess
    big = subprocess.run([cli.BIN, "generate", "--type", "retic", "--spans", "6", "--levels", "4"], stdout=subprocess.PIPE, text=True).stdout
    inputs = [("s%d" % i, s.text()) for i, s in enumerate(structs)] + [("retic", big)]

    def viol(what, rep):
        nonlocal concrete
        if concrete < 4:
            ctx.violation(what, rep)
        concrete += 1

    for name, text in inputs:
        fn = name + ".inkfem"
        ref = cli.run(ctx, ["pre", fn], files={fn: text}, name="c13")
        runs += 1
        pre_ref = ref.files.get(name + ".inkfempre")
        if ref.status != 0 or pre_ref is None:
            viol("pre %s: exit %s, files %s" % (fn, ref.status, sorted(ref.files)), {"args": ["pre", fn], "text": text})
            continue
        if any(k for k in ref.files if k not in (fn, name + ".inkfempre")):
            viol("pre wrote unexpected files: %s" % sorted(ref.files), {"args": ["pre", fn], "text": text})
        base = cli.run(ctx, ["solve", fn], files={fn: text}, name="c13")
        runs += 1
        if base.status != 0:
            continue   # not solvable at the default error: C05 / C19 decide that
        sol_ref = base.files.get(name + ".inkfemsol")
        if sol_ref is None or isinstance(C11.parse_sol(sol_ref), str):
            viol("solve %s exited 0 without a well-formed %s.inkfemsol next to the input" % (fn, name), {"args": ["solve", fn], "text": text})
            continue
        if name + ".inkfempre" in base.files:
            viol("solve without -p wrote a .inkfempre", {"args": ["solve", fn], "text": text})
        # every schedule of the background writer, with and without the other flags
        for sched in ("late", "early", ""):
            for extra in ([], ["-v"], ["-s"]):
                args = ["solve", "-p"] + extra + [fn]
                r = cli.run(ctx, args, files={fn: text}, env={"VERIF_WRITER": sched} if sched else {}, name="c13", timeout=300)
                runs += 1
                sol, pre = r.files.get(name + ".inkfemsol"), r.files.get(name + ".inkfempre")
                rep = {"args": args, "env": {"VERIF_WRITER": sched}, "text": text}
                mm = re.search(r"error ([-+0-9.eE]+) in equation \d+ \(max allowed is ([-+0-9.eE]+)\)", r.stderr or "")
                if r.status != 0 and mm and float(mm.group(1)) <= 50 * float(mm.group(2)):
                    continue    # at the edge of the iteration budget the solver's own run-to-run noise decides (K-C09-absolute-residual-threshold)
                if r.timeout or r.status != 0:
                    viol("solve -p (writer %s) exited with %s on an input plain solve solves" % (sched or "free", r.status), rep)
                    continue
                if sol is None or isinstance(C11.parse_sol(sol), str):
                    viol("solve -p (writer %s) exited 0 without a complete .inkfemsol" % (sched or "free"), rep)
                if pre is None:
                    viol("solve -p (writer %s) exited 0 without %s.inkfempre" % (sched or "free", name), rep)
                elif canon_pre(pre) != canon_pre(pre_ref):
                    viol("solve -p (writer %s): %s.inkfempre (%d bytes) differs from what pre writes (%d bytes)" % (sched or "free", name, len(pre), len(pre_ref)), rep)
                if sol is not None and not isinstance(C11.parse_sol(sol), str):
                    d = close_texts(sol, sol_ref)
                    if d:
                        viol("solve -p %s changes the solution: %s" % (" ".join(extra), d), rep)
        # -e is the error bound actually enforced: whenever a solution is written its exact residual is within it
        for e in ("1e-9", "1e-12", "1e-14"):
            re_ = cli.run(ctx, ["solve", "-e", e, fn], files={fn: text}, env={"VERIF_DUMP_SOLUTION": "dump.txt"}, name="c13", timeout=300)
            runs += 1
            if re_.status == 0 and re_.files.get("dump.txt"):
                from .. import physics as P
                o = cli.read_dump(re_.files["dump.txt"])
                o["Pre"], o["Nodes"] = [{"NodeDofs": {}}], []
                f = P.c05_solution(o)
                if f:
                    viol("solve -e %s wrote a solution that does not meet that error: %s" % (e, f[0]), {"args": ["solve", "-e", e, fn], "text": text})
                elif o.get("MaxError") is not None and float(o["MaxError"]) != float(e):
                    viol("solve -e %s enforces %r, not the value given" % (e, o["MaxError"]), {"args": ["solve", "-e", e, fn], "text": text})
        # -v changes only logging; -w is the structure with each bar's weight as a downward global load
        rv = cli.run(ctx, ["solve", "-v", fn], files={fn: text}, name="c13")
        runs += 1
        if marginal(rv):
            pass
        elif rv.status != 0 or close_texts(rv.files.get(name + ".inkfemsol", ""), sol_ref):
            viol("solve -v changes the outcome: exit %s, %s" % (rv.status, close_texts(rv.files.get(name + ".inkfemsol", ""), sol_ref)), {"args": ["solve", "-v", fn], "text": text})
        if not rv.stdout.strip() and not rv.stderr.strip():
            pass
    for ex in ("cantibeam_conc_load", "cantilever_beam", "structure", "loadsstr", "axial_beam", "fixstr"):
        pth = os.path.join(C.REPO, "examples", ex + ".inkfem")
        if not os.path.exists(pth):
            continue
        for e in ("1e-9", "1e-12"):
            re_ = cli.run(ctx, ["solve", "-e", e, ex + ".inkfem"], files={ex + ".inkfem": open(pth).read()}, env={"VERIF_DUMP_SOLUTION": "dump.txt"}, name="c13", timeout=300)
            runs += 1
            if re_.status == 0 and re_.files.get("dump.txt"):
                from .. import physics as P
                o = cli.read_dump(re_.files["dump.txt"])
                o["Pre"], o["Nodes"] = [{"NodeDofs": {}}], []
                f = P.c05_solution(o)
                if f:
                    viol("solve -e %s examples/%s.inkfem wrote a solution that does not meet that error: %s" % (e, ex, f[0]), {"args": ["solve", "-e", e, "examples/%s.inkfem" % ex]})
    # bars that already carry a uniform load over their whole length in their own axes (a rafter under snow, a column under wind,
    # a beam drawn right to left): the weight -w adds is still a global, downward load
    ul = G.Structure()
    G.std_mat_sec(ul)
    ul.nodes = {"a": (Fr(0), Fr(0), (True, True, True)), "b": (Fr(300), Fr(400), (False, False, False)), "c": (Fr(300), Fr(0), (True, True, True)),
                "d": (Fr(700), Fr(400), (True, True, False))}
    ul.bars = [{"id": "rafter", "n1": "a", "l1": G.LINKS["rigid"], "n2": "b", "l2": G.LINKS["rigid"], "mat": "steel", "sec": "ipe"},
               {"id": "column", "n1": "c", "l1": G.LINKS["rigid"], "n2": "b", "l2": G.LINKS["rigid"], "mat": "steel", "sec": "ipe"},
               {"id": "beam", "n1": "d", "l1": G.LINKS["rigid"], "n2": "b", "l2": G.LINKS["rigid"], "mat": "steel", "sec": "ipe"}]
    ul.loads = [{"kind": "d", "term": "fy", "local": True, "bar": "rafter", "t0": Fr(0), "v0": Fr("-0.0003"), "t1": Fr(1), "v1": Fr("-0.0003")},
                {"kind": "d", "term": "fy", "local": True, "bar": "column", "t0": Fr(0), "v0": Fr("0.0002"), "t1": Fr(1), "v1": Fr("0.0002")},
                {"kind": "d", "term": "fy", "local": True, "bar": "beam", "t0": Fr(0), "v0": Fr("0.0004"), "t1": Fr(1), "v1": Fr("0.0004")}]   # (of the size of the weight per length)
    ul.meta = {"kind": "uniform-local-loads"}
    for s in structs + [ul, G.convert_units(structs[0], 10, Fr(1, 10 ** 6))]:     # the last one in MN / mm: densities below 1e-10
        text = s.text()
        w = s.copy()
        for b in s.bars:
            rho, area = s.mats[b["mat"]][0], s.secs[b["sec"]][0]
            w.loads.append({"kind": "d", "term": "fy", "local": False, "bar": b["id"], "t0": Fr(0), "v0": -rho * area, "t1": Fr(1), "v1": -rho * area})
        r1 = cli.run(ctx, ["solve", "-w", "x.inkfem"], files={"x.inkfem": text}, name="c13")
        r2 = cli.run(ctx, ["solve", "x.inkfem"], files={"x.inkfem": w.text()}, name="c13")
        runs += 2
        if r1.status == 0 and r2.status == 0:
            d = close_texts(r1.files.get("x.inkfemsol", ""), r2.files.get("x.inkfemsol", ""))
            if d:
                viol("solve -w differs from solving the structure with each bar's weight as a downward global load: %s" % d, {"args": ["solve", "-w", "x.inkfem"], "text": text})
        elif r1.status != r2.status and not (marginal(r1) or marginal(r2)):
            viol("solve -w exits %s, the structure with explicit weights exits %s" % (r1.status, r2.status), {"text": text})
        # with -w and -p together the .inkfempre is the one pre -w writes (the structure that was solved)
        rw = cli.run(ctx, ["pre", "-w", "x.inkfem"], files={"x.inkfem": text}, name="c13")
        for sched in ("late", ""):
            rwp = cli.run(ctx, ["solve", "-w", "-p", "x.inkfem"], files={"x.inkfem": text}, env={"VERIF_WRITER": sched} if sched else {}, name="c13", timeout=300)
            runs += 1
            if rw.status == 0 and rwp.status == 0:
                a, b = rwp.files.get("x.inkfempre"), rw.files.get("x.inkfempre")
                if a is None or b is None or canon_pre(a) != canon_pre(b):
                    viol("solve -w -p (writer %s): x.inkfempre differs from what pre -w writes" % (sched or "free"), {"args": ["solve", "-w", "-p", "x.inkfem"], "text": text})
                if r1.status == 0:
                    d = close_texts(rwp.files.get("x.inkfemsol", ""), r1.files.get("x.inkfemsol", ""))
                    if d:
                        viol("solve -w -p differs from solve -w: %s" % d, {"args": ["solve", "-w", "-p", "x.inkfem"], "text": text})
        runs += 1
        # -e is the bound actually enforced: an unreachable one fails, a loose one succeeds
        r3 = cli.run(ctx, ["solve", "-e", "1e-300", "x.inkfem"], files={"x.inkfem": text}, name="c13")
        r4 = cli.run(ctx, ["solve", "-e", "1e6", "x.inkfem"], files={"x.inkfem": text}, name="c13")
        runs += 2
        if r3.status == 0 and len(s.loads) > 0:
            viol("solve -e 1e-300 exits 0: the requested error is not enforced", {"args": ["solve", "-e", "1e-300", "x.inkfem"], "text": text})
        if r4.status != 0:
            viol("solve -e 1e6 fails", {"args": ["solve", "-e", "1e6", "x.inkfem"], "text": text})
        if r3.status != 0 and "x.inkfemsol" in r3.files:
            viol("solve -e 1e-300 fails (exit %s) and leaves a %d-byte x.inkfemsol behind" % (r3.status, len(r3.files["x.inkfemsol"] or "")), {"args": ["solve", "-e", "1e-300", "x.inkfem"], "text": text})
        # a bound nothing can meet is enforced as given, not replaced by a default
        for e in ("-1", "0"):
            r6 = cli.run(ctx, ["solve", "-e", e, "x.inkfem"], files={"x.inkfem": text}, name="c13")
            runs += 1
            if r6.status == 0 and len(s.loads) > 0 and (e != "0" or r3.status != 0):
                viol("solve -e %s exits 0%s: the requested error is not the one enforced" % (e, " and leaves a .inkfemsol" if "x.inkfemsol" in r6.files else ""),
                     {"args": ["solve", "-e", e, "x.inkfem"], "text": text})
        # histories: every command, run after other commands in the same directory, does what it does in a clean one
        hist = [["solve", "x.inkfem"], ["solve", "-w", "x.inkfem"], ["solve", "x.inkfem"], ["solve", "-p", "x.inkfem"], ["pre", "-w", "x.inkfem"],
                ["solve", "-e", "1e-300", "x.inkfem"], ["pre", "x.inkfem"], ["solve", "x.inkfempre"], ["plot", "x.inkfem"], ["solve", "-e", "1e6", "x.inkfem"]]
        hr = cli.run_history(ctx, hist, files={"x.inkfem": text}, name="c13h", timeout=300)
        for k, (args, rk) in enumerate(zip(hist, hr)):
            fresh = cli.run(ctx, args, files=dict({"x.inkfem": text}, **({"x.inkfempre": hr[k - 1].files.get("x.inkfempre", "")} if args[-1].endswith("pre") else {})), name="c13")
            runs += 2
            if marginal(rk) or marginal(fresh):
                continue
            rep = {"history": hist[:k + 1], "text": text}
            if (rk.status == 0) != (fresh.status == 0):
                viol("%s exits %s after %s in the same directory, %s in a clean one" % (" ".join(args), rk.status, [" ".join(a) for a in hist[:k]], fresh.status), rep)
                continue
            if rk.status != 0:
                continue
            for out in ("x.inkfemsol", "x.inkfempre", "x.inkfempre.inkfemsol", "x.inkfem.svg"):
                if out not in fresh.files or (k > 0 and fresh.files.get(out) == hr[k - 1].files.get(out) and out not in ("x.inkfemsol",)):
                    pass
                if out in fresh.files and out != args[-1]:
                    a, b = rk.files.get(out), fresh.files[out]
                    if a is None:
                        d = "missing"
                    elif out.endswith("sol"):
                        d = close_texts(a, b)
                    elif out.endswith("pre"):
                        d = None if canon_pre(a) == canon_pre(b) else "content differs"
                    else:
                        # nodes are drawn in the iteration order of a Go map: same elements, any order
                        d = None if sorted(a.split("\n")) == sorted(b.split("\n")) else "content differs"
                    if d:
                        viol("%s after %s in the same directory leaves a different %s than in a clean directory: %s" % (" ".join(args), [" ".join(a_) for a_ in hist[:k]], out, d), rep)
        # plot writes <input>.svg
        r5 = cli.run(ctx, ["plot", "x.inkfem"], files={"x.inkfem": text}, name="c13")
        runs += 1
        if r5.status != 0 or "x.inkfem.svg" not in r5.files or not (r5.files["x.inkfem.svg"] or "").rstrip().endswith("</svg>"):
            viol("plot x.inkfem: exit %s, files %s" % (r5.status, sorted(r5.files)), {"args": ["plot", "x.inkfem"], "text": text})
    rv = cli.run(ctx, ["--version"], name="c13")
    runs += 1
    if rv.status != 0 or vtxt.lstrip("v") not in rv.stdout:
        viol("--version prints %r, the build version is %s" % (rv.stdout[:80], vtxt), {"args": ["--version"]})
    rg = cli.run(ctx, ["generate", "--type", "retic", "--spans", "2", "--levels", "1"], name="c13")
    runs += 1
    if rg.status != 0 or not rg.stdout.startswith("inkfem v") or rg.files:
        viol("generate does not print a definition to standard output (exit %s, files %s)" % (rg.status, sorted(rg.files)), {"args": ["generate"]})
    # outputs stand next to the input whatever its folder is called (the extension occurring earlier in the path as well)
    if inputs:
        text0 = inputs[0][1]
        for folder in ("models.inkfem.d", "dir.inkfem", "a.inkfempre.b"):
            path = folder + "/x.inkfem"
            for args, want in ((["pre", path], {folder + "/x.inkfempre"}), (["solve", "-p", path], {folder + "/x.inkfempre", folder + "/x.inkfemsol"})):
                r = cli.run(ctx, args, files={path: text0}, name="c13")
                runs += 1
                got = {k for k, v in r.files.items() if v is not None and k != path}
                if r.status == 0 and got != want:
                    viol("%s: files written %s, expected %s next to the input" % (" ".join(args), sorted(got), sorted(want)), {"args": args, "text": text0})
    # generate honours each of its flags, long and short, zero and negative loads included
    from . import C19
    for (gs, gl, gspan, gh, gload) in ((2, 1, "250", "120", "-30"), (1, 2, "400", "300", "0"), (3, 1, "0.5", "2.25", "12.5")):
        for args in (["generate", "--type", "retic", "--spans", str(gs), "--levels", str(gl), "--span", gspan, "--level", gh, "--load", gload],
                     ["generate", "-t", "retic", "-s", str(gs), "-l", str(gl), "-p", gspan, "-e", gh, "-o", gload]):
            rg = cli.run(ctx, args, name="c13")
            runs += 1
            if rg.status != 0 or rg.files:
                viol("%s: exit %s, files %s" % (" ".join(args), rg.status, sorted(rg.files)), {"args": args})
                continue
            fails = C19.documented(gs, gl, Fr(gspan), Fr(gh), Fr(gload), C19.parse_generated(ctx, rg.stdout))
            if fails:
                viol("%s does not print the frame its flags ask for: %s" % (" ".join(args), "; ".join(fails[:3])), {"args": args, "stdout": rg.stdout[:3000]})
    runs += version_builds(ctx, viol)
    # -e is the bound the acceptance test enforces: the test itself on written systems and answers (see C05)
    from . import C05
    before = len(ctx.violations)
    ctx.coverage["acceptance_called_directly"] = C05.acceptance_direct(ctx)
    concrete += len(ctx.violations) - before
    ctx.log("%d command-line runs: pre / solve / solve -p under the late, early and free writer schedules with -v and -s, -w vs explicit weights, -e, plot, generate, --version" % runs)
    if not res["ok"] and concrete == 0:
        ctx.violation("proof obligation no longer checks (%s %s)" % (res["stage"], res.get("failed_at", "")),
                      {"theorem_file": "Properties/C13.v", "stage": res["stage"], "failed_at": res.get("failed_at"), "log_tail": res["log"][-3000:],
                       "searched": "%d command-line runs under both extreme schedules, none violates the contract" % runs}, no_input=True)
    ctx.coverage = {
        "obligations": res["obligations"], "discharged": res["discharged"],
        "checker_cmd": "make -C coq Properties/C13.vo && coqc Properties/C13.v (Coq 8.16.1, full .vo build)",
        "trusted_base": C.standard_trusted_base(res) + ["the transition system of Model/Cli.v abstracts files to Missing / Partial / Complete and the OS to 'creation may fail'; GenCli.v (AST facts about cmd/solve.go) is the translator's"],
        "theorems": res.get("names", []), "traces_validated_against_impl": runs, "evaluations": runs, "distinct_nontrivial": len(inputs) * 9,
        "states": 0, "exhaustive": True,
        "rule": "model: all interleavings of the main flow and the background writer for every combination of solvable / creatable flags (explored inside Coq to a closed set). binary: %d inputs (portal, beam, polyline, "
                "a 6x4 reticular frame with a large .inkfempre) x {pre, solve, solve -p under VERIF_WRITER=late / early / free, each with -v and -s}: exit status, files next to the input, .inkfempre identical in content "
                "to pre's (up to the order of map-backed sections), .inkfemsol well-formed and numerically equal; -w vs explicit downward global loads; -e 1e-300 must fail and -e 1e6 succeed; a ten-command history in one directory (solve, solve -w, solve, solve -p, pre -w, solve -e 1e-300, pre, solve x.inkfempre, plot, solve -e 1e6) where every step must do what it does in a clean directory; plot writes <input>.svg; generate prints to stdout; "
                "--version. non-trivial = solve -p runs under an imposed schedule" % len(inputs),
        "samples": [{"args": ["solve", "-p", "retic.inkfem"], "env": {"VERIF_WRITER": "late"}}],
    }
    ctx.assumptions = ["OS-level atomicity of file writes and of process exit is not modelled", "numeric equality between runs allows solver noise (1e-4 relative, 1e-5 absolute on six-decimal output)"]
