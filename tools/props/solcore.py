"""Shared pieces of the checks about solutions (C01, C02, C03): generator of solvable
structures, stage F term, exact frame oracle cache."""
from fractions import Fraction as Fr

import random
from .. import common as C
from .. import exact_frame as X
from .. import gen_struct as G
from .. import physics as P
from . import core

ERRORS = ["", "", "1e-3", "1e-6", "1e-4"]


def gen(rng, tier, n_quick=60, n_thorough=1500):
    n = n_quick if tier == "quick" else n_thorough
    cases = []
    # the drawn structures of the main loop have a stream of their own: adding a fixed family in front of them does not change them
    main = random.Random(rng.getrandbits(64))
    for i in range(6 if tier == "quick" else 60):
        # loads on supported nodes, solved directly and from the .inkfempre text read back
        s = G.gen_support_loads(rng)
        cases.append(core.case_from_struct(s, Weight=False, Solve=True, Assemble=True, Error="", ViaPre=(i % 2 == 0)))
    for i in range(4 if tier == "quick" else 40):
        s = [G.gen_disparate_loads, G.gen_doubled_tie][i % 2](rng)
        if i % 4 == 3:
            s = G.with_unused_node(s, rng)
        cases.append(core.case_from_struct(s, Weight=False, Solve=True, Assemble=True, Error="", ViaPre=False))
    for i in range(4 if tier == "quick" else 40):
        # a strut pinned at both ends that carries no load of its own: with -w it has its weight to carry like every other bar
        cases.append(core.case_from_struct(G.gen_bracket(rng), Weight=(i % 4 != 3), Solve=True, Assemble=True, Error="1e-6", ViaPre=(i % 2 == 1)))
    # trusses whose joint loads are written a hair inside a member (within the 1e-10 at which a position is taken for the member's end)
    for k in range(2 if tier == "quick" else 10):
        cases.append(core.case_from_struct(G.gen_truss(rng, hair=True), Weight=False, Solve=True, Assemble=True, Error="1e-5", ViaPre=(k % 2 == 1)))
    # a pin-jointed bar exactly along an axis between two supports that both hold that direction, pushed along its axis at both ends
    for k in range(2 if tier == "quick" else 8):
        cases.append(core.case_from_struct(G.gen_tie_between_supports(rng, k), Weight=False, Solve=True, Assemble=True, Error="1e-5", ViaPre=False))
    # a bar with 3, 5, 7, 9 (11, 13 ...) distributed loads, solved with its own weight (one more load on every bar)
    for k in ((3, 5, 7, 9) if tier == "quick" else (3, 5, 7, 9, 11, 13, 5, 6, 12, 17)):
        s = G.gen_beam(rng)
        b = s.bars[0]
        s.loads = [{"kind": "d", "term": ["fy", "fx"][j % 2], "local": j % 3 != 0, "bar": b["id"], "t0": Fr(500 * j // k, 1000), "v0": Fr(-20 - 3 * j),
                    "t1": Fr(500 * j // k, 1000) + Fr(2, 5), "v1": Fr(-5 - j)} for j in range(k)]
        s.meta = {"kind": "many-distributed/%d" % k}
        cases.append(core.case_from_struct(s, Weight=True, Solve=True, Assemble=True, Error="1e-5", ViaPre=False))
    # a beam held at its END node with a concentrated moment and a force inside its span next to a distributed load (the three
    # diagrams then have different numbers of entries), and the same kind of beam drawn in a unit in which it is 5e-3 long
    for i in range(2 if tier == "quick" else 12):
        s = G.gen_beam(rng)
        b = s.bars[0]
        s.nodes[b["n1"]] = s.nodes[b["n1"]][:2] + ((True, True, False),)
        s.nodes[b["n2"]] = s.nodes[b["n2"]][:2] + ((True, True, True),)
        s.loads = [{"kind": "d", "term": "fy", "local": True, "bar": b["id"], "t0": Fr(0), "v0": Fr(-12), "t1": Fr(1), "v1": Fr(-3)},
                   {"kind": "d", "term": "fx", "local": True, "bar": b["id"], "t0": Fr("0.2"), "v0": Fr(0), "t1": Fr("0.9"), "v1": Fr(8)},
                   {"kind": "c", "term": "mz", "local": True, "bar": b["id"], "t": Fr("0.35"), "v": Fr(25000)},
                   {"kind": "c", "term": "fx" if i % 2 else "fy", "local": True, "bar": b["id"], "t": Fr("0.62"), "v": Fr(-400)}]
        s.meta = {"kind": "interior-moment"}
        if i % 2 == 1:
            s = G.convert_units(s, Fr(1, 10 ** 5), Fr(1))
            s.meta = {"kind": "interior-moment/tiny-lengths"}
        cases.append(core.case_from_struct(s, Weight=False, Solve=True, Assemble=True, Error="1e-5" if i % 2 == 0 else "1e-4", ViaPre=(i % 4 == 2)))
    # one bar cut into many unequal finite elements (past any small fixed size), loads of every kind along it
    for (a, b, e) in ((14, 0, "1e-5"), (26, 0, "1e-4"), (8, 8, "1e-3")) if tier == "quick" else ((14, 0, "1e-5"), (26, 0, "1e-4"), (8, 8, "1e-3"), (30, 0, "1e-4"), (22, 8, "1e-3"), (18, 4, "1e-3")):
        cases.append(core.case_from_struct(G.gen_many_positions(rng, a, b), Weight=False, Solve=True, Assemble=True, Error=e, ViaPre=(a == 26)))
    # ... and the same heavily loaded bar preprocessed and solved many times over (the finite elements of a bar are loaded one after the other)
    many = G.gen_many_positions(rng, 22, 8)
    for k in range(16 if tier == "quick" else 60):
        c = core.case_from_struct(many, Weight=False, Solve=True, Assemble=True, Error="1e-3")
        c["NoStage"] = True
        c["Rep"] = k
        cases.append(c)
    for i in range(2 if tier == "quick" else 20):
        cases.append(core.case_from_struct(G.gen_pin_first_joint(rng), Weight=False, Solve=True, Assemble=True, Error="1e-7", ViaPre=False))
    for i in range(3 if tier == "quick" else 30):
        cases.append(core.case_from_struct(G.gen_slider_joint(rng, ["only_dy", "only_rz", "slide_x"][i % 3]), Weight=False, Solve=True, Assemble=True, Error="1e-6", ViaPre=(i % 3 == 2)))
    for i in range(n):
        s = G.gen_solvable(main)
        if i % 7 == 3:
            # node lines annotated with (stale) equation numbers, as when a nodes section is pasted from a
            # preprocessed file: the definition reader accepts them, the numbering must not be influenced
            ids = list(s.nodes)
            s.node_dof_notes = {k: tuple(main.sample(range(0, 40), 3)) for k in main.sample(ids, max(1, len(ids) // 2))}
            s.meta["kind"] = s.meta.get("kind", "?") + "+dofnotes"
        if i % 9 == 5:
            # identifiers are free text: numbers spelled with leading zeros ('01' and '1' are two different nodes)
            pool = ["1", "01", "001", "10", "010", "2", "02", "20", "0020", "3", "03", "30", "007", "7", "70", "12", "012", "0"]
            nid = dict(zip(list(s.nodes), pool))
            if len(nid) == len(s.nodes):
                s.nodes = {nid[k]: v for k, v in s.nodes.items()}
                for b in s.bars:
                    b["n1"], b["n2"] = nid[b["n1"]], nid[b["n2"]]
                if getattr(s, "node_dof_notes", None):
                    s.node_dof_notes = {nid[k]: v for k, v in s.node_dof_notes.items()}
                s.meta["kind"] = s.meta.get("kind", "?") + "+numeric-ids"
        c = core.case_from_struct(s, Weight=core.weights(i), Solve=True, Assemble=True, Error=ERRORS[i % len(ERRORS)], ViaPre=(i % 4 == 1))
        if i % 6 == 4 and not getattr(s, "node_dof_notes", None):
            # the same definition in another valid layout: tabs and any term order inside the braces, split sections, comments
            from .. import layouts as L
            c["Text"] = L.layout(main, s)
            c["kind"] += "+layout"
        if i % 5 == 2 and cases:
            # the solution is looked at again after another structure (the previous one of this run) was solved in the same process
            c["HoldText"] = cases[-1]["Text"]
        cases.append(c)
    return cases


def solved(o):
    return bool(o.get("Sol")) and not o.get("SolvePanic") and not o.get("SysPanic")


def stageF(c, o, rng):
    if not solved(o) or len(o["U"]) > 400 or c.get("NoStage"):
        return None
    return P.stageF_case(o)


_exact = {}


def exact_of(c, o):
    """exact Euler-Bernoulli solution of the structure the reader produced (None when a bar has
    an irrational length or a distributed moment, 'singular' for mechanisms)"""
    key = (c["Text"], bool(c.get("Weight")))
    if key not in _exact:
        ex = X.solve(o, bool(c.get("Weight")))
        if ex not in (None, "singular"):
            if any(b.has_dist_moment for b in ex.bars.values()):
                ex = None
            elif X.self_check(ex):
                raise RuntimeError("exact oracle inconsistent with itself: %s" % X.self_check(ex)[:2])
        _exact[key] = ex
    return _exact[key]


RULE = ("loads applied exactly on supported bar ends (half of them solved from the .inkfempre read back) first; beams (cantilever, fixed-fixed, fixed-pin, pin-roller, fixed-slide) at axis-aligned and Pythagorean angles, polylines of 2-4 bars with free / pinned joints and rollers, "
        "portal, A- and braced frames, pin-jointed trusses, one-cell grid frames; loads: concentrated and linear distributed forces, concentrated moments, local or global axes, full or "
        "partial spans, positions at / next to slice cuts and within 1e-10 of each other; own weight on every third; every seventh with node lines carrying stale equation numbers; --error in {1e-5, 1e-3, 1e-4, 1e-6}. Every fourth structure is solved from its own .inkfempre text read back (the history pre -> solve-from-pre). Every structure is solved in "
        "process by the implementation; structures it refuses to solve (iteration budget) are counted as skipped. ")
