"""C06 — results are linear in the loads (scaling and superposition)."""
from fractions import Fraction as Fr

from .. import common as C
from .. import gen_struct as G
from .. import meta as M
from .. import physics as P
from .. import stages as S
from . import core, solcore

FACTORS = [Fr(10) ** -13, Fr(-1), Fr(10) ** -16, Fr("0.5"), Fr(3), Fr("-2.5"), Fr(10) ** 6, Fr(10) ** -6, Fr(10) ** 3]
BASE_ERR = Fr("1e-6")


def scaled(s, k):
    t = s.copy()
    for l in t.loads:
        if l["kind"] == "c":
            l["v"] = l["v"] * k
        else:
            l["v0"], l["v1"] = l["v0"] * k, l["v1"] * k
    t.meta = dict(getattr(s, "meta", {}))
    return t


def subset(s, keep):
    t = s.copy()
    t.loads = [l for i, l in enumerate(s.loads) if keep(i)]
    t.meta = dict(getattr(s, "meta", {}))
    return t


def estr(x):
    return "%.6e" % float(x)


def gen(rng, tier):
    """groups of runs of one structure: base, two scaled copies, two halves of the load set, no loads"""
    n = 14 if tier == "quick" else 300
    cases = []
    for g in range(n):
        s = G.gen_solvable(rng)
        sym = (g % 7 == 3)
        if sym:
            # a beam built in at both ends with a force in the middle (shear +P/2 | -P/2, equal magnitudes either side) in one half of
            # the load set, and a load that breaks the symmetry in the other half
            s = G.gen_beam(rng)
            b = s.bars[0]
            s.nodes[b["n1"]] = s.nodes[b["n1"]][:2] + ((True, True, True),)
            s.nodes[b["n2"]] = s.nodes[b["n2"]][:2] + ((True, True, True),)
            s.loads = [{"kind": "c", "term": "fy", "local": True, "bar": b["id"], "t": Fr("0.5"), "v": Fr(-1000)},
                       {"kind": "c", "term": "mz", "local": True, "bar": b["id"], "t": Fr("0.5"), "v": Fr(40000)},
                       {"kind": "c", "term": "fy", "local": True, "bar": b["id"], "t": Fr("0.3"), "v": Fr(-350)}]
        near_even = (g % 7 == 5)
        if near_even:
            # a beam whose only required positions are an even tenth and a point within the slicing tolerance (1e-3) of another
            # even tenth, which takes that tenth's place: ten finite elements still, but not ten equal ones - one load in each half
            s = G.gen_beam(rng)
            b = s.bars[0]
            s.nodes[b["n1"]] = s.nodes[b["n1"]][:2] + ((True, True, True),)
            off = Fr(rng.choice(["0.1009", "0.1006", "0.3004", "0.0993"]))
            s.loads = [{"kind": "c", "term": "fy", "local": True, "bar": b["id"], "t": off, "v": Fr(-800)},
                       {"kind": "c", "term": "fy", "local": True, "bar": b["id"], "t": Fr("0.5"), "v": Fr(-1500)}]
        end_moment = (g % 7 == 6)
        if end_moment:
            # one half of the load set has nothing but loads at the ends of a bending bar, a moment among them; the other half loads
            # the same bar along its span
            s = G.gen_beam(rng)
            b = s.bars[0]
            free_end = Fr(1) if not any(s.nodes[b["n2"]][2]) else (Fr(0) if not any(s.nodes[b["n1"]][2]) else Fr(1))
            s.loads = [{"kind": "c", "term": "mz", "local": True, "bar": b["id"], "t": free_end, "v": Fr(18000)},
                       {"kind": "c", "term": "fy", "local": True, "bar": b["id"], "t": free_end, "v": Fr(-300)},
                       {"kind": "d", "term": "fy", "local": True, "bar": b["id"], "t0": Fr(0), "v0": Fr(-12), "t1": Fr(1), "v1": Fr(-30)}]
        if len(s.loads) < 2:
            s.loads += G.gen_loads_for_bar(rng, s.bars[0]["id"], nmax=3, allow_mz_dist=False) or []
        # every factor is used by some group of every run (the tiny ones push whole load sets under the
        # absolute 1e-10 thresholds of the code), the second factor is drawn
        # the code identifies positions closer than 1e-10: a load set and its halves would then put a node at
        # slightly different places, which is not a failure of superposition - keep one load per such cluster
        kept, seen = [], {}
        for l in s.loads:
            ps = [l["t"]] if l["kind"] == "c" else [l["t0"], l["t1"]]
            if any(0 < abs(p - q) < Fr("2e-10") for p in ps for q in seen.get(l["bar"], []) + [Fr(0), Fr(1)]):
                continue
            seen.setdefault(l["bar"], []).extend(ps)
            kept.append(l)
        s.loads = kept
        ks = [FACTORS[g % len(FACTORS)]]
        ks.append(rng.choice([k for k in FACTORS if k != ks[0]]))
        half = [rng.random() < 0.5 for _ in s.loads]
        if sym:
            half = [True, True, False]
        if near_even:
            half = [True, False]
        if end_moment:
            half = [True, True, False]
        if g % 2 == 0 and not near_even and not end_moment:
            # two concentrated loads closer than the slicing tolerance (1e-3) but distinct, one in each half
            b = rng.choice([b for b in s.bars if b["l1"][2] or b["l2"][2]] or s.bars)
            t0 = Fr(rng.choice(["0.25", "0.5", "0.37", "0.6431"]))
            d = Fr(rng.choice(["0.0002", "0.0005", "0.0008", "0.00099"]))
            if all(abs(t0 - x) > Fr("0.002") and abs(t0 + d - x) > Fr("0.002") for l in s.loads if l["bar"] == b["id"]
                   for x in ([l["t"]] if l["kind"] == "c" else [l["t0"], l["t1"]])):
                for tt, h in ((t0, True), (t0 + d, False)):
                    s.loads.append({"kind": "c", "term": rng.choice(["fy", "fy", "fx", "mz"]), "local": True, "bar": b["id"], "t": tt,
                                    "v": Fr(rng.choice([-1, 1]) * rng.choice([100, 250, 1000]))})
                    half.append(h)
        if g % 3 == 1 and not near_even and not end_moment:
            # a local-axes and a global-axes load at exactly the same point of a (preferably inclined) bar, one in each half
            def inclined(b):
                (x1, y1, _), (x2, y2, _) = s.nodes[b["n1"]], s.nodes[b["n2"]]
                return x1 != x2 and y1 != y2
            cand = [b for b in s.bars if b["l1"][2] or b["l2"][2]] or s.bars
            b = ([b for b in cand if inclined(b)] or cand)[0]
            tt = Fr(rng.choice(["0.5", "0.3", "0.8125"]))
            if all(abs(tt - x) > Fr("0.002") for l in s.loads if l["bar"] == b["id"] for x in ([l["t"]] if l["kind"] == "c" else [l["t0"], l["t1"]])):
                for local, term, h in ((True, "fy", True), (False, rng.choice(["fx", "fy"]), False)):
                    s.loads.append({"kind": "c", "term": term, "local": local, "bar": b["id"], "t": tt, "v": Fr(rng.choice([-3000, 2000, 700]))})
                    half.append(h)
        if g % 3 == 2 and not near_even and not end_moment:
            b = ([b for b in s.bars if b["l1"][2] or b["l2"][2]] or s.bars)[0]
            t0, t1 = Fr(rng.choice(["0.2", "0.1"])), Fr(rng.choice(["0.6", "0.45"]))
            if all(abs(tt - x) > Fr("0.002") for tt in (t0, t1) for l in s.loads if l["bar"] == b["id"] for x in ([l["t"]] if l["kind"] == "c" else [l["t0"], l["t1"]])):
                for term, h in (("fx", True), ("fy", False)):
                    s.loads.append({"kind": "d", "term": term, "local": True, "bar": b["id"], "t0": t0, "v0": Fr(rng.choice([-4, 3])), "t1": t1, "v1": Fr(rng.choice([-5, 2]))})
                    half.append(h)
        group = [("base", s, BASE_ERR, None)]
        for k in ks:
            group.append(("scaled", scaled(s, k), BASE_ERR * abs(k), k))
        group.append(("part1", subset(s, lambda i: half[i]), BASE_ERR, None))
        group.append(("part2", subset(s, lambda i: not half[i]), BASE_ERR, None))
        # the same layout of loads (kinds, axes, positions) with other values, and the sum of the two value sets on that layout
        alt = s.copy()
        alt.meta = dict(getattr(s, "meta", {}))
        for l in alt.loads:
            for key in (("v",) if l["kind"] == "c" else ("v0", "v1")):
                l[key] = Fr(rng.choice([0, -1, 2, 7, -40, 350]), rng.choice([1, 2, 5]))
        both = s.copy()
        both.meta = dict(getattr(s, "meta", {}))
        for l, la in zip(both.loads, alt.loads):
            for key in (("v",) if l["kind"] == "c" else ("v0", "v1")):
                l[key] = l[key] + la[key]
        group.append(("alt", alt, BASE_ERR, None))
        group.append(("both", both, BASE_ERR, None))
        group.append(("none", subset(s, lambda i: False), BASE_ERR, None))
        for role, st, err, k in group:
            # (every fourth group is solved from its own .inkfempre text read back: what is written must carry small loads too)
            c = core.case_from_struct(st, Weight=False, Solve=True, Assemble=True, Error=estr(err), ViaPre=(g % 4 == 1))
            c.update(group=g, role=role, factor=str(k) if k is not None else None)
            if role == "base" and g % 4 != 1:
                # a caller that solves the load cases one after the other and compares afterwards: the first solution is looked at
                # again after the scaled case (or the unloaded one) was solved in the same process
                other = group[1][1] if g % 2 == 0 else group[-1][1]
                c["HoldText"] = core.case_from_struct(other, Weight=False)["Text"]
            cases.append(c)
    return cases


def add_runs(o1, o2):
    """the sum of two solved runs of the same structure (different load sets), at the positions
    both list"""
    out = {"Sol": [], "Reactions": {}, "Nodes": o1["Nodes"], "Bars": o1["Bars"], "Pre": o1["Pre"], "MaxError": o1["MaxError"], "U": o1["U"]}
    s2 = {sb["ID"]: sb for sb in o2["Sol"]}
    for sb in o1["Sol"]:
        nb = {"ID": sb["ID"], "Series": {}}
        for name in sb["Series"]:
            a, b = M.series_map(sb, name), M.series_map(s2[sb["ID"]], name)
            T, V = [], []
            for (t, l, r) in a:
                v = M.at(b, t)
                if v is None:
                    continue
                T += [C.fs_exact(t), C.fs_exact(t)] if l + v[0] != r + v[1] else [C.fs_exact(t)]
                V += [l + v[0], r + v[1]] if l + v[0] != r + v[1] else [l + v[0]]
            nb["Series"][name] = {"T": T, "V": V}
        out["Sol"].append(nb)
    for k, r in o1["Reactions"].items():
        out["Reactions"][k] = [C.ffloat(a) + C.ffloat(b) for a, b in zip(r, o2["Reactions"][k])]
    return out


_groups = {}


def oracle(c, o):
    """runs arrive group by group; the comparison happens when the last member of a group is seen"""
    g = c.get("group")
    if g is None:
        return []
    _groups.setdefault(g, []).append((c, o))
    if c["role"] != "none":
        return []
    members = _groups.pop(g)
    base = next(((cc, oo) for cc, oo in members if cc["role"] == "base"), None)
    if base is None or not M.solved(base[1]):
        return []
    fails = []
    oA = base[1]
    if oA.get("HeldPanic"):
        fails.append("looking at the first solution after another load case was solved in the same process panicked: " + oA["HeldPanic"][:150])
    elif oA.get("SolHeld") is not None and (oA["SolHeld"] != oA["Sol"] or (oA.get("ReacHeld") or {}) != (oA.get("Reactions") or {})):
        what = next(("bar %s %s" % (a["ID"], k) for a, b in zip(oA["Sol"], oA["SolHeld"]) for k in a["Series"] if a["Series"][k] != b["Series"].get(k)), "the reactions")
        fails.append("the solution of a load case changed after another load case of the same structure was solved in the same process (%s): "
                     "the two can no longer be compared or added" % what)
    tA = M.utol(oA)
    if tA is None:
        return fails
    ident = lambda k: M.Transform(lambda x, y, z: (k * x, k * y, k * z), lambda fx, fy, mz, p: (k * fx, k * fy, k * mz),
                                  lfac=(k, k, k), dfac=(k, k, k, k))
    for cc, oo in members:
        if cc["role"] == "scaled" and M.solved(oo):
            k = Fr(cc["factor"])
            tB = M.utol(oo)
            if tB is None:
                continue
            fails += M.compare(oA, oo, ident(k), abs(k) * tA + tB, "all loads x %s" % cc["factor"])
        if cc["role"] == "none" and M.solved(oo):
            nz = [v for v in oo["U"] if C.ffloat(v) != 0]
            if nz:
                fails.append("structure without loads has a non-zero displacement %s" % nz[0])
            for sb in oo["Sol"]:
                for name, sr in sb["Series"].items():
                    if any(C.ffloat(v) != 0 for v in sr["V"] or []):
                        fails.append("structure without loads: bar %s series %s is not identically zero" % (sb["ID"], name))
                        break
    alt = next((oo for cc, oo in members if cc["role"] == "alt"), None)
    both = next((oo for cc, oo in members if cc["role"] == "both"), None)
    if alt is not None and both is not None:
        # C06_nodal_loads_of_a_bar_are_linear_in_the_load_values, observed on the code's sliced bars
        fails += layout_linear(oA, alt, both)
        if M.solved(alt) and M.solved(both):
            t1, t2 = M.utol(alt), M.utol(both)
            if t1 is not None and t2 is not None:
                fails += M.compare(numeric(add_runs(oA, alt)), both, ident(Fr(1)), t1 + t2 + tA, "two value sets on one layout of loads: together vs the sum of each alone")
    p1 = next((oo for cc, oo in members if cc["role"] == "part1"), None)
    p2 = next((oo for cc, oo in members if cc["role"] == "part2"), None)
    if p1 is not None and p2 is not None and M.solved(p1) and M.solved(p2):
        t1, t2 = M.utol(p1), M.utol(p2)
        if t1 is not None and t2 is not None:
            fails += M.compare(numeric(add_runs(p1, p2)), oA, ident(Fr(1)), t1 + t2 + tA, "two load sets together vs the sum of each alone")
    return fails[:6]


def layout_linear(o1, o2, o3):
    """sliced bars of three runs on one layout of loads, the third carrying the sum of the values of the other two:
    same cuts, nodal loads add up"""
    fails = []
    try:
        p1, p2, p3 = o1["Pre"][0], o2["Pre"][0], o3["Pre"][0]
    except (KeyError, IndexError, TypeError):
        return fails
    b2, b3 = {b["ID"]: b for b in p2["Bars"]}, {b["ID"]: b for b in p3["Bars"]}
    for pb in p1["Bars"]:
        q2, q3 = b2.get(pb["ID"]), b3.get(pb["ID"])
        if q2 is None or q3 is None or len(q2["Nodes"]) != len(pb["Nodes"]) or len(q3["Nodes"]) != len(pb["Nodes"]):
            fails.append("bar %s is cut into %d / %s / %s nodes for three value sets on one layout of loads" % (pb["ID"], len(pb["Nodes"]), q2 and len(q2["Nodes"]), q3 and len(q3["Nodes"])))
            continue
        mag = sum(abs(C.ffloat(v)) for q in (pb, q2) for n in q["Nodes"] for part in ("Ext", "Left", "Right") for v in n[part][:2])
        L = abs(C.ffloat(pb["Nodes"][-1]["X"]) - C.ffloat(pb["Nodes"][0]["X"])) + abs(C.ffloat(pb["Nodes"][-1]["Y"]) - C.ffloat(pb["Nodes"][0]["Y"]))
        for n1, n2, n3 in zip(pb["Nodes"], q2["Nodes"], q3["Nodes"]):
            if n1["T"] != n2["T"] or n1["T"] != n3["T"]:
                fails.append("bar %s: cut at t=%s / %s / %s for three value sets on one layout of loads" % (pb["ID"], n1["T"], n2["T"], n3["T"]))
                break
            for part in ("Ext", "Left", "Right"):
                for k in range(3):
                    a, b_ = C.ffloat(n1[part][k]) + C.ffloat(n2[part][k]), C.ffloat(n3[part][k])
                    if abs(a - b_) > Fr(1, 10 ** 9) * (abs(a) + abs(b_) + mag * (L if k == 2 else 1)):
                        fails.append("bar %s node t=%s: %s load component %d is %s for the summed values, %s + %s for each alone" % (pb["ID"], n1["T"], part.lower(), k, n3[part][k], n1[part][k], n2[part][k]))
                        return fails
    return fails


def numeric(o):
    """add_runs keeps exact rationals; the comparison reads values through ffloat: make them strings"""
    for sb in o["Sol"]:
        for sr in sb["Series"].values():
            sr["V"] = [C.fs_exact(v) for v in sr["V"]]
    o["Reactions"] = {k: [C.fs_exact(v) for v in r] for k, r in o["Reactions"].items()}
    return o


SPEC = {
    "prop_file": "Properties/C06.v",
    "gen": gen,
    "adaptive_error": True,
    "oracle": oracle,
    "corpus_filter": lambda c: False,
    "stages": [("F", lambda c, o, rng: solcore.stageF(c, o, rng) if c.get("role") in ("base", "scaled") else None, P.stageF_v, 2, 40)],
    "nontrivial": lambda c, o: M.solved(o) and c.get("role") in ("scaled", "part1"),
    "rule": "groups of eight runs of one solvable structure (as C01): the load set, the same with every load multiplied by two factors from {1e-13, -1, 1e-16, 0.5, 3, -2.5, 1e6, 1e-6, 1e3} (each factor used by some group of every run) "
            "(requested error scaled with the factor), the same layout of loads with other values and with the sum of both value sets (sliced bars: same cuts and nodal loads that add up, as C06_nodal_loads_of_a_bar_are_linear_in_the_load_values states; results: together = sum), two complementary halves of the load set (every other group holds two concentrated loads 2e-4 .. 9.9e-4 apart, one in each half; every third a local-axes and a global-axes load at the same point, one in each half), and no loads. Oracle: every displacement, local displacement, diagram value (both sides of every "
            "common position) and reaction of the scaled run equals factor x the base run; base run = sum of the two halves; the unloaded run is identically zero; tolerances from the requested "
            "errors and the conditioning of each system (C01_error_bound) and the stiffness of the shortest slice. non-trivial iff a scaled or partial run solved.",
    "assumptions": ["solver oracle as C01; the solver's absolute stopping rule makes the implementation linear only up to the C01 error bound, which is the tolerance used",
                    "diagram listings are compared as functions (left / right value per position); merging of equal values changes the listing, not the values"],
}


def run(ctx):
    _groups.clear()
    core.run(ctx, SPEC)
