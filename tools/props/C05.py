"""C05 — solve either meets the requested error or fails loudly."""
from fractions import Fraction as Fr

from .. import common as C
from .. import gen_struct as G
from .. import physics as P
from .. import stages as S
from . import core


def mechanism(rng):
    """frames with random releases: many are mechanisms or have joints without rotational stiffness"""
    s = G.gen_frame(rng, max_cells=1, allow_mz_dist=False)
    s.meta = {"kind": "mechanism?/" + s.meta["kind"]}
    return s


def scaled_units(rng):
    """the same kind of structure in another unit system (stiffness magnitudes over many decades)"""
    s = G.gen_solvable(rng)
    lam = Fr(rng.choice(["0.01", "0.001", "10", "0.0254", "1"]))
    phi = Fr(rng.choice(["0.001", "1", "1000", "0.00001"]))
    t = G.convert_units(s, lam, phi)
    t.meta = {"kind": "units/%s/%s" % (lam, phi)}
    return t


def tiny_inertia_truss(rng):
    """pin-jointed truss written in units in which the members' bending terms straddle the
    absolute 1e-10 cut-off of the assembly (4EI/L dropped, 6EI/L^2 kept or not): rotation
    equations without a diagonal, preconditioner 1/0, a solver answer full of NaN"""
    s = G.gen_truss(rng)
    # member lengths 1.0 and 1.2 (grid step 0.2): 4EI/L < 1e-10 <= 6EI/L^2 for EI in [1.7e-11, 2.5e-11) resp. [2.4e-11, 3e-11)
    step = max(abs(x) for x, y, c in s.nodes.values()) / max(6, 9 if "n4" in s.nodes else 6)
    lam = Fr("0.2") / step
    s.nodes = {k: (x * lam, y * lam, c) for k, (x, y, c) in s.nodes.items()}
    s.mats = {"steel": (Fr(0), Fr(1), Fr(1), Fr("0.3"), Fr(1), Fr(1))}
    inertia = Fr(rng.choice(["1e-12", "1.8e-11", "2e-11", "2.2e-11", "2.45e-11", "2.6e-11", "2.9e-11", "1e-10"]))
    s.secs = {"ipe": (Fr(1), inertia, inertia, Fr(1), Fr(1))}
    for l in s.loads:
        l["v"] = l["v"] / 1000
    s.meta = {"kind": "tiny-inertia-truss"}
    return s


def shipped_examples(tier):
    import os
    out = []
    d = os.path.join(C.REPO, "examples")
    names = ["cantibeam_conc_load", "cantilever_beam", "axial_beam", "structure", "loadsstr", "fixstr", "pinstr", "2x2_in", "2x2_meters"]
    errs = ["1e-7", "1e-9", "1e-12"]
    if tier != "quick":
        names += ["2x2_feet", "minihouse", "minihouse_partial", "retic_10x5", "unload_retic_10x5"]
    for n in names:
        p = os.path.join(d, n + ".inkfem")
        if os.path.exists(p):
            for e in errs:
                out.append({"Text": open(p).read(), "kind": "example/" + n, "Solve": True, "Assemble": True, "Error": e, "Weight": False})
    return out


ERRORS = ["", "", "1e-3", "1e-6", "1e-2", "1e-8", "1", "1e-10"]


def gen(rng, tier):
    n = 70 if tier == "quick" else 1500
    cases = []
    for i in range(n):
        r = i % 10
        if r < 5:
            s = G.gen_solvable(rng)
        elif r < 7:
            s = mechanism(rng)
        elif r < 8:
            s = tiny_inertia_truss(rng)
        else:
            s = scaled_units(rng)
        # every fifth structure is solved from its own .inkfempre text read back (the history pre -> solve x.inkfempre)
        cases.append(core.case_from_struct(s, Weight=core.weights(i), Solve=True, Assemble=True, Error=rng.choice(ERRORS), ViaPre=(i % 5 == 4)))
    for k in range(4 if tier == "quick" else 16):
        cases.append(core.case_from_struct(G.gen_tie_between_supports(rng, k), Weight=False, Solve=True, Assemble=True, Error="1e-5", ViaPre=(k >= 2 and k % 4 >= 2)))
    return cases + shipped_examples(tier)


def oracle(c, o):
    fails = P.c05_solution(o)
    if not fails and o.get("KEntries") and o.get("Pre") and not o.get("SysPanic"):
        # the equations the residual is judged against must be those of the sliced structure: the system
        # handed to the solver is re-assembled independently (only supported numbers become trivial equations)
        from .. import oracles as O
        fails = ["the system handed to the solver is not that of the sliced structure: " + f for f in O.c17_structure(o, o["Pre"][-1])[:2]]
        # ... whose equation numbers must stand for the unknowns the definition declares (a bar end shares a node's number
        # exactly for the components its link holds)
        fails = fails or ["the system handed to the solver is not that of the declared structure: " + f for f in O.c16_structure(o, o["Pre"][-1])[:2]]
    return fails


def stageE(c, o, rng):
    if not o.get("U") or o.get("SysPanic"):
        return None
    if P.borderline(o):
        return None
    if len(o["U"]) > 260:
        return None
    return P.stageE_case(o)


SPEC = {
    "prop_file": "Properties/C05.v",
    "gen": gen,
    "oracle": oracle,
    "corpus_opts": {"Solve": True, "Assemble": True},
    "stages": [("E", stageE, P.stageE_v, 3, None)],
    "nontrivial": lambda c, o: bool(o.get("U")) and len(o["U"]) > 20,
    "rule": "stable beams, chains, portals, trusses (60%), frames with random releases - mechanisms, joints without rotational stiffness (20%), the same structures in other unit systems with stiffness "
            "magnitudes over ten decades (20%), pin-jointed trusses whose bending terms straddle the 1e-10 assembly cut-off (solver answers full of NaN, 10%), the shipped examples at --error 1e-7, 1e-9, 1e-12; --error drawn from {1e-10 ... 1}; own weight on every third. Each is solved in process; the oracle recomputes f - K u exactly from the system "
            "handed to the solver and the answer the implementation accepted (finite, within the error, exactly zero on supports); stage E evaluates the Coq decision function accept on the same "
            "(K, f, u, eps) and compares its verdict with whether the implementation went on (cases whose exact residual is within 1e-6 relative of eps are not compared). non-trivial iff > 20 equations",
    "assumptions": ["the PCG solver (inkmath) is an oracle: nothing is assumed about its answer, only what solve does with it is modelled",
                    "float evaluation of f - K u differs from the exact residual by at most 4e-15 x sum of |terms| (dot-product rounding bound) (band excluded from the comparison)"],
}


def big_structures(ctx):
    """hundreds of bars: assembled, solved and judged inside the harness process against an independent superposition of the
    slice matrices (every free equation within the requested error, supported unknowns exactly zero)"""
    from .. import common as C
    from .. import gen_struct as G
    sizes = [515, 64] if ctx.tier == "quick" else [515, 520, 1029, 64]
    err = 1e-4
    cases = [{"Text": G.posts_text(n), "Weight": False, "Solve": True, "Error": "1e-4"} for n in sizes]
    outs = C.dump("bigcheck", cases, timeout=1800)
    for n, o in zip(sizes, outs):
        what = "%d clamped posts (%s equations)" % (n, o.get("Equations"))
        how = {"how": "tools.gen_struct.posts_text(%d) + harness/bin/dump bigcheck, --error 1e-4" % n, "first": o.get("First")}
        if o.get("Panic"):
            ctx.violation("%s: %s" % (what, o["Panic"][:200]), how)
        elif o.get("KMismatch") or o.get("FMismatch"):
            ctx.violation("%s: the system handed to the solver is not that of the sliced structure (%d stiffness terms, %d load entries differ): %s" % (
                what, o["KMismatch"], o["FMismatch"], "; ".join(o.get("First") or [])), how)
        elif o.get("Solved") and (float(o["MaxResid"]) > err * (1 + 1e-6) + 1e-9 or float(o["MaxSupport"]) != 0):
            ctx.violation("%s: solve succeeded with a residual of %s against the sliced structure's own equations (requested %g), supported unknowns move by %s" % (
                what, o["MaxResid"], err, o["MaxSupport"]), how)
    ctx.log("%d structures of hundreds of bars assembled, solved and judged inside the harness" % len(cases))
    return len(cases)


def acceptance_direct(ctx):
    """the acceptance test itself (through the verif hook), on systems and answers written here: exact residuals a factor of
    1.5 or more away from the bound on either side, at every size of load, in every row, with non-finite entries anywhere"""
    from fractions import Fraction as Fr
    from .. import stages as S
    cases = []

    def add(n, K, f, u, eps, why):
        cases.append({"N": n, "K": [[str(i), str(j), v] for (i, j, v) in K], "F": f, "U": u, "Eps": eps, "why": why})

    ident = lambda n: [(i, i, "1") for i in range(n)]
    for n in (1, 2, 3, 5, 6, 7, 9, 13):
        for row in sorted({0, n // 2, n - 1}):
            for F_ in ("0", "1", "1000", "1000000", "1000000000", "-250000"):
                for d, eps in (("0.25", "0.5"), ("0.75", "0.5"), ("-0.75", "0.5"), ("-0.25", "0.5"), ("2", "0.5"), ("0.015625", "0.0078125"), ("0.00390625", "0.0078125")):
                    f = ["0"] * n
                    u = ["0"] * n
                    f[row] = F_
                    u[row] = str(Fr(F_) - Fr(d)) if Fr(F_) - Fr(d) == int(Fr(F_) - Fr(d)) else "%r" % float(Fr(F_) - Fr(d))
                    # the other rows carry large, exactly met loads (what is large elsewhere must not loosen this row)
                    for i in range(n):
                        if i != row and i % 2 == 1:
                            f[i] = u[i] = "4000000"
                    add(n, ident(n), f, u, eps, "residual %s in row %d of %d, bound %s, load %s" % (d, row, n, eps, F_))
    for n in (2, 5, 8):
        for row in range(n):
            for bad in ("NaN", "+Inf", "-Inf"):
                u = ["0"] * n
                u[row] = bad
                add(n, ident(n), ["0"] * n, u, "1000000", "%s at entry %d of %d" % (bad, row, n))
    # a coupled system: 2x + y = 7, x + 3y = 11 has x = 2, y = 3
    for dx, dy in (("0", "0"), ("0.25", "0"), ("0", "-0.125"), ("1", "1"), ("-0.5", "0.25")):
        add(2, [(0, 0, "2"), (0, 1, "1"), (1, 0, "1"), (1, 1, "3")], ["7", "11"], [str(float(Fr(2) + Fr(dx))), str(float(Fr(3) + Fr(dy)))], "0.5", "coupled system, answer off by (%s, %s)" % (dx, dy))
    outs = C.dump("accept", [{k: v for k, v in c.items() if k != "why"} for c in cases])
    bad = 0
    terms = []
    for c, o in zip(cases, outs):
        finite = all(P.finite(v) for v in c["U"])
        expect_ok = finite
        if finite:
            r = [Fr(v) for v in c["F"]]
            for i, j, v in c["K"]:
                r[int(i)] -= Fr(v) * Fr(c["U"][int(j)])
            expect_ok = all(abs(x) <= Fr(c["Eps"]) for x in r)
        got_ok = (o["Refusal"] == "")
        if got_ok != expect_ok:
            if bad < 3:
                ctx.violation("the acceptance test of solve %s an answer it must %s: %s" % ("lets through" if got_ok else "turns away", "turn away" if got_ok else "let through", c["why"]),
                              {"system": {k: c[k] for k in ("N", "K", "F", "U", "Eps")}, "refusal": o["Refusal"], "how": "harness/bin/dump accept (process.VerifAcceptSolution -> ensureSolutionIsGoodEnough)"})
            bad += 1
        terms.append(P.stageE_case({"KEntries": c["K"], "F": c["F"], "U": c["U"], "MaxError": c["Eps"], "SolvePanic": o["Refusal"]}))
    n_coq, mism = S.run_stage(ctx, "E2", terms[::7], P.stageE_v, shard=40)
    ctx.log("acceptance test called directly on %d written systems and answers (%d wrong verdicts); stage E on %d of them: %s" % (
        len(cases), bad, n_coq, "no mismatch" if mism == [] else ("BROKEN" if mism is None else "%d mismatch" % len(mism))))
    if mism and not bad:
        ctx.violation("correspondence between the Coq model of the acceptance test and the implementation no longer holds (stage E on written systems: %s)" % mism[0][1][:200],
                      {"correspondence": "stage E", "searched": "%d written systems: every verdict as expected" % len(cases)}, no_input=True)
    return {"systems": len(cases), "wrong_verdicts": bad, "evaluated_in_coq": n_coq}


def run(ctx):
    core.run(ctx, SPEC)
    ctx.coverage["acceptance_called_directly"] = acceptance_direct(ctx)
    ctx.coverage["large_structures"] = big_structures(ctx)
    # command-line level: a failing solve leaves no solution file, a successful one does
    from .. import cli
    cli.c05_cli(ctx)
