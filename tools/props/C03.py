"""C03 — support reactions balance the applied loads."""
from .. import physics as P
from . import core, solcore


def oracle(c, o):
    if not solcore.solved(o):
        return []
    return P.c03_reactions(o, bool(c.get("Weight")))


SPEC = {
    "text_fidelity": True,
    "prop_file": "Properties/C03.v",
    "gen": solcore.gen,
    "oracle": oracle,
    "corpus_opts": {"Solve": True, "Assemble": True},
    "stages": [("F", solcore.stageF, P.stageF_v, 2, None)],
    "nontrivial": lambda c, o: solcore.solved(o) and len(o.get("Reactions") or {}) >= 1 and any((b.get("DL") or b.get("CL")) for b in o["Bars"]),
    "rule": solcore.RULE + "non-trivial iff solved, loaded and supported. Oracle: the resultant (Fx, Fy, Mz about the origin) of the user's loads (exact, from the parsed input; own weight included) "
            "plus the listed reactions must vanish within (number of equations) x requested error (x lever arm for the moment); a reaction is listed exactly for the externally constrained nodes; "
            "no component along a free direction. Stage F compares every reaction with the Coq model's reaction_at.",
    "assumptions": ["solver oracle: every equation is met within the requested error (C05), so the imbalance is at most the sum of the residuals"],
}


def run(ctx):
    core.run(ctx, SPEC)
