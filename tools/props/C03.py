"""C03 — support reactions balance the applied loads."""
from .. import physics as P
from . import core, solcore


def oracle(c, o):
    if not solcore.solved(o):
        return []
    return P.c03_reactions(o, bool(c.get("Weight")))


SPEC = {
    "text_fidelity": True,
    "prop_file": "Properties/C03.v",
    "gen": solcore.gen,
    "oracle": oracle,
    "corpus_opts": {"Solve": True, "Assemble": True},
    "stages": [("F", solcore.stageF, P.stageF_v, 2, None)],
    "nontrivial": lambda c, o: solcore.solved(o) and len(o.get("Reactions") or {}) >= 1 and any((b.get("DL") or b.get("CL")) for b in o["Bars"]),
    "rule": solcore.RULE + "non-trivial iff solved, loaded and supported. Oracle: the resultant (Fx, Fy, Mz about the origin) of the user's loads (exact, from the parsed input; own weight included) "
            "plus the listed reactions must vanish within (number of equations) x requested error (x lever arm for the moment); a reaction is listed exactly for the externally constrained nodes; "
            "no component along a free direction. Stage F compares every reaction with the Coq model's reaction_at.",
    "assumptions": ["solver oracle: every equation is met within the requested error (C05), so the imbalance is at most the sum of the residuals"],
}


def cli_histories(ctx):
    """the reactions the solve command leaves in <name>.inkfemsol balance the loads of the structure it was asked to
    solve with the options it was given - also when other solve commands ran on the same path before"""
    import random
    from .. import cli
    from .. import gen_struct as G
    from .. import stages as S
    from . import C12
    rng = random.Random(ctx.seed + 3)
    runs = bad = 0
    steps = [(["solve", "x.inkfem"], False), (["solve", "-w", "x.inkfem"], True), (["solve", "-e", "1e-3", "x.inkfem"], False), (["solve", "-w", "-e", "1e-4", "x.inkfem"], True)]
    want, tried, done = (3 if ctx.tier == "quick" else 30), 0, 0
    checked = 0
    while done < want and tried < 6 * want:
        s = [G.gen_portal, G.gen_beam, G.gen_chain][tried % 3](rng)
        tried += 1
        text = s.text()
        if cli.run(ctx, ["solve", "x.inkfem"], files={"x.inkfem": text}, name="c03p").status != 0:
            continue        # not solvable at the default error (C05 / C19 decide that): nothing is written
        done += 1
        hr = cli.run_history(ctx, [a for a, w in steps], files={"x.inkfem": text}, name="c03h", timeout=300)
        for k, ((args, w), rk) in enumerate(zip(steps, hr)):
            runs += 1
            sol = rk.files.get("x.inkfemsol")
            if rk.status != 0 or not sol:
                continue
            o = S.run_pipeline(ctx, [{"Text": text, "Weight": w, "Solve": True, "Assemble": True, "Error": args[args.index("-e") + 1] if "-e" in args else ""}])[0]
            if not solcore.solved(o):
                continue
            o = dict(o, Reactions={k_: [repr(v) for v in r] for k_, r in C12.reactions_of(sol).items()})
            fails = P.c03_reactions(o, w)
            checked += 1
            if fails:
                if bad < 3:
                    ctx.violation("after %s in one directory, the reactions in x.inkfemsol do not balance the loads of what `%s` was asked to solve: %s" % (
                        [" ".join(a) for a, _ in steps[:k + 1]], " ".join(args), "; ".join(fails[:3])), {"history": [a for a, _ in steps[:k + 1]], "text": text, "failures": fails[:6]})
                bad += 1
    ctx.log("%d solve commands in command-line histories (solve, solve -w, solve -e ... on one path), %d solution files judged: the reactions written balance the loads" % (runs, checked))
    return runs


def run(ctx):
    # (quick tier: the first 64 solved cases - the fixed families come first - go through the Coq model; the thorough tier takes all)
    SPEC["stages"] = [("F", solcore.stageF, P.stageF_v, 2, 64 if ctx.tier == "quick" else None)]
    core.run(ctx, SPEC)
    n = cli_histories(ctx)
    ctx.coverage["cli_history_commands"] = n
