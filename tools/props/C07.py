"""C07 — results do not depend on where the structure sits or how bars are drawn."""
from fractions import Fraction as Fr

from .. import common as C
from .. import gen_struct as G
from .. import meta as M
from .. import physics as P
from . import core, solcore

ERR = "1e-6"
ROTS = [(Fr(3, 5), Fr(4, 5)), (Fr(4, 5), Fr(-3, 5)), (Fr(-5, 13), Fr(12, 13)), (Fr(0), Fr(1)), (Fr(-1), Fr(0)), (Fr(0), Fr(-1)),
        (Fr(7, 25), Fr(24, 25)), (Fr(-20, 29), Fr(-21, 29))]


def isotropic(s):
    """every support and link treats dx and dy alike (so any rotation keeps them meaningful)"""
    flags = [c for (_, _, c) in s.nodes.values()] + [b["l1"] for b in s.bars] + [b["l2"] for b in s.bars]
    return all(f[0] == f[1] for f in flags)


def translate(s, dx, dy):
    t = s.copy()
    t.nodes = {k: (x + dx, y + dy, c) for k, (x, y, c) in s.nodes.items()}
    return t


def rotate(s, cr, sr):
    t = s.copy()
    quarter = cr == 0 or sr == 0
    flip = (lambda f: (f[1], f[0], f[2])) if (quarter and cr == 0) else (lambda f: f)
    t.nodes = {k: (G.rnd(x * cr - y * sr), G.rnd(x * sr + y * cr), flip(c)) for k, (x, y, c) in s.nodes.items()}
    for b in t.bars:
        b["l1"], b["l2"] = flip(b["l1"]), flip(b["l2"])
    loads = []
    for l in s.loads:
        if l["local"] or l["term"] == "mz":
            loads.append(dict(l))
            continue
        # a global force (vx, vy) turns with the structure
        comp = (cr, sr) if l["term"] == "fx" else (-sr, cr)
        for term, f in (("fx", comp[0]), ("fy", comp[1])):
            if f == 0:
                continue
            m = dict(l)
            m["term"] = term
            if l["kind"] == "c":
                m["v"] = G.rnd(l["v"] * f)
            else:
                m["v0"], m["v1"] = G.rnd(l["v0"] * f), G.rnd(l["v1"] * f)
            loads.append(m)
    t.loads = loads
    return t


def mirror_x(s):
    t = s.copy()
    t.nodes = {k: (-x, y, c) for k, (x, y, c) in s.nodes.items()}
    for l in t.loads:
        neg = (l["term"] == "mz") or (l["term"] == "fx" and not l["local"]) or (l["term"] == "fy" and l["local"])
        if neg:
            if l["kind"] == "c":
                l["v"] = -l["v"]
            else:
                l["v0"], l["v1"] = -l["v0"], -l["v1"]
    return t


def reverse(s, ids):
    t = s.copy()
    for b in t.bars:
        if b["id"] in ids:
            b["n1"], b["n2"], b["l1"], b["l2"] = b["n2"], b["n1"], b["l2"], b["l1"]
    for l in t.loads:
        if l["bar"] not in ids:
            continue
        neg = l["local"] and l["term"] in ("fx", "fy")
        if l["kind"] == "c":
            l["t"] = 1 - l["t"]
            if neg:
                l["v"] = -l["v"]
        else:
            t0, v0, t1, v1 = l["t0"], l["v0"], l["t1"], l["v1"]
            l["t0"], l["v0"], l["t1"], l["v1"] = 1 - t1, v1, 1 - t0, v0
            if neg:
                l["v0"], l["v1"] = -l["v0"], -l["v1"]
    return t


def gen(rng, tier):
    n = 12 if tier == "quick" else 300
    cases = []
    for g in range(n):
        s = G.gen_asym_joint(rng) if g % 4 == 3 else G.gen_solvable(rng)
        many, tiny = (g == n - 1), (g == n - 2)
        if many:
            # a bar cut into 27 unequal finite elements, also drawn from its other end
            s = G.gen_many_positions(rng, 16, 0)
        if tiny:
            s = G.gen_portal(rng)
        if g % 4 == 0:
            # (these groups are turned by a general angle: supports and links that treat dx and dy alike)
            for _ in range(20):
                if isotropic(s):
                    break
                s = [G.gen_beam, G.gen_portal, G.gen_chain][_ % 3](rng)
        # loads whose treatment depends on the bar's angle or drawing direction: a global-axis
        # distributed load on some bar, and a concentrated load on a bar end that sits on a support
        b = rng.choice(s.bars)
        if not ((not b["l1"][2]) and (not b["l2"][2])):
            s.loads.append({"kind": "d", "term": rng.choice(["fx", "fy"]), "local": False, "bar": b["id"], "t0": Fr(0),
                            "v0": Fr(rng.choice([-40, 25, 120])), "t1": Fr(rng.choice(["1", "0.6"])), "v1": Fr(rng.choice([-40, 10, 0]))})
        for b in s.bars:
            for nid, tt in ((b["n1"], Fr(0)), (b["n2"], Fr(1))):
                if any(s.nodes[nid][2]) and rng.random() < 0.5 and not any(l["kind"] == "c" and l["bar"] == b["id"] and l["t"] == tt for l in s.loads):
                    s.loads.append({"kind": "c", "term": rng.choice(["fx", "fy", "mz"]), "local": rng.random() < 0.5, "bar": b["id"], "t": tt,
                                    "v": Fr(rng.choice([-1, 1]) * rng.choice([75, 600, 3000]))})
                    break
        if g % 3 == 1:
            # an axial member (pinned at both ends): a global end load declared before a local one
            ax = [b for b in s.bars if not b["l1"][2] and not b["l2"][2] and not any(l["bar"] == b["id"] and (l["kind"] == "d" or l["t"] not in (Fr(0), Fr(1))) for l in s.loads)]
            for b in ax[:2]:
                s.loads = [l for l in s.loads if l["bar"] != b["id"]]
                tt = Fr(rng.choice([0, 1]))
                s.loads.append({"kind": "c", "term": "fx", "local": False, "bar": b["id"], "t": tt, "v": Fr(rng.choice([20, -35]))})
                s.loads.append({"kind": "c", "term": "fy", "local": True, "bar": b["id"], "t": tt, "v": Fr(rng.choice([-30, 45]))})
        if g % 4 == 1:
            # a load a hair off the middle between two uniform cuts: the two finite elements beside it are almost, not
            # exactly, as long as each other - and come in the other order when the bar is drawn from its other end
            cand = [b for b in s.bars if b["l1"][2] or b["l2"][2]] or s.bars
            b = cand[(g // 4) % len(cand)]
            tt = Fr(rng.choice(["0.2502", "0.6497", "0.4501", "0.8499"]))
            if all(abs(tt - x) > Fr("0.0015") for l in s.loads if l["bar"] == b["id"] for x in ([l["t"]] if l["kind"] == "c" else [l["t0"], l["t1"]])):
                s.loads.append({"kind": "c", "term": "fy", "local": True, "bar": b["id"], "t": tt, "v": Fr(rng.choice([-900, 1500]))})
                near_mid = b["id"]
            else:
                near_mid = None
        elif g % 4 == 0:
            # three load lines at one point (a global force, a local force, a moment): turned by a general angle the global
            # force is written as two lines, four in all
            cand = [b for b in s.bars if b["l1"][2] or b["l2"][2]] or s.bars
            b = cand[(g // 4) % len(cand)]
            tt = Fr(rng.choice(["0.55", "0.35", "0.7"]))
            near_mid = None
            if all(abs(tt - x) > Fr("0.002") for l in s.loads if l["bar"] == b["id"] for x in ([l["t"]] if l["kind"] == "c" else [l["t0"], l["t1"]])):
                s.loads.append({"kind": "c", "term": "fy", "local": False, "bar": b["id"], "t": tt, "v": Fr(-1500)})
                s.loads.append({"kind": "c", "term": "fy", "local": True, "bar": b["id"], "t": tt, "v": Fr(800)})
                s.loads.append({"kind": "c", "term": "mz", "local": True, "bar": b["id"], "t": tt, "v": Fr(-60000)})
        elif g % 4 == 2:
            # two point loads closer together than a thousandth of the bar, on a bar that is also drawn from its other end
            cand = [b for b in s.bars if b["l1"][2] or b["l2"][2]] or s.bars
            b = cand[(g // 4) % len(cand)]
            t0 = Fr(rng.choice(["0.37", "0.6431", "0.52"]))
            d = Fr(rng.choice(["0.0004", "0.0007"]))
            near_mid = None
            if all(abs(t0 - x) > Fr("0.002") and abs(t0 + d - x) > Fr("0.002") for l in s.loads if l["bar"] == b["id"] for x in ([l["t"]] if l["kind"] == "c" else [l["t0"], l["t1"]])):
                s.loads.append({"kind": "c", "term": "fy", "local": True, "bar": b["id"], "t": t0, "v": Fr(-1200)})
                s.loads.append({"kind": "c", "term": "fy", "local": True, "bar": b["id"], "t": t0 + d, "v": Fr(700)})
                near_mid = b["id"]
        else:
            near_mid = None
        iso = isotropic(s)
        rots = ROTS if iso else [r for r in ROTS if r[0] == 0 or r[1] == 0]
        cr, sr = rng.choice(rots)
        if g % 4 == 0 and iso:
            cr, sr = rng.choice([r for r in ROTS if r[0] != 0 and r[1] != 0])
        dx, dy = Fr(rng.choice(["1000", "-37.5", "123456", "0.125"])), Fr(rng.choice(["-2000", "14.25", "999999", "0"]))
        rev = [b["id"] for b in s.bars if rng.random() < 0.5] or [s.bars[0]["id"]]
        if near_mid and near_mid not in rev:
            rev.append(near_mid)
        if g % 2 == 0:
            # every other group for sure: a force with a component normal to the bar applied on a supported bar end,
            # and that bar among the reversed ones (what goes straight into the support must not depend on which end it is)
            ends = [(b, tt) for b in s.bars for nid, tt in ((b["n1"], Fr(0)), (b["n2"], Fr(1))) if any(s.nodes[nid][2])]
            if ends:
                b, tt = ends[(g // 2) % len(ends)]
                if not any(l["kind"] == "c" and l["bar"] == b["id"] and l["t"] == tt and l["term"] != "mz" for l in s.loads):
                    s.loads.append({"kind": "c", "term": "fy", "local": True, "bar": b["id"], "t": tt, "v": Fr(rng.choice([-600, 450]))})
                if b["id"] not in rev:
                    rev.append(b["id"])
        w = (g % 3 == 0)
        err = ERR
        if many and s.bars[0]["id"] not in rev:
            rev.append(s.bars[0]["id"])
        if tiny:
            # a model whose loads are a billionth of the usual ones (and the error asked for with them): forces have no natural size
            for l in s.loads:
                for key in (("v",) if l["kind"] == "c" else ("v0", "v1")):
                    l[key] = l[key] * Fr(1, 10 ** 9)
            err = "1e-15"
        group = [("base", s, False, None), ("translated", translate(s, dx, dy), False, (str(dx), str(dy))),
                 ("rotated", rotate(s, cr, sr), False, (str(cr), str(sr))), ("mirrored", mirror_x(s), False, None),
                 ("reversed", reverse(s, rev), False, rev)]
        if w:
            group += [("base_w", s, True, None), ("mirrored_w", mirror_x(s), True, None), ("reversed_w", reverse(s, rev), True, rev)]
        group.append(("end", s, False, None))
        for role, st, weight, par in group:
            if role == "end":
                cases.append({"Text": st.text(), "kind": "end", "group": g, "role": "end", "Weight": False, "Solve": False})
                continue
            c = core.case_from_struct(st, Weight=weight and not tiny, Solve=True, Assemble=True, Error=err)
            c.update(group=g, role=role, par=par)
            cases.append(c)
    return cases


_groups = {}


def tr_rot(cr, sr):
    return M.Transform(lambda x, y, z: (x * cr - y * sr, x * sr + y * cr, z), lambda fx, fy, mz, p: (fx * cr - fy * sr, fx * sr + fy * cr, mz))


IDENT = M.Transform(lambda x, y, z: (x, y, z), lambda fx, fy, mz, p: (fx, fy, mz))
MIRROR = M.Transform(lambda x, y, z: (-x, y, -z), lambda fx, fy, mz, p: (-fx, fy, -mz), lfac=(1, -1, -1), dfac=(1, -1, -1, -1))


def same_system(oA, oB, reversed_ids, what):
    """the system of equations of the structure put elsewhere, or with some bars drawn from their other end, is the same system with
    its equations renumbered: every stiffness term and every load entry is found again at the numbers of the same slice nodes (global
    axes: no sign changes).  Needs no solved run.  (Tolerances: the direction of a bar whose coordinates are a million away from the
    origin comes out of a cancellation - 2e-10 of the largest term of its matrix, of its loads; what this comparison is after is
    a term in the wrong place or of the wrong finite element.)"""
    if not (oA.get("KEntries") and oB.get("KEntries") and oA.get("Pre") and oB.get("Pre")) or oA.get("SysPanic") or oB.get("SysPanic"):
        return []
    pa, pb = oA["Pre"][-1], oB["Pre"][-1]
    if pa.get("Panic") or pb.get("Panic") or pa["DofCount"] != pb["DofCount"]:
        return []
    perm = {}
    bb = {x["ID"]: x for x in pb["Bars"]}
    for ba in pa["Bars"]:
        other = bb.get(ba["ID"])
        if other is None or len(other["Nodes"]) != len(ba["Nodes"]):
            return []       # (sliced differently: reported by the comparison of the results, or by C08 / C15)
        nodes_b = other["Nodes"][::-1] if ba["ID"] in reversed_ids else other["Nodes"]
        for na, nb in zip(ba["Nodes"], nodes_b):
            ta, tb = C.ffloat(na["T"]), C.ffloat(nb["T"])
            if abs((1 - tb if ba["ID"] in reversed_ids else tb) - ta) > Fr(1, 10 ** 13):
                return []   # (positions closer than 1e-10 are taken for one, from whichever end comes first: not the same finite elements)
            for x, y in zip(na["Dof"], nb["Dof"]):
                if perm.setdefault(x, y) != y:
                    return []
    n = pa["DofCount"]
    KB = {(int(e[0]), int(e[1])): C.ffloat(e[2]) for e in oB["KEntries"]}
    KA = {(int(e[0]), int(e[1])): C.ffloat(e[2]) for e in oA["KEntries"]}
    big = max([abs(v) for v in KA.values()] + [Fr(0)])
    fails = []
    for (i, j), v in KA.items():
        if i not in perm or j not in perm:
            continue
        w = KB.get((perm[i], perm[j]), Fr(0))
        if abs(v - w) > Fr(1, 10 ** 6) * (abs(v) + abs(w)) + Fr(1, 10 ** 9) * big:
            fails.append("%s: the stiffness term of equations (%d, %d) is %.9g, the same term of the other drawing (%d, %d) is %.9g" % (what, i, j, float(v), perm[i], perm[j], float(w)))
            break
    fa, fb = [C.ffloat(v) for v in oA["F"]], [C.ffloat(v) for v in oB["F"]]
    fbig = max([abs(v) for v in fa] + [Fr(0)])
    for i in range(n):
        if i in perm and abs(fa[i] - fb[perm[i]]) > Fr(1, 10 ** 6) * (abs(fa[i]) + abs(fb[perm[i]])) + Fr(1, 10 ** 7) * fbig:
            fails.append("%s: the load entry of equation %d is %.9g, the same entry of the other drawing (%d) is %.9g" % (what, i, float(fa[i]), perm[i], float(fb[perm[i]])))
            break
    return fails


def oracle(c, o):
    g = c.get("group")
    if g is None:
        return []
    _groups.setdefault(g, []).append((c, o))
    if c["role"] != "end":
        return []
    members = {cc["role"]: (cc, oo) for cc, oo in _groups.pop(g)}
    fails = []
    for base_role, others in (("base", ("translated", "reversed")), ("base_w", ("reversed_w",))):
        if base_role in members:
            for r in others:
                if r in members:
                    cc, oB = members[r]
                    fails += same_system(members[base_role][1], oB, set(cc["par"]) if r.startswith("reversed") else set(), r)
    for base_role, others in (("base", ("translated", "rotated", "mirrored", "reversed")), ("base_w", ("mirrored_w", "reversed_w"))):
        if base_role not in members or not M.solved(members[base_role][1]):
            continue
        oA = members[base_role][1]
        tA = M.utol(oA)
        if tA is None:
            continue
        for r in others:
            if r not in members or not M.solved(members[r][1]):
                continue
            cc, oB = members[r]
            tB = M.utol(oB)
            if tB is None:
                continue
            kind = r.replace("_w", "")
            if kind == "translated":
                tr = IDENT
            elif kind == "rotated":
                tr = tr_rot(Fr(cc["par"][0]), Fr(cc["par"][1]))
            elif kind == "mirrored":
                tr = MIRROR
            else:
                tr = M.Transform(IDENT.disp, IDENT.react, bar_map={b["ID"]: (b["ID"], b["ID"] in cc["par"]) for b in oA["Bars"]})
            fails += M.compare(oA, oB, tr, tA + tB, "%s%s" % (r, (" " + str(cc["par"])) if cc["par"] else ""))
    return fails[:6]


SPEC = {
    "prop_file": "Properties/C07.v",
    "gen": gen,
    "adaptive_error": True,
    "oracle": oracle,
    "corpus_filter": lambda c: False,
    "stages": [("F", lambda c, o, rng: solcore.stageF(c, o, rng) if c.get("role") in ("rotated", "mirrored", "reversed") else None, P.stageF_v, 2, 30)],
    "nontrivial": lambda c, o: M.solved(o) and c.get("role") in ("rotated", "mirrored", "reversed", "translated", "mirrored_w", "reversed_w"),
    "rule": "groups of runs of one solvable structure (as C01): as given, translated (offsets up to 1e6), rotated (Pythagorean angles 3-4-5, 5-12-13, 7-24-25, 20-21-29 and quarter turns; quarter turns only, "
            "with dx/dy flags swapped, when some support or link treats dx and dy differently; global loads turned with the structure), mirrored about the vertical axis, and with a random subset of "
            "bars drawn from the other end (loads re-expressed); every third group also with own weight (mirror, reversal). Oracle: global displacements and reactions move with the structure, local "
            "displacements and diagrams are unchanged / flip sign (mirror: local y, rz, shear, bending; reversal: read backwards, local x, y and bending flip, shear and axial kept) at every common "
            "position; tolerances from the requested errors and the conditioning of both systems.",
    "assumptions": ["solver oracle as C01", "rotated coordinates that are not finite decimals are written with 17 significant digits"],
}


def run(ctx):
    _groups.clear()
    core.run(ctx, SPEC)
