"""C20 — bar stiffness: symmetric, PSD, rigid-body free, rotated local stiffness, scaling.

Decided by the theorems of coq/Properties/C20.v about stiff_gen, which the translator
regenerates from structure/element.go on every run. The translator is cross-checked by
evaluating stiff_gen in Coq against Element.StiffnessGlobalMat on generated bars, and an
independent exact-rational oracle states the property on the Go matrix itself (it is what
produces the concrete failing bar when a proof obligation breaks)."""
import json
import random
from fractions import Fraction as Fr

from .. import common as C

PYTH = [(3, 4, 5), (5, 12, 13), (8, 15, 17), (7, 24, 25), (20, 21, 29), (12, 35, 37), (9, 40, 41)]


def gen_cases(rng, n):
    cases = []
    for k in range(n):
        kind = rng.choice(["pyth", "pyth", "axis", "free", "free"]) if k % 8 != 5 else "near"
        scale = Fr(rng.choice(["0.001", "0.01", "0.37", "1", "2.5", "10", "100", "1234.5", "100000"]))
        if kind == "pyth":
            a, b, h = rng.choice(PYTH)
            if rng.random() < 0.5:
                a, b = b, a
            dx, dy = a * rng.choice([1, -1]) * scale, b * rng.choice([1, -1]) * scale
        elif kind == "axis":
            dx, dy = rng.choice([(1, 0), (-1, 0), (0, 1), (0, -1)])
            dx, dy = dx * scale, dy * scale
        elif kind == "near":
            # almost, but not quite, parallel to an axis: a cambered beam, a column a hair out of plumb
            tiny = Fr(rng.choice(["0.00001", "0.0000007", "0.00000003", "0.000000002", "0.0000000001"])) * rng.choice([1, -1])
            dx, dy = rng.choice([(1, tiny), (-1, tiny), (tiny, 1), (tiny, -1)])
            dx, dy = dx * scale, dy * scale
        else:
            dx = Fr(rng.randint(-9999, 9999), 1000) * scale
            dy = Fr(rng.randint(-9999, 9999), 1000) * scale
            if dx == 0 and dy == 0:
                dx = scale
        x1 = Fr(rng.randint(-50000, 50000), 100)
        y1 = Fr(rng.randint(-50000, 50000), 100)
        span = rng.choice(["full", "sub", "sub", "tiny"])
        if span == "full":
            t1, t2 = Fr(0), Fr(1)
        elif span == "sub":
            a_, b_ = sorted(rng.sample(range(0, 1001), 2))
            t1, t2 = Fr(a_, 1000), Fr(b_, 1000)
        else:
            a_ = rng.randint(0, 994)     # the sub-span stays inside the bar: parameters beyond 1 are clamped by TParam
            # (finite elements much shorter than a thousandth of the bar exist: two loads close together, a load a hair from an end)
            t1, t2 = Fr(a_, 1000), Fr(a_, 1000) + Fr(rng.choice(["0.001", "0.002", "0.005", "0.0004", "0.00001", "0.000000001"]))
        E = Fr(rng.choice(["1", "210000", "21000000", "2.1e11", "0.5", "3e-3"]))
        A = Fr(rng.choice(["1", "10.3", "0.00103", "250", "1e-4", "14000"]))
        I = Fr(rng.choice(["1", "171", "1.71e-6", "8356", "1e-8", "2.5e6"]))
        cases.append({"kind": kind, "X1": x1, "Y1": y1, "X2": x1 + dx, "Y2": y1 + dy,
                      "T1": t1, "T2": t2, "E": E, "A": A, "I": I, "Pin": k % 3 == 2})
    return cases


def dec(x):
    """Decimal text of a short rational (exact), for JSON and for replay files."""
    x = Fr(x)
    if x.denominator == 1:
        return str(x.numerator)
    # all generated values are decimals: denominator divides a power of ten
    d, k = x.denominator, 0
    while d % 10 == 0:
        d //= 10
        k += 1
    p = 0
    while (10 ** p) % x.denominator != 0:
        p += 1
        if p > 40:
            return repr(float(x))
    n = x.numerator * (10 ** p) // x.denominator
    s = str(abs(n)).rjust(p + 1, "0")
    return ("-" if n < 0 else "") + s[:-p] + "." + s[-p:]


def to_payload(c):
    return dict({k: dec(c[k]) for k in ("X1", "Y1", "X2", "Y2", "T1", "T2", "E", "A", "I")}, Pin=bool(c.get("Pin")))


def ref_matrix(c, s, l, EA, EI):
    """Independent spec: T^t k_local T in exact rationals."""
    a, b3, b2, b1 = EA / l, EI / l ** 3, EI / l ** 2, EI / l
    k = [[a, 0, 0, -a, 0, 0],
         [0, 12 * b3, 6 * b2, 0, -12 * b3, 6 * b2],
         [0, 6 * b2, 4 * b1, 0, -6 * b2, 2 * b1],
         [-a, 0, 0, a, 0, 0],
         [0, -12 * b3, -6 * b2, 0, 12 * b3, -6 * b2],
         [0, 6 * b2, 2 * b1, 0, -6 * b2, 4 * b1]]
    T = [[c, s, 0, 0, 0, 0], [-s, c, 0, 0, 0, 0], [0, 0, 1, 0, 0, 0],
         [0, 0, 0, c, s, 0], [0, 0, 0, -s, c, 0], [0, 0, 0, 0, 0, 1]]
    kT = [[sum(k[i][m] * T[m][j] for m in range(6)) for j in range(6)] for i in range(6)]
    return [[sum(T[m][i] * kT[m][j] for m in range(6)) for j in range(6)] for i in range(6)]


def oracle(case, out, rng):
    """The property stated on the implementation's matrix only. Returns list of failures."""
    fails = []
    if out.get("Panic"):
        return ["implementation panicked: " + out["Panic"]]
    K = [[C.ffloat(v) if C.isfinite_s(v) else None for v in row] for row in out["K"]]
    if len(K) != 6 or any(len(r) != 6 for r in K) or any(v is None for r in K for v in r):
        return ["matrix is not a finite 6x6"]
    L, c, s = C.ffloat(out["L"]), C.ffloat(out["C"]), C.ffloat(out["S"])
    # the sub-span the implementation sees: the two parameters as float64 values (for a span of 1e-9 the decimal
    # difference and the difference of the floats disagree in the eighth digit)
    l = L * abs(Fr(float(case["T2"])) - Fr(float(case["T1"])))
    kmax = max(abs(v) for r in K for v in r)
    REL = Fr(1, 10 ** 9)
    # symmetric
    for i in range(6):
        for j in range(i):
            if abs(K[i][j] - K[j][i]) > REL * kmax:
                fails.append("not symmetric at (%d,%d)" % (i, j))
    # rigid-body movements map to zero forces
    px, py = Fr(rng.randint(-1000, 1000), 10), Fr(rng.randint(-1000, 1000), 10)
    x, y = case["X1"] + c * L * case["T1"], case["Y1"] + s * L * case["T1"]
    modes = {"tx": [1, 0, 0, 1, 0, 0], "ty": [0, 1, 0, 0, 1, 0],
             "rot": [-(y - py), x - px, 1, -(y + s * l - py), x + c * l - px, 1]}
    for name, r in modes.items():
        for i in range(6):
            terms = [K[i][j] * r[j] for j in range(6)]
            if abs(sum(terms)) > REL * max(sum(abs(t) for t in terms), Fr(1, 10 ** 300)) * 1000:
                fails.append("rigid mode %s gives a force in row %d" % (name, i))
    # equals the rotated standard local stiffness; terms scale with EA/l, EI/l^3, EI/l^2, EI/l
    ref = ref_matrix(c, s, l, case["E"] * case["A"], case["E"] * case["I"])
    for i in range(6):
        for j in range(6):
            if abs(K[i][j] - ref[i][j]) > REL * kmax:
                fails.append("differs from rotated local stiffness at (%d,%d)" % (i, j))
    # positive semi-definite
    for _ in range(4):
        d = [Fr(rng.randint(-1000, 1000), rng.choice([1, 10, 1000])) for _ in range(6)]
        terms = [d[i] * K[i][j] * d[j] for i in range(6) for j in range(6)]
        if sum(terms) < -REL * sum(abs(t) for t in terms):
            fails.append("negative energy for a displacement")
            break
    # the sub-span given in the other order is the same sub-span; asking again gives the same matrix
    for key, what in (("KRev", "the sub-span given as (t2, t1)"), ("KAgain", "asking for the same sub-span again after other sub-spans"),
                      ("KLater", "asking an equal bar for the same sub-span after every other bar of the run was served")):
        other = out.get(key)
        if other:
            M2 = [[C.ffloat(v) if C.isfinite_s(v) else None for v in row] for row in other]
            if any(v is None for r in M2 for v in r) or any(abs(M2[i][j] - ref[i][j]) > REL * kmax for i in range(6) for j in range(6)):
                fails.append("%s does not give the stiffness of that sub-span" % what)
    return fails


def cases_v(cases, outs):
    lines = ["From Coq Require Import ZArith QArith List.",
             "From Inkfem Require Import Num.NumOps Corr.Compare.",
             "Import ListNotations.", "Local Open Scope Q_scope.",
             "Definition cases : list stiff_case := ["]
    items = []
    for c, o in zip(cases, outs):
        K = "[" + "; ".join(C.qlist([C.ffloat(v) for v in row]) for row in o["K"]) + "]"
        items.append("  {| sc_L := %s; sc_c := %s; sc_s := %s; sc_t1 := %s; sc_t2 := %s; sc_E := %s; sc_A := %s; sc_I := %s;\n     sc_K := %s |}" % (
            C.qlit(C.ffloat(o["L"])), C.qlit(C.ffloat(o["C"])), C.qlit(C.ffloat(o["S"])),
            C.qlit(case_float(c["T1"])), C.qlit(case_float(c["T2"])),
            C.qlit(case_float(c["E"])), C.qlit(case_float(c["A"])), C.qlit(case_float(c["I"])), K))
    lines.append(";\n".join(items))
    lines.append("].")
    lines.append("Definition M := Eval vm_compute in stiff_mismatches (Qmake 1 1000000000000) cases.")
    lines.append("Print M.")
    return "\n".join(lines) + "\n"


def case_float(x):
    """The float64 Go obtains when parsing the decimal (exact rational of that float)."""
    return Fr(float(x))


def run(ctx):
    rng = random.Random(ctx.seed)
    n = 300 if ctx.tier == "quick" else 6000
    if ctx.replay:
        rep = json.load(open(ctx.replay))["replay"]
        cases = [{k: (Fr(v) if k != "kind" else v) for k, v in rep["case"].items()}] if "case" in rep else []
    else:
        cases = gen_cases(rng, n)

    res = C.prove(ctx, "Properties/C20.v", extra_targets=["Corr/Compare.vo"])
    ctx.log("proof stage:", "ok" if res["ok"] else "BROKEN at " + res["stage"])

    outs = C.dump("stiff", [to_payload(c) for c in cases]) if cases else []
    # oracle on the implementation alone
    concrete = 0
    for c, o in zip(cases, outs):
        fails = oracle(c, o, rng)
        if fails and concrete < 3:
            concrete += 1
            ctx.violation("C20 fails on the implementation's matrix: " + "; ".join(fails[:4]),
                          {"case": {k: (dec(v) if k != "kind" else v) for k, v in c.items()}, "go_output": o,
                           "failures": fails, "how": "harness/bin/dump stiff  (Element.StiffnessGlobalMat)"})
    # the matrices as the assembly obtains them (however it asks for them): a bar cut into many unequal finite elements, every
    # 6 x 6 block of the assembled system against the stiffness of that element's own sub-span
    if not ctx.replay:
        from .. import stages as S_, oracles as O_, gen_struct as G_
        from . import core as core_
        many = [core_.case_from_struct(G_.gen_many_positions(rng, npos, 0), Weight=False, Assemble=True) for npos in ((18, 27) if ctx.tier == "quick" else (18, 27, 30, 22, 16))]
        many += [dict(c, Procs=1, Isolate=True) for c in many[:1]]
        for c, o in zip(many, S_.run_pipeline(ctx, many)):
            if o.get("ParsePanic") or not o.get("Pre") or o["Pre"][-1].get("Panic"):
                continue
            fails = O_.c17_structure(o, o["Pre"][-1])
            if fails and concrete < 3:
                concrete += 1
                ctx.violation("C20 fails on the matrices the assembly uses for a bar of %d finite elements: %s" % (len(o["Pre"][-1]["Bars"][0]["Nodes"]) - 1, "; ".join(fails[:3])),
                              {"case": c, "failures": fails[:10], "how": "harness/bin/dump pipeline (MakeSystemOfEquations) on the definition text in case.Text"})
        ctx.coverage["assembled_many_element_bars"] = len(many)
    # correspondence: generated kernel evaluated in Coq vs the Go function
    mism = None
    usable = [(c, o) for c, o in zip(cases, outs) if not o.get("Panic") and all(C.isfinite_s(v) for r in o["K"] for v in r)]
    if res["stage"] not in ("translate",) and usable:
        shard = 1500
        mism = []
        for s0 in range(0, len(usable), shard):
            part = usable[s0:s0 + shard]
            out, err = C.run_cases(ctx, "C20_%d" % s0, cases_v([c for c, _ in part], [o for _, o in part]))
            if out is None:
                mism = None
                ctx.log("cases file did not compile:", err[-800:])
                break
            m = out.split("M =", 1)[1].split(":", 1)[0].strip() if "M =" in out else "?"
            if m != "[]":
                mism.append((s0, m))
        if mism:
            s0, m = mism[0]
            import re as _re
            mm = _re.search(r"\((\d+)(?:%nat)?,", m)
            k = (int(mm.group(1)) if mm else 0) + s0
            k = min(k, len(usable) - 1)
            c, o = usable[k]
            if concrete == 0:
                ctx.violation("translated kernel stiff_gen and Element.StiffnessGlobalMat disagree (translator tie): " + m[:300],
                              {"correspondence": "Corr/Compare.stiff_mismatches", "mismatches": m[:2000],
                               "case": {k2: (dec(v) if k2 != "kind" else v) for k2, v in c.items()}, "go_output": o},
                              no_input=True)
    if not res["ok"] and concrete == 0:
        ctx.violation("proof obligation no longer checks (%s): %s" % (res["stage"], res.get("failed_at", "")),
                      {"theorem_file": "coq/Properties/C20.v", "stage": res["stage"], "failed_at": res.get("failed_at"),
                       "log_tail": res["log"][-3000:], "searched": "%d bars through the exact oracle, none fails" % len(cases)},
                      no_input=True)

    nontrivial = {json.dumps(to_payload(c), sort_keys=True) for c in cases
                  if c["X1"] != c["X2"] and c["Y1"] != c["Y2"] and (c["T1"], c["T2"]) != (0, 1)}
    dist = {}
    for c in cases:
        dist[c.get("kind", "replay")] = dist.get(c.get("kind", "replay"), 0) + 1
    ctx.coverage = {
        "obligations": res["obligations"], "discharged": res["discharged"],
        "checker_cmd": "make -C coq Properties/C20.vo && coqc Properties/C20.v (Coq 8.16.1, full .vo build)",
        "trusted_base": C.standard_trusted_base(res),
        "theorems": res.get("names", []),
        "traces_validated_against_impl": len(usable) if mism is not None else 0,
        "evaluations": len(cases), "distinct_nontrivial": len(nontrivial),
        "rule": "bar = (end points, sub-span t1<t2, E, A, I) from one seeded PRNG; non-trivial iff inclined (dx != 0 and dy != 0) and a proper sub-span; "
                "each bar goes through Element.StiffnessGlobalMat, the exact oracle (symmetry, 3 rigid modes about a random point, rotated local stiffness, energy >= 0) and the Coq evaluation of stiff_gen",
        "distribution": dist,
        "samples": [to_payload(c) for c in cases[:3]],
    }
    ctx.assumptions = [
        "inkgeom Segment.LengthBetween(t1,t2) = L*|t2-t1| modelled as L*(t2-t1) for t1<t2 (how every caller uses it)",
        "float64 results compared with the exact model at 1e-12 x the Mag (sum of |terms|) scale",
    ]
