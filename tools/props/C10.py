"""C10 — definition files are parsed faithfully and survive a write/read round trip."""
import random
from fractions import Fraction as Fr

from .. import common as C
from .. import emit as E
from .. import gen_struct as G
from .. import layouts as L
from .. import stages as S


def coq_text(text):
    return "(txt [%s]%%nat)" % "; ".join(str(b) for b in text.encode("utf-8", "replace"))


def coq_str(s):
    return '"%s"%%string' % s.replace('"', '""')


def opt_dof(n):
    d = n.get("Dof")
    if d is None or d[0] < 0:
        return "None"
    return "(Some (%d, %d, %d)%%nat)" % tuple(d)


def read_case_term(text, o):
    if o.get("ParsePanic"):
        return "{| rc_text := %s; rc_panic := %d; rc_major := 0; rc_minor := 0; rc_nodes := []; rc_bars := [] |}" % (
            coq_text(text), L.panic_class(o["ParsePanic"]))
    nodes = ["(%s, %s, %s, %s, %s)" % (coq_str(n["ID"]), E.q(n["X"]), E.q(n["Y"]), E.link((n["Dx"], n["Dy"], n["Rz"])), opt_dof(n)) for n in o["Nodes"] or []]
    bars = []
    for b in o["Bars"] or []:
        bars.append("{| ob_id := %s; ob_n1 := %s; ob_l1 := %s; ob_n2 := %s; ob_l2 := %s;\n       ob_mat := %s; ob_matv := [%s]; ob_sec := %s; ob_secv := [%s];\n       ob_cl := [%s]; ob_dl := [%s] |}" % (
            coq_str(b["ID"]), coq_str(b["N1"]), E.link(b["L1"]), coq_str(b["N2"]), E.link(b["L2"]),
            coq_str(b["Mat"]), "; ".join(E.q(v) for v in b["MatAll"]), coq_str(b["Sec"]), "; ".join(E.q(v) for v in b["SecAll"]),
            "; ".join(E.cload(l) for l in b.get("CL") or []), "; ".join(E.dload(l) for l in b.get("DL") or [])))
    return "{| rc_text := %s; rc_panic := 0; rc_major := %d; rc_minor := %d;\n     rc_nodes := [%s];\n     rc_bars := [%s] |}" % (
        coq_text(text), o.get("Major", 0), o.get("Minor", 0), ";\n       ".join(nodes), ";\n       ".join(bars))


def cases_v(terms):
    lines = [E.HEADER, "From Coq Require Import String Ascii.\nFrom Inkfem Require Import Model.Regex Gen.GenRegex Model.Read.",
             "Definition txt (l : list nat) : string := string_of_list_ascii (map ascii_of_nat l)."]
    for k, t in enumerate(terms):
        lines.append("Definition case_%d : read_case :=\n  %s." % (k, t))
    lines.append("Definition all_cases := [%s]." % "; ".join("case_%d" % k for k in range(len(terms))))
    lines.append("Definition M := Eval vm_compute in\n  flat_map (fun p => map (fun m => (fst p, m)) (cmp_read (snd p))) (indexed all_cases).")
    lines.append("Print M.")
    return "\n".join(lines) + "\n"


IDS = ["n1", "A", "node-7", "N_2", "10", "x-y_z", "b", "B12", "_u", "-"]
NAMES = ["steel", "S 275", "ipe-100", "HEB_200 b", "alu 6061-T6", "m", "IPE 100"]


def rename(rng, s):
    """the same structure under other identifiers (all inside the documented grammars)"""
    t = s.copy()
    nid = {k: (rng.choice(IDS) + str(i)) for i, k in enumerate(s.nodes)}
    bid = {b["id"]: (rng.choice(IDS) + "b" + str(i)) for i, b in enumerate(s.bars)}
    mid = {k: rng.choice(NAMES) + (" %d" % i) for i, k in enumerate(s.mats)}
    sid = {k: rng.choice(NAMES) + ("-%d" % i) for i, k in enumerate(s.secs)}
    t.nodes = {nid[k]: v for k, v in s.nodes.items()}
    t.mats = {mid[k]: v for k, v in s.mats.items()}
    t.secs = {sid[k]: v for k, v in s.secs.items()}
    for b in t.bars:
        b["id"], b["n1"], b["n2"], b["mat"], b["sec"] = bid[b["id"]], nid[b["n1"]], nid[b["n2"]], mid[b["mat"]], sid[b["sec"]]
    for l in t.loads:
        l["bar"] = bid[l["bar"]]
    t.meta = dict(getattr(s, "meta", {}))
    return t


def coverage_structure():
    """one structure, part of every run, that holds what random draws may miss: all eight
    combinations of dx / dy / rz as node constraints and as start and end links, and numbers whose
    shortest decimal spelling needs 16 or 17 significant digits (so that any loss of digits in a
    writer is visible in the round trip), tiny and huge magnitudes, negative zero-like values"""
    s = G.Structure()
    combos = [(a, b, c) for a in (True, False) for b in (True, False) for c in (True, False)]
    xs = ["0.30000000000000004", "1234.5678901234567", "-0.1234567890123456", "1e-7", "123456789.12345679", "2.220446049250313e-16",
          "7", "-1000000.0000000001", "0.1"]
    for i in range(9):
        s.nodes["c%d" % i] = (Fr(xs[i]), Fr(xs[(i + 3) % 9]) + i, combos[i % 8])
    s.mats["m 17"] = (Fr("7850.000000000001"), Fr("21000000.000000004"), Fr("8100000.0000000009"), Fr("0.30000000000000004"), Fr("27500.000000000004"), Fr("43000"))
    s.secs["s-17"] = (Fr("10.300000000000001"), Fr("171.00000000000003"), Fr("15.920000000000002"), Fr("34.200000000000003"), Fr("5.7900000000000009"))
    # values that are exactly zero are values too (a round bar given without its weak-axis data, a weightless material)
    s.secs["z 0"] = (Fr("3.14"), Fr("0.785"), Fr(0), Fr("1.57"), Fr(0))
    # materials and sections are separate name spaces: the same name in both
    s.mats["S275"] = (Fr("0.00000785"), Fr("21000000"), Fr("8100000"), Fr("0.3"), Fr("27500"), Fr("43000"))
    s.secs["S275"] = (Fr("28.5"), Fr("1943"), Fr("142"), Fr("194"), Fr("28.5"))
    s.mats["m-0"] = (Fr(0), Fr("21000000"), Fr(0), Fr(0), Fr("27500"), Fr(0))
    for i in range(8):
        s.bars.append({"id": "k%d" % i, "n1": "c%d" % i, "l1": combos[i], "n2": "c%d" % (i + 1), "l2": combos[(i + 3) % 8],
                       "mat": "m-0" if i == 5 else ("S275" if i in (1, 4) else "m 17"), "sec": "z 0" if i in (2, 5) else ("S275" if i in (3, 6) else "s-17")})
    s.loads = [{"kind": "c", "term": "fy", "local": True, "bar": "k0", "t": Fr("0.33333333333333331"), "v": Fr("-100.00000000000001")},
               {"kind": "d", "term": "fx", "local": False, "bar": "k3", "t0": Fr("0.10000000000000001"), "v0": Fr("-0.30000000000000004"),
                "t1": Fr("0.90000000000000002"), "v1": Fr("12345.678901234568")},
               {"kind": "c", "term": "mz", "local": False, "bar": "k7", "t": Fr("1"), "v": Fr("1.0000000000000002e-30")}]
    return s


def expect(s, o):
    """the structure the text describes, field for field, against what the reader produced"""
    fails = []
    if o.get("ParsePanic"):
        return ["a well-formed definition was rejected: " + o["ParsePanic"][:200]]
    f = lambda x: Fr(float(x))     # the float64 nearest to the decimal written in the text

    def same(go, dec_value, what):
        if C.ffloat(go) != f(dec_value):
            fails.append("%s: parsed %s, the text says %s" % (what, go, G.dec(dec_value)))
    nodes = {n["ID"]: n for n in o["Nodes"]}
    if set(nodes) != set(s.nodes):
        fails.append("nodes %s, the text defines %s" % (sorted(nodes)[:6], sorted(s.nodes)[:6]))
        return fails
    for k, (x, y, c) in s.nodes.items():
        n = nodes[k]
        same(n["X"], x, "node %s x" % k)
        same(n["Y"], y, "node %s y" % k)
        if (n["Dx"], n["Dy"], n["Rz"]) != tuple(c):
            fails.append("node %s constraint %s, the text says %s" % (k, (n["Dx"], n["Dy"], n["Rz"]), c))
    if [b["ID"] for b in o["Bars"]] != [b["id"] for b in s.bars]:
        fails.append("bars %s, the text defines %s" % ([b["ID"] for b in o["Bars"]][:6], [b["id"] for b in s.bars][:6]))
        return fails
    for jb, b in zip(o["Bars"], s.bars):
        if (jb["N1"], jb["N2"], tuple(jb["L1"]), tuple(jb["L2"]), jb["Mat"], jb["Sec"]) != (b["n1"], b["n2"], tuple(b["l1"]), tuple(b["l2"]), b["mat"], b["sec"]):
            fails.append("bar %s: nodes / links / material / section differ from the text" % b["id"])
        for got, want, nm in zip(jb["MatAll"], s.mats[b["mat"]], ("density", "young", "shear", "poisson", "yield", "ultimate")):
            same(got, want, "material %s %s" % (b["mat"], nm))
        for got, want, nm in zip(jb["SecAll"], s.secs[b["sec"]], ("area", "istrong", "iweak", "sstrong", "sweak")):
            same(got, want, "section %s %s" % (b["sec"], nm))
        cl = [l for l in s.loads if l["bar"] == b["id"] and l["kind"] == "c"]
        dl = [l for l in s.loads if l["bar"] == b["id"] and l["kind"] == "d"]
        gc, gd = jb.get("CL") or [], jb.get("DL") or []
        if len(gc) != len(cl) or len(gd) != len(dl):
            fails.append("bar %s carries %d+%d loads, the text gives it %d+%d" % (b["id"], len(gc), len(gd), len(cl), len(dl)))
            continue
        for g, l in zip(gc, cl):
            if (g["Term"], g["Local"]) != (l["term"], l["local"]):
                fails.append("bar %s: load term / frame %s %s, the text says %s %s" % (b["id"], g["Term"], g["Local"], l["term"], l["local"]))
            same(g["T"], l["t"], "bar %s load position" % b["id"])
            same(g["V"], l["v"], "bar %s load value" % b["id"])
        for g, l in zip(gd, dl):
            if (g["Term"], g["Local"]) != (l["term"], l["local"]):
                fails.append("bar %s: load term / frame differ" % b["id"])
            for key, k2 in (("T0", "t0"), ("V0", "v0"), ("T1", "t1"), ("V1", "v1")):
                same(g[key], l[k2], "bar %s distributed load %s" % (b["id"], k2))
    return fails[:6]


def same_structure(a, b):
    """two reader outputs describe equal structures (maps by key, bars and their loads in order)"""
    if a.get("ParsePanic") or b.get("ParsePanic"):
        return "one of the two texts was rejected: %s" % (a.get("ParsePanic") or b.get("ParsePanic"))[:200]
    na = {n["ID"]: (n["X"], n["Y"], n["Dx"], n["Dy"], n["Rz"]) for n in a["Nodes"]}
    nb = {n["ID"]: (n["X"], n["Y"], n["Dx"], n["Dy"], n["Rz"]) for n in b["Nodes"]}
    if na != nb:
        bad = [k for k in set(na) | set(nb) if na.get(k) != nb.get(k)]
        return "nodes differ: %s %s vs %s" % (bad[:3], [na.get(k) for k in bad[:2]], [nb.get(k) for k in bad[:2]])
    key = lambda x: (x["ID"], x["N1"], x["N2"], x["L1"], x["L2"], x["Mat"], x["Sec"], x["MatAll"], x["SecAll"], x.get("CL") or [], x.get("DL") or [])
    if [key(x) for x in a["Bars"]] != [key(x) for x in b["Bars"]]:
        for x, y in zip(a["Bars"], b["Bars"]):
            if key(x) != key(y):
                return "bar %s differs after the round trip: %s vs %s" % (x["ID"], key(x), key(y))
        return "bar lists differ in length"
    return None


def run(ctx):
    rng = random.Random(ctx.seed)
    res = C.prove(ctx, "Properties/C10.v", extra_targets=["Corr/Compare.vo"])
    ctx.log("proof stage:", "ok (%d theorems)" % res["discharged"] if res["ok"] else "BROKEN at " + res["stage"] + " " + str(res.get("failed_at", "")))
    n_struct, n_lay, n_bad = (10, 4, 40) if ctx.tier == "quick" else (150, 8, 1500)
    items = []      # (kind, structure or None, text)
    for i in range(n_struct + 1):
        if i == n_struct:
            s = coverage_structure()
        else:
            s = G.gen_frame(rng, max_cells=1) if i % 2 else G.gen_solvable(rng)
        if i % 3 == 0 and i < n_struct:
            s = rename(rng, s)
        if i % 4 == 1:
            s.node_dof_notes = {k: (3 * j, 3 * j + 1, 3 * j + 2) for j, k in enumerate(s.nodes) if j % 2 == 0}
        if i % 5 == 2:
            s.bar_counts = {b["id"]: rng.randint(2, 14) for b in s.bars[:2]}
        if i % 3 == 1:
            # coordinates and values that need more than six decimals / a wide exponent range
            s.nodes = {k: (x + Fr(rng.choice(["0.0000001234", "0.00000000077", "1e-12"])), y - Fr("0.123456789"), c) for k, (x, y, c) in s.nodes.items()}
        if i % 3 == 2 and len(s.bars) > 1:
            # the loads of a bar need not stand on consecutive lines (files that list loads by kind): two more loads per bar,
            # then the whole list interleaved
            for b in s.bars[:3]:
                s.loads.append({"kind": "d", "term": "fy", "local": True, "bar": b["id"], "t0": Fr(0), "v0": Fr(-11), "t1": Fr(1), "v1": Fr(-11)})
                s.loads.append({"kind": "d", "term": "fx", "local": True, "bar": b["id"], "t0": Fr(0), "v0": Fr(4), "t1": Fr(1), "v1": Fr(7)})
            s.loads = s.loads[0::2] + s.loads[1::2]
        if not s.loads:
            s.loads = G.gen_loads_for_bar(rng, s.bars[0]["id"], nmax=3) or [{"kind": "c", "term": "fy", "local": True, "bar": s.bars[0]["id"], "t": Fr("0.5"), "v": Fr(-10)}]
        fixed_orders = [None, ("nodes", "materials", "sections", "bars", "loads"), ("bars", "loads", "sections", "materials", "nodes"),
                        ("loads", "nodes", "bars", "materials", "sections")]
        for k in range(n_lay):
            items.append(("layout", s, L.layout(rng, s, plain=(k == 0), order=fixed_orders[k] if k < len(fixed_orders) else None)))
    # shipped examples as they are
    import glob
    import os
    for p in sorted(glob.glob(os.path.join(C.REPO, "examples", "*.inkfem")))[: (6 if ctx.tier == "quick" else 99)]:
        if "retic" in p or "20x10" in p:
            continue
        items.append(("example", None, open(p).read()))
    valid = [t for k, s, t in items if k == "layout"]
    for _ in range(n_bad):
        kind, txt = (L.corruptions(rng, rng.choice(valid), 1) or [("none", None)])[0]
        if txt is not None:
            items.append(("fault/" + kind, None, txt))
    if ctx.replay:
        import json
        rep = json.load(open(ctx.replay))["replay"]
        if rep.get("text") is not None:
            items = [("replay", None, rep["text"])]
    n_tmpl = 8 if ctx.tier == "quick" else 80
    outs = S.run_pipeline(ctx, [{"Text": t, "ParseOnly": True, "WriteBack": True, "Templates": k == "layout" and j % 4 == 0 and j < 4 * n_tmpl}
                                for j, (k, s, t) in enumerate(items)])
    ctx.log("read %d definition texts with the implementation (%d layouts of %d structures, %d single-fault corruptions)" % (
        len(items), len(valid), n_struct, sum(1 for k, s, t in items if k.startswith("fault"))))
    concrete = 0
    back = []
    for (kind, s, text), o in zip(items, outs):
        if kind == "layout":
            fails = expect(s, o)
            if fails:
                if concrete < 3:
                    ctx.violation("the reader does not yield the structure the text describes: " + "; ".join(fails[:3]), {"text": text, "failures": fails})
                concrete += 1
        if not o.get("ParsePanic") and o.get("DefText"):
            back.append((text, o))
    # a definition with thousands of load lines (every value different), read several times over: each load reaches its own bar
    if not ctx.replay:
        big = G.gen_chain(rng)
        big.loads = []
        per = (3000 if ctx.tier == "quick" else 12000) // max(1, len(big.bars))
        for bi, b in enumerate(big.bars):
            for k in range(per):
                if k % 3 == 2:
                    big.loads.append({"kind": "d", "term": ["fy", "fx"][k % 2], "local": k % 5 != 0, "bar": b["id"], "t0": Fr(k % 400, 1000), "v0": Fr(-k - 1), "t1": Fr(600 + k % 400, 1000), "v1": Fr(bi + 1)})
                else:
                    big.loads.append({"kind": "c", "term": ["fy", "fx", "mz"][k % 3], "local": k % 4 != 0, "bar": b["id"], "t": Fr(k % 1000, 1000), "v": Fr(1000 * bi + k + 1)})
        btext = L.layout(rng, big, plain=True)
        nread = 8 if ctx.tier == "quick" else 16
        for o in S.run_pipeline(ctx, [{"Text": btext, "ParseOnly": True, "Isolate": j % 2 == 1} for j in range(nread)]):
            fails = expect(big, o)
            if fails:
                if concrete < 3:
                    ctx.violation("the reader does not yield the structure the text describes (a definition with %d load lines): %s" % (len(big.loads), "; ".join(fails[:3])),
                                  {"text": btext[:2000] + "\n...", "failures": fails[:10], "how": "tools: G.gen_chain with %d generated load lines per bar, read %d times" % (per, nread)})
                concrete += 1
                break
        # (whether a slip in a reader that works on many lines at a time shows in the values is a matter of scheduling: the same text once
        # under Go's race detector - supporting evidence, a detector)
        from . import C08
        before = len(ctx.violations)
        raced = C08.race_on(ctx, ["pre", "x.inkfem"], {"x.inkfem": btext}, "a definition with %d load lines" % len(big.loads))
        concrete += len(ctx.violations) - before
        ctx.coverage["long_load_sections"] = {"load_lines": len(big.loads), "reads": nread, "race_detector_runs": raced}
    # write / read round trip through the implementation
    outs2 = S.run_pipeline(ctx, [{"Text": o["DefText"], "ParseOnly": True} for t, o in back])
    rt = 0
    for (text, o), o2 in zip(back, outs2):
        d = same_structure(o, o2)
        rt += 1
        if d:
            if concrete < 3:
                ctx.violation("writing the structure and reading the text back gives a different structure: " + d, {"text": text, "written": o["DefText"]})
            concrete += 1
    ctx.log("round trip write -> read on %d structures" % rt)
    validated, corr = 0, None
    if res["stage"] != "translate":
        terms = [read_case_term(t, o) for (k, s, t), o in zip(items, outs)]
        n, mism = S.run_stage(ctx, "A", terms, cases_v, shard=6)
        ctx.log("stage A: %d texts read by the Coq model and compared field by field, %s" % (n, "no mismatch" if mism == [] else ("BROKEN" if mism is None else "%d mismatch" % len(mism))))
        if mism is None:
            corr = ("case file did not compile", None)
        elif mism:
            corr = ("reader model and implementation differ: " + mism[0][1][:300], items[mism[0][0]][2])
        else:
            validated = n
    if res["stage"] != "translate":
        triples = [("tmpl_definition", o["DefData"], o["DefText"]) for o in outs if o.get("DefData") and o.get("DefText")]
        ng, mg = S.stageG(ctx, triples)
        ctx.log("stage G: %d definition texts rendered by the Coq model of text/template from the translated template, %s" % (
            ng, "identical to what Go wrote" if mg == [] else ("BROKEN" if mg is None else "%d differ" % len(mg))))
        if mg is None:
            corr = corr or ("stage G case file did not compile", None)
        elif mg:
            corr = corr or ("the translated definition template rendered by the model differs from the written text: " + mg[0][1][:200], None)
        else:
            validated += ng
    if corr and concrete == 0:
        ctx.violation("correspondence between the Coq reader model and the implementation no longer holds (%s)" % corr[0],
                      {"correspondence": corr[0], "text": corr[1], "searched": "%d texts through the field-by-field and round-trip oracles, none fails" % len(items)}, no_input=True)
    if not res["ok"] and concrete == 0:
        ctx.violation("proof obligation no longer checks (%s %s)" % (res["stage"], res.get("failed_at", "")),
                      {"theorem_file": "Properties/C10.v", "stage": res["stage"], "failed_at": res.get("failed_at"), "log_tail": res["log"][-3000:],
                       "searched": "%d texts through the oracles, none fails" % len(items)}, no_input=True)
    dist = {}
    for k, s, t in items:
        dist[k] = dist.get(k, 0) + 1
    ctx.coverage = {
        "obligations": res["obligations"], "discharged": res["discharged"],
        "checker_cmd": "make -C coq Properties/C10.vo && coqc Properties/C10.v (Coq 8.16.1, full .vo build)",
        "trusted_base": C.standard_trusted_base(res) + ["Go regexp engine, strconv.ParseFloat / %v formatting: modelled (backtracking matcher on the translated expressions; exact decimal value, half-ulp allowance), agreement checked on every text of every run"],
        "theorems": res.get("names", []), "traces_validated_against_impl": validated, "evaluations": len(items),
        "distinct_nontrivial": len({t for k, s, t in items if k == "layout"}), "distribution": dist, "round_trips": rt,
        "rule": "structures (a fixed one holding all 8 constraint / link combinations and 16-17 digit numbers; frames with all link kinds, solvable shapes; every third under other identifiers and names with spaces / dashes; some with equation numbers on node lines and '>> n' on bar lines) "
                "written in several layouts each: any section order, sections split in two, comments, blank lines, tabs and padding, CRLF, header counts, every spelling of the numbers (signs, leading / trailing "
                "zeros, exponents); plus shipped examples and single-fault corruptions (also used by C14). Oracles: parsed structure = the structure the text was written from, field for field (numbers: "
                "nearest float64 of the decimal); write -> read gives an equal structure. Stage A: the Coq reader model (translated regular expressions) reads the same text; verdict, error class and every "
                "field compared in Coq. non-trivial = distinct well-formed layouts",
        "samples": [valid[-1][:600]] if valid else [],
    }
    ctx.assumptions = ["numbers: the reader keeps the float64 nearest to the decimal text (strconv), the model keeps the exact decimal; they must agree within half an ulp"]
