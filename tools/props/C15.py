"""C15 — every bar is sliced into a well-formed chain of nodes."""
import re
from fractions import Fraction as Fr

from .. import gen_struct as G
from .. import oracles as O
from .. import stages as S
from . import core


def gen(rng, tier):
    n1, n2 = (140, 25) if tier == "quick" else (3000, 400)
    cases = [core.case_from_struct(G.gen_single_bar(rng), Weight=core.weights(i)) for i in range(n1)]
    cases += [core.case_from_struct(G.gen_frame(rng), Weight=core.weights(i)) for i in range(n2)]
    cases += [core.case_from_struct(G.gen_twins(rng), Weight=core.weights(i)) for i in range(6 if tier == "quick" else 100)]
    cases += [core.case_from_struct(G.gen_pinned_near_end(rng), Weight=False) for i in range(8 if tier == "quick" else 100)]
    # bars that are short in the units of the file (a bracket in a structure given in kilometres): length is not a slicing criterion
    for i in range(6 if tier == "quick" else 60):
        s = G.gen_single_bar(rng)
        b = s.bars[0]
        (x1, y1, c1), (x2, y2, c2) = s.nodes[b["n1"]], s.nodes[b["n2"]]
        k = Fr(rng.choice(["0.000002", "0.0000007", "0.00001"]))
        s.nodes[b["n2"]] = (x1 + (x2 - x1) * k, y1 + (y2 - y1) * k, c2)
        if i % 2 == 0:
            s.loads = []
        s.meta = {"kind": "short-bar"}
        cases.append(core.case_from_struct(s, Weight=False))
    # bars that are almost, but not quite, parallel to an axis (a column 0.03 mm out of plumb over 3 m, a cambered beam): the nodes lie on
    # the bar's own axis and the last one at the bar's end, not on the vertical or horizontal through its start
    for i in range(8 if tier == "quick" else 80):
        s = G.gen_single_bar(rng)
        b = s.bars[0]
        (x1, y1, c1), (x2, y2, c2) = s.nodes[b["n1"]], s.nodes[b["n2"]]
        L = Fr(rng.choice([3, 30, 300]))
        off = L * Fr(rng.choice(["0.00001", "0.000003", "0.0000002", "0.00000001"])) * rng.choice([-1, 1])
        if i % 2 == 0:
            s.nodes[b["n2"]] = (x1 + off, y1 + L * rng.choice([-1, 1]), c2)
        else:
            s.nodes[b["n2"]] = (x1 + L * rng.choice([-1, 1]), y1 + off, c2)
        if i % 4 < 2:
            s.loads = []
        s.meta = {"kind": "near-axis"}
        c = core.case_from_struct(s, Weight=core.weights(i))
        if c["Weight"] or any(not l["local"] for l in s.loads):
            # the sine of such a bar comes out of a cancellation (dy = 3e-7 between coordinates of 27.3): it is exact to 1e-16, not to
            # 1e-16 of itself, which is what the comparison of stage B assumes of its inputs - loads projected with it are judged by
            # the oracle only
            c["NoStage"] = True
        cases.append(c)
    # a uniform downward load over the last part of a bar (it reaches the bar's end, not its start), with and without the weight
    for i in range(4 if tier == "quick" else 24):
        s = G.gen_single_bar(rng)
        b = s.bars[0]
        if not (b["l1"][2] or b["l2"][2]):
            b["l1"] = G.LINKS["rigid"]
        t0 = Fr(rng.choice(["0.35", "0.62", "0.05"]))
        q = Fr(rng.choice([-3, -40]))
        s.loads = [{"kind": "d", "term": "fy", "local": False, "bar": b["id"], "t0": t0, "v0": q, "t1": Fr(1), "v1": q}]
        s.meta = {"kind": "partial-uniform-global"}
        cases.append(core.case_from_struct(s, Weight=(i % 2 == 0)))
    # a frame with hundreds of loaded bars, preprocessed a dozen times over in one process (its bars are sliced at the same time)
    import subprocess
    from .. import cli
    big = subprocess.run([cli.BIN, "generate", "--type", "retic", "--spans", "20", "--levels", "10"], stdout=subprocess.PIPE, text=True).stdout
    for w in (True, False):
        cases.append({"Text": big, "kind": "large-frame/repeated", "Weight": w, "Repeat": 12 if tier == "quick" else 40, "NoStage": True})
    return cases


def oracle(c, o):
    fails = []
    byid = {b["ID"]: b for b in o["Bars"]}
    for k, pre in enumerate(o["Pre"]):
        if pre.get("Panic"):
            continue
        for pb in pre["Bars"]:
            if pb["ID"] in byid:
                fails += [f + (" (preprocessing number %d of the same definition in one process)" % (k + 1) if k else "") for f in O.c15_bar(byid[pb["ID"]], pb, bool(c.get("Weight")))]
        if sorted(pb["ID"] for pb in pre["Bars"]) != sorted(byid):
            fails.append("sliced bars %s are not the bars of the input %s" % (sorted(pb["ID"] for pb in pre["Bars"])[:5], sorted(byid)[:5]))
        if fails:
            break
    return fails


SPEC = {
    "prop_file": "Properties/C15.v",
    "gen": gen,
    "oracle": oracle,
    "stages": [("B", lambda c, o, rng: None if c.get("NoStage") else S.stageB_case(o, bool(c.get("Weight"))), S.stageB_v, 6, None)],
    "nontrivial": lambda c, o: any(len(S.load_positions(b)) > 0 for b in o["Bars"]),
    "rule": "single bars (any direction, rigid/pinned ends, 0-6 loads at positions k/10, k/6 displaced by 0, 5e-11, 1e-6, 5e-4, 9.9e-4, 1.1e-3, 2e-3 ...) and frames on a 3a x 4a grid; twin bars whose load positions agree to six or more decimals without being equal; "
            "own weight on every third case; non-trivial iff some bar has an interior load position; every case goes through StructureModel, the chain oracle and the Coq evaluation of preprocess_bar (stage B)",
    "assumptions": ["inkgeom TParam/FloatsEqual (|a-b| < 1e-10), Segment.PointAt, SubTParamCompleteRangeTimes modelled (external library)",
                    "generated positions keep 1e-13 away from the 1e-10 and 1e-9 away from the 1e-3 decision boundaries"],
}


def cli_pre(ctx):
    """the pre command itself (what it writes, read back by the implementation's own reader) goes through the same
    chain oracle, with and without -w: among the structures one with a weightless material next to ordinary ones"""
    import random
    from fractions import Fraction as Fr
    from .. import cli
    from .. import common as C
    rng = random.Random(ctx.seed + 15)
    structs = []
    for i in range(4 if ctx.tier == "quick" else 40):
        s = [G.gen_portal, G.gen_chain, G.gen_frame, G.gen_truss][i % 4](rng)
        if i % 2 == 0:
            # a fictitious weightless material (rigid links, ties) on one bar
            s.mats["weightless"] = (Fr(0), Fr(21000000), Fr(8100000), Fr("0.3"), Fr(27500), Fr(43000))
            s.bars[i // 2 % len(s.bars)]["mat"] = "weightless"
        if i % 2 == 1 and s.bars:
            # loads that amount to nothing in total are loads all the same: a linear load from -q to +q (a couple), a zero-valued
            # point load used as a marker
            b = s.bars[i // 2 % len(s.bars)]["id"]
            s.loads = [l for l in s.loads if l["bar"] != b]
            s.loads.append({"kind": "d", "term": "fy", "local": True, "bar": b, "t0": Fr("0.25"), "v0": Fr(-40), "t1": Fr("0.75"), "v1": Fr(40)})
            s.loads.append({"kind": "c", "term": "fx", "local": True, "bar": b, "t": Fr("0.4375"), "v": Fr(0)})
        structs.append(s)
    runs = bad = 0
    for s in structs:
        text = s.text()
        for w in (True, False):
            args = ["pre"] + (["-w"] if w else []) + ["x.inkfem"]
            r = cli.run(ctx, args, files={"x.inkfem": text}, name="c15")
            runs += 1
            o = S.run_pipeline(ctx, [{"Text": text, "Weight": w}])[0]
            if o.get("ParsePanic") or not o.get("Pre") or o["Pre"][0].get("Panic"):
                continue
            rep = {"args": args, "text": text}
            pre_text = r.files.get("x.inkfempre")
            if r.status != 0 or not pre_text:
                ctx.violation("%s exits %s without x.inkfempre on a structure the library preprocesses" % (" ".join(args), r.status), rep)
                bad += 1
                continue
            back = C.dump("readpre", [{"Text": pre_text}])[0]
            if back.get("Panic") or not back.get("Pre"):
                ctx.violation("%s: inkfem does not read back what it wrote: %s" % (" ".join(args), (back.get("Panic") or "")[:200]), rep)
                bad += 1
                continue
            byid = {b["ID"]: b for b in o["Bars"]}
            fails = []
            m = re.search(r"includes_own_weight:\s*(\w+)", pre_text)
            if m and (m.group(1) == "yes") != w:
                fails.append("the file says includes_own_weight: %s" % m.group(1))
            for pb in back["Pre"]["Bars"]:
                if pb["ID"] in byid:
                    fails += O.c15_bar(byid[pb["ID"]], pb, w)
            if sorted(pb["ID"] for pb in back["Pre"]["Bars"]) != sorted(byid):
                fails.append("sliced bars %s are not the bars of the input" % sorted(pb["ID"] for pb in back["Pre"]["Bars"])[:5])
            if fails:
                if bad < 3:
                    ctx.violation("%s writes a structure that is not sliced as documented: %s" % (" ".join(args), "; ".join(fails[:3])), dict(rep, failures=fails[:10]))
                bad += 1
    ctx.log("%d runs of the pre command (with and without -w, weightless materials included) read back and put through the chain oracle" % runs)
    return runs


def run(ctx):
    core.run(ctx, SPEC)
    # the frame with hundreds of loaded bars once through `pre -w` under Go's race detector (supporting evidence: bars are sliced at the
    # same time; whether a buffer shared between two of them shows in the positions is the scheduler's call)
    import subprocess
    from .. import cli
    from . import C08
    big = subprocess.run([cli.BIN, "generate", "--type", "retic", "--spans", "20", "--levels", "10"], stdout=subprocess.PIPE, text=True).stdout
    ctx.coverage["race_detector_runs"] = C08.race_on(ctx, ["pre", "-w", "x.inkfem"], {"x.inkfem": big}, "a 20 x 10 frame (200 loaded beams)")
    n = cli_pre(ctx)
    ctx.coverage["pre_command_runs"] = n
