"""C15 — every bar is sliced into a well-formed chain of nodes."""
from .. import gen_struct as G
from .. import oracles as O
from .. import stages as S
from . import core


def gen(rng, tier):
    n1, n2 = (140, 25) if tier == "quick" else (3000, 400)
    cases = [core.case_from_struct(G.gen_single_bar(rng), Weight=core.weights(i)) for i in range(n1)]
    cases += [core.case_from_struct(G.gen_frame(rng), Weight=core.weights(i)) for i in range(n2)]
    cases += [core.case_from_struct(G.gen_twins(rng), Weight=core.weights(i)) for i in range(6 if tier == "quick" else 100)]
    cases += [core.case_from_struct(G.gen_pinned_near_end(rng), Weight=False) for i in range(8 if tier == "quick" else 100)]
    return cases


def oracle(c, o):
    fails = []
    pre = o["Pre"][0]
    byid = {b["ID"]: b for b in o["Bars"]}
    for pb in pre["Bars"]:
        fails += O.c15_bar(byid[pb["ID"]], pb, bool(c.get("Weight")))
    if sorted(pb["ID"] for pb in pre["Bars"]) != sorted(byid):
        fails.append("sliced bars %s are not the bars of the input %s" % (sorted(pb["ID"] for pb in pre["Bars"])[:5], sorted(byid)[:5]))
    return fails


SPEC = {
    "prop_file": "Properties/C15.v",
    "gen": gen,
    "oracle": oracle,
    "stages": [("B", lambda c, o, rng: S.stageB_case(o, bool(c.get("Weight"))), S.stageB_v, 6, None)],
    "nontrivial": lambda c, o: any(len(S.load_positions(b)) > 0 for b in o["Bars"]),
    "rule": "single bars (any direction, rigid/pinned ends, 0-6 loads at positions k/10, k/6 displaced by 0, 5e-11, 1e-6, 5e-4, 9.9e-4, 1.1e-3, 2e-3 ...) and frames on a 3a x 4a grid; twin bars whose load positions agree to six or more decimals without being equal; "
            "own weight on every third case; non-trivial iff some bar has an interior load position; every case goes through StructureModel, the chain oracle and the Coq evaluation of preprocess_bar (stage B)",
    "assumptions": ["inkgeom TParam/FloatsEqual (|a-b| < 1e-10), Segment.PointAt, SubTParamCompleteRangeTimes modelled (external library)",
                    "generated positions keep 1e-13 away from the 1e-10 and 1e-9 away from the 1e-3 decision boundaries"],
}


def run(ctx):
    core.run(ctx, SPEC)
