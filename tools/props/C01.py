"""C01 — reported displacements are the exact linear-elastic frame response."""
from .. import physics as P
from . import core, solcore


def oracle(c, o):
    if not solcore.solved(o) or c.get("Rep", 0) >= 3:       # (the many repeats of one heavily loaded bar are for C02: three of them are compared here)
        return []
    ex = solcore.exact_of(c, o)
    if ex is None:
        return []
    if ex == "singular":
        return []   # not a stable structure: outside the property (C05 decides what solve may do with it)
    rows = P.inverse_row_sums(o)
    if rows is None:
        return []
    return P.c01_structure(o, bool(c.get("Weight")), ex, rows)


def gen(rng, tier):
    from .. import gen_struct as G
    cases = solcore.gen(rng, tier)
    # a program that solves several structures at the same time (each in a goroutine of its own, one process):
    # every one must get the answer it gets alone
    for i in range(10 if tier == "quick" else 60):
        s = [G.gen_portal, G.gen_beam, G.gen_chain][i % 3](rng)
        c = core.case_from_struct(s, Weight=core.weights(i), Solve=True, Assemble=True, Error="1e-6", Concurrent=True)
        c["kind"] += "+concurrent"
        cases.append(c)
    # many members bringing a load term to the same two equations (a hub), solved several times over
    hub = G.gen_hub(rng, 40 if tier == "quick" else 64)
    for k in range(12 if tier == "quick" else 40):
        cases.append(core.case_from_struct(hub, Weight=False, Solve=True, Assemble=True, Error="1e-4"))
    return cases


def exact_applicable(c, o):
    return solcore.solved(o) and solcore.exact_of(c, o) not in (None, "singular")


SPEC = {
    "text_fidelity": True,
    "prop_file": ["Properties/C01.v", "Properties/C02_kernel.v"],
    "gen": gen,
    "oracle": oracle,
    "corpus_opts": {"Solve": True, "Assemble": True},
    "stages": [("F", solcore.stageF, P.stageF_v, 2, None)],
    "nontrivial": exact_applicable,
    "rule": solcore.RULE + "non-trivial iff solved, stable and compared with the exact solution. Oracle: an independent exact Euler-Bernoulli frame solver in rational arithmetic "
            "(tools/exact_frame.py: unsliced bars, textbook stiffness, equivalent loads by integrating Hermite shape functions, Gaussian elimination over Fractions, fields by integrating statics) "
            "gives u, v, theta at every listed position; the reported global displacements must agree within 2 x requested error x sum_j |K^-1_ij| (the bound of C01_error_bound; row sums "
            "from a float inverse of the implementation's own system) + 1e-9 max|u|; bar ends sharing a joint component must report identical values. Stage F: the six displacement series are "
            "the solver's answer copied at the slice nodes' numbers and rotated (Model/Recover.v).",
    "assumptions": ["solver oracle: the answer meets every equation within the requested error (C05)",
                    "exact oracle applies to bars of rational length without distributed moments (the property's scope); other structures are compared with the Coq model only",
                    "K^-1 row sums for the tolerance are computed in floating point (numpy); they scale a tolerance, they are not part of any proof"],
}


def run(ctx):
    # (quick tier: the first 64 solved cases - the fixed families come first - go through the Coq model; the thorough tier takes all)
    SPEC["stages"] = [("F", solcore.stageF, P.stageF_v, 2, 64 if ctx.tier == "quick" else None)]
    core.run(ctx, SPEC)
