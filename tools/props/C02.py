"""C02 — axial, shear and bending diagrams satisfy statics along every bar."""
from .. import physics as P
from . import core, solcore


def oracle(c, o):
    if not solcore.solved(o):
        return []
    return P.c02_structure(o, bool(c.get("Weight")))


SPEC = {
    "prop_file": ["Properties/C02.v", "Properties/C02_kernel.v"],
    "gen": solcore.gen,
    "oracle": oracle,
    "corpus_opts": {"Solve": True, "Assemble": True},
    "stages": [("F", solcore.stageF, P.stageF_v, 2, None)],
    "nontrivial": lambda c, o: solcore.solved(o) and any((b.get("DL") or b.get("CL")) for b in o["Bars"]),
    "rule": solcore.RULE + "non-trivial iff solved and loaded. Oracle: for every bar the listed axial stress, shear and bending moment are compared, left and right of every slice node, with "
            "statics integrated exactly (rationals) from the bar's first listed values over the user's loads; jumps at concentrated loads; top fibre = M/S; local = rotated global. "
            "Stage F: the Coq model of the recovery (Model/Recover.v over recover_gen) is evaluated on the implementation's sliced bars and solver answer and compared with every listed value.",
    "assumptions": ["solver oracle: statics tolerance = (nodes passed) x requested error per equation (every equation is met within the error, C05) + 1e-11 x stiffness x displacement scale",
                    "merging of equal left/right values is accepted either way when the model's difference is within the comparison tolerance of eps"],
}


def run(ctx):
    # (quick tier: the first 64 solved cases - the fixed families come first - go through the Coq model; the thorough tier takes all)
    SPEC["stages"] = [("F", solcore.stageF, P.stageF_v, 2, 64 if ctx.tier == "quick" else None)]
    core.run(ctx, SPEC)
    # the heavily loaded bar of the shared generator once under Go's race detector (supporting evidence: whether a slip in code that
    # loads the finite elements of a bar at the same time shows in the values is a matter of scheduling)
    import random
    from .. import gen_struct as G
    from . import C08
    many = G.gen_many_positions(random.Random(ctx.seed + 2), 22, 8)
    ctx.coverage["race_detector_runs"] = C08.race_on(ctx, ["solve", "-e", "1e-3", "x.inkfem"], {"x.inkfem": many.text()}, "a bar with 22 point loads and 8 distributed loads")
