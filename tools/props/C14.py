"""C14 — invalid input and I/O failures are reported, never absorbed."""
import glob
import os
import random
import re
from fractions import Fraction as Fr

from .. import cli
from .. import common as C
from .. import gen_struct as G
from .. import layouts as L
from .. import stages as S
from . import C10


def exhaustive_faults(text, alphabet="x{'"):
    """every line deleted; every character of every content line replaced by each symbol of a
    small alphabet (thorough tier)"""
    lines = text.split("\n")
    out = []
    for k in L.content_line_indices(text):
        out.append(("delete", "\n".join(lines[:k] + lines[k + 1:])))
        for p in range(len(lines[k])):
            for c in alphabet:
                if lines[k][p] != c:
                    out.append(("garble", "\n".join(lines[:k] + [lines[k][:p] + c + lines[k][p + 1:]] + lines[k + 1:])))
    return out


def count_oracle(text, o):
    """an accepted text: every content line is the header, a section header, or defines an
    entity that shows in the result (independent of the Coq model; duplicates make it abstain)"""
    sec = None
    counts = {"nodes": [], "loads": 0, "bars": []}
    stray = []
    first = True
    for raw in text.split("\n"):
        l = raw.strip()
        if not l or l.startswith("#"):
            continue
        if first:
            first = False
            continue
        m = re.match(r"^\|([\w-]+)\|(\s*\d+)?$", l)
        if m:
            sec = m.group(1)
            continue
        if sec not in ("nodes", "materials", "sections", "loads", "bars"):
            stray.append(l)
        if sec == "nodes":
            counts["nodes"].append(l.split("->")[0].strip())
        elif sec == "loads":
            counts["loads"] += 1
            if l.split()[0] not in ("fx", "fy", "mz"):
                stray.append("load term " + l.split()[0] + " in: " + l)
        elif sec == "bars":
            counts["bars"].append(l.split("->")[0].strip())
    fails = []
    if stray:
        fails.append("the line %r stands outside any known section or names an unknown load term, and the text was accepted" % stray[0][:60])
    if len(set(counts["nodes"])) == len(counts["nodes"]) and len(o["Nodes"] or []) != len(counts["nodes"]):
        fails.append("%d node lines, %d nodes in the structure" % (len(counts["nodes"]), len(o["Nodes"] or [])))
    if len(o["Bars"] or []) != len(counts["bars"]):
        fails.append("%d bar lines, %d bars in the structure" % (len(counts["bars"]), len(o["Bars"] or [])))
    attached = sum(len(b.get("CL") or []) + len(b.get("DL") or []) for b in o["Bars"] or [])
    if len(set(counts["bars"])) == len(counts["bars"]) and attached != counts["loads"]:
        fails.append("%d load lines, %d loads attached to bars" % (counts["loads"], attached))
    return fails


def run(ctx):
    rng = random.Random(ctx.seed)
    res = C.prove(ctx, "Properties/C14.v", extra_targets=["Corr/Compare.vo"])
    ctx.log("proof stage:", "ok (%d theorems)" % res["discharged"] if res["ok"] else "BROKEN at " + res["stage"] + " " + str(res.get("failed_at", "")))
    # corpus of valid definitions
    valid = []
    for i in range(4 if ctx.tier == "quick" else 12):
        s = G.gen_solvable(rng) if i % 2 == 0 else G.gen_frame(rng, max_cells=1)
        if not s.loads:
            s.loads = [{"kind": "c", "term": "fy", "local": True, "bar": s.bars[0]["id"], "t": Fr("0.5"), "v": Fr(-10)}]
        order = [None, ("loads", "bars", "nodes", "materials", "sections"), ("bars", "nodes", "loads", "sections", "materials")][i % 3]
        valid.append(L.layout(rng, s, plain=True, order=order))
    for p in sorted(glob.glob(os.path.join(C.REPO, "examples", "*.inkfem"))):
        if any(k in p for k in ("retic", "20x10", "simp_")):
            continue
        valid.append(open(p).read())
        if ctx.tier == "quick" and len(valid) >= 7:
            break
    # sections given in several parts (|loads| ... |bars| ... |loads|): a fault in an earlier part is a fault
    for i in range(2 if ctx.tier == "quick" else 8):
        s = G.gen_frame(rng, max_cells=1)
        while len(s.loads) < 4:
            s.loads += G.gen_loads_for_bar(rng, s.bars[len(s.loads) % len(s.bars)]["id"], nmax=3, allow_mz_dist=False) or []
        base = L.layout(rng, s, plain=True)
        secs = {}
        cur = None
        for l in base.split("\n")[1:]:
            if l.startswith("|"):
                cur = l
                secs[cur] = []
            elif l.strip() and cur:
                secs[cur].append(l)
        parts = ["inkfem v1.1"]
        for pass_ in (0, 1):
            for h, ls in secs.items():
                half = ls[: (len(ls) + 1) // 2] if pass_ == 0 else ls[(len(ls) + 1) // 2:]
                if half:
                    parts += [h] + half + [""]
        valid.append("\n".join(parts) + "\n")
    # a load line written twice is two loads (a repeated line is input too, not noise)
    for t in list(valid[:3]):
        ls = t.split("\n")
        ks = [k for k, l in enumerate(ls) if re.match(r"\s*(fx|fy|mz)\s+[lg]d\s", l)]
        if ks:
            ls.insert(ks[0] + 1, ls[ks[0]])
            valid.append("\n".join(ls))
            break
    else:
        valid.append(valid[0].replace("|loads|", "|loads|\nfy ld %s 0 -50 1 -50\nfy ld %s 0 -50 1 -50" % ((re.search(r"^\s*(\S+)\s*->\s*\S+\s*\{[^}]*\}\s*\S+\s*\{", valid[0].split("|bars|")[1], re.M).group(1),) * 2), 1))
    faults = []
    if ctx.tier == "quick":
        for t in valid:
            faults += L.corruptions(rng, t, 22)
    else:
        for t in valid[:6]:
            faults += exhaustive_faults(t)
        for t in valid:
            faults += L.corruptions(rng, t, 150)
    if ctx.replay:
        import json
        rep = json.load(open(ctx.replay))["replay"]
        if rep.get("text") is not None:
            faults, valid = [("replay", rep["text"])], []
    # hand-made invalid texts: undefined names that run into defined ones when joined with a blank
    base = ("inkfem v1.1\n|nodes|\na -> 0 0 {dx dy rz}\nb -> 100 0 {}\nc -> 200 0 {dx dy}\n|materials|\n'steel s' -> 1 2 3 4 5 6\n|sections|\n'ipe' -> 1 2 3 4 5\n"
            "|bars|\n1 -> a {dx dy rz} b {dx dy rz} 'steel s' 'ipe'\n2 -> b {dx dy rz} c {dx dy rz} %s\n")
    for pair in ("'steel' 's ipe'", "'steel s' 'ipe '", "'steel' 'ipe'", "'steel  s' 'ipe'"):
        faults.append(("collision", base % pair))
    # loads on a bar that is not defined but whose name resembles a defined one (identifiers are free text: '01' is not '1')
    lbase = (base % "'steel s' 'ipe'") + "|loads|\nfx lc 1 0.5 20\nfy ld %s 0 -50 1 -50\nfy lc 2 0.25 -10\n"
    for bid in ("01", "002", "1.0", "+1", "1e0", "2.", "0x1"):
        faults.append(("lookalike", lbase % bid))
    # ... and loads that amount to nothing (no length, no value) on a bar that is not defined: still a load on an undefined bar
    for line in ("fy ld 9 0.5 -50 0.5 -50", "fx ld nobar 0 0 1 0", "mz lc 7 0.5 0", "fy gd 3 1 -2 1 -2"):
        faults.append(("lookalike", (base % "'steel s' 'ipe'") + "|loads|\nfx lc 1 0.5 20\n" + line + "\nfy lc 2 0.25 -10\n"))
    texts = [("valid", t) for t in valid] + faults
    outs = S.run_pipeline(ctx, [{"Text": t, "ParseOnly": True} for k, t in texts])
    rejected = sum(1 for o in outs if o.get("ParsePanic"))
    ctx.log("%d texts (%d valid, %d single-fault corruptions): the reader rejects %d" % (len(texts), len(valid), len(faults), rejected))
    concrete = 0
    for (kind, text), o in zip(texts, outs):
        if o.get("ParsePanic"):
            if kind == "valid":
                ctx.violation("a valid definition is rejected: " + o["ParsePanic"][:200], {"text": text})
                concrete += 1
            continue
        fails = count_oracle(text, o)
        if kind == "collision":
            fails.append("a bar naming an undefined material / section was accepted")
        if kind == "lookalike":
            fails.append("a load on an undefined bar whose name resembles a defined one was accepted")
        if fails:
            if concrete < 3:
                ctx.violation("part of the input is silently ignored: " + "; ".join(fails), {"text": text, "kind": kind, "failures": fails})
            concrete += 1
    # command line: a rejected text means non-zero status, a message, and no solution file
    cli_runs = 0
    sample = [(k, t, o) for (k, t), o in zip(texts, outs) if o.get("ParsePanic")]
    rng.shuffle(sample)
    for kind, text, o in sample[: (25 if ctx.tier == "quick" else 400)]:
        r = cli.run(ctx, ["solve", "x.inkfem"], files={"x.inkfem": text}, name="c14")
        cli_runs += 1
        left = [f for f in r.files if f.endswith(".inkfemsol")]
        if r.status == 0 or left or not (r.stderr.strip() or r.stdout.strip()):
            if concrete < 3:
                ctx.violation("solve on a text the reader rejects (%s): exit status %s, files left %s, message %r" % (
                    o["ParsePanic"][:80], r.status, left, (r.stderr or r.stdout)[:80]), {"text": text, "args": ["solve", "x.inkfem"]})
            concrete += 1
    # wrong extension, missing file, output locations that cannot be created
    good = valid[0] if valid else open(os.path.join(C.REPO, "examples", "cantilever_beam.inkfem")).read()

    def blocked(path):
        return lambda d: os.makedirs(os.path.join(d, path))
    def dead_link(path):
        return lambda d: os.symlink(os.path.join(d, "no_such_dir", path), os.path.join(d, path))
    io_cases = [
        ("solution path is a dead link", ["solve", "x.inkfem"], {"x.inkfem": good}, dead_link("x.inkfemsol"), {}),
        ("preprocessed path is a dead link", ["pre", "x.inkfem"], {"x.inkfem": good}, dead_link("x.inkfempre"), {}),
        ("preprocessed path is a dead link, solve -p", ["solve", "-p", "x.inkfem"], {"x.inkfem": good}, dead_link("x.inkfempre"), {"VERIF_WRITER": "late"}),
        ("wrong extension", ["solve", "x.txt"], {"x.txt": good}, None, {}),
        ("wrong extension for pre", ["pre", "x.inkfempre"], {"x.inkfempre": good}, None, {}),
        ("missing file", ["solve", "nothere.inkfem"], {}, None, {}),
        ("solution file cannot be created", ["solve", "x.inkfem"], {"x.inkfem": good}, blocked("x.inkfemsol"), {}),
        ("solution file cannot be created (missing folder)", ["solve", "sub/x.inkfem"], {"x.inkfem": good}, None, {}),
        ("preprocessed file cannot be created, writer late", ["solve", "-p", "x.inkfem"], {"x.inkfem": good}, blocked("x.inkfempre"), {"VERIF_WRITER": "late"}),
        ("preprocessed file cannot be created, writer early", ["solve", "-p", "x.inkfem"], {"x.inkfem": good}, blocked("x.inkfempre"), {"VERIF_WRITER": "early"}),
        ("preprocessed file cannot be created", ["pre", "x.inkfem"], {"x.inkfem": good}, blocked("x.inkfempre"), {}),
        ("plot file cannot be created", ["plot", "x.inkfem"], {"x.inkfem": good}, blocked("x.inkfem.svg"), {}),
        ("empty file", ["solve", "x.inkfem"], {"x.inkfem": ""}, None, {}),
        ("only a header", ["solve", "x.inkfem"], {"x.inkfem": "inkfem v1.1\n"}, None, {}),
    ]
    for what, args, files, prep, env in io_cases:
        r = cli.run(ctx, args, files=files, prepare=prep, env=env, name="c14io")
        cli_runs += 1
        left = [f for f in r.files if f.endswith(".inkfemsol") and not f.endswith("/") and r.files[f] is not None]   # (a dead link placed there beforehand is not a file left behind)
        if what == "only a header":
            # a definition without bars is valid input for the reader; whatever solve does it must not claim success silently with garbage
            continue
        if r.timeout or r.status == 0 or left or not (r.stderr.strip() or r.stdout.strip()):
            ctx.violation("%s: exit status %s, solution files left %s, message %r" % (what, r.status, left, (r.stderr or r.stdout)[:100]),
                          {"args": args, "files": list(files), "env": env, "what": what})
            concrete += 1
    # a long definition (more than 500 lines) with one wrong line in a short section, several times each;
    # and a preprocessed file one of whose bar lines (not the first) lost its node count
    big = cli.run(ctx, ["generate", "--type", "retic", "--spans", "14", "--levels", "9"], name="c14big").stdout
    blines = big.split("\n")
    secs, cur = {}, None
    for k, l in enumerate(blines):
        if l.startswith("|"):
            cur = l.strip("|")
        elif l.strip() and cur:
            secs.setdefault(cur, []).append(k)
    big_faults = []
    if all(k in secs for k in ("materials", "sections", "loads", "bars")):
        def with_line(k, new, insert=False):
            ls = list(blines)
            if insert:
                ls.insert(k, new)
            else:
                ls[k] = new
            return "\n".join(ls)
        big_faults = [
            ("a second material line with a number missing", with_line(secs["materials"][-1] + 1, "'unused' -> 1 2 3 4 5", insert=True)),
            ("a material line with a damaged number", with_line(secs["materials"][0], blines[secs["materials"][0]].replace("0.3", "0,3"))),
            ("a section line with a damaged number", with_line(secs["sections"][0], blines[secs["sections"][0]].replace("10.3", "1o.3"))),
            ("a load with the unknown term fz", with_line(secs["loads"][2], "fz" + blines[secs["loads"][2]][2:])),
            ("a load line cut short", with_line(secs["loads"][1], " ".join(blines[secs["loads"][1]].split()[:4]))),
            ("a load on an undefined bar", with_line(secs["loads"][-1], blines[secs["loads"][-1]].replace(" ld ", " ld 9", 1))),
        ]
    for what, text in big_faults[: (6 if ctx.tier == "quick" else 6)]:
        for rep_k in range(3 if ctx.tier == "quick" else 10):
            r = cli.run(ctx, ["pre", "x.inkfem"], files={"x.inkfem": text}, name="c14big")
            cli_runs += 1
            if r.status == 0 or "x.inkfempre" in r.files:
                if concrete < 3:
                    ctx.violation("a %d-line definition with %s: pre exits %s%s (run %d of the same command)" % (
                        len(blines), what, r.status, " and writes x.inkfempre" if "x.inkfempre" in r.files else "", rep_k + 1), {"text": text, "args": ["pre", "x.inkfem"], "what": what})
                concrete += 1
                break
    # a very large definition (comments and all: 17 MiB) whose fault stands at its very end
    if good:
        pad = "# " + "." * 97 + "\n"
        huge = good.rstrip("\n") + "\n" + pad * (17 * 1024 * 1024 // len(pad) + 8)
        for what, tail in (("a load on an undefined bar", "|loads|\nfy ld no_such_bar 0 -5 1 -5\n"), ("a line that is nothing", "|bars|\nthis is not a bar\n")):
            r = cli.run(ctx, ["pre", "x.inkfem"], files={"x.inkfem": huge + tail}, name="c14huge", timeout=600)
            cli_runs += 1
            if r.status == 0 or "x.inkfempre" in r.files:
                if concrete < 3:
                    ctx.violation("a definition of %d bytes ending in %s: pre exits %s%s" % (len(huge) + len(tail), what, r.status, " and writes x.inkfempre" if "x.inkfempre" in r.files else ""),
                                  {"how": "a valid definition, then %d comment lines of 100 bytes, then: %r" % (len(huge) // 100, tail), "args": ["pre", "x.inkfem"]})
                concrete += 1
        import shutil
        shutil.rmtree(os.path.join(ctx.work, "cli_c14huge"), ignore_errors=True)
    frame = cli.run(ctx, ["generate", "--type", "retic", "--spans", "2", "--levels", "2"], name="c14pre").stdout
    damaged_pre = []
    for src in (good, frame):       # (in the frame several consecutive bars are sliced into the same number of nodes)
        rp = cli.run(ctx, ["pre", "x.inkfem"], files={"x.inkfem": src}, name="c14pre")
        pre_text = rp.files.get("x.inkfempre") or ""
        heads = [k for k, l in enumerate(pre_text.split("\n")) if re.search(r">>\s*\d+\s*$", l)]
        damaged_pre += [(pre_text, k) for k in heads[1:5]]
    for pre_text, k in damaged_pre:
        ls = pre_text.split("\n")
        ls[k] = re.sub(r"\s*>>\s*\d+\s*$", "", ls[k])
        damaged = "\n".join(ls)
        r = cli.run(ctx, ["solve", "x.inkfempre"], files={"x.inkfempre": damaged}, name="c14pre")
        cli_runs += 1
        left = [f for f in r.files if f.endswith(".inkfemsol")]
        if r.status == 0 or left:
            if concrete < 3:
                ctx.violation("a preprocessed file whose bar line %r lost its node count: solve exits %s, files left %s" % (ls[k][:50], r.status, left), {"text": damaged, "args": ["solve", "x.inkfempre"]})
            concrete += 1
    ctx.log("command line: %d runs (rejected texts, wrong extension, missing file, uncreatable outputs under both writer schedules)" % cli_runs)
    validated, corr = 0, None
    if res["stage"] != "translate":
        limit = 160 if ctx.tier == "quick" else 4000
        sel = list(zip(texts, outs))[:limit]
        terms = [C10.read_case_term(t, o) for (k, t), o in sel]
        n, mism = S.run_stage(ctx, "A", terms, C10.cases_v, shard=8)
        ctx.log("stage A: %d texts read by the Coq model: verdict, error class and fields compared, %s" % (n, "no mismatch" if mism == [] else ("BROKEN" if mism is None else "%d mismatch" % len(mism))))
        if mism is None:
            corr = ("case file did not compile", None)
        elif mism:
            corr = ("reader model and implementation differ: " + mism[0][1][:300], sel[mism[0][0]][0][1])
        else:
            validated = n
    if corr and concrete == 0:
        ctx.violation("correspondence between the Coq reader model and the implementation no longer holds (%s)" % corr[0],
                      {"correspondence": corr[0], "text": corr[1], "searched": "%d corrupted texts and %d command-line runs through the oracles, none fails" % (len(faults), cli_runs)}, no_input=True)
    if not res["ok"] and concrete == 0:
        ctx.violation("proof obligation no longer checks (%s %s)" % (res["stage"], res.get("failed_at", "")),
                      {"theorem_file": "Properties/C14.v", "stage": res["stage"], "failed_at": res.get("failed_at"), "log_tail": res["log"][-3000:],
                       "searched": "%d corrupted texts through the oracles, none fails" % len(faults)}, no_input=True)
    dist = {}
    for k, t in texts:
        dist[k] = dist.get(k, 0) + 1
    ctx.level = "proof"
    ctx.coverage = {
        "obligations": res["obligations"], "discharged": res["discharged"],
        "checker_cmd": "make -C coq Properties/C14.vo && coqc Properties/C14.v (Coq 8.16.1, full .vo build)",
        "trusted_base": C.standard_trusted_base(res) + ["Go regexp / strconv modelled as for C10; the OS (file creation failures) is exercised, not modelled"],
        "theorems": res.get("names", []), "traces_validated_against_impl": validated, "evaluations": len(texts) + cli_runs,
        "distinct_nontrivial": len({t for k, t in faults}), "distribution": dist, "rejected_by_reader": rejected, "cli_runs": cli_runs,
        "exhaustive": ctx.tier != "quick",
        "rule": "valid definitions (generated, shipped examples) and their single-fault corruptions: deleted line, one character replaced / inserted / removed, damaged number, dangling reference, damaged or missing "
                "version header, damaged section header (quick: 22 per text at random; thorough: every line deleted and every character of 6 texts replaced by each of x { ', plus 150 random per text). "
                "Each text goes through the implementation's reader; an accepted text must account for every line (independent count oracle); a rejected one must make the binary exit non-zero with a message "
                "and leave no .inkfemsol; wrong extension, missing file and uncreatable .inkfemsol / .inkfempre / .svg (a directory in the way; both writer schedules) likewise. Stage A compares verdict, "
                "error class and fields with the Coq reader model. non-trivial = distinct corrupted texts",
        "samples": [faults[-1][1][:500]] if faults else [],
    }
    ctx.assumptions = ["in this sandbox every process is root: 'not writable' is produced by a directory at the output path or a missing folder, not by permission bits",
                       "duplicate ids, unused materials and t outside [0,1] are outside the fault classes of the property (DESIGN.md 1.3 D17)"]
