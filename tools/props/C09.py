"""C09 — the engine is unit-agnostic."""
import re
from fractions import Fraction as Fr

from .. import common as C
from .. import gen_struct as G
from .. import meta as M
from .. import physics as P
from . import core, solcore

BASE_ERR = Fr("1e-5")
# (name, length factor, force factor) relative to the generator's cm / N-like values
SYSTEMS = [("m,N", Fr("0.01"), Fr(1)), ("mm,N", Fr(10), Fr(1)), ("m,kN", Fr("0.01"), Fr("0.001")),
           ("in,lbf", Fr(100, 254), Fr("0.2248089431")), ("ft,lbf", Fr(100, 3048), Fr("0.2248089431")), ("cm,kN", Fr(1), Fr("0.001")),
           ("mm,kN", Fr(10), Fr("0.001")),
           # far ends of the range: numbers that shrink under the code's absolute 1e-10 / six-decimal habits
           ("100km,N", Fr("1e-7"), Fr(1)), ("cm,MN", Fr(1), Fr("1e-6")), ("km,GN", Fr("1e-5"), Fr("1e-9")),
           # ... and numbers that grow: coordinates of millions (micrometres, plant coordinates in a small unit)
           ("um,N", Fr("1e4"), Fr(1)), ("um,uN", Fr("1e4"), Fr("1e6"))]


def estr(x):
    return "%.9e" % float(x)


def gen(rng, tier):
    n = 14 if tier == "quick" else 250
    cases = []
    for g in range(n):
        s = G.gen_pin_first_joint(rng) if g % 7 == 4 else G.gen_slider_joint(rng, ["only_dy", "only_rz", "slide_x"][(g // 7) % 3]) if g % 7 == 5 else G.gen_solvable(rng)
        if g % 2 == 1 and g % 7 not in (4, 5):
            # a slender member (6 mm round tie rod): its inertia is below 1e-10 when written in metres
            s.secs["rod"] = (Fr("0.2827"), Fr("0.00636"), Fr("0.00636"), Fr("0.0212"), Fr("0.0212"))
            rng.choice(s.bars)["sec"] = "rod"
        if g % 2 == 0:
            # a small point load off the uniform cuts: below 1e-10 in the systems with a large force unit
            b = rng.choice(s.bars)
            if not ((not b["l1"][2]) and (not b["l2"][2])) and not any(l["bar"] == b["id"] and l["kind"] == "c" and abs(l["t"] - Fr("0.45")) < Fr("0.002") for l in s.loads):
                ts = [l[k_] for l in s.loads if l["bar"] == b["id"] for k_ in ("t", "t0", "t1") if k_ in l] + [Fr("0.45")]
                if G.positions_ok(ts):
                    s.loads.append({"kind": "c", "term": "fy", "local": True, "bar": b["id"], "t": Fr("0.45"), "v": Fr(rng.choice(["0.05", "-0.08", "0.02"]))})
        w = (g % 3 == 0)
        k = 3 if tier == "quick" else 4
        picks = [SYSTEMS[(k * g + j) % len(SYSTEMS)] for j in range(k)]     # every system is used by some group of every run
        if g % 2 == 0 and not any(p_[0] == "km,GN" for p_ in picks):
            picks[-1] = next(p_ for p_ in SYSTEMS if p_[0] == "km,GN")      # the small point load of these groups is below 1e-10 there
        c = core.case_from_struct(s, Weight=w, Solve=True, Assemble=True, Error=estr(BASE_ERR))
        c.update(group=g, role="base")
        cases.append(c)
        for name, lam, phi in picks:
            t = G.convert_units(s, lam, phi)
            c = core.case_from_struct(t, Weight=w, Solve=True, Assemble=True, Error=estr(BASE_ERR * phi))
            c.update(group=g, role="units", system=name, lam=str(lam), phi=str(phi))
            cases.append(c)
        cases.append({"Text": s.text(), "kind": "end", "group": g, "role": "end", "Weight": False, "Solve": False})
    return cases


def known_witness():
    """K-C09-assembly-cutoff: a pin-jointed truss written in metres-like units whose 4EI/L falls
    under the absolute 1e-10 cut-off of the assembly, and the same truss in centimetre-like units"""
    s = G.Structure()
    s.mats = {"unit": (Fr(0), Fr(1), Fr(1), Fr("0.3"), Fr(1), Fr(1))}
    s.secs = {"thin": (Fr(1), Fr("2e-11"), Fr("2e-11"), Fr(1), Fr(1))}
    s.nodes = {"1": (Fr(0), Fr(0), (True, True, False)), "2": (Fr(1), Fr(0), (False, True, False)), "3": (Fr("0.5"), Fr("0.8"), (False, False, False))}
    pin = (True, True, False)
    s.bars = [{"id": "b1", "n1": "1", "l1": pin, "n2": "2", "l2": pin, "mat": "unit", "sec": "thin"},
              {"id": "b2", "n1": "1", "l1": pin, "n2": "3", "l2": pin, "mat": "unit", "sec": "thin"},
              {"id": "b3", "n1": "2", "l1": pin, "n2": "3", "l2": pin, "mat": "unit", "sec": "thin"}]
    s.loads = [{"kind": "c", "term": "fy", "local": False, "bar": "b2", "t": Fr(1), "v": Fr("-0.01")}]
    s.meta = {"kind": "known/K-C09-assembly-cutoff"}
    return s


_groups = {}
KNOWN = []


def units_transform(lam, phi):
    return M.Transform(lambda x, y, z: (lam * x, lam * y, z), lambda fx, fy, mz, p: (phi * fx, phi * fy, phi * lam * mz),
                       lfac=(lam, lam, 1), dfac=(phi / lam ** 2, phi, phi * lam, phi / lam ** 2))


def tiny_entries(o):
    """does some slice stiffness term of this run fall strictly under the absolute cut-off?"""
    eps = Fr(1, 10 ** 10)
    pre = o["Pre"][-1]
    byid = {b["ID"]: b for b in o["Bars"]}
    for pb in pre["Bars"]:
        jb = byid[pb["ID"]]
        L, E, A, I = (C.ffloat(jb[k]) for k in ("Len", "E", "A", "I"))
        ts = [C.ffloat(n["T"]) for n in pb["Nodes"]]
        for a, b in zip(ts, ts[1:]):
            l = L * (b - a)
            for v in (E * A / l, 12 * E * I / l ** 3, 6 * E * I / l ** 2, 2 * E * I / l):
                if 0 < v < eps:
                    return True
    return False


def marginal(o):
    """the run failed in the convergence check with a residual within a factor 50 of the allowed error"""
    m = re.search(r"error ([-+0-9.eE]+) in equation \d+ \(max allowed is ([-+0-9.eE]+)\)", o.get("SolvePanic") or "")
    if not m:
        return False
    try:
        return float(m.group(1)) <= 50 * float(m.group(2))
    except ValueError:
        return False


def same_slicing(oA, oB, lam=None, phi=None):
    """slicing and numbering never see a dimensional quantity: identical in every unit system"""
    if not oA.get("Pre") or not oB.get("Pre") or oA["Pre"][0].get("Panic") or oB["Pre"][0].get("Panic"):
        return None
    a, b = oA["Pre"][0], oB["Pre"][0]
    if a["DofCount"] != b["DofCount"]:
        return "equation count %d in one unit system, %d in the other" % (a["DofCount"], b["DofCount"])
    bb = {x["ID"]: x for x in b["Bars"]}
    for pa in a["Bars"]:
        pb = bb.get(pa["ID"])
        if pb is None or len(pa["Nodes"]) != len(pb["Nodes"]):
            return "bar %s is sliced into %d nodes in one unit system, %s in the other" % (pa["ID"], len(pa["Nodes"]), pb and len(pb["Nodes"]))
        for na, nb in zip(pa["Nodes"], pb["Nodes"]):
            if abs(C.ffloat(na["T"]) - C.ffloat(nb["T"])) > Fr(1, 10 ** 12) or na["Dof"] != nb["Dof"]:
                return "bar %s: slice node at t=%s / numbers %s in one unit system, t=%s / %s in the other" % (pa["ID"], na["T"], na["Dof"], nb["T"], nb["Dof"])
            if lam is not None:
                # what C09_a_bar_in_other_units_is_sliced_alike_and_carries_the_converted_loads states, observed on the code:
                # coordinates x lam, nodal forces x phi, nodal moments x phi lam
                ext_ = max([abs(C.ffloat(n_[k__])) for n_ in pa["Nodes"] for k__ in ("X", "Y")] + [0]) * lam
                span_ = (abs(C.ffloat(pa["Nodes"][-1]["X"]) - C.ffloat(pa["Nodes"][0]["X"])) + abs(C.ffloat(pa["Nodes"][-1]["Y"]) - C.ffloat(pa["Nodes"][0]["Y"])))
                fmag_ = sum(abs(C.ffloat(v)) for n_ in pa["Nodes"] for part_ in ("Ext", "Left", "Right") for v in n_[part_][:2])
                for key in ("X", "Y"):
                    a, b_ = C.ffloat(na[key]) * lam, C.ffloat(nb[key])
                    if abs(a - b_) > Fr(1, 10 ** 11) * (abs(a) + abs(b_) + ext_):
                        return "bar %s node t=%s: coordinate %s is %s, %s x %s expected" % (pa["ID"], na["T"], key, nb[key], na[key], lam)
                for part in ("Ext", "Left", "Right"):
                    for k_ in range(3):
                        fac = phi * lam if k_ == 2 else phi
                        a, b_ = C.ffloat(na[part][k_]) * fac, C.ffloat(nb[part][k_])
                        scale = abs(a) + abs(b_) + fac * fmag_ * (span_ if k_ == 2 else 1)
                        if abs(a - b_) > Fr(1, 10 ** 9) * scale:
                            return "bar %s node t=%s: %s load component %d is %s, the original %s converted is %s" % (pa["ID"], na["T"], part.lower(), k_, nb[part][k_], na[part][k_], float(a))
    return None


def oracle(c, o):
    g = c.get("group")
    if g is None:
        return []
    _groups.setdefault(g, []).append((c, o))
    if c["role"] != "end":
        return []
    members = _groups.pop(g)
    base = next(((cc, oo) for cc, oo in members if cc["role"] == "base"), None)
    if base is None:
        return []
    cA, oA = base
    fails = []
    for cc, oB in members:
        if cc["role"] != "units":
            continue
        what = "same structure in %s (lengths x %s, forces x %s)" % (cc["system"], cc["lam"], cc["phi"])
        sl = same_slicing(oA, oB, Fr(cc["lam"]), Fr(cc["phi"]))
        if sl:
            fails.append("%s: %s" % (what, sl))
            continue
        if M.solved(oA) != M.solved(oB):
            if not oA.get("ParsePanic") and not oB.get("ParsePanic") and (tiny_entries(oA) or tiny_entries(oB)):
                KNOWN.append("K-C09-assembly-cutoff: a generated structure solves in one unit system only (stiffness terms under the absolute 1e-10 cut-off)")
                continue
            # at the edge of the iteration budget: the failing run stopped in the convergence check within a factor 50 of what is allowed, or the
            # reference run itself fails that check at an error a hundredth of the one the group is run with (its own edge is that near)
            stopped = lambda o: bool(re.search(r"error [-+0-9.eE]+ in equation \d+ \(max allowed is", o.get("SolvePanic") or ""))
            near_edge = cc.get("AdaptFactor", 1.0) > 1.0 and (stopped(oA) or stopped(oB))
            if (marginal(oA) or marginal(oB) or near_edge) and SPEC.get("proof_ok", True):
                KNOWN.append("K-C09-absolute-residual-threshold: a generated structure at the edge of the solver's iteration budget solves in one unit system only")
                continue
            fails.append("%s: solved = %s, but the original solved = %s (%s)" % (what, M.solved(oB), M.solved(oA),
                                                                                 (oB.get("SolvePanic") or oA.get("SolvePanic") or "")[:120]))
            continue
        if not M.solved(oA):
            continue
        # the converted error option is the bound actually met in the other system as well
        fails += ["%s: %s" % (what, f) for f in P.c05_solution(oB)[:2]]
        tA, tB = M.utol(oA), M.utol(oB)
        if tA is None or tB is None:
            continue
        lam, phi = Fr(cc["lam"]), Fr(cc["phi"])
        umaxA = max(abs(C.ffloat(v)) for v in oA["U"])
        # translations are expressed in the new length unit, rotations are not: their error bound does not shrink with lam
        merged = []
        diff = M.compare(oA, oB, units_transform(lam, phi), (lam * tA + tB + Fr(1, 10 ** 9) * lam * umaxA, tA + tB + Fr(1, 10 ** 9) * umaxA), what, merged_out=merged)
        if merged:
            KNOWN.append("K-C09-jump-below-error-merged: in %s a jump of bar %s's %s diagram at t=%s is smaller than the converted --error and listed as one value" % ((cc["system"],) + merged[0]))
        if diff and (tiny_entries(oA) or tiny_entries(oB)):
            # both systems solve, but one of them lost stiffness terms to the absolute cut-off: the listed finding's input class
            KNOWN.append("K-C09-assembly-cutoff: a generated structure solves to different results in a unit system where some slice stiffness term is under the absolute 1e-10 cut-off")
            continue
        fails += diff
    return fails[:6]


SPEC = {
    "prop_file": "Properties/C09.v",
    "gen": gen,
    "adaptive_error": True,
    "oracle": oracle,
    "corpus_filter": lambda c: False,
    "stages": [("F", lambda c, o, rng: solcore.stageF(c, o, rng) if c.get("role") == "units" else None, P.stageF_v, 2, 24)],
    "nontrivial": lambda c, o: M.solved(o) and c.get("role") == "units",
    "rule": "groups: a solvable structure (as C01, cm / N-like magnitudes) and the same structure in 3 (quick) or 4 (thorough) of the unit systems m,N  mm,N  m,kN  cm,kN  mm,kN  in,lbf  ft,lbf  100km,N  cm,MN  km,GN (each system used by some group of every run) "
            "(every length, area, inertia, modulus, density, force, distributed load and the error option converted; values that are not finite decimals written with 17 significant digits); own weight on every "
            "third group; every other group has a slender member (6 mm rod, I = 6.4e-11 m^4). Oracle: solves in one system iff in the other; translations x lam, rotations x 1, reactions and shear x phi, moments x phi lam, stresses x phi / lam^2 at every common position.",
    "assumptions": ["solver oracle as C01; conversion rounds non-decimal factors to 17 significant digits (relative 1e-9 allowance)",
                    "the error option is a bound on force residuals: it is converted with the force factor"],
}


def run(ctx):
    _groups.clear()
    del KNOWN[:]
    core.run(ctx, SPEC)
    # the listed finding: same truss, two unit systems, one of them under the assembly cut-off
    from .. import stages as S
    s = known_witness()
    t = G.convert_units(s, Fr(100), Fr(1))
    outs = S.run_pipeline(ctx, [{"Text": s.text(), "Solve": True, "Assemble": True}, {"Text": t.text(), "Solve": True, "Assemble": True}])
    a, b = (M.solved(o) for o in outs)
    known = C.load_known()
    listed = any(f.get("id") == "K-C09-assembly-cutoff" for f in known.get("findings", []))
    if a != b:
        if listed:
            ctx.known.append("K-C09-assembly-cutoff: unit truss with I = 2e-11 (4EI/L under the absolute 1e-10 assembly cut-off) fails to solve while the same truss with lengths x 100 solves")
        else:
            ctx.violation("the same truss solves in one unit system and not in the other", {"case": {"Text": s.text()}, "other": t.text()})
    listed2 = any(f.get("id") == "K-C09-absolute-residual-threshold" for f in known.get("findings", []))
    import os
    wp = os.path.join(C.VERIF, "corpus", "known", "K-C09_marginal_cm.inkfem")
    if os.path.exists(wp):
        from .. import parse_inkfem
        w = parse_inkfem.parse(open(wp).read())
        w2 = G.convert_units(w, Fr(10), Fr(1))
        outs = S.run_pipeline(ctx, [{"Text": w.text(), "Solve": True, "Assemble": True, "Error": estr(BASE_ERR)},
                                    {"Text": w2.text(), "Solve": True, "Assemble": True, "Error": estr(BASE_ERR)}])
        if M.solved(outs[0]) != M.solved(outs[1]):
            msg = "K-C09-absolute-residual-threshold: corpus/known/K-C09_marginal_cm.inkfem solves at --error 1e-5 in cm,N and not in mm,N (%s)" % ((outs[0].get("SolvePanic") or outs[1].get("SolvePanic") or "")[40:110])
            if listed2 and (marginal(outs[0]) or marginal(outs[1])):
                ctx.known.append(msg)
            else:
                ctx.violation(msg, {"case": {"Text": w.text()}, "other": w2.text()})
    for k in sorted(set(KNOWN)):
        if k.startswith("K-C09-absolute") and listed2:
            ctx.known.append(k)
            continue
        if any(f.get("id") == k.split(":")[0] for f in known.get("findings", [])):
            ctx.known.append(k)
        else:
            ctx.violation(k, {"note": "unit-dependent behaviour"}, no_input=True)
