"""C17 — the global system is the superposition of all bar contributions."""
from fractions import Fraction as Fr

from .. import gen_struct as G
from .. import oracles as O
from .. import stages as S
from . import core


def shared_joint(rng):
    """several bars bring nodal / end-of-span loads to one joint, in every role (start or end)"""
    s = G.Structure()
    G.std_mat_sec(s)
    s.nodes = {"j": (0, 0, (False, False, False))}
    k = rng.randint(2, 4)
    dirs = rng.sample([(30, 40), (-30, 40), (50, 0), (-50, 0), (0, 50), (30, -40), (0, -50), (-30, -40)], k)
    for i, (dx, dy) in enumerate(dirs):
        nid = "s%d" % i
        s.nodes[nid] = (dx, dy, rng.choice([(True, True, True), (True, True, False)]))
        a, b = ("j", nid) if rng.random() < 0.5 else (nid, "j")
        s.bars.append({"id": "b%d" % i, "n1": a, "l1": (True, True, True), "n2": b, "l2": (True, True, True), "mat": "steel", "sec": "ipe"})
        tj = 0 if a == "j" else 1
        from fractions import Fraction as Fr
        if rng.random() < 0.8:
            s.loads.append({"kind": "c", "term": rng.choice(["fx", "fy", "mz"]), "local": rng.random() < 0.5, "bar": "b%d" % i,
                            "t": Fr(tj), "v": Fr(rng.choice([-1, 1]) * rng.choice([100, 250, 1000]))})
        if rng.random() < 0.5:
            t0, t1 = (Fr(0), Fr(rng.choice(["0.35", "0.5", "1"]))) if tj == 0 else (Fr(rng.choice(["0", "0.5", "0.65"])), Fr(1))
            s.loads.append({"kind": "d", "term": "fy", "local": True, "bar": "b%d" % i, "t0": t0, "v0": Fr(-20), "t1": t1, "v1": Fr(-5)})
    s.meta = {"kind": "shared-joint"}
    return s


def gen(rng, tier):
    n1, n2 = (12, 12) if tier == "quick" else (600, 900)
    # every fourth structure is assembled from its own .inkfempre text read back (a sliced
    # structure that comes from a file has no load definitions, only nodal loads)
    cases = [core.case_from_struct(shared_joint(rng), Weight=core.weights(i), Assemble=True, ViaPre=(i % 4 == 1)) for i in range(n1)]
    cases += [core.case_from_struct(G.gen_frame(rng, max_cells=2), Weight=core.weights(i), Assemble=True, ViaPre=(i % 4 == 1)) for i in range(n2)]
    k = 3 if tier == "quick" else 60
    cases += [core.case_from_struct(G.gen_doubled_tie(rng), Weight=core.weights(i), Assemble=True) for i in range(k)]
    cases += [core.case_from_struct(G.with_unused_node(G.gen_frame(rng, max_cells=1) if i % 2 else shared_joint(rng), rng), Weight=False, Assemble=True) for i in range(k)]
    # a bar that ends, with the x movement released, in a joint whose other numbers already carry an earlier bar's loads
    cases += [core.case_from_struct(G.gen_slider_joint(rng, ["only_dy", "only_rz", "slide_x"][i % 3]), Weight=core.weights(i), Assemble=True) for i in range(4 if tier == "quick" else 40)]
    # a bar cut into many unequal finite elements (its matrices may be asked for in one go)
    cases += [core.case_from_struct(G.gen_many_positions(rng, npos, 0), Weight=False, Assemble=True) for npos in (18, 27)]
    # the same sliced structure assembled a second time after nodal loads were added to two of its slice nodes
    for i, c in enumerate(cases):
        if i % 3 == 1 and not c.get("ViaPre"):
            c["Reassemble"] = True
    # models written with unit properties (E = A = I = 1, finite elements of length 1): diagonal terms that are exactly 1
    for i in range(2):
        s = G.Structure()
        s.mats = {"unit": (Fr(0), Fr(1), Fr(1), Fr("0.3"), Fr(1), Fr(1))}
        s.secs = {"unit": (Fr(1), Fr(1), Fr(1), Fr(1), Fr(1))}
        s.nodes = {"a": (Fr(0), Fr(0), (True, True, True)), "b": (Fr(6), Fr(0), (False, False, False)), "c": (Fr(6), Fr(10), (True, True, i == 1))}
        s.bars = [{"id": "b1", "n1": "a", "l1": (True, True, True), "n2": "b", "l2": (True, True, True), "mat": "unit", "sec": "unit"},
                  {"id": "b2", "n1": "c", "l1": (True, True, True), "n2": "b", "l2": (True, True, True), "mat": "unit", "sec": "unit"}]
        s.loads = [{"kind": "d", "term": "fx", "local": True, "bar": "b2", "t0": Fr("0.3"), "v0": Fr(2), "t1": Fr("0.7"), "v1": Fr(2)}]
        s.meta = {"kind": "unit-valued"}
        cases.append(core.case_from_struct(s, Weight=False, Assemble=True))
    # several structures assembled at the same time, each in a goroutine of its own in one process
    for i in range(10 if tier == "quick" else 40):
        c = core.case_from_struct(G.gen_frame(rng, max_cells=2), Weight=core.weights(i), Assemble=True, Concurrent=True)
        c["kind"] += "+concurrent"
        cases.append(c)
    # a frame of more than a thousand equations whose supported equations carry loads (own weight on the ground-floor
    # columns), assembled on one processor and on all of them: whichever goroutine schedule the run time picks
    import subprocess
    from .. import cli
    frame = subprocess.run([cli.BIN, "generate", "--type", "retic", "--spans", "5", "--levels", "4"], stdout=subprocess.PIPE, text=True).stdout
    for procs in (1, 2, None):
        cases.append({"Text": frame, "kind": "large-frame/procs=%s" % procs, "Weight": True, "Assemble": True, "Isolate": True, "Procs": procs})
    return cases


def oracle(c, o):
    fails = O.c17_structure(o, o["Pre"][-1])
    ag = o.get("Again")
    if ag and not fails:
        if ag.get("Panic"):
            return ["assembling again after adding nodal loads panicked: " + ag["Panic"][:200]]
        fails = ["assembled again after nodal loads were added to two slice nodes: " + f for f in O.c17_structure(dict(o, KEntries=ag["KEntries"], F=ag["F"]), ag["Pre"])]
    return fails


SPEC = {
    "prop_file": "Properties/C17.v",
    "gen": gen,
    "oracle": oracle,
    "corpus_opts": {"Assemble": True},
    # (the thousand-equation frames go through the oracle only: their evaluation inside Coq would take minutes each)
    "stages": [("D", lambda c, o, rng: None if c.get("kind", "").startswith("large-frame") else S.stageD_case(o, rng), S.stageD_v, 2, None),
               ("H", lambda c, o, rng: None if c.get("kind", "").startswith("large-frame") else S.stageD_case(o, rng, nsample=0), S.stageH_v, 2, 14)],
    "nontrivial": lambda c, o: len(o["Bars"]) >= 2 and any((b.get("DL") or b.get("CL")) for b in o["Bars"]),
    "rule": "twin pinned members between the same two free joints; definitions with a node no bar uses; joints where 2-4 bars (as start or end node, in any order) bring nodal and end-of-span loads to the same equations, and grid frames with all support and link kinds; own weight on every third; "
            "non-trivial iff >= 2 bars and some load; MakeSystemOfEquations is compared entry by entry with an independent exact re-assembly from the implementation's own slices (oracle) and with the Coq model (stage D)",
    "assumptions": ["inkmath SparseMat semantics modelled: AddToValue accumulates, SetZeroCol/SetIdentityRow as in v0.2.6 (external library)",
                    "the fast map-based evaluation of the model's matrix is cross-checked inside Coq against the definitional k_final on sampled entries"],
}


def big_structures(ctx):
    """structures of thousands of bars (tens of thousands of equations): the comparison with an independent superposition of
    the slice matrices and nodal loads is made inside the harness process (harness/cmd/dump/big.go)"""
    from .. import common as C
    sizes = [3700] if ctx.tier == "quick" else [3700, 5200, 800]
    cases = [{"Text": G.big_beam_text(n, loaded_every=37), "Weight": k % 2 == 1, "Solve": False} for k, n in enumerate(sizes)]
    outs = C.dump("bigcheck", cases, timeout=1800)
    for c, o in zip(cases, outs):
        what = "a continuous beam of %d bars (%s equations)" % (o.get("Bars") or 0, o.get("Equations"))
        if o.get("Panic"):
            ctx.violation("%s: assembling panicked: %s" % (what, o["Panic"][:200]), {"text_head": c["Text"][:400], "how": "tools.gen_struct.big_beam_text + harness/bin/dump bigcheck"})
        elif o.get("KMismatch") or o.get("FMismatch"):
            ctx.violation("%s: %d stiffness terms and %d load entries differ from the superposition of the slices: %s" % (what, o["KMismatch"], o["FMismatch"], "; ".join(o.get("First") or [])),
                          {"bars": o.get("Bars"), "equations": o.get("Equations"), "first": o.get("First"), "how": "tools.gen_struct.big_beam_text(%d, loaded_every=37) + harness/bin/dump bigcheck" % o.get("Bars")})
    ctx.log("%d structures of thousands of bars assembled and compared inside the harness (%s equations)" % (len(cases), ", ".join(str(o.get("Equations")) for o in outs)))
    return [o.get("Equations") for o in outs]


def run(ctx):
    core.run(ctx, SPEC)
    ctx.coverage["large_structures_equations"] = big_structures(ctx)
