"""C18 — plots are well-formed SVG and geometrically faithful."""
import random
import re
import xml.etree.ElementTree as ET
from fractions import Fraction as Fr

from .. import cli
from .. import common as C
from .. import emit as E
from .. import gen_struct as G
from .. import stages as S
from . import C10

SVGNS = "{http://www.w3.org/2000/svg}"


def tag(el):
    return el.tag.replace(SVGNS, "")


def ints(s):
    return [int(x) for x in re.findall(r"-?\d+", s)]


def parse_svg(text):
    """XML parse (well-formedness) and walk: returns (events, circles, supports, info) or an error string"""
    try:
        root = ET.fromstring(text)
    except ET.ParseError as e:
        return "not well-formed XML: %s" % e
    if tag(root) != "svg":
        return "root element is <%s>" % tag(root)
    ev = [("EStart", int(root.get("width")), int(root.get("height")))]
    kids = list(root)
    if len(kids) != 2 or tag(kids[0]) != "defs" or tag(kids[1]) != "g":
        return "expected <defs> and one <g> under <svg>, found %s" % [tag(k) for k in kids]
    defs = kids[0]
    ev.append(("EOpen", "defs"))
    for d in defs:
        if tag(d) not in ("pattern", "marker"):
            return "unexpected <%s> in <defs>" % tag(d)
        ev += [("EOpen", tag(d)), ("EClose", tag(d))]
    ev.append(("EClose", "defs"))
    main = kids[1]
    if not (main.get("transform") or "").startswith("matrix("):
        return "the main group has no matrix transform"
    ev.append(("EOpen", "main"))
    groups = list(main)
    if len(groups) < 2 or any(tag(g) != "g" for g in groups):
        return "the main group holds %s" % [tag(g) for g in groups]
    loads, geometry, constraints = groups[:-2], groups[-2], groups[-1]
    for lg in loads:
        m = re.match(r"translate\(([-\d.eE+]+) ([-\d.eE+]+)\) rotate\(([-\d.eE+]+)\)", lg.get("transform") or "")
        if not m:
            return "a load group has transform %r" % lg.get("transform")
        import math
        ang = math.radians(float(m.group(3)))
        ev.append(("ELoadGroup", Fr(m.group(1)), Fr(m.group(2)), Fr(round(math.cos(ang) * 10 ** 9), 10 ** 9), Fr(round(math.sin(ang) * 10 ** 9), 10 ** 9)))
        inner = list(lg)
        if len(inner) != 1 or tag(inner[0]) != "g":
            return "a load group does not hold exactly one styled group"
        ev.append(("EOpen", "dloads"))
        for el in inner[0]:
            if tag(el) == "polygon":
                pts = [tuple(int(v) for v in p.split(",")) for p in el.get("points").split()]
                if len(pts) != 4 or pts[0][1] != 0 or pts[3][1] != 0 or pts[0][0] != pts[1][0] or pts[2][0] != pts[3][0]:
                    return "load polygon with vertices %s" % (pts,)
                ev.append(("EPolygon", pts[0][0], pts[2][0], pts[1][1], pts[2][1]))
            elif tag(el) not in ("text", "line"):
                return "unexpected <%s> among the loads" % tag(el)
        ev += [("EClose", "dloads"), ("EClose", "bar-loads")]
    ev.append(("EOpen", "geometry"))
    circles = []
    seen_circle = False
    for el in geometry:
        if tag(el) == "line":
            if seen_circle:
                return "a bar line after the node circles"
            i = el.get("id") or ""
            if not i.startswith("bar__"):
                return "a geometry line without a bar id"
            ev.append(("EBarLine", i[5:], int(el.get("x1")), int(el.get("y1")), int(el.get("x2")), int(el.get("y2"))))
        elif tag(el) == "circle":
            seen_circle = True
            i = el.get("id") or ""
            if not i.startswith("node__"):
                return "a geometry circle without a node id"
            circles.append((i[6:], int(el.get("cx")), int(el.get("cy")), int(el.get("r"))))
        else:
            return "unexpected <%s> in the geometry group" % tag(el)
    supports = []
    for g in constraints:
        if tag(g) != "g":
            return "unexpected <%s> in the constraints group" % tag(g)
        m = re.match(r"translate\((-?\d+),(-?\d+)\) scale\(1,-1\)", g.get("transform") or "")
        if not m:
            return "a support group has transform %r" % g.get("transform")
        shapes = [tag(x) for x in g]
        kind = {(): 0, ("rect", "line"): 1, ("polygon", "rect", "line"): 2, ("polygon", "circle", "circle", "rect", "line"): 3}.get(tuple(shapes))
        if kind is None:
            return "a support symbol made of %s" % shapes
        supports.append((kind, int(m.group(1)), int(m.group(2))))
    return ev, circles, supports


def finish_events(ev, circles, supports, kinds=None):
    """node circles and support groups come out of Go maps in arbitrary orders: the circles are kept in their
    observed order (it becomes the model's node order) and the support groups are put in that order"""
    out = list(ev)
    out += [("ENodeCircle", i, x, y) for (i, x, y, r) in circles]
    out += [("EClose", "geometry"), ("EOpen", "constraints")]
    pos = {}
    for k, (i, x, y, r) in enumerate(circles):
        pos.setdefault((x, y), []).append(k)
    used = []
    for (kind, x, y) in supports:
        ks = pos.get((x, y))
        if not ks:
            return "a support symbol at (%d, %d) where no node is drawn" % (x, y)
        # (several nodes may be drawn at one pixel, and the support groups come out of a Go map in any order: among the circles at that
        # pixel the symbol goes to one whose support is of that kind when there is one - which node holds which support at one pixel
        # is not something the document can tell)
        pick = next((j for j, k in enumerate(ks) if kinds and kinds.get(circles[k][0]) == kind), 0)
        used.append((ks.pop(pick), kind, x, y))
    for k, kind, x, y in sorted(used):
        out.append(("EOpen", "support"))
        if kind:
            out.append(("ESupport", kind, x, y))
        out.append(("EClose", "support"))
    out += [("EClose", "constraints"), ("EClose", "main"), ("EEnd",)]
    return out


def coq_event(e):
    k = e[0]
    if k == "EStart":
        return "EStart (%d) (%d)" % (e[1], e[2])
    if k in ("EOpen", "EClose"):
        return '%s "%s"' % (k, e[1])
    if k == "EBarLine":
        return "EBarLine %s (%d) (%d) (%d) (%d)" % (C10.coq_str(e[1]), e[2], e[3], e[4], e[5])
    if k == "ENodeCircle":
        return "ENodeCircle %s (%d) (%d)" % (C10.coq_str(e[1]), e[2], e[3])
    if k == "ESupport":
        return "ESupport %d%%nat (%d) (%d)" % (e[1], e[2], e[3])
    if k == "ELoadGroup":
        return "ELoadGroup %s %s %s %s" % (C.qlit(e[1]), C.qlit(e[2]), C.qlit(e[3]), C.qlit(e[4]))
    if k == "EPolygon":
        return "EPolygon (%d) (%d) (%d) (%d)" % (e[1], e[2], e[3], e[4])
    return "EEnd"


def case_term(o, circles, events, scale, dscale):
    byid = {n["ID"]: n for n in o["Nodes"]}
    nodes = ["{| pi_id := %s; pi_x := %s; pi_y := %s; pi_c := %s |}" % (C10.coq_str(i), E.q(byid[i]["X"]), E.q(byid[i]["Y"]),
                                                                    E.link((byid[i]["Dx"], byid[i]["Dy"], byid[i]["Rz"]))) for (i, x, y, r) in circles]
    bars = []
    for b in o["Bars"]:
        dl = ["{| pd_term := %s; pd_local := %s; pd_t0 := %s; pd_v0 := %s; pd_t1 := %s; pd_v1 := %s |}" % (
            E.TERM[l["Term"]], E.b(l["Local"]), E.q(l["T0"]), E.q(l["V0"]), E.q(l["T1"]), E.q(l["V1"])) for l in b.get("DL") or []]
        bars.append("{| pb_id := %s; pb_x1 := %s; pb_y1 := %s; pb_x2 := %s; pb_y2 := %s; pb_len := %s; pb_has_loads := %s; pb_dloads := [%s] |}" % (
            C10.coq_str(b["ID"]), E.q(b["X1"]), E.q(b["Y1"]), E.q(b["X2"]), E.q(b["Y2"]), E.q(b["Len"]), E.b(b["HasLoads"]), "; ".join(dl)))
    return ("{| pk_in := {| pl_nodes := [%s];\n      pl_bars := [%s];\n      pl_scale := %s; pl_dscale := %s; pl_margin := 150 |};\n   pk_obs := [%s] |}"
            % (";\n        ".join(nodes), ";\n        ".join(bars), C.qlit(Fr(float(scale))), C.qlit(Fr(float(dscale))), "; ".join(coq_event(e) for e in events)))


def cases_v(terms):
    lines = [E.HEADER, "From Coq Require Import String.\nFrom Inkfem Require Import Model.Plot.\nLocal Open Scope string_scope.\nLocal Open Scope Z_scope.\nLocal Open Scope Q_scope."]
    for k, t in enumerate(terms):
        lines.append("Definition case_%d : plot_case :=\n  %s." % (k, t))
    lines.append("Definition all_cases := [%s]." % "; ".join("case_%d" % k for k in range(len(terms))))
    lines.append("Definition M := Eval vm_compute in\n  flat_map (fun p => map (fun m => (fst p, m)) (cmp_plot (snd p))) (indexed all_cases).")
    lines.append("Print M.")
    return "\n".join(lines) + "\n"


def snap(s, rng):
    """coordinates on a 1/8 grid, positions t on eighths, integer lengths where possible: scaled values are exact in
    float64 so that truncation is not at the mercy of a rounding (generator rule of DESIGN.md 2.4)"""
    t = s.copy()
    t.nodes = {k: (Fr(round(x * 8), 8), Fr(round(y * 8), 8), c) for k, (x, y, c) in s.nodes.items()}
    for l in t.loads:
        if l["kind"] == "c":
            l["t"] = Fr(round(l["t"] * 8), 8)
        else:
            l["t0"], l["t1"] = Fr(round(l["t0"] * 8), 8), Fr(round(l["t1"] * 8), 8)
            if l["t0"] == l["t1"]:
                l["t1"] = min(Fr(1), l["t0"] + Fr(1, 8))
                l["t0"] = l["t1"] - Fr(1, 8)
            l["v0"], l["v1"] = Fr(round(l["v0"] * 4), 4), Fr(round(l["v1"] * 4), 4)
    t.meta = dict(getattr(s, "meta", {}))
    return t


def independent_oracle(o, parsed, scale, dscale):
    """the property, directly on the parsed SVG"""
    ev, circles, supports = parsed
    fails = []
    lengths = sorted(C.ffloat(b["Len"]) for b in o["Bars"])
    n = len(lengths)
    med = (lengths[n // 2 - 1] + lengths[n // 2]) / 2 if n % 2 == 0 else lengths[n // 2]
    u = Fr(150) if med < 5 else Fr(50) if med < 17 else Fr(4) if med < 200 else Fr(1)
    xs = [C.ffloat(n_["X"]) for n_ in o["Nodes"]]
    ys = [C.ffloat(n_["Y"]) for n_ in o["Nodes"]]
    tr = lambda q: int(q) if q >= 0 else -int(-q)

    def same_int(obs, q):
        """obs = int(float evaluation of q): exact truncation, or either neighbour when q is within 1e-6 of an integer
        (the float evaluation may land on the other side; DESIGN.md 2.4)"""
        q = Fr(q)
        return obs == tr(q) or (abs(q - round(q)) < Fr(1, 10 ** 6) and abs(obs - round(q)) <= 1)
    w, h = (max(xs) - min(xs)) * scale * u + 300, (max(ys) - min(ys)) * scale * u + 300
    if not (ev[0][0] == "EStart" and same_int(ev[0][1], w) and same_int(ev[0][2], h)):
        w, h = tr(w), tr(h)
        fails.append("canvas %s, expected %s from the bounding box, scale, units scale %s and margin" % (ev[0][1:], (w, h), u))
    lines = [e for e in ev if e[0] == "EBarLine"]
    if sorted(e[1] for e in lines) != sorted(b["ID"] for b in o["Bars"]):
        fails.append("bar lines %s, bars %s" % (sorted(e[1] for e in lines), sorted(b["ID"] for b in o["Bars"])))
    byid = {b["ID"]: b for b in o["Bars"]}
    for e in lines:
        b = byid.get(e[1])
        if b and not all(same_int(v, C.ffloat(b[k]) * u) for v, k in zip(e[2:], ("X1", "Y1", "X2", "Y2"))):
            fails.append("bar %s drawn from (%d,%d) to (%d,%d), its scaled end nodes are %s" % ((e[1],) + e[2:] + (tuple(float(C.ffloat(b[k]) * u) for k in ("X1", "Y1", "X2", "Y2")),)))
    if sorted(c[0] for c in circles) != sorted(n_["ID"] for n_ in o["Nodes"]):
        fails.append("node circles %s, nodes %s" % (sorted(c[0] for c in circles), sorted(n_["ID"] for n_ in o["Nodes"])))
    known = {(True, True, True): 1, (True, True, False): 2, (False, True, False): 3}
    # (paired in the order of the drawn integers: two supports may share a truncated coordinate)
    want = sorted(((known[(n_["Dx"], n_["Dy"], n_["Rz"])], C.ffloat(n_["X"]) * u, C.ffloat(n_["Y"]) * u) for n_ in o["Nodes"]
                   if (n_["Dx"], n_["Dy"], n_["Rz"]) in known), key=lambda a: (a[0], tr(a[1]), tr(a[2])))
    got = sorted(s for s in supports if s[0] != 0)
    if len(want) != len(got) or not all(a[0] == b[0] and same_int(b[1], a[1]) and same_int(b[2], a[2]) for a, b in zip(want, got)):
        want = [(a[0], float(a[1]), float(a[2])) for a in want]
        fails.append("support symbols %s, supported nodes of a known kind %s" % (got, want))
    # every load group sits at the scaled start of a loaded bar and is turned along that bar (what is drawn at local (x, 0) lies on the bar)
    loaded = [b for b in o["Bars"] if b.get("HasLoads")]
    for e in (e for e in ev if e[0] == "ELoadGroup"):
        def fits(b):
            x1, y1, x2, y2, ln = (C.ffloat(b[k]) for k in ("X1", "Y1", "X2", "Y2", "Len"))
            return (abs(e[1] - x1 * u) <= Fr(1, 10 ** 5) and abs(e[2] - y1 * u) <= Fr(1, 10 ** 5) and ln != 0 and
                    abs(e[3] - (x2 - x1) / ln) <= Fr(1, 10 ** 5) and abs(e[4] - (y2 - y1) / ln) <= Fr(1, 10 ** 5))
        hit = next((b for b in loaded if fits(b)), None)
        if hit is None:
            fails.append("a load group at (%s, %s) turned by (cos %s, sin %s) is not at the start of a loaded bar and along it" % tuple(float(v) for v in e[1:5]))
        else:
            loaded.remove(hit)
    npoly = sum(1 for e in ev if e[0] == "EPolygon")
    nloc = sum(1 for b in o["Bars"] for l in (b.get("DL") or []) if l["Local"])
    if npoly != nloc:
        fails.append("%d load polygons, %d local distributed loads" % (npoly, nloc))
    return fails


def exact_scaling(o, scale):
    lengths = sorted(C.ffloat(b["Len"]) for b in o["Bars"])
    n = len(lengths)
    med = (lengths[n // 2 - 1] + lengths[n // 2]) / 2 if n % 2 == 0 else lengths[n // 2]
    u = Fr(150) if med < 5 else Fr(50) if med < 17 else Fr(4) if med < 200 else Fr(1)
    vals = [C.ffloat(n_[k]) * u for n_ in o["Nodes"] for k in ("X", "Y")]
    xs = [C.ffloat(n_["X"]) for n_ in o["Nodes"]]
    ys = [C.ffloat(n_["Y"]) for n_ in o["Nodes"]]
    vals += [(max(xs) - min(xs)) * scale * u, (max(ys) - min(ys)) * scale * u]
    for b in o["Bars"]:
        for l in b.get("DL") or []:
            vals += [u * (C.ffloat(b["Len"]) * C.ffloat(l["T0"])), u * (C.ffloat(b["Len"]) * C.ffloat(l["T1"]))]
    return all(v.denominator == 1 or abs(v - round(v)) > Fr(1, 10 ** 6) for v in vals)


def run(ctx):
    rng = random.Random(ctx.seed)
    res = C.prove(ctx, "Properties/C18.v", extra_targets=["Corr/Compare.vo"])
    ctx.log("proof stage:", "ok (%d theorems)" % res["discharged"] if res["ok"] else "BROKEN at " + res["stage"] + " " + str(res.get("failed_at", "")))
    n = 16 if ctx.tier == "quick" else 300
    items = []
    for i in range(n):
        s = snap(G.gen_frame(rng, max_cells=2) if i % 2 else G.gen_solvable(rng), rng)
        # unit ranges around the 5 / 17 / 200 thresholds of the median bar length, translated structures, every support kind
        lam = Fr(rng.choice(["1", "1", "0.125", "0.03125", "0.5", "2", "0.0625"]))
        s.nodes = {k: (x * lam + (Fr(rng.choice([0, 0, 64, -32]))), y * lam + Fr(rng.choice([0, 0, -16, 128])), c) for k, (x, y, c) in s.nodes.items()}
        if i % 3 == 0:
            k = rng.choice(list(s.nodes))
            s.nodes[k] = (s.nodes[k][0], s.nodes[k][1], rng.choice([(True, False, False), (False, False, True), (True, False, True), (False, True, True)]))
        if i % 4 == 0 and s.bars:
            # loads the drawing must cope with: zero-length local fx span, global distributed loads next to local ones
            b = rng.choice(s.bars)["id"]
            s.loads.append({"kind": "d", "term": "fx", "local": True, "bar": b, "t0": Fr("0.5"), "v0": Fr(40), "t1": Fr("0.5"), "v1": Fr(40)})
            s.loads.append({"kind": "d", "term": "fy", "local": False, "bar": b, "t0": Fr(0), "v0": Fr(-30), "t1": Fr(1), "v1": Fr(-30)})
            s.loads.append({"kind": "d", "term": "mz", "local": True, "bar": b, "t0": Fr("0.25"), "v0": Fr(12), "t1": Fr("0.75"), "v1": Fr(-8)})
        if i % 5 == 1:
            s = G.with_unused_node(s, rng)
        scale = rng.choice(["0.25", "0.5", "1", "0.125", "2"])
        dscale = rng.choice(["0.5", "1", "0.25", "2"])
        if i % 4 == 2 and s.bars:
            # small local loads drawn with small scales (each option alone would still give them some height): one polygon each
            b = s.bars[i // 4 % len(s.bars)]["id"]
            for term, v in (("fx", 40), ("fy", 55), ("fx", 6)):
                s.loads.append({"kind": "d", "term": term, "local": True, "bar": b, "t0": Fr("0.125"), "v0": Fr(v), "t1": Fr("0.625"), "v1": Fr(v) + 20})
            scale, dscale = [("0.1", "0.1"), ("2", "0.01"), ("0.125", "0.25")][i // 4 % 3]
        dark = rng.random() < 0.5
        items.append((s.text(), scale, dscale, dark))
    import glob
    import os
    for p in sorted(glob.glob(os.path.join(C.REPO, "examples", "*.inkfem")))[: (4 if ctx.tier == "quick" else 99)]:
        if "simp_" in p or "20x10" in p:
            continue
        items.append((open(p).read(), "0.25", "0.5", False))
    if ctx.replay:
        import json
        rep = json.load(open(ctx.replay))["replay"]
        if rep.get("text") is not None:
            items = [(rep["text"], rep.get("scale", "0.25"), rep.get("dscale", "0.5"), bool(rep.get("dark")))]
    outs = S.run_pipeline(ctx, [{"Text": t, "ParseOnly": True} for t, a, b, d in items])
    concrete, plots = 0, 0
    terms, kept = [], []
    for (text, scale, dscale, dark), o in zip(items, outs):
        if o.get("ParsePanic") or not o.get("Bars"):
            continue
        args = ["plot", "--scale", scale, "--dload-scale", dscale] + (["--dark"] if dark else []) + ["x.inkfem"]
        r = cli.run(ctx, args, files={"x.inkfem": text}, name="c18")
        plots += 1
        rep = {"text": text, "args": args, "scale": scale, "dscale": dscale, "dark": dark}
        svg = r.files.get("x.inkfem.svg")
        if r.status != 0 or svg is None:
            if concrete < 3:
                ctx.violation("plot fails on a valid structure (exit %s): %s" % (r.status, (r.stderr or "")[:160]), rep)
            concrete += 1
            continue
        parsed = parse_svg(svg)
        if isinstance(parsed, str):
            if concrete < 3:
                ctx.violation("the SVG written by plot is not as specified: " + parsed, rep)
            concrete += 1
            continue
        fails = independent_oracle(o, parsed, Fr(scale), Fr(dscale))
        # both themes: same document up to colours
        r2 = cli.run(ctx, [a for a in args if a != "--dark"] + ([] if dark else ["--dark"]), files={"x.inkfem": text}, name="c18")
        p2 = parse_svg(r2.files.get("x.inkfem.svg") or "")
        if isinstance(p2, str) or (p2[0], sorted(p2[1]), sorted(p2[2])) != (parsed[0], sorted(parsed[1]), sorted(parsed[2])):
            fails.append("light and dark themes differ in more than colours")
        if fails:
            if concrete < 3:
                ctx.violation("plot is not geometrically faithful: " + "; ".join(fails[:3]), dict(rep, failures=fails))
            concrete += 1
            continue
        known_kind = {(True, True, True): 1, (True, True, False): 2, (False, True, False): 3}
        events = finish_events(*parsed, kinds={n_["ID"]: known_kind.get((n_["Dx"], n_["Dy"], n_["Rz"]), 0) for n_ in o["Nodes"]})
        if not exact_scaling(o, Fr(scale)):
            continue   # scaled coordinates within 1e-6 of an integer without being one: truncation is the float unit's call, not compared with the exact model
        if isinstance(events, str):
            ctx.violation("the SVG written by plot is not as specified: " + events, rep)
            concrete += 1
            continue
        terms.append(case_term(o, parsed[1], events, scale, dscale))
        kept.append(rep)
    # the same structure plotted three times in one process (light, dark, light): a plot does not depend on the plots made
    # before it and leaves the structure as it was
    sel = [(t, a, b) for (t, a, b, d), o in zip(items, outs) if not o.get("ParsePanic") and o.get("Bars")][: (8 if ctx.tier == "quick" else 80)]
    multi = C.dump("plots", [{"Text": t, "Scale": a, "DScale": b} for t, a, b in sel]) if sel else []
    for (text, scale, dscale), mo in zip(sel, multi):
        rep = {"text": text, "scale": scale, "dscale": dscale, "how": "harness/bin/dump plots: StructureToSVG light, dark, light on one structure value"}
        if mo.get("Panic") or len(mo.get("SVGs") or []) != 3:
            ctx.violation("plotting one structure three times in a process fails: %s" % (mo.get("Panic") or "")[:160], rep)
            concrete += 1
            continue
        ps = [parse_svg(x) for x in mo["SVGs"]]
        if any(isinstance(p_, str) for p_ in ps):
            ctx.violation("a repeated plot is not as specified: %s" % next(p_ for p_ in ps if isinstance(p_, str)), rep)
            concrete += 1
            continue
        geo = [(p_[0], sorted(p_[1]), sorted(p_[2])) for p_ in ps]
        if sorted(mo["SVGs"][0].split("\n")) != sorted(mo["SVGs"][2].split("\n")):
            ctx.violation("the third plot of a structure (light) is not the first one (light): what a plot shows depends on the plots made before it", rep)
            concrete += 1
        elif geo[0] != geo[1]:
            ctx.violation("plotted after a light plot of the same structure, the dark plot differs from it in more than colours", rep)
            concrete += 1
        elif mo.get("BarsBefore") != mo.get("BarsAfter"):
            ctx.violation("plotting changed the structure (bars / loads differ after three plots)", rep)
            concrete += 1
    ctx.log("%d structures plotted three times in one process" % len(sel))
    # histories at one path: a plot written over another plot is the plot of the last command
    hist_runs = 0
    for (text, scale, dscale, dark), o in list(zip(items, outs))[:3]:
        if o.get("ParsePanic") or not o.get("Bars"):
            continue
        steps = [["plot", "--dark", "--scale", "2", "x.inkfem"], ["plot", "--scale", scale, "x.inkfem"], ["plot", "--dark", "x.inkfem"], ["plot", "--scale", "0.125", "x.inkfem"]]
        hr = cli.run_history(ctx, steps, files={"x.inkfem": text}, name="c18h")
        for k, (args, rk) in enumerate(zip(steps, hr)):
            fresh = cli.run(ctx, args, files={"x.inkfem": text}, name="c18")
            hist_runs += 2
            a, b = rk.files.get("x.inkfem.svg"), fresh.files.get("x.inkfem.svg")
            if rk.status != fresh.status or (b is not None and (a is None or sorted(a.split("\n")) != sorted(b.split("\n")))):
                why = parse_svg(a or "")
                ctx.violation("%s after %s at the same path does not leave the document a fresh run writes%s" % (
                    " ".join(args), [" ".join(x) for x in steps[:k]], (": " + why) if isinstance(why, str) else ""), {"text": text, "history": steps[:k + 1]})
                concrete += 1
                break
    ctx.log("%d structures plotted (scales, load scales, both themes); %d SVG documents parsed and checked; %d runs in plot-over-plot histories" % (plots, len(terms), hist_runs))
    validated, corr = 0, None
    if res["stage"] != "translate":
        nn, mism = S.run_stage(ctx, "S", terms, cases_v, shard=4)
        ctx.log("stage S: %d documents compared event by event with the Coq model, %s" % (nn, "no mismatch" if mism == [] else ("BROKEN" if mism is None else "%d mismatch" % len(mism))))
        if mism is None:
            corr = ("case file did not compile", None)
        elif mism:
            corr = ("event model and SVG differ: " + mism[0][1][:300], kept[mism[0][0]])
        else:
            validated = nn
    if corr and concrete == 0:
        ctx.violation("correspondence between the Coq event model and plot no longer holds (%s)" % corr[0],
                      dict(corr[1] or {}, correspondence=corr[0], searched="%d plots through the independent geometry oracle, none fails" % plots), no_input=True)
    if not res["ok"] and concrete == 0:
        ctx.violation("proof obligation no longer checks (%s %s)" % (res["stage"], res.get("failed_at", "")),
                      {"theorem_file": "Properties/C18.v", "stage": res["stage"], "failed_at": res.get("failed_at"), "log_tail": res["log"][-3000:],
                       "searched": "%d plots through the oracle, none fails" % plots}, no_input=True)
    ctx.coverage = {
        "obligations": res["obligations"], "discharged": res["discharged"],
        "checker_cmd": "make -C coq Properties/C18.vo && coqc Properties/C18.v (Coq 8.16.1, full .vo build)",
        "trusted_base": C.standard_trusted_base(res) + ["svgo (each call one element) and the rotation attribute of load groups are exercised, not modelled; the XML parser of Python's standard library decides well-formedness of the real document"],
        "theorems": res.get("names", []), "traces_validated_against_impl": validated, "evaluations": plots, "distinct_nontrivial": len(terms),
        "rule": "frames and solvable shapes snapped to a 1/8 grid (scaled coordinates exact in float64), rescaled so that the median bar length falls on every side of the 5 / 17 / 200 thresholds, translated, with every "
                "support kind incl. the four without a symbol, local and global distributed loads of every term, zero-length spans; --scale in {0.125 .. 2}, --dload-scale in {0.25 .. 2}, both themes; plus shipped "
                "examples. Each SVG is parsed as XML, checked by an independent oracle (canvas, one line per bar at the truncated scaled positions, one circle per node, one symbol per supported node of a known "
                "kind, one polygon per local distributed load, light = dark up to colours) and compared event by event with the Coq model (stage S). non-trivial = documents compared",
        "samples": [kept[-1]["text"][:400]] if kept else [],
    }
    ctx.assumptions = ["node circles and support groups are emitted in Go-map order: the observed order of the circles is taken as the model's node order and the support groups are aligned to it"]
