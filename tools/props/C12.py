"""C12 — a written .inkfempre file can be read back and solves to the same result."""
import os
import random
import re
from fractions import Fraction as Fr

from .. import cli
from .. import common as C
from .. import emit as E
from .. import gen_struct as G
from .. import layouts as L
from .. import meta as M
from .. import stages as S
from . import C10

PRE_CLASSES = [("Preprocessed file without 'dof_count'", 20), ("Preprocessed file without 'includes_own_weight'", 21),
               ("Can't' parse the bars if", 22), ("Couldn't read all expected", 23), ("Can't read more lines", 23),
               ("Expected net load doesn't match", 25)]


def pre_panic_class(msg):
    for key, code in PRE_CLASSES:
        if key in msg:
            return code
    return L.panic_class(msg)


def tor(t):
    return "(%s, %s, %s)" % (E.q(t[0]), E.q(t[1]), E.q(t[2]))


def pre_case_term(text, o_def, pre, panic):
    """text: a .inkfempre text; o_def: dump of the parsed definition (bars: materials etc.); pre: the sliced structure the
    implementation holds after reading the text (or None), panic: its panic message"""
    if panic:
        return "{| pc_text := %s; pc_panic := %d; pc_dofs := 0; pc_weight := false; pc_nodes := []; pc_bars := [] |}" % (C10.coq_text(text), pre_panic_class(panic))
    byid = {b["ID"]: b for b in o_def["Bars"]}
    nodes = []
    for n in o_def["Nodes"]:
        d = pre["NodeDofs"].get(n["ID"])
        nodes.append("(%s, %s, %s, %s, %s)" % (C10.coq_str(n["ID"]), E.q(n["X"]), E.q(n["Y"]), E.link((n["Dx"], n["Dy"], n["Rz"])),
                                                "(Some (%d, %d, %d)%%nat)" % tuple(d) if d and min(d) >= 0 else "None"))
    bars = []
    for pb in pre["Bars"]:
        b = byid[pb["ID"]]
        ob = ("{| ob_id := %s; ob_n1 := %s; ob_l1 := %s; ob_n2 := %s; ob_l2 := %s; ob_mat := %s; ob_matv := [%s]; ob_sec := %s; ob_secv := [%s]; ob_cl := []; ob_dl := [] |}" % (
            C10.coq_str(b["ID"]), C10.coq_str(b["N1"]), E.link(b["L1"]), C10.coq_str(b["N2"]), E.link(b["L2"]),
            C10.coq_str(b["Mat"]), "; ".join(E.q(v) for v in b["MatAll"]), C10.coq_str(b["Sec"]), "; ".join(E.q(v) for v in b["SecAll"])))
        pns = ["{| on_t := %s; on_x := %s; on_y := %s; on_ext := %s; on_left := %s; on_right := %s; on_dof := (%d, %d, %d)%%nat |}" % (
            E.q(n["T"]), E.q(n["X"]), E.q(n["Y"]), tor(n["Ext"]), tor(n["Left"]), tor(n["Right"]), n["Dof"][0], n["Dof"][1], n["Dof"][2]) for n in pb["Nodes"]]
        bars.append("(%s,\n      [%s])" % (ob, ";\n       ".join(pns)))
    return "{| pc_text := %s; pc_panic := 0; pc_dofs := %d; pc_weight := %s;\n     pc_nodes := [%s];\n     pc_bars := [%s] |}" % (
        C10.coq_text(text), pre["DofCount"], E.b(pre.get("OwnWeight")), "; ".join(nodes), ";\n      ".join(bars))


def cases_v(terms):
    lines = [E.HEADER, "From Coq Require Import String Ascii.\nFrom Inkfem Require Import Model.Regex Gen.GenRegex Model.Read Model.ReadPre.",
             "Definition txt (l : list nat) : string := string_of_list_ascii (map ascii_of_nat l)."]
    for k, t in enumerate(terms):
        lines.append("Definition case_%d : pre_case :=\n  %s." % (k, t))
    lines.append("Definition all_cases := [%s]." % "; ".join("case_%d" % k for k in range(len(terms))))
    lines.append("Definition M := Eval vm_compute in\n  flat_map (fun p => map (fun m => (fst p, m)) (cmp_pre (snd p))) (indexed all_cases).")
    lines.append("Print M.")
    return "\n".join(lines) + "\n"


def same_sliced(a, b):
    """the sliced structure before writing and after reading back: identical"""
    if a["DofCount"] != b["DofCount"]:
        return "equation count %d written, %d read back" % (a["DofCount"], b["DofCount"])
    if bool(a.get("OwnWeight")) != bool(b.get("OwnWeight")):
        return "own-weight flag %s written, %s read back" % (a.get("OwnWeight"), b.get("OwnWeight"))
    if [x["ID"] for x in a["Bars"]] != [x["ID"] for x in b["Bars"]]:
        return "bars %s written, %s read back" % ([x["ID"] for x in a["Bars"]], [x["ID"] for x in b["Bars"]])
    for pa, pb in zip(a["Bars"], b["Bars"]):
        if len(pa["Nodes"]) != len(pb["Nodes"]):
            return "bar %s: %d slice nodes written, %d read back" % (pa["ID"], len(pa["Nodes"]), len(pb["Nodes"]))
        for k, (na, nb) in enumerate(zip(pa["Nodes"], pb["Nodes"])):
            for f in ("T", "X", "Y", "Ext", "Left", "Right", "Dof"):
                if na[f] != nb[f]:
                    return "bar %s slice node %d: %s written as %s, read back as %s" % (pa["ID"], k, f.lower(), na[f], nb[f])
    return None


def cli_history(ctx, steps, files, name="c12h"):
    """run several commands in one scratch directory; steps: list of (args | ('write', name, text))"""
    import shutil
    import subprocess
    d = os.path.join(ctx.work, "cli_" + name)
    shutil.rmtree(d, ignore_errors=True)
    os.makedirs(d)
    for fn, text in files.items():
        open(os.path.join(d, fn), "w").write(text)
    log = []
    for st in steps:
        if st[0] == "write":
            open(os.path.join(d, st[1]), "w").write(st[2])
            log.append(("write", st[1]))
            continue
        p = subprocess.run([cli.BIN] + list(st), cwd=d, stdout=subprocess.PIPE, stderr=subprocess.PIPE, text=True, timeout=300)
        log.append((st, p.returncode, (p.stderr or p.stdout)[-300:]))
    out = {}
    for fn in os.listdir(d):
        p = os.path.join(d, fn)
        if os.path.isfile(p):
            out[fn] = open(p, errors="replace").read()
    shutil.rmtree(d, ignore_errors=True)
    return log, out


def reactions_of(sol_text):
    r = {}
    sec = None
    for l in sol_text.splitlines():
        l = l.strip()
        if l.startswith("|"):
            sec = l
            continue
        if sec == "|reactions|" and "->" in l:
            k, v = l.split("->")
            r[k.strip()] = [float(x) for x in v.split()]
    return r


def run(ctx):
    rng = random.Random(ctx.seed)
    res = C.prove(ctx, "Properties/C12.v", extra_targets=["Corr/Compare.vo"])
    ctx.log("proof stage:", "ok (%d theorems)" % res["discharged"] if res["ok"] else "BROKEN at " + res["stage"] + " " + str(res.get("failed_at", "")))
    n = 24 if ctx.tier == "quick" else 400
    structs = []
    for i in range(n):
        s = G.gen_solvable(rng) if i % 3 else G.gen_frame(rng, max_cells=1)
        if i % 4 == 2:
            # other unit systems: large magnitudes in the printed torsors (N, mm), tiny ones (kN, m)
            s = G.convert_units(s, Fr(rng.choice(["10", "0.01"])), Fr(rng.choice(["1", "0.001", "1000"])))
        if i % 6 == 1:
            # a slice node whose external, left and right loads are all large in the same component (N mm sized moments):
            # the printed net load is the float sum of the three in the order the program adds them
            b = s.bars[0]["id"]
            for k_, tt in enumerate((Fr("0.4"), Fr("0.65"), Fr("0.15"))):
                s.loads += [{"kind": "c", "term": "mz", "local": True, "bar": b, "t": tt, "v": Fr(rng.choice(["12750000.5", "98765432.1", "33333333.3"]))},
                            {"kind": "c", "term": "fy", "local": True, "bar": b, "t": tt, "v": Fr(rng.choice(["-125000.7", "777777.7"]))}]
            s.loads.append({"kind": "d", "term": "fy", "local": True, "bar": b, "t0": Fr(0), "v0": Fr("-42.3"), "t1": Fr(1), "v1": Fr("-17.9")})
        if i % 6 == 5:
            s = G.with_unused_node(s, rng)      # a node no bar is linked to has no equation numbers to write
        if i % 12 == 3:
            # identifiers have no maximum length: a bar line that is longer in the .inkfempre (blanks inside the braces, the node
            # count) than in the definition, around the 4096 bytes of a read buffer
            old = s.bars[0]["id"]
            line = next(l_ for l_ in s.text().split("\n") if l_.startswith(old + " ->"))
            long_id = "b" + "x" * (4092 - (i % 5) - len(line) + len(old) - 1)      # the definition's bar line: 4088 .. 4092 bytes
            s.bars[0]["id"] = long_id
            for l in s.loads:
                if l["bar"] == old:
                    l["bar"] = long_id
        if i % 12 == 7:
            # equal and opposite distributed loads either side of a node: its left and right loads cancel, neither is zero
            s = G.gen_beam(rng)
            b = s.bars[0]
            s.nodes[b["n1"]] = s.nodes[b["n1"]][:2] + ((True, True, True),)
            s.nodes[b["n2"]] = s.nodes[b["n2"]][:2] + ((True, True, True),)
            s.loads = [{"kind": "d", "term": "fx", "local": True, "bar": b["id"], "t0": Fr(0), "v0": Fr(1000), "t1": Fr("0.5"), "v1": Fr(1000)},
                       {"kind": "d", "term": "fx", "local": True, "bar": b["id"], "t0": Fr("0.5"), "v0": Fr(-1000), "t1": Fr(1), "v1": Fr(-1000)},
                       {"kind": "c", "term": "fy", "local": True, "bar": b["id"], "t": Fr("0.3"), "v": Fr(-200)}]
        structs.append(s)
    # a bar whose block in the file holds many slice nodes (37 and 27), ...
    structs += [G.gen_many_positions(rng, 26, 0), G.gen_many_positions(rng, 16, 0)]
    # ... and a structure measured in a small unit from an origin in its middle: coordinates of millions, of either sign, with fractions
    far = G.Structure()
    G.std_mat_sec(far)
    far.nodes = {"west": (Fr("-2500000.25"), Fr("0.5"), (True, True, True)), "east": (Fr("2500000.35"), Fr("0.5"), (False, True, False)),
                 "foot": (Fr("2500000.35"), Fr("-3999999.65"), (True, True, True))}
    far.bars = [{"id": "girder", "n1": "west", "l1": G.LINKS["rigid"], "n2": "east", "l2": G.LINKS["rigid"], "mat": "steel", "sec": "ipe"},
                {"id": "column", "n1": "east", "l1": G.LINKS["rigid"], "n2": "foot", "l2": G.LINKS["rigid"], "mat": "steel", "sec": "ipe"}]
    far.loads = [{"kind": "d", "term": "fy", "local": True, "bar": "girder", "t0": Fr(0), "v0": Fr("-0.002"), "t1": Fr(1), "v1": Fr("-0.002")}]
    far.meta = {"kind": "far-from-origin"}
    structs.append(far)
    cases = [{"Text": s.text(), "Weight": i % 3 == 0, "Solve": True, "Assemble": True, "Error": "1e-6" if i % 4 != 2 else "1e-3", "ViaPre": True} for i, s in enumerate(structs)]
    direct = [dict(c, ViaPre=False) for c in cases]
    if ctx.replay:
        import json
        rep = json.load(open(ctx.replay))["replay"]
        if rep.get("case"):
            cases = [rep["case"]]
            direct = [dict(rep["case"], ViaPre=False)]
    for c in cases[: (3 if ctx.tier == "quick" else 60)]:
        c["Templates"] = True
    outs = S.run_pipeline(ctx, cases)
    outs_d = S.run_pipeline(ctx, direct)
    concrete = 0
    terms, kept = [], []
    solved_both = 0
    for c, o, od in zip(cases, outs, outs_d):
        if o.get("ParsePanic") or not o.get("Pre"):
            continue
        first, last = o["Pre"][0], o["Pre"][-1]
        if len(o["Pre"]) < 2 or last.get("Panic"):
            msg = (last.get("Panic") if len(o["Pre"]) >= 2 else "no read-back") or ""
            ctx.violation("inkfem rejects the .inkfempre text it has just written: " + msg[:200], {"case": c, "pre_text": (o.get("PreText") or "")[:3000]})
            concrete += 1
            continue
        d = same_sliced(first, last)
        if d:
            if concrete < 3:
                ctx.violation("the sliced structure read back from the .inkfempre text differs from the one written: " + d, {"case": c})
            concrete += 1
            continue
        terms.append(pre_case_term(o["PreText"], o, last, None))
        kept.append(c)
        # history: definition -> pre -> solve-from-pre  vs  definition -> solve
        if M.solved(o) != M.solved(od):
            differs = not (marginal(o) or marginal(od))
            if differs:
                # the solver is not reproducible from run to run (its sums follow the iteration order of Go maps): a structure at the edge of
                # its iteration budget solves in one run and stops a thousand times above the bound in the next.  The two routes differ
                # only if one of them always solves and the other never does
                again = S.run_pipeline(ctx, [dict(c, ViaPre=(k % 2 == 0), Isolate=True, Templates=False) for k in range(8)])
                via = {M.solved(x) for k, x in enumerate(again) if k % 2 == 0} | {M.solved(o)}
                direct_ = {M.solved(x) for k, x in enumerate(again) if k % 2 == 1} | {M.solved(od)}
                differs = not (via & direct_)
                ctx.coverage["solvability_reruns"] = ctx.coverage.get("solvability_reruns", 0) + 1
            if differs:
                ctx.violation("solving from the .inkfempre file %s, solving the definition directly %s" % (
                    "fails" if not M.solved(o) else "succeeds", "fails" if not M.solved(od) else "succeeds"), {"case": c})
                concrete += 1
            continue
        if M.solved(o):
            ta, tb = M.utol(o), M.utol(od)
            if ta is None or tb is None:
                continue
            solved_both += 1
            ident = M.Transform(lambda x, y, z: (x, y, z), lambda fx, fy, mz, p: (fx, fy, mz))
            fails = M.compare(od, o, ident, ta + tb, "solve from .inkfempre vs solve the definition")
            if fails:
                if concrete < 3:
                    ctx.violation("; ".join(fails[:3]), {"case": c, "failures": fails})
                concrete += 1
    ctx.log("%d structures written as .inkfempre and read back; %d solved both ways and compared" % (len(terms), solved_both))
    # corrupted preprocessed texts: same verdict and error class in the model and in the implementation
    bad = []
    for c, o in list(zip(cases, outs))[: (6 if ctx.tier == "quick" else 60)]:
        if o.get("PreText"):
            for kind, t in L.corruptions(rng, o["PreText"], 4 if ctx.tier == "quick" else 20):
                bad.append(t)
    bad_out = C.dump("readpre", [{"Text": t} for t in bad]) if bad else []
    for t, bo in zip(bad, bad_out):
        terms.append(pre_case_term(t, bo.get("Def") or {}, bo.get("Pre"), bo.get("Panic")) if (bo.get("Panic") or bo.get("Pre")) else None)
    terms = [t for t in terms if t]
    # command line history, incl. an existing, longer .inkfempre at the same path
    # two structures that both solve; the first one's .inkfempre is the longer text
    big = small = None
    for _ in range(12):
        a, b = G.gen_portal(rng), G.gen_beam(rng)
        ra = cli.run(ctx, ["solve", "-p", "x.inkfem"], files={"x.inkfem": a.text()}, name="c12s")
        rb = cli.run(ctx, ["solve", "-p", "x.inkfem"], files={"x.inkfem": b.text()}, name="c12s")
        la, lb = ra.files.get("x.inkfempre"), rb.files.get("x.inkfempre")
        if ra.status == 0 and rb.status == 0 and la and lb and len(la) != len(lb):
            big, small = (a, b) if len(la) > len(lb) else (b, a)
            break
    if big is None:
        big, small = G.gen_portal(rng), G.gen_beam(rng)
    log, files = cli_history(ctx, [["pre", "x.inkfem"], ("write", "x.inkfem", small.text()), ["pre", "x.inkfem"], ["solve", "x.inkfempre"], ["solve", "x.inkfem"]],
                             {"x.inkfem": big.text()})
    codes = [e[1] for e in log if e[0] != "write"]
    sol_pre = next((v for k, v in files.items() if k.endswith(".inkfemsol") and "inkfempre" in k), None)
    sol_def = files.get("x.inkfemsol")
    if codes[:3] != [0, 0, 0] or sol_pre is None:
        ctx.violation("history pre (large structure), pre (smaller structure, same path), solve x.inkfempre: exit codes %s, %s" % (codes, [e[2][:120] for e in log if e[0] != "write" and e[1] != 0][:2]),
                      {"history": [str(e[0]) for e in log], "big": big.text(), "small": small.text()})
        concrete += 1
    elif sol_def is not None:
        ra, rb = reactions_of(sol_pre), reactions_of(sol_def)
        if set(ra) != set(rb) or any(abs(x - y) > 1e-3 * (1 + abs(y)) for k in ra for x, y in zip(ra[k], rb[k])):
            ctx.violation("solve x.inkfempre and solve x.inkfem report different reactions: %s vs %s" % (ra, rb), {"big": big.text(), "small": small.text()})
            concrete += 1
    validated, corr = 0, None
    if res["stage"] != "translate" and terms:
        nn, mism = S.run_stage(ctx, "P", terms, cases_v, shard=3)
        ctx.log("stage P: %d .inkfempre texts read by the Coq model and compared value by value, %s" % (nn, "no mismatch" if mism == [] else ("BROKEN" if mism is None else "%d mismatch" % len(mism))))
        if mism is None:
            corr = "case file did not compile"
        elif mism:
            corr = "pre-reader model and implementation differ: " + mism[0][1][:300]
        else:
            validated = nn
    if res["stage"] != "translate":
        triples = [("tmpl_preprocess", o["PreData"], o["PreText"]) for o in outs if o.get("PreData") and o.get("PreText")]
        ng, mg = S.stageG(ctx, triples, shard=1)
        ctx.log("stage G: %d .inkfempre texts rendered by the Coq model of text/template from the translated template, %s" % (
            ng, "identical to what Go wrote" if mg == [] else ("BROKEN" if mg is None else "%d differ" % len(mg))))
        if mg is None:
            corr = corr or "stage G case file did not compile"
        elif mg:
            corr = corr or ("the translated preprocess template rendered by the model differs from the written text: " + mg[0][1][:200])
        else:
            validated += ng
    if corr and concrete == 0:
        ctx.violation("correspondence between the Coq model of the .inkfempre reader and the implementation no longer holds (%s)" % corr,
                      {"correspondence": corr, "searched": "%d structures through the write/read-back and solve-from-pre oracles, none fails" % len(cases)}, no_input=True)
    if not res["ok"] and concrete == 0:
        ctx.violation("proof obligation no longer checks (%s %s)" % (res["stage"], res.get("failed_at", "")),
                      {"theorem_file": "Properties/C12.v", "stage": res["stage"], "failed_at": res.get("failed_at"), "log_tail": res["log"][-3000:],
                       "searched": "%d structures through the oracles, none fails" % len(cases)}, no_input=True)
    ctx.coverage = {
        "obligations": res["obligations"], "discharged": res["discharged"],
        "checker_cmd": "make -C coq Properties/C12.vo && coqc Properties/C12.v (Coq 8.16.1, full .vo build)",
        "trusted_base": C.standard_trusted_base(res) + ["Go regexp / strconv / %v formatting modelled as for C10"],
        "theorems": res.get("names", []), "traces_validated_against_impl": validated, "evaluations": len(cases) + len(bad) + 1,
        "distinct_nontrivial": len({c["Text"] for c in kept}), "solved_both_ways": solved_both, "corrupted_pre_texts": len(bad),
        "rule": "solvable structures and one-cell frames with all link kinds, a quarter of them converted to other unit systems (printed torsors from 1e-9 to 1e9), own weight on every third: preprocessed, written "
                "with iopre.Write, read back with iopre.Read (must be accepted; bars, slice nodes, t, positions, ext / left / right loads, equation numbers, count and own-weight flag identical), then solved from "
                "the read-back structure and directly (compared at every position, tolerance from both residuals); single-fault corruptions of the written texts (verdict and error class vs the model); one "
                "command-line history with an older, longer .inkfempre at the same path. Stage P: the Coq model reads the written text. non-trivial = distinct structures accepted and compared",
        "samples": [kept[-1]["Text"][:500]] if kept else [],
    }
    ctx.assumptions = ["solver oracle as C01 for the solve-from-file comparison", "the model adds the three loads exactly and allows the float rounding of those additions in the net-load check"]


def marginal(o):
    m = re.search(r"error ([-+0-9.eE]+) in equation \d+ \(max allowed is ([-+0-9.eE]+)\)", o.get("SolvePanic") or "")
    return bool(m) and float(m.group(1)) <= 50 * float(m.group(2))
