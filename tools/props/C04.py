"""C04 — preprocessing conserves every applied load (static equivalence per bar)."""
from .. import gen_struct as G
from .. import oracles as O
from .. import stages as S
from . import core


def lookalikes(rng, k):
    """loads that invite a wrong identification: a user load equal to the bar's own-weight load
    (global fy, whole span, -density x area) solved with -w; the same load written twice; two
    bars carrying equal loads"""
    from fractions import Fraction as Fr
    out = []
    for i in range(k):
        s = G.gen_single_bar(rng) if i % 3 else G.gen_frame(rng, max_cells=1)
        for b in s.bars[: 1 + i % 2]:
            w = -s.mats[b["mat"]][0] * s.secs[b["sec"]][0]
            s.loads.append({"kind": "d", "term": "fy", "local": False, "bar": b["id"], "t0": Fr(0), "v0": w, "t1": Fr(1), "v1": w})
        if i % 2:
            s.loads += [dict(l) for l in s.loads[:2]]
        if len(s.bars) > 1 and s.loads:
            s.loads.append(dict(s.loads[0], bar=s.bars[-1]["id"]))
        s.meta = {"kind": "lookalike"}
        out.append(core.case_from_struct(s, Weight=True, Repeat=1 + i % 2))
    for i in range(max(2, k // 3)):
        # the same kind of bar in MN / mm: every density is a number below 1e-10, the weight is still there
        s = G.convert_units(G.gen_single_bar(rng) if i % 2 else G.gen_frame(rng, max_cells=1), 10, Fr(1, 10 ** 6))
        s.meta = {"kind": "tiny-density"}
        out.append(core.case_from_struct(s, Weight=True))
    return out


def gen(rng, tier):
    n1, n2 = (140, 25) if tier == "quick" else (3000, 400)
    cases = lookalikes(rng, 8 if tier == "quick" else 80)
    for i in range(n1):
        cases.append(core.case_from_struct(G.gen_single_bar(rng), Weight=core.weights(i), Repeat=1 + (i % 4 == 1) * 2))
    for i in range(6 if tier == "quick" else 100):
        cases.append(core.case_from_struct(G.gen_twins(rng), Weight=core.weights(i)))
    for i in range(8 if tier == "quick" else 100):
        cases.append(core.case_from_struct(G.gen_pinned_near_end(rng), Weight=False))
        cases.append(core.case_from_struct(G.gen_pinned_at_end_within_tolerance(rng), Weight=False))
    for i in range(n2):
        cases.append(core.case_from_struct(G.gen_frame(rng), Weight=core.weights(i), Repeat=1 + (i % 4 == 1)))
    return cases


def oracle(c, o):
    fails = []
    pre = o["Pre"][0]
    byid = {b["ID"]: b for b in o["Bars"]}
    for pb in pre["Bars"]:
        fails += O.c04_bar(byid[pb["ID"]], pb, bool(c.get("Weight")))
    fails += O.c04_history(o)
    return fails


def resultant_v(terms):
    return S.stageB_v(terms).replace("cmp_sliced (1 # 10000000000)", "cmp_resultants (1 # 1000000000)")


SPEC = {
    "text_fidelity": True,
    "prop_file": "Properties/C04.v",
    "gen": gen,
    "oracle": oracle,
    "corpus_opts": {"Repeat": 2},
    "stages": [("B", lambda c, o, rng: S.stageB_case(o, bool(c.get("Weight"))), S.stageB_v, 6, None),
               ("R", lambda c, o, rng: S.stageB_case(o, bool(c.get("Weight"))), resultant_v, 3, 30)],
    "nontrivial": lambda c, o: any((b.get("DL") or b.get("CL")) for b in o["Bars"]),
    "rule": "look-alike loads first (a user load equal to the own-weight load with -w, exact duplicates, equal loads on two bars); then as C15, plus 1-3 preprocessing calls on the same parsed structure; non-trivial iff some bar carries a load; every case goes through StructureModel, the exact resultant oracle "
            "(sum of node torsors moved to the bar start vs closed-form resultant of the input loads; call k = call 1; input unchanged), the Coq evaluation of preprocess_bar (stage B) and, for 30 cases, "
            "the statement of C04_bar_equivalence evaluated in Coq (stage R)",
    "assumptions": ["inkgeom modelled as for C15; Node.DistanceTo between collinear nodes modelled as the projection c dx + s dy",
                    "oracle tolerance 1e-9 x sum of |terms|, plus 2e-10 L |F| on the moment (positions are identified up to 1e-10)"],
}


def run(ctx):
    core.run(ctx, SPEC)
