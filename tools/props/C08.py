"""C08 — results are independent of input ordering, naming, formatting and scheduling."""
import itertools
import random
from fractions import Fraction as Fr

from .. import common as C
from .. import gen_struct as G
from .. import layouts as L
from .. import meta as M
from .. import physics as P
from .. import stages as S
from . import C10, core, solcore

ERR = "1e-6"


def coincident(rng, flitch=None):
    """two bars with identical geometry between the same nodes (ties in the sort by position) plus a third"""
    s = G.Structure()
    G.std_mat_sec(s, rng)
    s.nodes = {"n1": (Fr(0), Fr(0), (True, True, True)), "n2": (Fr(300), Fr(0), (False, False, False)), "n3": (Fr(300), Fr(400), (True, True, False))}
    s.bars = [{"id": "a", "n1": "n1", "l1": G.LINKS["rigid"], "n2": "n2", "l2": G.LINKS["rigid"], "mat": "steel", "sec": "ipe"},
              {"id": "b", "n1": "n1", "l1": G.LINKS["rigid"], "n2": "n2", "l2": G.LINKS[rng.choice(["rigid", "pin"])], "mat": "steel", "sec": "ipe"},
              {"id": "c", "n1": "n2", "l1": G.LINKS["rigid"], "n2": "n3", "l2": G.LINKS["rigid"], "mat": "steel", "sec": "ipe"}]
    s.loads = [{"kind": "d", "term": "fy", "local": True, "bar": "a", "t0": Fr(0), "v0": Fr(-20), "t1": Fr(1), "v1": Fr(-35)},
               {"kind": "c", "term": "fx", "local": False, "bar": "b", "t": Fr("0.4"), "v": Fr(500)},
               {"kind": "c", "term": "fy", "local": False, "bar": "c", "t": Fr(0), "v": Fr(-250)}]
    s.meta = {"kind": "coincident-bars"}
    if (rng.random() < 0.5) if flitch is None else flitch:
        # a flitch beam: two different members (another section, another material) side by side between the
        # same nodes, sliced alike and carrying the same loads (none, or the same one each)
        s.secs["plate"] = (Fr("24"), Fr("288"), Fr("2"), Fr("48"), Fr("4"))
        s.mats["timber"] = (Fr("0.0000005"), Fr(1100000), Fr(69000), Fr("0.3"), Fr(2400), Fr(4000))
        s.bars[1].update(l2=G.LINKS["rigid"], mat="timber", sec="plate")
        s.loads = s.loads[2:]
        if rng.random() < 0.5:
            for bid in ("a", "b"):
                s.loads.append({"kind": "d", "term": "fy", "local": True, "bar": bid, "t0": Fr(0), "v0": Fr(-20), "t1": Fr(1), "v1": Fr(-20)})
        s.meta = {"kind": "coincident-bars/flitch"}
    return s


def partition_of(pre):
    """slice-node components grouped by equation number: a set of frozensets (renumbering-invariant)"""
    groups = {}
    for pb in pre["Bars"]:
        for k, n in enumerate(pb["Nodes"]):
            for c in range(3):
                groups.setdefault(n["Dof"][c], set()).add((pb["ID"], k, c))
    return {frozenset(v) for v in groups.values()}


def same_sliced_up_to_numbers(a, b, exact=True):
    if a["DofCount"] != b["DofCount"]:
        return "equation count %d vs %d" % (a["DofCount"], b["DofCount"])
    ba, bb = {x["ID"]: x for x in a["Bars"]}, {x["ID"]: x for x in b["Bars"]}
    if set(ba) != set(bb):
        return "bars %s vs %s" % (sorted(ba), sorted(bb))
    for k in ba:
        na, nb = ba[k]["Nodes"], bb[k]["Nodes"]
        if len(na) != len(nb):
            return "bar %s: %d vs %d slice nodes" % (k, len(na), len(nb))
        for x, y in zip(na, nb):
            for f in ("T", "X", "Y", "Ext", "Left", "Right"):
                if x[f] != y[f]:
                    if not exact and f in ("Ext", "Left", "Right"):
                        # load lines listed in another order are added up in another order: a few units in the last place
                        mag = sum(abs(C.ffloat(v)) for v in x[f]) + sum(abs(C.ffloat(v)) for v in y[f])
                        if all(abs(C.ffloat(p) - C.ffloat(q)) <= Fr(1, 10 ** 12) * mag for p, q in zip(x[f], y[f])):
                            continue
                    return "bar %s: slice node %s differs (%s vs %s)" % (k, f, x[f], y[f])
    if partition_of(a) != partition_of(b):
        return "the equation numbers induce different partitions of the unknowns"
    return None


def gen(rng, tier):
    n = 8 if tier == "quick" else 120
    cases = []
    for g in range(n):
        s = G.gen_name_collision(rng) if g == 3 else coincident(rng, flitch=(g % 8 == 0)) if g % 4 == 0 else (G.gen_twins(rng) if g % 4 == 2 else (G.gen_solvable(rng) if g % 2 else G.gen_frame(rng, max_cells=1)))
        if g % 8 == 5:
            # a support no bar is linked to, beside the ordinary supports (valid input: a node left over after a bar was removed)
            s = G.with_unused_node(coincident(rng, flitch=False), rng)
            s.nodes["unused"] = s.nodes["unused"][:2] + ((True, True, True),)
        if g % 8 in (1, 7) and s.bars:
            # three load lines at one point of a bar (two of them in global axes): whatever order the lines come in
            def inclined(b):
                (x1, y1, _), (x2, y2, _) = s.nodes[b["n1"]], s.nodes[b["n2"]]
                return x1 != x2 and y1 != y2
            cand = [b for b in s.bars[:5] if b["l1"][2] or b["l2"][2]] or s.bars[:5]
            b = ([b for b in cand if inclined(b)] or cand)[0]
            tt = Fr("0.4375")
            if all(abs(tt - x) > Fr("0.002") for l in s.loads if l["bar"] == b["id"] for x in ([l["t"]] if l["kind"] == "c" else [l["t0"], l["t1"]])):
                s.loads += [{"kind": "c", "term": "fy", "local": True, "bar": b["id"], "t": tt, "v": Fr(-900)},
                            {"kind": "c", "term": "fx", "local": False, "bar": b["id"], "t": tt, "v": Fr(1300)},
                            {"kind": "c", "term": "fy", "local": False, "bar": b["id"], "t": tt, "v": Fr(-2100)}]
        if len(s.bars) > 5:
            s.bars = s.bars[:5]
            ids = {b["id"] for b in s.bars}
            s.loads = [l for l in s.loads if l["bar"] in ids]
            used = {b["n1"] for b in s.bars} | {b["n2"] for b in s.bars} | ({"unused"} if "unused" in s.nodes else set())
            s.nodes = {k: v for k, v in s.nodes.items() if k in used}
        base = L.layout(rng, s, plain=True)
        w = (g % 3 == 0) and s.meta["kind"] != "coincident-bars/flitch"     # with their weight on, the two members of a flitch beam carry different loads
        cases.append({"Text": base, "kind": s.meta["kind"], "group": g, "role": "base", "Weight": w, "Solve": True, "Assemble": True, "Error": ERR, "Repre": True})
        ids = [b["id"] for b in s.bars]
        perms = list(itertools.permutations(ids))
        if len(perms) > (6 if tier == "quick" else 24):
            perms = rng.sample(perms, 6 if tier == "quick" else 24)
        # every completion order of the slicing goroutines (imposed through the gate)
        for p in perms:
            cases.append({"Text": base, "kind": "schedule", "group": g, "role": "schedule", "Order": ",".join(p), "Isolate": True, "Weight": w, "Solve": True, "Assemble": True, "Error": ERR})
        # free scheduling, repeated
        for k in range(2):
            cases.append({"Text": base, "kind": "repeat", "group": g, "role": "repeat", "Isolate": k == 1, "Weight": w, "Solve": True, "Assemble": True, "Error": ERR})
        # the same structure: bars / lines / sections reordered, comments and padding, renamed
        t = s.copy()
        rng.shuffle(t.bars)
        rng.shuffle(t.loads)
        items = list(t.nodes.items())
        rng.shuffle(items)
        t.nodes = dict(items)
        cases.append({"Text": L.layout(rng, t), "kind": "reordered", "group": g, "role": "reordered", "Weight": w, "Solve": True, "Assemble": True, "Error": ERR})
        for order in (("nodes", "materials", "sections", "bars", "loads"), ("bars", "loads", "sections", "materials", "nodes"), ("loads", "bars", "nodes", "sections", "materials")):
            cases.append({"Text": L.layout(rng, s, plain=True, order=order), "kind": "sections", "group": g, "role": "reordered", "Weight": w, "Solve": True, "Assemble": True, "Error": ERR})
        r = C10.rename(rng, s)
        r.meta = {"map": {"bars": {a["id"]: b["id"] for a, b in zip(s.bars, r.bars)}, "nodes": dict(zip(s.nodes, r.nodes))}}
        cases.append({"Text": L.layout(rng, r), "kind": "renamed", "group": g, "role": "renamed", "names": r.meta["map"], "Weight": w, "Solve": True, "Assemble": True, "Error": ERR})
        cases.append({"Text": base, "kind": "end", "group": g, "role": "end", "Weight": False, "Solve": False, "ParseOnly": True})
    # a load exactly on an even tenth of a bar and another within the slicing tolerance (1e-3) of it, plus a third elsewhere:
    # every order of the three load lines
    for k in range(3 if tier == "quick" else 12):
        g = n + k
        s = G.gen_beam(rng)
        b = s.bars[0]
        t0 = Fr(["0.5", "0.2", "0.4", "0.6", "0.1", "0.7"][k % 6])       # (exactly representable or not: the uniform cut may or may not be the same float)
        d = Fr(["0.0008", "-0.0007", "0.00000000004"][k % 3])       # (the last one: within the 1e-10 at which positions are taken for one)
        s.loads = [{"kind": "c", "term": "fy", "local": True, "bar": b["id"], "t": t0, "v": Fr(-2000)},
                   {"kind": "c", "term": "fy", "local": True, "bar": b["id"], "t": t0 + d, "v": Fr(-500)},
                   {"kind": "c", "term": rng.choice(["fy", "mz"]), "local": True, "bar": b["id"], "t": Fr(rng.choice(["0.3", "0.85", "0.6125"])), "v": Fr(-700)}]
        base = L.layout(rng, s, plain=True)
        cases.append({"Text": base, "kind": "close-loads", "group": g, "role": "base", "Weight": False, "Solve": True, "Assemble": True, "Error": ERR, "Repre": True})
        for perm in list(itertools.permutations(range(3)))[1:]:
            t = s.copy()
            t.loads = [s.loads[i] for i in perm]
            cases.append({"Text": L.layout(rng, t, plain=True), "kind": "load-lines", "group": g, "role": "reordered", "Weight": False, "Solve": True, "Assemble": True, "Error": ERR})
        cases.append({"Text": base, "kind": "end", "group": g, "role": "end", "Weight": False, "Solve": False, "ParseOnly": True})
    return cases


_groups = {}
IDENT = M.Transform(lambda x, y, z: (x, y, z), lambda fx, fy, mz, p: (fx, fy, mz))


def oracle(c, o):
    g = c.get("group")
    if g is None:
        return []
    _groups.setdefault(g, []).append((c, o))
    if c["role"] != "end":
        return []
    members = _groups.pop(g)
    base = next(((cc, oo) for cc, oo in members if cc["role"] == "base"), None)
    if base is None or base[1].get("ParsePanic") or not base[1].get("Pre") or base[1]["Pre"][0].get("Panic"):
        return []
    cA, oA = base
    fails = []
    if oA.get("PreAfter") is not None:
        # what preprocessing returned must not change when the same definition is preprocessed again later in the process
        pa = oA["PreAfter"]
        if pa.get("Panic"):
            fails.append("looking at the first preprocessed structure after a second preprocessing panicked: " + pa["Panic"][:150])
        elif pa != oA["Pre"][0]:
            d = same_sliced_up_to_numbers(oA["Pre"][0], pa) or "the equation numbers of its nodes changed"
            fails.append("the preprocessed structure changed after the definition was preprocessed once more: " + d)
    tA = M.utol(oA) if M.solved(oA) else None
    for cc, oB in members:
        role = cc["role"]
        if role in ("base", "end"):
            continue
        what = {"schedule": "completion order %s" % cc.get("Order"), "repeat": "a second run", "reordered": "bars / lines / sections reordered",
                "renamed": "consistently renamed"}[role]
        if oB.get("ParsePanic") or not oB.get("Pre") or oB["Pre"][0].get("Panic"):
            fails.append("%s: %s" % (what, (oB.get("ParsePanic") or "preprocessing failed")[:150]))
            continue
        if role in ("schedule", "repeat", "reordered"):
            d = same_sliced_up_to_numbers(oA["Pre"][0], oB["Pre"][0], exact=(role != "reordered"))
            if d:
                fails.append("%s: %s" % (what, d))
                continue
        if M.solved(oA) != M.solved(oB):
            if not (P_marginal(oA) or P_marginal(oB)):
                fails.append("%s: solved = %s, the reference run solved = %s" % (what, M.solved(oB), M.solved(oA)))
            continue
        if tA is None or not M.solved(oB):
            continue
        tB = M.utol(oB)
        if tB is None:
            continue
        tr = IDENT
        if role == "renamed":
            nm = cc["names"]
            tr = M.Transform(IDENT.disp, IDENT.react, bar_map={k: (v, False) for k, v in nm["bars"].items()}, node_map=nm["nodes"])
        fails += M.compare(oA, oB, tr, tA + tB, what)
    return fails[:6]


def P_marginal(o):
    import re
    m = re.search(r"error ([-+0-9.eE]+) in equation \d+ \(max allowed is ([-+0-9.eE]+)\)", o.get("SolvePanic") or "")
    return bool(m) and float(m.group(1)) <= 50 * float(m.group(2))


def stageC(c, o, rng):
    if c.get("role") != "schedule" or o.get("ParsePanic") or not o.get("Pre") or o["Pre"][0].get("Panic"):
        return None
    return S.stageC_case(o)


SPEC = {
    "prop_file": "Properties/C08.v",
    "gen": gen,
    "adaptive_error": True,
    "oracle": oracle,
    "corpus_filter": lambda c: False,
    "stages": [("C", stageC, S.stageC_v, 6, 60)],
    "nontrivial": lambda c, o: c.get("role") in ("schedule", "reordered", "renamed") and not o.get("ParsePanic"),
    "rule": "groups: a structure of <= 5 bars (every fourth with two coincident bars: ties in the sort by position; every fourth twin bars whose load positions agree to six decimals without being equal) and, against it: every completion order of the slicing goroutines imposed through the verif gate, each in a process of its own "
            "(all N! for N <= 3, 6 / 24 sampled beyond), two free-scheduling repeats, the same definition with bars, load lines, node lines and sections permuted plus comments / padding, and a consistent renaming "
            "of nodes, bars, materials and sections. Oracle: identical sliced bars (positions and loads) and the same partition of unknowns / count for every order; solved iff the reference solves; displacements, "
            "diagrams and reactions equal at every position within the tolerance from both residuals. Stage C: the numbers of every imposed order equal the Coq numbering model run on the implementation's bar order.",
    "assumptions": ["absence of data races in the Go memory model and of runtime deadlocks outside the modelled protocol is not provable here (the harness binaries can additionally be built with -race)",
                    "sort.Sort is assumed to return a permutation (ties in any order)"],
}


def race_runs(ctx):
    """supporting evidence only (a detector, not a proof): the binary built with Go's race detector runs every
    combination of the flags that start goroutines; any report is a violation with the command as replay"""
    import os
    import subprocess
    from .. import cli
    exe = os.path.join(C.HARNESS, "bin", "inkfem_race")
    env = dict(C.GOENV, CGO_ENABLED="1")
    with C.Lock():
        rc, out = C.sh(["go", "build", "-race", "-tags", "verif", "-o", exe, "."], cwd=C.REPO, env=env, timeout=900)
    if rc != 0:
        ctx.log("race-detector build not available here (%s): skipped" % out.strip()[-120:])
        return 0
    rng = __import__("random").Random(ctx.seed)
    texts = [G.gen_portal(rng).text(), G.gen_name_collision(rng).text()]
    ex = os.path.join(C.REPO, "examples", "loadsstr.inkfem")
    if os.path.exists(ex):
        texts.append(open(ex).read())
    # a frame of several dozen bars (whatever the code does differently for large structures is exercised too)
    frame = subprocess.run([cli.BIN, "generate", "--type", "retic", "--spans", "5", "--levels", "4"], stdout=subprocess.PIPE, text=True).stdout
    if frame.startswith("inkfem v"):
        texts.append(frame)
    runs = 0
    saved = cli.BIN
    cli.BIN = exe
    try:
        for text in texts:
            large = text is texts[-1] and len(texts) > 3
            for args in (["solve", "-s", "-p", "x.inkfem"], ["solve", "-p", "-w", "x.inkfem"], ["solve", "-s", "-v", "x.inkfem"], ["pre", "x.inkfem"])[: (2 if large and ctx.tier == "quick" else 4)]:
                for rep in range((1 if large else 2) if ctx.tier == "quick" else 10):
                    r = cli.run(ctx, args, files={"x.inkfem": text}, env={"GORACE": "halt_on_error=1"}, name="c08race", timeout=300)
                    runs += 1
                    msg = (r.stderr or "") + (r.stdout or "")
                    if "DATA RACE" in msg or "concurrent map" in msg:
                        ctx.violation("the race detector reports a data race in `inkfem %s`: %s" % (" ".join(args), msg[msg.find("DATA RACE"):][:300].replace("\n", " | ")),
                                      {"args": args, "text": text, "report": msg[-3000:]})
                        return runs
    finally:
        cli.BIN = saved
    return runs


def race_on(ctx, args, files, what):
    """one command under the race-detector build (supporting evidence: a detector, not a proof); returns 1 when it ran"""
    import os
    from .. import cli
    exe = os.path.join(C.HARNESS, "bin", "inkfem_race")
    env = dict(C.GOENV, CGO_ENABLED="1")
    with C.Lock():
        rc, out = C.sh(["go", "build", "-race", "-tags", "verif", "-o", exe, "."], cwd=C.REPO, env=env, timeout=900)
    if rc != 0:
        ctx.log("race-detector build not available here (%s): skipped" % out.strip()[-120:])
        return 0
    saved = cli.BIN
    cli.BIN = exe
    try:
        r = cli.run(ctx, args, files=files, env={"GORACE": "halt_on_error=1"}, name="race", timeout=600)
    finally:
        cli.BIN = saved
    msg = (r.stderr or "") + (r.stdout or "")
    if "DATA RACE" in msg or "concurrent map" in msg:
        ctx.violation("the race detector reports a data race in `inkfem %s` on %s: %s" % (" ".join(args), what, msg[msg.find("DATA RACE"):][:300].replace("\n", " | ")),
                      {"args": args, "how": what, "report": msg[-3000:]})
    return 1


def many_bars(ctx):
    """a frame of 615 bars preprocessed with 1, 7 and all processors, its bars listed in the generated, the reversed and a rotated
    order: every bar of the definition is sliced, whichever order the lines come in and however many goroutines run at a time"""
    import re
    from .. import cli
    text = cli.run(ctx, ["generate", "--type", "retic", "--spans", "20", "--levels", "15"], name="c08big").stdout
    lines = text.split("\n")
    k = next((i for i, l in enumerate(lines) if l.strip() == "|bars|"), None)
    if k is None:
        return 0
    end = next((i for i in range(k + 1, len(lines)) if lines[i].startswith("|")), len(lines))
    bars = [l for l in lines[k + 1:end] if l.strip()]
    ids = sorted(l.split("->")[0].strip() for l in bars)
    runs = 0
    plan = {"as generated": ("1", "7", None), "reversed": ("7",), "rotated": (None,)} if ctx.tier == "quick" else {}
    for what, order in (("as generated", bars), ("reversed", bars[::-1]), ("rotated", bars[205:] + bars[:205])):
        t = "\n".join(lines[:k + 1] + order + lines[end:])
        for procs in plan.get(what, ("1", "7", None)):
            r = cli.run(ctx, ["pre", "x.inkfem"], files={"x.inkfem": t}, env={"GOMAXPROCS": procs} if procs else {}, name="c08big", timeout=300)
            runs += 1
            pre = r.files.get("x.inkfempre") or ""
            got = sorted(m.group(1).strip() for m in re.finditer(r"^(.+?)\s*->.*>>\s*\d+\s*$", pre, re.M))
            if r.status != 0 or got != ids:
                missing = sorted(set(ids) - set(got))[:6]
                ctx.violation("a frame of %d bars, bar lines %s, GOMAXPROCS=%s: pre exits %s and slices %d bars (missing: %s)" % (
                    len(ids), what, procs or "all", r.status, len(got), missing), {"args": ["pre", "x.inkfem"], "env": {"GOMAXPROCS": procs}, "how": "generate --spans 20 --levels 15, bar lines " + what})
                return runs
    return runs


def run(ctx):
    _groups.clear()
    core.run(ctx, SPEC)
    nb = many_bars(ctx)
    ctx.coverage["many_bars_runs"] = nb
    ctx.log("%d runs of pre on a 615-bar frame (three bar orders, GOMAXPROCS 1, 7, all): every bar sliced" % nb)
    n = race_runs(ctx)
    ctx.coverage["race_detector_runs"] = n
    ctx.log("%d runs of the race-detector build (solve -s -p, solve -p -w, solve -s -v, pre): no report" % n if not any("race detector" in v[2] for v in ctx.violations) else "race detector reported a race")
