"""Shared runner for the properties decided on the preprocessing core (C15, C04, C16, C17):
theorem file -> pipeline dump -> oracle on the implementation -> stage correspondence in Coq."""
import glob
import json
import os
import random
from fractions import Fraction as Fr

from .. import common as C
from .. import stages as S
from .. import gen_struct as G


def corpus_cases(names=("defects", "regress")):
    out = []
    for d in names:
        for p in sorted(glob.glob(os.path.join(C.VERIF, "corpus", d, "*.inkfem"))):
            out.append({"Text": open(p).read(), "origin": "corpus/%s/%s" % (d, os.path.basename(p)), "kind": "corpus"})
    return out


def case_from_struct(s, **opts):
    d = {"Text": s.text(), "kind": getattr(s, "meta", {}).get("kind", "?")}
    d.update(opts)
    return d


def replay_cases(ctx):
    rep = json.load(open(ctx.replay))["replay"]
    c = rep.get("case")
    if not c:
        return []
    return [c]


def declared_vs_read(c, o):
    from .. import parse_inkfem
    from . import C10
    try:
        s = parse_inkfem.parse(c["Text"])
    except Exception:
        return []       # a layout the minimal independent parser does not cover: nothing to compare with
    return ["the structure handed to the solver is not the one the file declares: " + f for f in C10.expect(s, o)]


def adapt_errors(ctx, cases):
    """The solver (an external PCG with an absolute stopping rule and 10 n iterations) does not converge to a tight error on
    badly conditioned structures, and a group whose reference run is not solved judges nothing.  For every group the
    reference run is tried at its error x 1, 1e2, 1e4, 1e6; the group is then run one step looser than the tightest error
    that solved (all members alike, so that their ratios stay what the generator chose)."""
    groups = {}
    for c in cases:
        if c.get("group") is not None and c.get("Solve"):
            groups.setdefault(c["group"], []).append(c)
    factors = [1.0, 1e2, 1e4, 1e6]
    probes, owners = [], []
    for g, members in groups.items():
        base = next((m for m in members if m.get("role") == "base"), members[0])
        e0 = float(base.get("Error") or "1e-5")
        for f in factors:
            probes.append(dict(base, Error="%.9e" % (e0 * f), Isolate=False, Order="", Repre=False, Templates=False, Reassemble=False, Restage=0, Concurrent=False))
            owners.append((g, f))
    if not probes:
        return {}
    outs = S.run_pipeline(ctx, probes)
    ok = {}
    for (g, f), o in zip(owners, outs):
        if o.get("Sol") and not o.get("SolvePanic") and not o.get("SysPanic"):
            ok.setdefault(g, []).append(f)
    chosen = {}
    for g, members in groups.items():
        if g not in ok:
            continue        # never solved: the group stays as generated (and judges nothing)
        k = factors.index(min(ok[g]))
        f = factors[min(k + 1, len(factors) - 1)]
        chosen[g] = f
        for m in members:
            m["AdaptFactor"] = f      # > 1: the reference run of this group does not solve at the error first asked for
        if f != 1.0:
            for m in members:
                m["Error"] = "%.9e" % (float(m.get("Error") or "1e-5") * f)
    return chosen


def run(ctx, spec):
    rng = random.Random(ctx.seed)
    res = C.prove(ctx, spec["prop_file"], extra_targets=["Corr/Compare.vo"])
    ctx.log("proof stage:", "ok (%d theorems)" % res["discharged"] if res["ok"] else "BROKEN at " + res["stage"] + " " + str(res.get("failed_at", "")))

    adapt_info = None
    spec["proof_ok"] = res["ok"]      # oracles that set marginal outcomes aside as known findings stop doing so when the proof is broken
    if ctx.replay:
        cases = replay_cases(ctx)
    else:
        cases = [c for c in corpus_cases() if spec.get("corpus_filter", lambda c: True)(c)]
        for c in cases:
            c.update(spec.get("corpus_opts", {}))
        cases += spec["gen"](rng, ctx.tier)
        if spec.get("adaptive_error"):
            chosen = adapt_errors(ctx, cases)
            ngroups = len({c.get("group") for c in cases if c.get("group") is not None})
            ctx.log("requested error per group adapted to what the solver reaches: %d of %d groups have a reference run that solves (factors %s)" % (
                len(chosen), ngroups, sorted(set(chosen.values()))))
            adapt_info = {"groups": ngroups, "groups_with_a_solved_reference_run": len(chosen), "error_factors_used": sorted(set(chosen.values()))}
    outs = S.run_pipeline(ctx, cases)
    ctx.log("ran %d structures through the implementation" % len(cases))

    concrete = 0
    usable = []
    skipped = {"parse_error": 0, "pre_panic": 0}
    for c, o in zip(cases, outs):
        if o.get("ParsePanic"):
            skipped["parse_error"] += 1
            if c.get("kind") != "corpus":
                ctx.violation("a generated, well-formed definition was rejected: " + o["ParsePanic"][:200],
                              {"case": c, "panic": o["ParsePanic"]})
                concrete += 1
            continue
        if o["Pre"] and o["Pre"][-1].get("Panic"):
            skipped["pre_panic"] += 1
            ctx.violation("preprocessing panicked: " + o["Pre"][-1]["Panic"][:200], {"case": c, "panic": o["Pre"][-1]["Panic"]})
            concrete += 1
            continue
        if o.get("Sol") and not o.get("U") and o.get("Pre") and not o.get("SolvePanic"):
            # a solution was reported although the observer saw no solver call: judge what was reported
            from .. import physics as _P
            try:
                o["U"] = _P.u_from_solution(o)
                o["UReconstructed"] = True
            except Exception:
                pass
        fails = []
        if spec.get("text_fidelity"):
            # the property speaks about the structure the FILE describes: what the implementation's reader
            # produced is first compared, field for field, with an independent reading of the same text
            fails = declared_vs_read(c, o)
        fails = fails or spec["oracle"](c, o)
        if not fails and c.get("HoldText") and (o.get("HeldPanic") or (o.get("SolHeld") is not None and
                                                  (o["SolHeld"] != o.get("Sol") or (o.get("ReacHeld") or {}) != (o.get("Reactions") or {})))):
            # a caller that solves several structures in one process and looks at the results afterwards
            fails = ["the solution handed back for this structure changed (or could no longer be read) after another structure was solved in the same process" +
                     (": " + o["HeldPanic"][:120] if o.get("HeldPanic") else "")]
        if fails:
            if concrete < 3:
                ctx.violation("%s fails on the implementation: %s" % (ctx.prop, "; ".join(fails[:3])),
                              {"case": c, "failures": fails[:10],
                               "how": "harness/bin/dump pipeline on the definition text in case.Text (weight=%s, repeat=%s)" % (c.get("Weight"), c.get("Repeat", 1))})
            concrete += 1
        usable.append((c, o))

    validated = 0
    corr_broken = None
    if res["stage"] != "translate":
        for name, term_fn, v_fn, shard, limit in spec["stages"]:
            sel = usable[:limit] if limit else usable
            def term_of(co):
                try:
                    return term_fn(co[0], co[1], rng)
                except (ValueError, OverflowError):
                    return None     # non-finite numbers in the observables: nothing the exact model can be evaluated on (the oracle has judged them)
            pairs = [(co, term_of(co)) for co in sel]
            sel = [co for co, t in pairs if t is not None]   # a term function returns None for cases its stage does not apply to
            terms = [t for co, t in pairs if t is not None]
            n, mism = S.run_stage(ctx, name, terms, v_fn, shard=shard)
            if name == "H":
                ctx.log("stage H: the computed hypotheses of the structure-level theorems hold on %s of %d sliced structures" % (ctx.stage_counts.get("H"), n))
            ctx.log("stage %s: %d cases evaluated in Coq, %s" % (name, n, "no mismatch" if mism == [] else ("BROKEN" if mism is None else "%d cases mismatch" % len(mism))))
            if mism is None:
                corr_broken = corr_broken or ("stage %s case file did not compile" % name, None)
            elif mism:
                k, txt = mism[0]
                corr_broken = corr_broken or ("stage %s: model and implementation differ: %s" % (name, txt[:300]), sel[k][0])
            else:
                validated += n
    if corr_broken and concrete == 0:
        what, case = corr_broken
        ctx.violation("correspondence between the Coq model and the implementation no longer holds (%s)" % what,
                      {"correspondence": what, "case": case,
                       "searched": "%d structures through the %s oracle, none fails" % (len(usable), ctx.prop)},
                      no_input=True)
    if not res["ok"] and concrete == 0:
        ctx.violation("proof obligation no longer checks (%s %s)" % (res["stage"], res.get("failed_at", "")),
                      {"theorem_file": spec["prop_file"], "stage": res["stage"], "failed_at": res.get("failed_at"),
                       "log_tail": res["log"][-3000:],
                       "searched": "%d structures through the %s oracle, none fails" % (len(usable), ctx.prop)},
                      no_input=True)

    dist = {}
    for c in cases:
        dist[c.get("kind", "?")] = dist.get(c.get("kind", "?"), 0) + 1
    nontrivial = {c["Text"] + str(c.get("Weight")) for c, o in usable if spec["nontrivial"](c, o)}
    ctx.coverage = {
        "obligations": res["obligations"], "discharged": res["discharged"],
        "checker_cmd": "make -C coq <%s>.vo && coqc <each> (Coq 8.16.1, full .vo build)" % (spec["prop_file"],),
        "trusted_base": C.standard_trusted_base(res) + spec.get("trusted_extra", []),
        "theorems": res.get("names", []),
        "traces_validated_against_impl": validated,
        "evaluations": len(cases), "distinct_nontrivial": len(nontrivial),
        "rule": spec["rule"], "distribution": dist, "skipped": skipped,
        "structure_theorem_hypotheses_hold_on": ctx.stage_counts.get("H"),
        "samples": [c["Text"] for c in cases[-2:]] if cases else [],
    }
    if adapt_info:
        ctx.coverage["adaptive_error"] = adapt_info
    ctx.assumptions = spec.get("assumptions", [])


def weights(i):
    return i % 3 == 0
