"""C19 — generate emits the documented reticular frame as a valid definition."""
import re
from fractions import Fraction as Fr

from .. import cli
from .. import common as C
from .. import emit as E
from .. import stages as S


def flagval(x):
    return G_dec(x)


def G_dec(x):
    from .. import gen_struct as G
    return G.dec(x)


def configs(rng, tier):
    top = 4 if tier == "quick" else 8
    out = []
    for s in range(0, top + 1):
        for l in range(0, top + 1):
            if tier == "quick" and (s + l) % 2 == 1 and s > 1 and l > 1:
                continue
            span = Fr(rng.choice(["400", "250.5", "0.1", "1.23456789", "3", "1200", "0.00025"]))
            height = Fr(rng.choice(["300", "275.25", "0.3", "2.000001", "1000"]))
            load = Fr(rng.choice(["50", "-12.5", "0", "0.001", "7300", "33.333"]))
            out.append((s, l, span, height, load))
    return out


def parse_generated(ctx, text):
    o = S.run_pipeline(ctx, [{"Text": text, "Solve": False}])[0]
    return o


def documented(s, l, span, height, load, o):
    """The documentation's frame, checked directly on what the implementation's own reader makes
    of the printed definition."""
    fails = []
    if o.get("ParsePanic"):
        return ["inkfem does not parse what generate printed: " + o["ParsePanic"][:200]]
    o["Bars"] = o.get("Bars") or []
    o["Nodes"] = o.get("Nodes") or []
    nodes = {n["ID"]: n for n in o["Nodes"]}
    if len(nodes) != (s + 1) * (l + 1):
        fails.append("%d nodes, expected (spans+1)(levels+1) = %d" % (len(nodes), (s + 1) * (l + 1)))
    grid = {}
    for n in o["Nodes"]:
        x, y = C.ffloat(n["X"]), C.ffloat(n["Y"])
        j = round(x / span) if span else 0
        i = round(y / height) if height else 0
        if abs(x - j * span) > Fr(1, 10 ** 12) * (abs(x) + 1) or abs(y - i * height) > Fr(1, 10 ** 12) * (abs(y) + 1) or not (0 <= j <= s and 0 <= i <= l):
            fails.append("node %s at (%s, %s) is not on the %s x %s grid" % (n["ID"], n["X"], n["Y"], float(span), float(height)))
            continue
        if (i, j) in grid:
            fails.append("two nodes at grid position (%d, %d)" % (i, j))
        grid[(i, j)] = n["ID"]
        fixed = n["Dx"] and n["Dy"] and n["Rz"]
        free = not (n["Dx"] or n["Dy"] or n["Rz"])
        if i == 0 and not fixed:
            fails.append("bottom node %s is not fully fixed" % n["ID"])
        if i > 0 and not free:
            fails.append("node %s above the ground is not free" % n["ID"])
    beams, cols = set(), set()
    mats, secs = set(), set()
    for b in o["Bars"]:
        mats.add(b["Mat"])
        secs.add(b["Sec"])
        if not (all(b["L1"]) and all(b["L2"])):
            fails.append("bar %s is not rigidly linked" % b["ID"])
        pos = {v: k for k, v in grid.items()}
        a, c = pos.get(b["N1"]), pos.get(b["N2"])
        if a is None or c is None:
            fails.append("bar %s ends at an unknown grid node" % b["ID"])
            continue
        key = tuple(sorted((a, c)))
        dl, cl = b.get("DL") or [], b.get("CL") or []
        if a[0] == c[0] and abs(a[1] - c[1]) == 1 and a[0] >= 1:
            if key in beams:
                fails.append("beam %s duplicated" % (key,))
            beams.add(key)
            ok = len(dl) == 1 and not cl and dl[0]["Term"] == "fy" and dl[0]["Local"] and C.ffloat(dl[0]["T0"]) == 0 and C.ffloat(dl[0]["T1"]) == 1 \
                and C.ffloat(dl[0]["V0"]) == C.ffloat(dl[0]["V1"]) and abs(C.ffloat(dl[0]["V0"]) + load) <= Fr(1, 10 ** 15) * abs(load)
            if not ok:
                fails.append("beam %s does not carry exactly one downward uniform load of %s" % (b["ID"], float(load)))
        elif a[1] == c[1] and abs(a[0] - c[0]) == 1:
            if key in cols:
                fails.append("column %s duplicated" % (key,))
            cols.add(key)
            if dl or cl:
                fails.append("column %s carries a load" % b["ID"])
        else:
            fails.append("bar %s joins %s and %s: neither a beam above the ground nor a column" % (b["ID"], a, c))
    if len(beams) != s * l:
        fails.append("%d beams, expected spans x levels = %d" % (len(beams), s * l))
    if len(cols) != (s + 1) * l:
        fails.append("%d columns, expected (spans+1) x levels = %d" % (len(cols), (s + 1) * l))
    if len(o["Bars"]) != s * l + (s + 1) * l:
        fails.append("%d bars in total" % len(o["Bars"]))
    if o["Bars"] and (len(mats) != 1 or len(secs) != 1):
        fails.append("more than one material / section")
    if len({b["ID"] for b in o["Bars"]}) != len(o["Bars"]):
        fails.append("bar ids are not unique")
    return fails


def case_term(s, l, span, height, load, o):
    def nid(x):
        return int(x)
    nodes = sorted(o["Nodes"], key=lambda n: int(n["ID"]))
    ns = ["(%d%%nat, %s, %s, %s)" % (int(n["ID"]), E.q(n["X"]), E.q(n["Y"]), E.b(n["Dx"] and n["Dy"] and n["Rz"])) for n in nodes]
    free_ok = all((n["Dx"] and n["Dy"] and n["Rz"]) or not (n["Dx"] or n["Dy"] or n["Rz"]) for n in nodes)
    bs = ["(%d%%nat, %d%%nat, %d%%nat, %s)" % (int(b["ID"]), int(b["N1"]), int(b["N2"]), E.b(all(b["L1"]) and all(b["L2"]))) for b in o["Bars"]]
    ls = []
    extra_conc = 0
    for b in o["Bars"]:
        for d in b.get("DL") or []:
            ls.append("(%d%%nat, %s)" % (int(b["ID"]), E.dload(d)))
        extra_conc += len(b.get("CL") or [])
    if extra_conc:
        ls.append("(0%%nat, %s)" % E.dload({"Term": "fx", "Local": True, "T0": "0", "V0": "0", "T1": "0", "V1": "0"}))
    return ("{| gc_spans := %d; gc_levels := %d; gc_span := %s; gc_height := %s; gc_load := %s;\n   gc_nodes := [%s];\n   gc_free_ok := %s;\n   gc_bars := [%s];\n   gc_loads := [%s] |}"
            % (s, l, C.qlit(Fr(float(span))), C.qlit(Fr(float(height))), C.qlit(Fr(float(load))), "; ".join(ns), E.b(free_ok), "; ".join(bs), "; ".join(ls)))


def cases_v(terms):
    lines = [E.HEADER, "From Inkfem Require Import Gen.GenReticular Model.Generate."]
    for k, t in enumerate(terms):
        lines.append("Definition case_%d : gen_case :=\n  %s." % (k, t))
    lines.append("Definition all_cases := [%s]." % "; ".join("case_%d" % k for k in range(len(terms))))
    lines.append("Definition M := Eval vm_compute in\n  flat_map (fun p => map (fun m => (fst p, (fst m, snd m))) (cmp_generate (snd p))) (indexed all_cases).")
    lines.append("Print M.")
    return "\n".join(lines) + "\n"


def slender_marginal(ctx, text, span, height, msg):
    """the listed finding's input class: a grid whose span : level ratio is 1 : 90 or beyond (either way), on which
    solve stops in its convergence check (loudly) at the default error, and which solves with -e 0.1"""
    ratio = max(span / height, height / span) if span > 0 and height > 0 else 0
    if ratio < 90 or not re.search(r"Couldn't solve the system of equations: error [-+0-9.eE]+ in equation \d+", msg or ""):
        return False
    r4 = cli.run(ctx, ["solve", "-e", "0.1", "g.inkfem"], files={"g.inkfem": text}, name="c19s", timeout=300)
    return r4.status == 0


def run(ctx):
    import random
    rng = random.Random(ctx.seed)
    res = C.prove(ctx, "Properties/C19.v", extra_targets=["Corr/Compare.vo"])
    ctx.log("proof stage:", "ok (%d theorems)" % res["discharged"] if res["ok"] else "BROKEN at " + res["stage"] + " " + str(res.get("failed_at", "")))
    cfgs = configs(rng, ctx.tier)
    if ctx.replay:
        import json
        rep = json.load(open(ctx.replay))["replay"]
        if rep.get("config"):
            cfgs = [tuple(Fr(x) if i > 1 else int(x) for i, x in enumerate(rep["config"]))]
    concrete = 0
    known = set()
    terms, kept = [], []
    solved = failed_solve = 0
    for k_cfg, (s, l, span, height, load) in enumerate(cfgs):
        # both documented spellings of the typology, and the short flags
        args = ["generate", "--type", ("retic", "reticular", "retic")[k_cfg % 3], "--spans", str(s), "--levels", str(l), "--span", G_dec(span), "--level", G_dec(height), "--load", G_dec(load)]
        r = cli.run(ctx, args, name="c19")
        cfg = [s, l, str(span), str(height), str(load)]
        if r.status != 0 or r.timeout:
            ctx.violation("generate exited with status %s for spans=%d levels=%d: %s" % (r.status, s, l, (r.stderr or r.stdout)[-300:]), {"config": cfg, "args": args})
            concrete += 1
            continue
        o = parse_generated(ctx, r.stdout)
        fails = documented(s, l, span, height, load, o)
        if fails:
            if concrete < 3:
                ctx.violation("generate --spans %d --levels %d --span %s --level %s --load %s: %s" % (s, l, float(span), float(height), float(load), "; ".join(fails[:3])),
                              {"config": cfg, "args": args, "stdout": r.stdout[:4000], "failures": fails[:10]})
            concrete += 1
            continue
        terms.append(case_term(s, l, span, height, load, o))
        kept.append(cfg)
        # whenever it has at least one level the generated frame is stable and solves
        if l >= 1 and (s + 1) * (l + 1) <= (30 if ctx.tier == "quick" else 81):
            r2 = cli.run(ctx, ["solve", "g.inkfem"], files={"g.inkfem": r.stdout}, name="c19s", timeout=300)
            if r2.status == 0 and "g.inkfemsol" in r2.files and "nan" not in (r2.files["g.inkfemsol"] or "").lower():
                solved += 1
            else:
                failed_solve += 1
                msg = (r2.stderr or r2.stdout)
                m = re.search(r"error ([-+0-9.eE]+) in equation \d+ \(max allowed is ([-+0-9.eE]+)\)", msg)
                marginal = bool(m) and float(m.group(1)) <= 50 * float(m.group(2))
                r3 = cli.run(ctx, ["solve", "-e", "1e-3", "g.inkfem"], files={"g.inkfem": r.stdout}, name="c19s", timeout=300)
                listed = any(f.get("id") == "K-C19-default-error-vs-load-magnitude" for f in C.load_known().get("findings", []))
                if marginal and r3.status == 0 and listed:
                    known.add("K-C19-default-error-vs-load-magnitude: generate --spans %d --levels %d --span %s --level %s --load %s does not solve at the default --error 1e-5 (%s), solves with -e 1e-3"
                              % (s, l, G_dec(span), G_dec(height), G_dec(load), m.group(0)[:60]))
                elif any(f.get("id") == "K-C19-slender-frames-marginal-convergence" for f in C.load_known().get("findings", [])) and slender_marginal(ctx, r.stdout, span, height, msg):
                    known.add("K-C19-slender-frames-marginal-convergence: generate --spans %d --levels %d --span %s --level %s --load %s (span : level beyond 1 : 90) stops in the convergence check at the default error, solves with -e 0.1"
                              % (s, l, G_dec(span), G_dec(height), G_dec(load)))
                elif span >= 1 and height >= 1:
                    # spans of 0.00025 against a steel section are outside any sensible use; default-like lengths must solve
                    ctx.violation("the frame generated for spans=%d levels=%d span=%s level=%s load=%s does not solve: %s" % (s, l, float(span), float(height), float(load), msg[-200:]),
                                  {"config": cfg, "args": args})
                    concrete += 1
    # large frames (hundreds of nodes), several times each: every parameter value is in the property's domain
    big_runs = 0
    for (s, l) in ([(32, 16)] if ctx.tier == "quick" else [(32, 16), (60, 10), (120, 5), (18, 40)]):
        for rep_k in range(3 if ctx.tier == "quick" else 6):
            span, height, load = Fr("400"), Fr("300"), Fr("50")
            args = ["generate", "--type", "retic", "--spans", str(s), "--levels", str(l)]
            r = cli.run(ctx, args, name="c19")
            big_runs += 1
            if r.status != 0 or r.timeout:
                ctx.violation("generate exited with status %s for spans=%d levels=%d" % (r.status, s, l), {"config": [s, l, "400", "300", "50"], "args": args})
                concrete += 1
                break
            fails = documented(s, l, span, height, load, parse_generated(ctx, r.stdout))
            if fails:
                ctx.violation("generate --spans %d --levels %d (run %d of the same command): %s" % (s, l, rep_k + 1, "; ".join(fails[:3])),
                              {"config": [s, l, "400", "300", "50"], "args": args, "failures": fails[:10], "note": "repeat the command: the outcome varies from run to run"})
                concrete += 1
                break
    # many divisions with lengths that are not dyadic: positions must be index x length, not a running sum
    for (s, l, span, height, load) in ([(10, 2, "365.76", "3.3", "50"), (15, 7, "0.1", "3.3", "-12.5"), (12, 6, "12345.678", "0.7", "12345.678"),
                                        # measured downwards or leftwards (negative level height / span length): the same grid, mirrored
                                        (3, 2, "400", "-300", "50"), (2, 3, "-250", "300", "10"),
                                        # whole numbers past the range of a 64-bit integer (a span in picometres, a load in micronewtons)
                                        (2, 2, "10000000000000000000", "300000000000000000000", "300000000000000000000")]
                                       + ([] if ctx.tier == "quick" else [(28, 3, "365.76", "0.1", "7"), (20, 11, "0.7", "3.3", "1e-3"), (33, 9, "1.1", "2.2", "99999.99")])):
        args = ["generate", "--type", "retic", "--spans", str(s), "--levels", str(l), "--span", span, "--level", height, "--load", load]
        r = cli.run(ctx, args, name="c19")
        big_runs += 1
        fails = ["exit status %s" % r.status] if r.status != 0 else documented(s, l, Fr(span), Fr(height), Fr(load), parse_generated(ctx, r.stdout))
        if fails:
            ctx.violation("generate --spans %d --levels %d --span %s --level %s --load %s: %s" % (s, l, span, height, load, "; ".join(fails[:3])),
                          {"config": [s, l, span, height, load], "args": args, "failures": fails[:10]})
            concrete += 1
    ctx.log("%d generations of large or finely divided frames checked against the documentation" % big_runs)
    # several definitions written one after the other by one process: each is what a process of its own prints
    # (among them grids with the same number of nodes and of bars but another shape, one right after the other: 2 x 6 and 3 x 4 nodes, 15 bars)
    seq = [(30, 20), (2, 1), (40, 25), (1, 1), (3, 2), (1, 5), (2, 3), (3, 3), (1, 7)] if ctx.tier == "quick" else [(30, 20), (2, 1), (40, 25), (1, 1), (3, 2), (1, 5), (2, 3), (3, 3), (1, 7), (60, 14), (2, 2), (0, 3), (1, 1)]
    many = C.dump("defwrites", [{"Spans": s_, "Levels": l_, "Span": "400", "Height": "300", "Load": "50"} for s_, l_ in seq], timeout=600)
    for (s_, l_), text in zip(seq, many):
        alone = cli.run(ctx, ["generate", "--type", "retic", "--spans", str(s_), "--levels", str(l_)], name="c19").stdout
        if sorted(text.split("\n")) != sorted(alone.split("\n")):
            ctx.violation("written after other definitions in one process, the %d x %d frame is not the text `generate --spans %d --levels %d` prints (%d vs %d bytes)" % (
                s_, l_, s_, l_, len(text), len(alone)), {"sequence": seq, "how": "harness/bin/dump defwrites (generate.Reticular + io/def Write, one process)", "head": text[:300]})
            concrete += 1
            break
    ctx.log("%d definitions written one after the other in one process, each compared with what generate prints" % len(seq))
    for k in sorted(known)[:4]:
        ctx.known.append(k)
    validated = 0
    corr = None
    if res["stage"] != "translate":
        n, mism = S.run_stage(ctx, "G", terms, cases_v, shard=12)
        ctx.log("stage G: %d generated definitions compared with the Coq model, %s" % (n, "no mismatch" if mism == [] else ("BROKEN" if mism is None else "%d mismatch" % len(mism))))
        if mism is None:
            corr = ("case file did not compile", None)
        elif mism:
            corr = ("model and generate differ: " + mism[0][1][:300], kept[mism[0][0]])
        else:
            validated = n
    if corr and concrete == 0:
        ctx.violation("correspondence between the Coq model and generate no longer holds (%s)" % corr[0],
                      {"correspondence": corr[0], "config": corr[1], "searched": "%d configurations through the documented-frame oracle, none fails" % len(cfgs)}, no_input=True)
    if not res["ok"] and concrete == 0:
        ctx.violation("proof obligation no longer checks (%s %s)" % (res["stage"], res.get("failed_at", "")),
                      {"theorem_file": "Properties/C19.v", "stage": res["stage"], "failed_at": res.get("failed_at"), "log_tail": res["log"][-3000:],
                       "searched": "%d configurations through the documented-frame oracle, none fails" % len(cfgs)}, no_input=True)
    ctx.coverage = {
        "obligations": res["obligations"], "discharged": res["discharged"],
        "checker_cmd": "make -C coq Properties/C19.vo && coqc Properties/C19.v (Coq 8.16.1, full .vo build)",
        "trusted_base": C.standard_trusted_base(res), "theorems": res.get("names", []),
        "traces_validated_against_impl": validated, "evaluations": len(cfgs),
        "distinct_nontrivial": len({(c[0], c[1]) for c in kept if c[0] >= 1 and c[1] >= 1}),
        "rule": "all (spans, levels) in 0..%d squared (quick: a checkerboard of them above 1), zeros included, with span / level / load values drawn from short and long decimals, tiny and negative / zero loads; "
                "the binary's stdout is parsed by the implementation's own reader and (i) checked against the documented frame by an independent oracle, (ii) compared node by node and bar by bar with "
                "the Coq model gen_nodes / gen_bars (stage G), (iii) solved when it has at least one level; non-trivial iff spans >= 1 and levels >= 1" % (4 if ctx.tier == "quick" else 8),
        "solved": solved, "not_solved_extreme_magnitudes": failed_solve,
        "exhaustive": False, "samples": [kept[-1]] if kept else [],
    }
    ctx.assumptions = ["the reader used to interpret generate's output is the implementation's own (C10 decides its fidelity)",
                       "'stable and solves' is explored for the sizes listed, not proved for all sizes"]
