"""C11 — the .inkfemsol file is a complete and faithful record of the solution."""
import os
import random
import re
from fractions import Fraction as Fr

from .. import cli
from .. import common as C
from .. import gen_struct as G
from .. import physics as P
from .. import stages as S
from . import C12, core, solcore

TAGS = ["__gdx__", "__gdy__", "__grz__", "__ldx__", "__ldy__", "__lrz__", "__axial__", "__shear__", "__bend__", "__bend_axial_stress__"]
KEYS = ["gdx", "gdy", "grz", "ldx", "ldy", "lrz", "axial", "shear", "bend", "bend_axial"]
NUM = r"[-+]?(?:\d+\.?\d*(?:[eE][-+]?\d+)?|NaN|Inf)"


def parse_sol(text):
    """strict, independent parser of a .inkfemsol text -> (version, reactions, bars) or an error string"""
    lines = text.split("\n")
    if not lines or not re.fullmatch(r"inkfem v(\d+)\.(\d+)", lines[0].strip()):
        return "first line %r is not the version header" % (lines[0] if lines else "")
    m = re.fullmatch(r"inkfem v(\d+)\.(\d+)", lines[0].strip())
    version = (int(m.group(1)), int(m.group(2)))
    body = [l for l in lines[1:] if l.strip() != ""]
    if not body or body[0].strip() != "|reactions|":
        return "the |reactions| section does not follow the header"
    k = 1
    reactions = []
    while k < len(body) and body[k].strip() != "|bars|":
        mm = re.fullmatch(r"([\w\-_]+) -> (%s) (%s) (%s)" % (NUM, NUM, NUM), body[k].strip())
        if not mm:
            return "bad reaction line %r" % body[k]
        reactions.append((mm.group(1), mm.group(2), mm.group(3), mm.group(4)))
        k += 1
    if k >= len(body):
        return "no |bars| section"
    k += 1
    bars = []
    while k < len(body):
        mm = re.fullmatch(r"([\w\-_]+) -> ([\w\-_]+) (\{[^}]*\}) ([\w\-_]+) (\{[^}]*\}) '([^']+)' '([^']+)'", body[k].strip())
        if not mm:
            return "expected a bar header, found %r" % body[k]
        bar = {"ID": mm.group(1), "N1": mm.group(2), "L1": mm.group(3), "N2": mm.group(4), "L2": mm.group(5), "Mat": mm.group(6), "Sec": mm.group(7), "Series": {}}
        k += 1
        for tag, key in zip(TAGS, KEYS):
            if k >= len(body) or body[k].strip() != tag:
                return "bar %s: expected the tag %s, found %r" % (bar["ID"], tag, body[k] if k < len(body) else "<end>")
            k += 1
            T, V = [], []
            while k < len(body):
                mv = re.fullmatch(r"(%s) : (%s)" % (NUM, NUM), body[k].strip())
                if not mv:
                    break
                T.append(mv.group(1))
                V.append(mv.group(2))
                k += 1
            bar["Series"][key] = {"T": T, "V": V}
        bars.append(bar)
    return version, reactions, bars


def cons_of(s):
    return ("dx" in s, "dy" in s, "rz" in s)


def file_oracle(text, o, weight, build_version):
    """the written text against the in-memory solution it was written from and the input"""
    parsed = parse_sol(text)
    if isinstance(parsed, str):
        return ["the solution file is not well-formed: " + parsed]
    version, reactions, bars = parsed
    fails = []
    if version != build_version:
        fails.append("header says v%d.%d, the build version is v%d.%d" % (version + build_version))
    want = sorted(n["ID"] for n in o["Nodes"] if n["Dx"] or n["Dy"] or n["Rz"])
    if sorted(r[0] for r in reactions) != want:
        fails.append("reaction lines for %s, supported nodes are %s" % (sorted(r[0] for r in reactions), want))
    half = Fr(1, 2 * 10 ** 6) + Fr(1, 10 ** 9)

    def printed_ok(txt, value):
        v = C.ffloat(value)
        return abs(Fr(txt) - v) <= half + abs(v) * Fr(1, 10 ** 14)
    for rid, fx, fy, mz in reactions:
        if rid in (o.get("Reactions") or {}):
            # reactions are printed with Go's default formatting (shortest exact form)
            for t, v in zip((fx, fy, mz), o["Reactions"][rid]):
                if float(t) != float(v):
                    fails.append("reaction of %s printed as %s, computed %s" % (rid, t, v))
    ids_in = [b["ID"] for b in o["Bars"]]
    ids_file = [b["ID"] for b in bars]
    if sorted(ids_file) != sorted(ids_in):
        fails.append("bar blocks %s, bars of the input %s" % (ids_file, ids_in))
    byid = {b["ID"]: b for b in o["Bars"]}
    sol = {sb["ID"]: sb for sb in o["Sol"]}
    pre = {pb["ID"]: pb for pb in o["Pre"][-1]["Bars"]}
    for b in bars:
        jb, sb, pb = byid.get(b["ID"]), sol.get(b["ID"]), pre.get(b["ID"])
        if jb is None or sb is None:
            continue
        if (b["N1"], b["N2"], b["Mat"], b["Sec"]) != (jb["N1"], jb["N2"], jb["Mat"], jb["Sec"]) or cons_of(b["L1"]) != tuple(jb["L1"]) or cons_of(b["L2"]) != tuple(jb["L2"]):
            fails.append("bar %s: header line %s does not describe the bar of the input" % (b["ID"], (b["N1"], b["L1"], b["N2"], b["L2"], b["Mat"], b["Sec"])))
        n = len(pb["Nodes"])
        node_ts = [C.ffloat(x["T"]) for x in pb["Nodes"]]
        for key in KEYS:
            fs, ms = b["Series"][key], sb["Series"][key]
            if len(fs["T"]) != len(ms["T"] or []):
                fails.append("bar %s %s: %d values in the file, %d computed" % (b["ID"], key, len(fs["T"]), len(ms["T"] or [])))
                continue
            for i, (t, v, mt, mv) in enumerate(zip(fs["T"], fs["V"], ms["T"], ms["V"])):
                if not printed_ok(t, mt) or not printed_ok(v, mv):
                    fails.append("bar %s %s[%d]: file has %s : %s, computed %s : %s" % (b["ID"], key, i, t, v, mt, mv))
                    break
            ts = [Fr(t) for t in fs["T"]]
            if ts and (ts[0] != 0 or ts[-1] != 1 or any(a > c for a, c in zip(ts, ts[1:]))):
                fails.append("bar %s %s: positions do not run from 0 to 1 without going backwards" % (b["ID"], key))
            if key in KEYS[:6]:
                if len(ts) != n:
                    fails.append("bar %s %s: %d values for %d slice nodes" % (b["ID"], key, len(ts), n))
            else:
                if not (n <= len(ts) <= 2 * n - 2):
                    fails.append("bar %s %s: %d values for %d slice nodes (expected between n and 2n-2)" % (b["ID"], key, len(ts), n))
                if any(all(abs(t - nt) > Fr(1, 10 ** 6) for nt in node_ts) for t in ts):
                    fails.append("bar %s %s: a listed position is not a slice node" % (b["ID"], key))
        if len({tuple(b["Series"][k]["T"]) for k in KEYS[:6]}) != 1:
            fails.append("bar %s: the six displacement series are not listed at the same positions" % b["ID"])
    return fails[:6]


def run(ctx):
    rng = random.Random(ctx.seed)
    res = C.prove(ctx, "Properties/C11.v", extra_targets=["Corr/Compare.vo"])
    ctx.log("proof stage:", "ok (%d theorems)" % res["discharged"] if res["ok"] else "BROKEN at " + res["stage"] + " " + str(res.get("failed_at", "")))
    vtxt = open(os.path.join(C.REPO, "build", "VERSION")).read().strip()
    mv = re.fullmatch(r"v(\d+)\.(\d+)", vtxt)
    build_version = (int(mv.group(1)), int(mv.group(2))) if mv else (0, 0)
    cases = solcore.gen(rng, ctx.tier, n_quick=36, n_thorough=800)
    # (cases solved from the .inkfempre text read back are kept: solve x.inkfempre writes a solution file too)
    if ctx.replay:
        import json
        rep = json.load(open(ctx.replay))["replay"]
        if rep.get("case"):
            cases = [rep["case"]]
    for c in cases[: (8 if ctx.tier == "quick" else 60)]:
        c["Templates"] = True
    outs = S.run_pipeline(ctx, cases)
    concrete, files = 0, 0
    usable = []
    for c, o in zip(cases, outs):
        early = [] if o.get("ParsePanic") else core.declared_vs_read(c, o)
        if early:
            # what is solved (or found unsolvable) is not the structure the file declares: nothing written can be its record
            if concrete < 3:
                ctx.violation("the .inkfemsol text is not a faithful record: " + "; ".join(early[:3]), {"case": c, "failures": early})
            concrete += 1
            continue
        if not solcore.solved(o) or not o.get("SolText"):
            continue
        files += 1
        usable.append((c, o))
        fails = core.declared_vs_read(c, o) or file_oracle(o["SolText"], o, bool(c.get("Weight")), build_version)
        # the reactions printed in the file must balance the loads (C03's oracle on the file's own numbers)
        parsed = parse_sol(o["SolText"])
        if not isinstance(parsed, str):
            o2 = dict(o, Reactions={r[0]: [r[1], r[2], r[3]] for r in parsed[1]})
            fails += ["reactions in the file: " + f for f in P.c03_reactions(o2, bool(c.get("Weight")))]
            # the diagrams as the file lists them satisfy statics (both values at a loaded node): six printed decimals
            # are compared with a tolerance that covers the rounding of the print
            if not fails and c.get("kind", "").startswith("disparate"):
                o3 = dict(o, Sol=[{"ID": b["ID"], "Series": b["Series"]} for b in parsed[2]], MaxError="0.0001")
                fails += ["diagrams in the file: " + f for f in P.c02_structure(o3, bool(c.get("Weight"))) if "statics from the bar start" in f]
        if fails:
            if concrete < 3:
                ctx.violation("the .inkfemsol text is not a faithful record: " + "; ".join(fails[:3]), {"case": c, "failures": fails, "sol_text": o["SolText"][:3000]})
            concrete += 1
    ctx.log("%d solution files parsed strictly and compared with the solutions they were written from" % files)
    # the binary: same path solved twice, the second structure smaller
    # two structures that both solve; the second solution must be the shorter text (what a missing
    # truncation would leave behind shows then)
    big = small = None
    for _ in range(12):
        a, b = G.gen_portal(rng), G.gen_beam(rng)
        ra = cli.run(ctx, ["solve", "x.inkfem"], files={"x.inkfem": a.text()}, name="c11s")
        rb = cli.run(ctx, ["solve", "x.inkfem"], files={"x.inkfem": b.text()}, name="c11s")
        la, lb = ra.files.get("x.inkfemsol"), rb.files.get("x.inkfemsol")
        if ra.status == 0 and rb.status == 0 and la and lb and len(la) != len(lb):
            big, small = (a, b) if len(la) > len(lb) else (b, a)
            break
    if big is None:
        big, small = G.gen_portal(rng), G.gen_beam(rng)
    log, fs = C12.cli_history(ctx, [["solve", "x.inkfem"], ("write", "x.inkfem", small.text()), ["solve", "x.inkfem"]], {"x.inkfem": big.text()}, name="c11h")
    codes = [e[1] for e in log if e[0] != "write"]
    if codes == [0, 0]:
        parsed = parse_sol(fs.get("x.inkfemsol", ""))
        if isinstance(parsed, str):
            ctx.violation("after solving a structure and then a smaller one at the same path the solution file is not well-formed: " + parsed,
                          {"history": ["solve x.inkfem (portal)", "rewrite x.inkfem (beam)", "solve x.inkfem"], "big": big.text(), "small": small.text()})
            concrete += 1
        elif [b["ID"] for b in parsed[2]] != [b["id"] for b in small.bars]:
            ctx.violation("the solution file of the second, smaller structure lists bars %s" % [b["ID"] for b in parsed[2]], {"big": big.text(), "small": small.text()})
            concrete += 1
    # a solve that fails (an error nothing can meet; a mechanism): whatever .inkfemsol is at that path afterwards - none,
    # or the one an earlier solve left - is a complete record, never a stub
    if small is not None:
        mech = small.copy()
        for k in list(mech.nodes):
            x, y, cst = mech.nodes[k]
            mech.nodes[k] = (x, y, (False, cst[1], False) if any(cst) else cst)
        for steps, start, what in (([["solve", "-e", "1e-300", "x.inkfem"]], small.text(), "solve -e 1e-300 in a clean directory"),
                                   ([["solve", "x.inkfem"], ["solve", "-e", "1e-300", "x.inkfem"]], small.text(), "solve, then solve -e 1e-300"),
                                   ([["solve", "x.inkfem"]], mech.text(), "solve of a mechanism in a clean directory"),
                                   ([["solve", "x.inkfem"], ("write", "x.inkfem", mech.text()), ["solve", "x.inkfem"]], small.text(), "solve, then solve of a mechanism at the same path")):
            logf, fsf = C12.cli_history(ctx, steps, {"x.inkfem": start}, name="c11f")
            last = [e for e in logf if e[0] != "write"][-1]
            left = fsf.get("x.inkfemsol")
            if last[1] != 0 and left is not None and isinstance(parse_sol(left), str):
                ctx.violation("%s: the command failed (exit %s) and the .inkfemsol at that path (%d bytes) is not a complete record: %s" % (what, last[1], len(left), parse_sol(left)),
                              {"history": [" ".join(x) if isinstance(x, list) else "rewrite " + x[1] for x in steps], "text": start, "mechanism": mech.text()})
                concrete += 1
    # solve -p writes two files at the same time: whichever of the two writers comes first, the .inkfemsol holds the solution and
    # nothing else (the preprocessed dump belongs in the .inkfempre)
    if small is not None:
        for sched in ("late", "early", None):
            for st in (small, big):
                rp = cli.run(ctx, ["solve", "-p", "x.inkfem"], files={"x.inkfem": st.text()}, env={"VERIF_WRITER": sched} if sched else {}, name="c11p", timeout=300)
                sol = rp.files.get("x.inkfemsol")
                if rp.status != 0 or sol is None:
                    continue
                parsed = parse_sol(sol)
                bad = None
                if isinstance(parsed, str):
                    bad = "is not well-formed: " + parsed
                elif [b["ID"] for b in parsed[2]] != [b["id"] for b in st.bars] and sorted(b["ID"] for b in parsed[2]) != sorted(b["id"] for b in st.bars):
                    bad = "lists bars %s, the structure has %s" % ([b["ID"] for b in parsed[2]][:8], [b["id"] for b in st.bars][:8])
                elif not (rp.files.get("x.inkfempre") or "").startswith("inkfem v"):
                    bad = "is there, the .inkfempre written next to it is empty or missing"
                if bad:
                    ctx.violation("solve -p (writer %s): the .inkfemsol %s" % (sched or "free", bad),
                                  {"args": ["solve", "-p", "x.inkfem"], "env": {"VERIF_WRITER": sched}, "text": st.text(), "sol_text": sol[:3000]})
                    concrete += 1
                    break
    # a preprocessed file kept from another release: the solution file still starts with THIS program's version
    if small is not None:
        log2, fs2 = C12.cli_history(ctx, [["pre", "x.inkfem"]], {"x.inkfem": small.text()}, name="c11v")
        pre_text = fs2.get("x.inkfempre")
        if pre_text and pre_text.startswith("inkfem v"):
            old = "inkfem v%d.%d" % (build_version[0], max(0, build_version[1] - 1)) if build_version[1] > 0 else "inkfem v%d.%d" % (build_version[0] + 1, 0)
            other = old + pre_text[pre_text.index("\n"):]
            log3, fs3 = C12.cli_history(ctx, [["solve", "y.inkfempre"]], {"y.inkfempre": other}, name="c11v")
            sol = next((v for k, v in fs3.items() if k.endswith(".inkfemsol")), None)
            if log3 and log3[0][1] == 0 and sol is not None:
                first = sol.split("\n", 1)[0].strip()
                if first != "inkfem v%d.%d" % build_version:
                    ctx.violation("solving a .inkfempre file whose header says %r writes a solution file that starts with %r, the program's version is v%d.%d" % (
                        old, first, build_version[0], build_version[1]), {"history": ["pre x.inkfem", "header of the .inkfempre replaced by " + old, "solve y.inkfempre"], "text": small.text()})
                    concrete += 1
    validated, corr = 0, None
    if res["stage"] != "translate":
        terms = [P.stageF_case(o) for c, o in usable[:40] if len(o["U"]) <= 400]
        n, mism = S.run_stage(ctx, "F", terms, P.stageF_v, shard=2)
        ctx.log("stage F: %d solutions, every listed value compared with the Coq model, %s" % (n, "no mismatch" if mism == [] else ("BROKEN" if mism is None else "%d mismatch" % len(mism))))
        if mism is None:
            corr = "case file did not compile"
        elif mism:
            corr = "model and implementation differ: " + mism[0][1][:300]
        else:
            validated = n
    if res["stage"] != "translate":
        triples = [("tmpl_solution", o["SolData"], o["SolText"]) for c, o in usable if o.get("SolData")]
        ng, mg = S.stageG(ctx, triples)
        ctx.log("stage G: %d solution texts rendered by the Coq model of text/template from the translated template, %s" % (
            ng, "identical to what Go wrote" if mg == [] else ("BROKEN" if mg is None else "%d differ" % len(mg))))
        if mg is None:
            corr = corr or "stage G case file did not compile"
        elif mg:
            corr = corr or ("the translated solution template rendered by the model differs from the written text: " + mg[0][1][:200])
        else:
            validated += ng
    if corr and concrete == 0:
        ctx.violation("correspondence between the Coq model and the implementation no longer holds (%s)" % corr,
                      {"correspondence": corr, "searched": "%d solution files through the strict parser oracle, none fails" % files}, no_input=True)
    if not res["ok"] and concrete == 0:
        ctx.violation("proof obligation no longer checks (%s %s)" % (res["stage"], res.get("failed_at", "")),
                      {"theorem_file": "Properties/C11.v", "stage": res["stage"], "failed_at": res.get("failed_at"), "log_tail": res["log"][-3000:],
                       "searched": "%d solution files through the oracle, none fails" % files}, no_input=True)
    ctx.coverage = {
        "obligations": res["obligations"], "discharged": res["discharged"],
        "checker_cmd": "make -C coq Properties/C11.vo && coqc Properties/C11.v (Coq 8.16.1, full .vo build)",
        "trusted_base": C.standard_trusted_base(res) + ["text/template execution and %f / %v formatting are exercised (strict independent parser of the written text), not modelled"],
        "theorems": res.get("names", []), "traces_validated_against_impl": validated, "evaluations": len(cases) + 2, "distinct_nontrivial": files,
        "rule": solcore.RULE + "Every solved structure is written with iosol.Write from the very Solution that is dumped; the text is parsed by a strict independent parser (header = build version, |reactions| one line "
                "per supported node, |bars| one block per input bar with its nodes / links / material / section, the ten tags in order, 't : value' lines) and compared: every number within half a unit of the "
                "sixth decimal of the computed value, positions from 0 to 1 never backwards, n values per displacement series at identical positions, between n and 2n-2 per diagram at slice-node positions; the "
                "file's reactions must balance the loads; one command-line history (a larger structure solved first at the same path). non-trivial = files parsed and compared",
        "samples": [usable[-1][1]["SolText"][:700]] if usable else [],
    }
    ctx.assumptions = ["solver oracle as C01 (only solved structures have a file)"]
