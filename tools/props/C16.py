"""C16 — equation numbering is a bijection that encodes exactly the declared connectivity."""
import itertools

from .. import common as C
from .. import gen_struct as G
from .. import layouts as L
from .. import oracles as O
from .. import stages as S
from . import core


def joint_cases(rng, tier):
    """all 8 x 8 link combinations at a joint where two (quick) or three (thorough) bars meet"""
    cases = []
    links = list(itertools.product([False, True], repeat=3))
    combos = list(itertools.product(links, links))
    if tier == "quick":
        combos = rng.sample(combos, 24)
    for la, lb in combos:
        s = G.Structure()
        G.std_mat_sec(s)
        s.nodes = {"a": (0, 0, (True, True, True)), "j": (30, 40, (False, False, False)), "c": (60, 0, (True, True, False))}
        s.bars = [{"id": "b1", "n1": "a", "l1": (True, True, True), "n2": "j", "l2": la, "mat": "steel", "sec": "ipe"},
                  {"id": "b2", "n1": "j", "l1": lb, "n2": "c", "l2": (True, True, True), "mat": "steel", "sec": "ipe"}]
        if tier != "quick":
            s.nodes["d"] = (30, 90, (True, True, True))
            s.bars.append({"id": "b3", "n1": "d", "l1": (True, True, True), "n2": "j", "l2": rng.choice(links), "mat": "steel", "sec": "ipe"})
        s.meta = {"kind": "joint-links"}
        cases.append(core.case_from_struct(s))
    return cases


def gen(rng, tier):
    n = 70 if tier == "quick" else 2500
    cases = joint_cases(rng, tier)
    cases += [core.case_from_struct(G.gen_doubled_nodes(rng)) for _ in range(6 if tier == "quick" else 60)]
    for i in range(n):
        s = G.gen_frame(rng, max_cells=3)
        if i % 4 == 0:
            # node lines annotated with (stale) equation numbers, as when a nodes section is
            # copied from a preprocessed file: the definition reader accepts them
            ids = list(s.nodes)
            s.node_dof_notes = {k: tuple(rng.sample(range(0, 60), 3)) for k in rng.sample(ids, max(1, len(ids) // 2))}
            s.meta["kind"] += "+dofnotes"
        c = core.case_from_struct(s, Weight=core.weights(i))
        if i % 3 == 2:
            c["Restage"] = 1 + i // 3
        if i % 5 == 0 and i % 3 != 2:      # (not together with the restaging above, which renumbers the shared slice nodes)
            # what solve -p writes in the background is this structure while process.Solve runs: solving must leave it alone
            c.update(Solve=True, KeepPre=True, Error="1e-2")
        if i % 4 == 1:
            # the same definition in another valid layout: in particular links and supports whose terms are listed
            # in another order ({dy dx}, {rz dx dy}): the braces hold a set
            c["Text"] = L.layout(rng, s)
            c["kind"] += "+layout"
        cases.append(c)
    # a program that handles several structures at once: frames sliced and numbered at the same time, two dozen per process, four (quick) or sixteen processes, each in a
    # goroutine of its own in one process - every one must be numbered as it is alone
    for i in range(96 if tier == "quick" else 384):
        c = core.case_from_struct(G.gen_frame(rng, max_cells=3), Weight=core.weights(i), Concurrent=1 + i % 4)
        c["kind"] += "+concurrent"
        cases.append(c)
    return cases


def oracle(c, o):
    fails = O.c16_structure(o, o["Pre"][0])
    ps = o.get("PreSolved")
    if ps is not None and not fails:
        if ps.get("Panic"):
            return ["looking at the preprocessed structure after solving panicked: " + ps["Panic"][:200]]
        if ps != o["Pre"][-1]:
            a, b = [x["ID"] for x in o["Pre"][-1]["Bars"]], [x["ID"] for x in ps["Bars"]]
            return ["process.Solve changed the preprocessed structure it was given (%s): the background writer of solve -p is writing that structure at the same time" % (
                "bars in the order %s before, %s after" % (a[:6], b[:6]) if a != b else "numbers or nodal loads differ")]
    st = o.get("Restaged")
    if st and not fails:
        # a construction stage: the same sliced bars but one, numbered again as a structure of their own
        if st.get("Panic"):
            return ["numbering the structure again without bar %s panicked: %s" % (o.get("Dropped"), st["Panic"][:200])]
        fails = ["numbered again without bar %s: %s" % (o.get("Dropped"), f) for f in O.c16_structure(o, st)]
    return fails


SPEC = {
    "text_fidelity": True,
    "prop_file": "Properties/C16.v",
    "gen": gen,
    "oracle": oracle,
    "stages": [("C", lambda c, o, rng: S.stageC_case(o), S.stageC_v, 12, None)],
    "nontrivial": lambda c, o: len(o["Bars"]) >= 2,
    "rule": "distinct nodes at the same coordinates (crossing, unconnected members); two/three-bar joints over the 8 x 8 link combinations (24 sampled in quick, all 64 in thorough) and frames on a grid with random links (rigid, pinned, sliding, single-component, free) at bar ends; "
            "non-trivial iff at least two bars; the iff 'same number <=> same unknown', the range 0..count-1 and the absence of gaps are checked on AssignDof's output (every third frame also numbered a second time, as a structure of its own, without one of its sliced bars), and the Coq model must issue exactly the same numbers (stage C)",
    "assumptions": ["sort.Sort(ByGeometryPos) only permutes the bars; the model is run on the order the implementation ended up with (C16_order_independent covers every other order)"],
}


def run(ctx):
    core.run(ctx, SPEC)
    # the frames that are sliced and numbered at the same time, once more under Go's race detector (supporting evidence: whether two
    # structures numbered at the same time disturb each other's counting shows in the numbers only when the scheduler lets it)
    import random
    rng = random.Random(ctx.seed + 16)
    batch = [{"Text": core.case_from_struct(G.gen_frame(rng, max_cells=2), Weight=False)["Text"], "Weight": False, "Repeat": 1, "ScratchDir": ctx.work, "Repo": C.REPO}
             for _ in range(8)]
    ran, report = C.dump_race("concurrent", batch)
    ctx.coverage["race_detector_runs"] = 1 if ran else 0
    if report:
        ctx.violation("the race detector reports a data race while eight structures are sliced and numbered at the same time in one process: " + report[:300].replace("\n", " | "),
                      {"how": "harness/bin/dump_race concurrent (StructureModel on eight generated frames, each in a goroutine of its own)", "report": report})
    ctx.log("race-detector build of the harness: eight frames sliced and numbered at the same time, %s" % ("a race reported" if report else "no report" if ran else "not available"))
