"""Metamorphic comparison of two solved runs of the implementation (C06 linearity, C07 placement
and bar reversal, C09 units): the observables of run B must equal a transformation of the
observables of run A, within a tolerance derived from the requested solver errors and the
conditioning of the two systems (C01_error_bound) and from the stiffness of the shortest
slice for recovered forces."""
from fractions import Fraction as Fr

from . import common as C
from . import physics as P

EPS10 = Fr(1, 10 ** 10)


def F(s):
    return C.ffloat(s)


def solved(o):
    return bool(o.get("Sol")) and not o.get("SolvePanic") and not o.get("SysPanic") and not o.get("ParsePanic")


def utol(o):
    """bound on the error of any reported displacement of this run.  The exact residual r of the
    solver's answer is known (rationals), and u - u* = -K^-1 r: the error is evaluated (float
    inverse, x10 for its own inaccuracy) instead of being bounded by eps * ||K^-1||."""
    import numpy as np
    n = len(o["F"])
    K = np.zeros((n, n))
    for e in o["KEntries"]:
        K[int(e[0]), int(e[1])] = float(e[2])
    r, _ = P.residuals(o)
    try:
        err = np.linalg.solve(K, np.array([float(x) for x in r]))
    except np.linalg.LinAlgError:
        return None
    if not np.all(np.isfinite(err)):
        return None
    umax = max([abs(F(v)) for v in o["U"]] + [Fr(0)])
    # two runs that are compared (other units, another placement, another order) do not work on the same float matrix:
    # every stiffness term and load entry carries a few units in the last place of its own, and the solution moves by
    # |K^-1| (|dK| |u| + |df|) <= 16 ulp x |K^-1| (|K| |u| + |f|) - which is what conditioning means for a slender member
    try:
        u = np.array([float(v) for v in o["U"]])
        f = np.array([float(v) for v in o["F"]])
        sens = np.abs(np.linalg.inv(K)) @ (np.abs(K) @ np.abs(u) + np.abs(f))
        rounding = 16 * 2.0 ** -53 * float(np.max(sens)) if np.all(np.isfinite(sens)) else 0.0
    except (np.linalg.LinAlgError, ValueError):
        rounding = 0.0
    return 10 * Fr(float(np.max(np.abs(err)))) + Fr(rounding) + Fr(1, 10 ** 11) * umax + Fr(1, 10 ** 300)


def amplification(o):
    """per bar: largest absolute row sum of the stiffness of its shortest slice (how a
    displacement error turns into an error of recovered forces)"""
    pre = o["Pre"][-1]
    byid = {b["ID"]: b for b in o["Bars"]}
    amp = {}
    for pb in pre["Bars"]:
        jb = byid[pb["ID"]]
        L, E, A, I = F(jb["Len"]), F(jb["E"]), F(jb["A"]), F(jb["I"])
        ts = [F(n["T"]) for n in pb["Nodes"]]
        lmin = min((b - a) * L for a, b in zip(ts, ts[1:]))
        amp[pb["ID"]] = 2 * E * A / lmin + 24 * E * I / lmin ** 3 + 24 * E * I / lmin ** 2 + 12 * E * I / lmin
    return amp


def series_map(sb, name):
    """position -> (left value, right value) for a listed series"""
    out = []
    T = [F(t) for t in sb["Series"][name]["T"] or []]
    V = [F(v) for v in sb["Series"][name]["V"] or []]
    k = 0
    while k < len(T):
        j = k
        while j + 1 < len(T) and abs(T[j + 1] - T[k]) < EPS10:
            j += 1
        out.append((T[k], V[k], V[j]))
        k = j + 1
    return out


def at(series, t):
    for (tt, l, r) in series:
        if abs(tt - t) < EPS10:
            return (l, r)
    return None


class Transform:
    """How the observables of run A map to those of run B.
    bar_map: id in A -> (id in B, reversed?)   node_map: id in A -> id in B
    disp(gx, gy, rz) -> expected (gx, gy, rz) in B;  react(fx, fy, mz, node_xy_A) -> expected;
    local displacement factors (ldx, ldy, lrz) and diagram factors (axial, shear, bend, bend_axial)
    for a bar that is not reversed; mirror = True flips the sign conventions of local y."""

    def __init__(self, disp, react, lfac=(1, 1, 1), dfac=(1, 1, 1, 1), bar_map=None, node_map=None, tfun=None):
        self.disp, self.react, self.lfac, self.dfac = disp, react, lfac, dfac
        self.bar_map, self.node_map, self.tfun = bar_map, node_map, tfun


# sign changes of a reversed bar (local x and y both flip; t -> 1 - t; left/right swap)
REV_LOCAL = (-1, -1, 1)          # ldx, ldy, lrz
REV_DIAG = (1, 1, -1, -1)         # axial stress, shear, bending moment, top fibre (Proofs/PlacementProofs.v recover_reversal_R)


def compare(oA, oB, tr, tolU, what, max_fails=4, check_diagrams=True, merged_out=None):
    """Returns failure strings. tolU: displacement tolerance (already combined for both runs); a pair
    (translations, rotations) when the two differ (a change of the length unit scales the first, not the second)."""
    fails = []
    tolR = tolU[1] if isinstance(tolU, tuple) else tolU
    tolU = tolU[0] if isinstance(tolU, tuple) else tolU
    tol3 = (tolU, tolU, tolR)
    tolmax = max(tolU, tolR)
    solA = {sb["ID"]: sb for sb in oA["Sol"]}
    solB = {sb["ID"]: sb for sb in oB["Sol"]}
    ampB = amplification(oB)
    nodesA = {n["ID"]: n for n in oA["Nodes"]}
    # reactions
    RA, RB = oA.get("Reactions") or {}, oB.get("Reactions") or {}
    mapped = {(tr.node_map or {}).get(k, k): k for k in RA}
    if set(mapped) != set(RB):
        fails.append("%s: reactions listed for %s vs %s" % (what, sorted(RB), sorted(mapped)))
        return fails
    ampmax = max(ampB.values())
    ext = P.extent(oB)
    for kb, ka in mapped.items():
        ra = [F(v) for v in RA[ka]]
        exp = tr.react(ra[0], ra[1], ra[2], (F(nodesA[ka]["X"]), F(nodesA[ka]["Y"])))
        got = [F(v) for v in RB[kb]]
        scale = sum(abs(x) for x in exp) + sum(abs(x) for x in got)
        for c in range(3):
            tol = 4 * ampmax * tolmax * (1 + (ext if c == 2 else 0)) + Fr(1, 10 ** 8) * scale
            if abs(got[c] - exp[c]) > tol:
                fails.append("%s: reaction %s of node %s is %.9g, expected %.9g" % (what, ("fx", "fy", "mz")[c], kb, float(got[c]), float(exp[c])))
    # bars
    for ida, sa in solA.items():
        idb, rev = (tr.bar_map or {}).get(ida, (ida, False))
        sb = solB.get(idb)
        if sb is None:
            fails.append("%s: bar %s missing" % (what, idb))
            continue
        tfun = (lambda t: 1 - t) if rev else (lambda t: t)
        # displacements: every node of A that has a node at the same place in B
        gA = [series_map(sa, n) for n in ("gdx", "gdy", "grz")]
        gB = [series_map(sb, n) for n in ("gdx", "gdy", "grz")]
        lA = [series_map(sa, n) for n in ("ldx", "ldy", "lrz")]
        lB = [series_map(sb, n) for n in ("ldx", "ldy", "lrz")]
        matched = 0
        for (t, _, _) in gA[0]:
            tb = tfun(t)
            vb = [at(s, tb) for s in gB]
            if any(v is None for v in vb):
                continue
            matched += 1
            va = [at(s, t)[0] for s in gA]
            exp = tr.disp(va[0], va[1], va[2])
            scale = sum(abs(x) for x in exp)
            for c in range(3):
                if abs(vb[c][0] - exp[c]) > tol3[c] + Fr(1, 10 ** 8) * (abs(exp[c]) if c == 2 else scale):
                    fails.append("%s: bar %s t=%s global %s is %.10g, expected %.10g (tolerance %.3g)" % (
                        what, idb, float(tb), ("dx", "dy", "rz")[c], float(vb[c][0]), float(exp[c]), float(tol3[c])))
            la = [at(s, t)[0] for s in lA]
            lb = [at(s, tb)[0] for s in lB]
            lf = [a * b for a, b in zip(tr.lfac, REV_LOCAL if rev else (1, 1, 1))]
            for c in range(3):
                if abs(lb[c] - lf[c] * la[c]) > tol3[c] * (1 + abs(lf[c])) + Fr(1, 10 ** 8) * abs(la[c] * lf[c]):
                    fails.append("%s: bar %s t=%s local %s is %.10g, expected %.10g" % (
                        what, idb, float(tb), ("dx", "dy", "rz")[c], float(lb[c]), float(lf[c] * la[c])))
            if len(fails) >= max_fails:
                return fails
        if matched < 2:
            fails.append("%s: bar %s has fewer than two common positions" % (what, idb))
        if not check_diagrams:
            continue
        for k, name in enumerate(("axial", "shear", "bend", "bend_axial")):
            dA, dB = series_map(sa, name), series_map(sb, name)
            jbB = next(b for b in oB["Bars"] if b["ID"] == idb)
            div = F(jbB["A"]) if name == "axial" else (F(jbB["S"]) if name == "bend_axial" else 1)
            fac = tr.dfac[k] * ((REV_DIAG[k]) if rev else 1)
            for (t, l, r) in dA:
                vb = at(dB, tfun(t))
                if vb is None:
                    continue
                el, er = (fac * l, fac * r) if not rev else (fac * r, fac * l)
                tol = (2 * ampB[idb] * tolmax) / div + 2 * F(oB["MaxError"]) / div
                scale = abs(el) + abs(er)
                if abs(vb[0] - el) > tol + Fr(1, 10 ** 8) * scale or abs(vb[1] - er) > tol + Fr(1, 10 ** 8) * scale:
                    if merged_out is not None and vb[0] == vb[1] and el != er and abs(el - er) <= F(oB["MaxError"]) + 2 * tol \
                            and min(abs(vb[0] - el), abs(vb[0] - er)) <= tol + Fr(1, 10 ** 8) * scale:
                        # one value listed where the other run lists two that differ by less than run B's --error:
                        # the implementation merges them (appendIfNotSameAsLast with the error option as tolerance)
                        merged_out.append((idb, name, float(tfun(t))))
                        continue
                    fails.append("%s: bar %s %s at t=%s is (%.9g | %.9g), expected (%.9g | %.9g)" % (
                        what, idb, name, float(tfun(t)), float(vb[0]), float(vb[1]), float(el), float(er)))
                    if len(fails) >= max_fails:
                        return fails
    return fails
