"""Minimal reader of the .inkfem texts written by tools/gen_struct.Structure.text (used to
reload corpus files as Structure objects for unit conversion); not a model of the Go reader."""
import re
from fractions import Fraction as Fr

from . import gen_struct as G


def cons(s):
    return ("dx" in s, "dy" in s, "rz" in s)


def parse(text):
    s = G.Structure()
    sec = None
    for line in text.splitlines():
        line = line.strip()
        if not line or line.startswith("#") or line.startswith("inkfem"):
            continue
        m = re.match(r"\|(\w+)\|", line)
        if m:
            sec = m.group(1)
            continue
        if sec == "nodes":
            m = re.match(r"(\S+)\s*->\s*(\S+)\s+(\S+)\s*\{([^}]*)\}", line)
            s.nodes[m.group(1)] = (Fr(m.group(2)), Fr(m.group(3)), cons(m.group(4)))
        elif sec == "materials":
            m = re.match(r"'([^']*)'\s*->\s*(.*)", line)
            s.mats[m.group(1)] = tuple(Fr(x) for x in m.group(2).split())
        elif sec == "sections":
            m = re.match(r"'([^']*)'\s*->\s*(.*)", line)
            s.secs[m.group(1)] = tuple(Fr(x) for x in m.group(2).split())
        elif sec == "loads":
            p = line.split()
            term, kind, bar = p[0], p[1], p[2]
            if kind[1] == "c":
                s.loads.append({"kind": "c", "term": term, "local": kind[0] == "l", "bar": bar, "t": Fr(p[3]), "v": Fr(p[4])})
            else:
                s.loads.append({"kind": "d", "term": term, "local": kind[0] == "l", "bar": bar, "t0": Fr(p[3]), "v0": Fr(p[4]), "t1": Fr(p[5]), "v1": Fr(p[6])})
        elif sec == "bars":
            m = re.match(r"(\S+)\s*->\s*(\S+)\s*\{([^}]*)\}\s*(\S+)\s*\{([^}]*)\}\s*'([^']*)'\s*'([^']*)'", line)
            s.bars.append({"id": m.group(1), "n1": m.group(2), "l1": cons(m.group(3)), "n2": m.group(4), "l2": cons(m.group(5)),
                           "mat": m.group(6), "sec": m.group(7)})
    s.meta = {"kind": "corpus"}
    return s
