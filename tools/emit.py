"""Coq text for the values the harness observed (dump JSON -> Gallina literals over Q)."""
from . import common as C


def q(s):
    return C.qlit(C.ffloat(s))


def b(v):
    return "true" if v else "false"


def link(l):
    return "{| lk_dx := %s; lk_dy := %s; lk_rz := %s |}" % (b(l[0]), b(l[1]), b(l[2]))


TERM = {"fx": "FX", "fy": "FY", "mz": "MZ"}


def tor(t):
    return "(%s, %s, %s)" % (q(t[0]), q(t[1]), q(t[2]))


def cload(l):
    return "{| cl_term := %s; cl_local := %s; cl_t := %s; cl_v := %s |}" % (
        TERM.get(l["Term"], "FX"), b(l["Local"]), q(l["T"]), q(l["V"]))


def dload(l):
    return "{| dl_term := %s; dl_local := %s; dl_t0 := %s; dl_v0 := %s; dl_t1 := %s; dl_v1 := %s |}" % (
        TERM.get(l["Term"], "FX"), b(l["Local"]), q(l["T0"]), q(l["V0"]), q(l["T1"]), q(l["V1"]))


def exact_witnesses(jb):
    """(L, c, s) of a bar as exact rationals when its length is rational (axis-aligned, Pythagorean):
    then c^2 + s^2 = 1, c L = dx, s L = dy hold exactly and the structure-level theorems apply to the
    case as it stands; otherwise the implementation's floats (exact dyadics, c^2 + s^2 = 1 up to an ulp)"""
    from fractions import Fraction as Fr
    from math import isqrt
    try:
        dx = Fr(float(jb["X2"])) - Fr(float(jb["X1"]))
        dy = Fr(float(jb["Y2"])) - Fr(float(jb["Y1"]))
        l2 = dx * dx + dy * dy
        rn, rd = isqrt(l2.numerator), isqrt(l2.denominator)
        if l2 > 0 and rn * rn == l2.numerator and rd * rd == l2.denominator:
            L = Fr(rn, rd)
            c, s_ = dx / L, dy / L
            if abs(c - Fr(float(jb["C"]))) < Fr(1, 10 ** 14) and abs(s_ - Fr(float(jb["S_"]))) < Fr(1, 10 ** 14) \
                    and abs(L - Fr(float(jb["Len"]))) <= Fr(1, 10 ** 13) * L:
                return L, c, s_
    except (ValueError, KeyError, OverflowError):
        pass
    return None


def bar(jb, node_index):
    w = exact_witnesses(jb)
    if w is not None:
        jb = dict(jb, Len=w[0], C=w[1], S_=w[2])
    return ("{| b_n1 := %d; b_n2 := %d; b_l1 := %s; b_l2 := %s;\n"
            "     b_x1 := %s; b_y1 := %s; b_x2 := %s; b_y2 := %s;\n"
            "     b_L := %s; b_c := %s; b_s := %s;\n"
            "     b_E := %s; b_A := %s; b_I := %s; b_S := %s; b_rho := %s;\n"
            "     b_cl := [%s];\n     b_dl := [%s] |}") % (
        node_index[jb["N1"]], node_index[jb["N2"]], link(jb["L1"]), link(jb["L2"]),
        q(jb["X1"]), q(jb["Y1"]), q(jb["X2"]), q(jb["Y2"]),
        q(jb["Len"]), q(jb["C"]), q(jb["S_"]),
        q(jb["E"]), q(jb["A"]), q(jb["I"]), q(jb["S"]), q(jb["Rho"]),
        "; ".join(cload(l) for l in (jb.get("CL") or [])),
        "; ".join(dload(l) for l in (jb.get("DL") or [])))


def pnode(n):
    return "{| pn_t := %s; pn_x := %s; pn_y := %s; pn_ext := %s; pn_left := %s; pn_right := %s |}" % (
        q(n["T"]), q(n["X"]), q(n["Y"]), tor(n["Ext"]), tor(n["Left"]), tor(n["Right"]))


def snode(n):
    return "{| sn_x := %s; sn_y := %s; sn_c := %s |}" % (q(n["X"]), q(n["Y"]), link((n["Dx"], n["Dy"], n["Rz"])))


def coq_list(items, sep=";\n   "):
    return "[" + sep.join(items) + "]"


HEADER = """From Bignums Require Import BigQ.
From Coq Require Import ZArith QArith List.
From Inkfem Require Import Num.NumOps Num.BigQOps Model.Types Corr.Compare.
Import ListNotations.
Local Open Scope Q_scope.
"""


def parse_M(out, name="M"):
    """Text printed by `Print <name>.` -> the Gallina value as a string ('[]' when empty)."""
    key = name + " ="
    if key not in out:
        return None
    rest = out.split(key, 1)[1]
    # the value ends at the line that starts with '     :' (the type)
    val = rest.split("\n     :", 1)[0]
    return " ".join(val.split())
