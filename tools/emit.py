"""Coq text for the values the harness observed (dump JSON -> Gallina literals over Q)."""
from . import common as C


def q(s):
    return C.qlit(C.ffloat(s))


def b(v):
    return "true" if v else "false"


def link(l):
    return "{| lk_dx := %s; lk_dy := %s; lk_rz := %s |}" % (b(l[0]), b(l[1]), b(l[2]))


TERM = {"fx": "FX", "fy": "FY", "mz": "MZ"}


def tor(t):
    return "(%s, %s, %s)" % (q(t[0]), q(t[1]), q(t[2]))


def cload(l):
    return "{| cl_term := %s; cl_local := %s; cl_t := %s; cl_v := %s |}" % (
        TERM.get(l["Term"], "FX"), b(l["Local"]), q(l["T"]), q(l["V"]))


def dload(l):
    return "{| dl_term := %s; dl_local := %s; dl_t0 := %s; dl_v0 := %s; dl_t1 := %s; dl_v1 := %s |}" % (
        TERM.get(l["Term"], "FX"), b(l["Local"]), q(l["T0"]), q(l["V0"]), q(l["T1"]), q(l["V1"]))


def exact_witnesses(jb):
    """(L, c, s) of a bar as exact rationals when its length is rational (axis-aligned, Pythagorean):
    then c^2 + s^2 = 1, c L = dx, s L = dy hold exactly and the structure-level theorems apply to the
    case as it stands; otherwise the implementation's floats (exact dyadics, c^2 + s^2 = 1 up to an ulp)"""
    from fractions import Fraction as Fr
    from math import isqrt
    try:
        dx = Fr(float(jb["X2"])) - Fr(float(jb["X1"]))
        dy = Fr(float(jb["Y2"])) - Fr(float(jb["Y1"]))
        l2 = dx * dx + dy * dy
        rn, rd = isqrt(l2.numerator), isqrt(l2.denominator)
        if l2 > 0 and rn * rn == l2.numerator and rd * rd == l2.denominator:
            L = Fr(rn, rd)
            c, s_ = dx / L, dy / L
            if abs(c - Fr(float(jb["C"]))) < Fr(1, 10 ** 14) and abs(s_ - Fr(float(jb["S_"]))) < Fr(1, 10 ** 14) \
                    and abs(L - Fr(float(jb["Len"]))) <= Fr(1, 10 ** 13) * L:
                return L, c, s_
    except (ValueError, KeyError, OverflowError):
        pass
    return None


def bar(jb, node_index):
    w = exact_witnesses(jb)
    if w is not None:
        jb = dict(jb, Len=w[0], C=w[1], S_=w[2])
    return ("{| b_n1 := %d; b_n2 := %d; b_l1 := %s; b_l2 := %s;\n"
            "     b_x1 := %s; b_y1 := %s; b_x2 := %s; b_y2 := %s;\n"
            "     b_L := %s; b_c := %s; b_s := %s;\n"
            "     b_E := %s; b_A := %s; b_I := %s; b_S := %s; b_rho := %s;\n"
            "     b_cl := [%s];\n     b_dl := [%s] |}") % (
        node_index[jb["N1"]], node_index[jb["N2"]], link(jb["L1"]), link(jb["L2"]),
        q(jb["X1"]), q(jb["Y1"]), q(jb["X2"]), q(jb["Y2"]),
        q(jb["Len"]), q(jb["C"]), q(jb["S_"]),
        q(jb["E"]), q(jb["A"]), q(jb["I"]), q(jb["S"]), q(jb["Rho"]),
        "; ".join(cload(l) for l in (jb.get("CL") or [])),
        "; ".join(dload(l) for l in (jb.get("DL") or [])))


def pnode(n):
    return "{| pn_t := %s; pn_x := %s; pn_y := %s; pn_ext := %s; pn_left := %s; pn_right := %s |}" % (
        q(n["T"]), q(n["X"]), q(n["Y"]), tor(n["Ext"]), tor(n["Left"]), tor(n["Right"]))


def snode(n):
    return "{| sn_x := %s; sn_y := %s; sn_c := %s |}" % (q(n["X"]), q(n["Y"]), link((n["Dx"], n["Dy"], n["Rz"])))


def coq_list(items, sep=";\n   "):
    return "[" + sep.join(items) + "]"


HEADER = """From Bignums Require Import BigQ.
From Coq Require Import ZArith QArith List.
From Inkfem Require Import Num.NumOps Num.BigQOps Model.Types Corr.Compare.
Import ListNotations.
Local Open Scope Q_scope.
"""


def parse_M(out, name="M"):
    """Text printed by `Print <name>.` -> the Gallina value as a string ('[]' when empty)."""
    key = name + " ="
    if key not in out:
        return None
    rest = out.split(key, 1)[1]
    # the value ends at the line that starts with '     :' (the type)
    val = rest.split("\n     :", 1)[0]
    return " ".join(val.split())


# ---------------------------------------------------------------- template data (Model/Template.v)

def coq_str(s):
    """a Coq string term for arbitrary text"""
    if all(32 <= ord(ch) < 127 and ch != '"' for ch in s):
        return '"%s"' % s
    return "(txt [%s]%%nat)" % "; ".join(str(b) for b in s.encode("utf-8", "replace"))


def ctxt(d):
    """the record harness/cmd/dump/tmpldata.go writes -> a Model.Template.ctxt term"""
    leaves = "; ".join("(%s, %s)" % (coq_str(k), coq_str(v)) for k, v in sorted((d.get("Leaves") or {}).items()))
    lists = "; ".join("(%s, [%s])" % (coq_str(k), "; ".join("(%s, %s)" % (coq_str(it["Key"]), ctxt(it["Ctx"])) for it in v))
                      for k, v in sorted((d.get("Lists") or {}).items()))
    bools = "; ".join("(%s, %s)" % (coq_str(k), b(v)) for k, v in sorted((d.get("Bools") or {}).items()))
    return "(Ctx [%s] [%s] [%s])" % (leaves, lists, bools)


def render_v(cases):
    """cases: list of (template name, data record, text Go wrote)"""
    lines = [HEADER, "From Coq Require Import String Ascii.\nFrom Inkfem Require Import Model.Template Gen.GenTemplates Proofs.TemplateProofs.",
             "Definition txt (l : list nat) : string := string_of_list_ascii (map ascii_of_nat l).", "Local Open Scope string_scope."]
    for k, (tm, data, text) in enumerate(cases):
        lines.append("Definition data_%d : ctxt :=\n  %s." % (k, ctxt(data)))
        lines.append("Definition text_%d : string := %s." % (k, coq_str(text)))
        lines.append("Definition doc_%d := %s." % (k, DOCS[tm][1](data)))
    lines.append("Definition M := Eval vm_compute in\n  flat_map (fun p => map (fun m => (fst p, m)) (snd p)) (indexed [%s])." % "; ".join(
        "app (cmp_render %s data_%d text_%d) (cmp_spec (%s doc_%d) text_%d)" % (tm, k, k, DOCS[tm][0], k, k) for k, (tm, data, text) in enumerate(cases)))
    lines.append("Print M.")
    return "\n".join(lines) + "\n"


MAP_BACKED = {"GetAllNodes": lambda c: c["Leaves"].get("GetID", "") + " ->",
              "GetMaterialsByName": lambda c: "'" + c["Leaves"].get("Name", "") + "' ->",
              "GetSectionsByName": lambda c: "'" + c["Leaves"].get("Name", "") + "' ->"}


def canon_template_data(d):
    """nodes, materials and sections come out of Go maps: their order is not part of the content.  The
    elements of those lists are put in the order of the lines they print (each prints one line that
    starts with its id / quoted name)"""
    d = dict(d, Lists=dict(d.get("Lists") or {}))
    for path, key in MAP_BACKED.items():
        if path in d["Lists"]:
            d["Lists"][path] = sorted(d["Lists"][path], key=lambda it: key(it["Ctx"]))
    return d


def canon_written_text(text):
    """the same on the written text: the lines of the |nodes|, |materials| and |sections| blocks sorted"""
    out, lines, k = [], text.split("\n"), 0
    while k < len(lines):
        out.append(lines[k])
        if lines[k].strip() in ("|nodes|", "|materials|", "|sections|"):
            j = k + 1
            while j < len(lines) and lines[j].strip() != "":
                j += 1
            out += sorted(lines[k + 1:j])
            k = j
        else:
            k += 1
    return "\n".join(out)


def _leaf(c, k):
    return coq_str((c.get("Leaves") or {}).get(k, "<missing>"))


def _items(c, k):
    return [it["Ctx"] for it in (c.get("Lists") or {}).get(k, [])]


def _strlist(c, k):
    return "[%s]" % "; ".join(_leaf(x, "String") for x in _items(c, k))


def sol_doc(d):
    """the harness record of a Solution -> a TemplateProofs.sol_doc term"""
    reac = ["{| sr_id := %s; sr_fx := %s; sr_fy := %s; sr_mz := %s |}" % (coq_str(it["Key"]), _leaf(it["Ctx"], "Fx"), _leaf(it["Ctx"], "Fy"), _leaf(it["Ctx"], "Mz"))
            for it in (d.get("Lists") or {}).get("NodeReactions", [])]
    bars = []
    for c in _items(d, "Elements"):
        bars.append("{| sb_id := %s; sb_n1 := %s; sb_l1 := %s; sb_n2 := %s; sb_l2 := %s; sb_mat := %s; sb_sec := %s;\n  sb_gdx := %s; sb_gdy := %s; sb_grz := %s; sb_ldx := %s; sb_ldy := %s; sb_lrz := %s;\n  sb_axial := %s; sb_shear := %s; sb_bend := %s; sb_tf := %s |}" % (
            _leaf(c, "GetID"), _leaf(c, "StartNodeID"), _leaf(c, "StartLink"), _leaf(c, "EndNodeID"), _leaf(c, "EndLink"), _leaf(c, "Material.Name"), _leaf(c, "Section.Name"),
            _strlist(c, "GlobalXDispl"), _strlist(c, "GlobalYDispl"), _strlist(c, "GlobalZRot"), _strlist(c, "LocalXDispl"), _strlist(c, "LocalYDispl"), _strlist(c, "LocalZRot"),
            _strlist(c, "AxialStress"), _strlist(c, "ShearForce"), _strlist(c, "BendingMoment"), _strlist(c, "BendingMomentTopFiberAxialStress")))
    return "{| sd_major := %s; sd_minor := %s; sd_reactions := [%s]; sd_bars := [%s] |}" % (
        _leaf(d, "Metadata.MajorVersion"), _leaf(d, "Metadata.MinorVersion"), "; ".join(reac), ";\n ".join(bars))


def _mat(c):
    return "{| wm_name := %s; wm_density := %s; wm_young := %s; wm_shear := %s; wm_poisson := %s; wm_yield := %s; wm_ultimate := %s |}" % tuple(
        _leaf(c, k) for k in ("Name", "Density", "YoungMod", "ShearMod", "PoissonRatio", "YieldStrength", "UltimateStrength"))


def _sec(c):
    return "{| ws_name := %s; ws_area := %s; ws_istrong := %s; ws_iweak := %s; ws_sstrong := %s; ws_sweak := %s |}" % tuple(
        _leaf(c, k) for k in ("Name", "Area", "IStrong", "IWeak", "SStrong", "SWeak"))


def pre_doc(d):
    nodes = ["{| wn_id := %s; wn_px := %s; wn_py := %s; wn_cons := %s; wn_dofs := %s |}" % (
        tuple(_leaf(c, k) for k in ("GetID", "Position.X", "Position.Y", "ExternalConstraint")) +
        (("(Some %s)" % _leaf(c, "DegreesOfFreedomNum")) if (c.get("Bools") or {}).get("HasDegreesOfFreedomNum", "DegreesOfFreedomNum" in (c.get("Leaves") or {})) else "None",))
             for c in _items(d, "GetAllNodes")]
    bars = ["{| wb_id := %s; wb_n1 := %s; wb_l1 := %s; wb_n2 := %s; wb_l2 := %s; wb_mat := %s; wb_sec := %s; wb_count := %s; wb_nodes := %s |}" % (
        tuple(_leaf(c, k) for k in ("GetID", "StartNodeID", "StartLink", "EndNodeID", "EndLink", "Material.Name", "Section.Name", "NodesCount")) + (_strlist(c, "Nodes"),))
        for c in _items(d, "Elements")]
    return "{| pd_major := %s; pd_minor := %s; pd_dofs := %s; pd_weight := %s; pd_nodes := [%s]; pd_mats := [%s]; pd_secs := [%s]; pd_bars := [%s] |}" % (
        _leaf(d, "Metadata.MajorVersion"), _leaf(d, "Metadata.MinorVersion"), _leaf(d, "DofsCount"), b((d.get("Bools") or {}).get("IncludesOwnWeight", False)),
        "; ".join(nodes), "; ".join(_mat(c) for c in _items(d, "GetMaterialsByName")), "; ".join(_sec(c) for c in _items(d, "GetSectionsByName")), ";\n ".join(bars))


def def_doc(d):
    nodes = ["{| dn_id := %s; dn_px := %s; dn_py := %s; dn_cons := %s |}" % tuple(_leaf(c, k) for k in ("GetID", "Position.X", "Position.Y", "ExternalConstraint"))
             for c in _items(d, "GetAllNodes")]
    bars = []
    for c in _items(d, "Elements"):
        cl = ["{| dc_term := %s; dc_local := %s; dc_t := %s; dc_v := %s |}" % (_leaf(x, "Term"), b((x.get("Bools") or {}).get("IsInLocalCoords", False)), _leaf(x, "T.Value"), _leaf(x, "Value"))
              for x in _items(c, "ConcentratedLoads")]
        dl = ["{| dd_term := %s; dd_local := %s; dd_t0 := %s; dd_v0 := %s; dd_t1 := %s; dd_v1 := %s |}" % (
            _leaf(x, "Term"), b((x.get("Bools") or {}).get("IsInLocalCoords", False)), _leaf(x, "StartT.Value"), _leaf(x, "StartValue"), _leaf(x, "EndT.Value"), _leaf(x, "EndValue"))
            for x in _items(c, "DistributedLoads")]
        bars.append("{| db_id := %s; db_n1 := %s; db_l1 := %s; db_n2 := %s; db_l2 := %s; db_mat := %s; db_sec := %s; db_cl := [%s]; db_dl := [%s] |}" % (
            tuple(_leaf(c, k) for k in ("GetID", "StartNodeID", "StartLink", "EndNodeID", "EndLink", "Material.Name", "Section.Name")) + ("; ".join(cl), "; ".join(dl))))
    return "{| dd_major := %s; dd_minor := %s; dd_nodes := [%s]; dd_mats := [%s]; dd_secs := [%s]; dd_bars := [%s] |}" % (
        _leaf(d, "Metadata.MajorVersion"), _leaf(d, "Metadata.MinorVersion"), "; ".join(nodes),
        "; ".join(_mat(c) for c in _items(d, "GetMaterialsByName")), "; ".join(_sec(c) for c in _items(d, "GetSectionsByName")), ";\n ".join(bars))


DOCS = {"tmpl_solution": ("spec_solution", sol_doc), "tmpl_preprocess": ("spec_preprocess", pre_doc), "tmpl_definition": ("spec_definition", def_doc)}
