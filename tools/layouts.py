"""Definition texts for the reader checks (C10, C14, C08): every layout the documented grammar
admits for a given structure, and single-fault corruptions of valid texts."""
from fractions import Fraction as Fr
from itertools import permutations

from . import gen_struct as G

SECTIONS = ("nodes", "materials", "sections", "loads", "bars")


def spell(rng, x, plain=False):
    """one of the spellings of a finite decimal the grammar [+-]?\\d+(\\.\\d+)?([eE][+-]?\\d+)? admits"""
    x = Fr(x)
    base = G.dec(x)
    if plain:
        return base
    r = rng.random()
    if r < 0.45:
        return base
    if r < 0.55 and x >= 0:
        return "+" + base
    if r < 0.65:
        return ("-" if base.startswith("-") else "") + "00" + base.lstrip("-")
    if r < 0.75 and "." in base:
        return base + "00"
    # scientific notation with a shifted decimal point
    k = rng.choice([-3, -2, -1, 1, 2, 5])
    m = G.dec(x / Fr(10) ** k) if k < 0 else G.dec(x / Fr(10) ** k)
    e = rng.choice(["e", "E"])
    sign = "" if k < 0 else rng.choice(["", "+"])
    return "%s%s%s%d" % (m, e, sign, k) if k >= 0 else "%s%s%d" % (m, e, k)


def cons(rng, c, plain=False):
    toks = [n for n, on in zip(("dx", "dy", "rz"), c) if on]
    if plain:
        return "{ " + "".join(t + " " for t in toks) + "}"
    style = rng.randrange(8)
    if style == 7 and 1 <= len(toks) <= 2:
        # the braces hold a set: a term listed twice says nothing more than once (two terms written as three names are not 'all three')
        toks = list(toks)
        toks.insert(rng.randrange(len(toks) + 1), rng.choice(toks))
        return "{ " + " ".join(toks) + " }"
    if style == 6 and len(toks) > 1:
        # the braces hold a set: any order of the terms
        toks = list(toks)
        while toks == [n for n, on in zip(("dx", "dy", "rz"), c) if on]:
            rng.shuffle(toks)
        return "{ " + " ".join(toks) + " }"
    if style == 4:
        return "{\t" + " \t".join(toks) + ("\t" if toks else "") + "}"
    if style == 5:
        return "{" + "\t".join(toks) + " }"
    if style == 0:
        return "{" + " ".join(toks) + "}"
    if style == 1:
        return "{ " + "  ".join(toks) + (" " if toks else "") + "}"
    if style == 2:
        return "{" + "".join(t + " " for t in toks) + "}"
    return "{ " + "".join(t + " " for t in toks) + "}"


def arrow(rng, plain=False):
    return " -> " if plain else rng.choice([" -> ", "->", "  ->  ", " ->", "-> ", "\t->\t"])


def sp(rng, plain=False):
    return " " if plain else rng.choice([" ", " ", "  ", "\t", " \t "])


def lines_of(rng, s, sec, plain=False):
    out = []
    if sec == "nodes":
        notes = getattr(s, "node_dof_notes", {})
        for i, (x, y, c) in s.nodes.items():
            l = "%s%s%s%s%s%s%s" % (i, arrow(rng, plain), spell(rng, x, plain), sp(rng, plain), spell(rng, y, plain), sp(rng, plain), cons(rng, c, plain))
            if i in notes:
                l += rng.choice([" | ", "|", " |"]) + "[%d %d %d]" % notes[i]
            out.append(l)
    elif sec == "materials":
        for n, v in s.mats.items():
            out.append("'%s'%s%s" % (n, arrow(rng, plain), sp(rng, plain).join(spell(rng, a, plain) for a in v)))
    elif sec == "sections":
        for n, v in s.secs.items():
            out.append("'%s'%s%s" % (n, arrow(rng, plain), sp(rng, plain).join(spell(rng, a, plain) for a in v)))
    elif sec == "loads":
        for l in s.loads:
            ref = "l" if l["local"] else "g"
            if l["kind"] == "c":
                out.append(sp(rng, plain).join([l["term"], ref + "c", l["bar"], spell(rng, l["t"], plain), spell(rng, l["v"], plain)]))
            else:
                out.append(sp(rng, plain).join([l["term"], ref + "d", l["bar"], spell(rng, l["t0"], plain), spell(rng, l["v0"], plain),
                                                spell(rng, l["t1"], plain), spell(rng, l["v1"], plain)]))
    elif sec == "bars":
        for b in s.bars:
            tail = ""
            if getattr(s, "bar_counts", None) and b["id"] in s.bar_counts:
                tail = rng.choice([" >> ", ">>", " >>"]) + str(s.bar_counts[b["id"]])
            out.append("%s%s%s%s%s%s%s%s%s%s'%s'%s'%s'%s" % (
                b["id"], arrow(rng, plain), b["n1"], rng.choice([" ", ""]) if not plain else " ", cons(rng, b["l1"], plain), sp(rng, plain),
                b["n2"], rng.choice([" ", ""]) if not plain else " ", cons(rng, b["l2"], plain), sp(rng, plain), b["mat"], sp(rng, plain), b["sec"], tail))
    return out


def layout(rng, s, plain=False, order=None):
    """a definition text of s: random section order, sections possibly split in two, comments,
    blank lines, padding, CRLF, header counts"""
    if order is not None:
        order = list(order)
    else:
        order = list(SECTIONS)
        if not plain:
            rng.shuffle(order)
    chunks = []
    for sec in order:
        ls = lines_of(rng, s, sec, plain)
        if not plain and len(ls) >= 2 and rng.random() < 0.25:
            k = rng.randrange(1, len(ls))
            chunks.append((sec, ls[:k]))
            chunks.append((sec, ls[k:]))
        else:
            chunks.append((sec, ls))
    if not plain:
        # keep the relative order of the chunks of one section (bar / load order is observable), shuffle the rest
        pass
    out = ["inkfem v%d.%d" % s.version if plain else "inkfem%sv%d.%d" % (rng.choice([" ", "  ", "\t"]), s.version[0], s.version[1])]
    eol = "\n" if plain or rng.random() < 0.8 else "\r\n"
    for sec, ls in chunks:
        if not plain and rng.random() < 0.3:
            out.append(rng.choice(["", "# " + sec, "   ", "#", "\t# a comment -> with 'tokens' {dx}"]))
        out.append("|%s|" % sec + ("" if plain or rng.random() < 0.8 else rng.choice([" 3", "12", "  0"])))
        for l in ls:
            if not plain and rng.random() < 0.15:
                out.append(rng.choice(["", "  ", "# " + l, "\t"]))
            if not plain and rng.random() < 0.04:
                # a comment longer than any reader buffer, ending in something that looks like data
                out.append("# " + "long comment " * 400 + " fy ld 1 0 -75 1 -75")
            if not plain and rng.random() < 0.03:
                l = l + " " * 5000
            out.append(l if plain else rng.choice(["", "", " ", "\t", "   "]) + l + rng.choice(["", "", " ", "  \t"]))
        out.append("")
    text = eol.join(out) + (eol if plain or rng.random() < 0.8 else "")
    return text


# ------------------------------------------------------------------ corruptions

GARBLE = list("xq7 -{}'|>.#e+_") + ["\t", "d", "Z", "0"]


def content_line_indices(text):
    idx = []
    for k, l in enumerate(text.split("\n")):
        t = l.strip()
        if t and not t.startswith("#"):
            idx.append(k)
    return idx


def corruptions(rng, text, n):
    """n single-fault corruptions of a valid text: (kind, corrupted text)"""
    lines = text.split("\n")
    idx = content_line_indices(text)
    out = []
    for _ in range(n):
        kind = rng.choice(["delete", "garble", "garble", "garble", "number", "reference", "header", "section", "term"])
        ls = list(lines)
        k = rng.choice(idx)
        if kind == "delete":
            del ls[k]
        elif kind == "garble":
            l = ls[k]
            if not l:
                continue
            p = rng.randrange(len(l))
            c = rng.choice(GARBLE)
            mode = rng.randrange(3)
            ls[k] = l[:p] + c + l[p + 1:] if mode == 0 else (l[:p] + c + l[p:] if mode == 1 else l[:p] + l[p + 1:])
        elif kind == "number":
            import re
            nums = list(re.finditer(r"(?<![\w.'])[-+]?\d+(\.\d+)?([eE][-+]?\d+)?(?![\w.'])", ls[k]))
            if not nums:
                continue
            m = rng.choice(nums)
            bad = rng.choice(["1.2.3", "1e", ".5", "5.", "1,5", "0x10", "--1", "1e400", "NaN", "1 e5", "1e+", "1_000", "Inf"])
            ls[k] = ls[k][:m.start()] + bad + ls[k][m.end():]
        elif kind == "reference":
            import re
            l = ls[k]
            # rename one identifier occurrence (node / bar id or quoted name) so that it dangles
            ms = list(re.finditer(r"'[^']+'|(?<=[ }>])[A-Za-z_][\w-]*(?= *\{)|(?<=[cd] )[\w-]+(?= )", l))
            if not ms:
                continue
            m = rng.choice(ms)
            tok = m.group(0)
            new = ("'" + tok.strip("'") + "_x'") if tok.startswith("'") else tok + "_x"
            ls[k] = l[:m.start()] + new + l[m.end():]
        elif kind == "term":
            import re
            # a load line whose term is not one of fx, fy, mz (same shape, unknown meaning)
            cand = [i for i in idx if re.match(r"\s*[fm][xyz]\s+[lg][cd]\s", lines[i])]
            if not cand:
                continue
            k = rng.choice(cand)
            m = re.match(r"(\s*)([fm][xyz])", ls[k])
            ls[k] = m.group(1) + rng.choice(["fz", "mx", "my"]) + ls[k][m.end():]
        elif kind == "header":
            ls[0] = rng.choice(["", "inkfem", "inkfem v1", "inkfem 1.1", "xinkfem v1.1", "inkfem v1.1 x", "inkfem va.b", "|nodes|", "# inkfem v1.1"])
            if ls[0] == "":
                del ls[0]
        else:
            heads = [i for i in idx if lines[i].strip().startswith("|")]
            if not heads:
                continue
            h = rng.choice(heads)
            ls[h] = rng.choice(["|nodez|", "|elements|", "nodes", "|bars", "bars|", "| bars |", "|loads| x", "||"])
        out.append((kind, "\n".join(ls)))
    return out


PANIC_CLASSES = [
    ("Could not parse version string", 1), ("The first line should be", 1),
    ("Unknown header in file", 2),
    ("Found node with wrong format", 3), ("Found material with wrong format", 4), ("Found section with wrong format", 5),
    ("Found load with wrong format", 6), ("Invalid load term", 7),
    ("doesn't match expression", 8),
    ("Error reading", 9),
    ("The start node information isn't defined", 10), ("The end node information isn't defined", 11),
    ("The section isn't defined", 12), ("The material isn't defined", 13),
    ("Found concentrated load applied to unknown bar", 14), ("Found distributed load applied to unknown bar", 14),
]


def panic_class(msg):
    for key, code in PANIC_CLASSES:
        if key in msg:
            return code
    return 99
