"""Property oracles: each property stated on the implementation's observables only, in exact
rational arithmetic, independently of the Coq model.  They produce the concrete failing
input when a proof obligation or a correspondence breaks, and they run on every case."""
from fractions import Fraction as Fr

from . import common as C
from . import stages as S

EPS = Fr(1, 10 ** 10)
REL = Fr(1, 10 ** 9)


def F(s):
    return C.ffloat(s)


def finite(s):
    return C.isfinite_s(s)


# ------------------------------------------------------------------ C15

def c15_bar(jb, pb, weight):
    """Well-formed chain of slice nodes for one bar. Returns list of failure strings."""
    fails = []
    nodes = pb["Nodes"]
    if len(nodes) < 2:
        return ["bar %s has %d nodes" % (jb["ID"], len(nodes))]
    ts = [F(n["T"]) for n in nodes]
    if ts[0] != 0:
        fails.append("first node at t=%s, not 0" % nodes[0]["T"])
    if ts[-1] != 1:
        fails.append("last node at t=%s, not 1" % nodes[-1]["T"])
    for a, b in zip(ts, ts[1:]):
        if not a < b:
            fails.append("positions not strictly increasing (%s then %s)" % (float(a), float(b)))
            break
    x1, y1, x2, y2 = F(jb["X1"]), F(jb["Y1"]), F(jb["X2"]), F(jb["Y2"])
    scale = abs(x1) + abs(x2) + abs(y1) + abs(y2) + 1
    for n, t in zip(nodes, ts):
        if abs(F(n["X"]) - (x1 + t * (x2 - x1))) > REL * scale or abs(F(n["Y"]) - (y1 + t * (y2 - y1))) > REL * scale:
            fails.append("node at t=%s is off the bar axis" % n["T"])
            break
    slack = Fr(1, 10 ** 13)
    for p in S.load_positions(jb):
        if not any(abs(t - p) < EPS + slack for t in ts):
            fails.append("no node at load position t=%s" % float(p))
    kind = S.bar_kind(jb, weight)
    if kind == "axial" and len(nodes) != 2:
        fails.append("axial bar sliced into %d nodes" % len(nodes))
    if kind == "unloaded" and len(nodes) > 7:
        fails.append("unloaded bar has %d nodes (> 7)" % len(nodes))
    if kind == "loaded":
        npos = len(S.load_positions(jb))
        if len(nodes) > 11 + npos:
            fails.append("loaded bar has %d nodes (> 11 + %d load positions)" % (len(nodes), npos))
    return fails


# ------------------------------------------------------------------ C04

def local_of(term, v, local, c, s):
    t = {"fx": (v, 0, 0), "fy": (0, v, 0), "mz": (0, 0, v)}[term]
    if local:
        return t
    return (t[0] * c + t[1] * s, t[1] * c - t[0] * s, t[2])


def c04_expected(jb, weight):
    """Closed-form resultant of the user's loads in local axes about the bar start, plus the
    magnitude scale of the terms (for the tolerance)."""
    L, c, s = F(jb["Len"]), F(jb["C"]), F(jb["S_"])
    R = [Fr(0), Fr(0), Fr(0)]
    mag = [Fr(0), Fr(0), Fr(0)]

    def add(fx, fy, mz):
        for k, v in enumerate((fx, fy, mz)):
            R[k] += v
            mag[k] += abs(v)
    for l in jb.get("CL") or []:
        fx, fy, mz = local_of(l["Term"], F(l["V"]), l["Local"], c, s)
        t = F(l["T"])
        add(fx, fy, mz)
        add(0, 0, t * L * fy)
    dls = list(jb.get("DL") or [])
    if weight:
        w = -F(jb["Rho"]) * F(jb["A"])
        dls.append({"Term": "fy", "Local": False, "T0": "0", "V0": None, "T1": "1", "V1": None, "_w": w})
    for l in dls:
        v0 = l["_w"] if "_w" in l else F(l["V0"])
        v1 = l["_w"] if "_w" in l else F(l["V1"])
        a, b = F(l["T0"]), F(l["T1"])
        if not a < b:
            continue  # degenerate span carries nothing
        s0 = local_of(l["Term"], v0, l["Local"], c, s)
        s1 = local_of(l["Term"], v1, l["Local"], c, s)
        ln = L * (b - a)
        add((s0[0] + s1[0]) / 2 * ln, (s0[1] + s1[1]) / 2 * ln, (s0[2] + s1[2]) / 2 * ln)
        add(0, 0, L * L * (b - a) * (s0[1] * (2 * a + b) + s1[1] * (a + 2 * b)) / 6)
    return R, mag


def c04_observed(jb, pb):
    L = F(jb["Len"])
    R = [Fr(0), Fr(0), Fr(0)]
    mag = [Fr(0), Fr(0), Fr(0)]
    for n in pb["Nodes"]:
        t = F(n["T"])
        for part in ("Ext", "Left", "Right"):
            fx, fy, mz = (F(x) for x in n[part])
            for k, v in enumerate((fx, fy, mz + t * L * fy)):
                R[k] += v
                mag[k] += abs(v)
    return R, mag


def c04_bar(jb, pb, weight):
    fails = []
    for n in pb["Nodes"]:
        for part in ("Ext", "Left", "Right", "Net"):
            if not all(finite(x) for x in n[part]):
                return ["non-finite nodal load on bar %s" % jb["ID"]]
    exp, m1 = c04_expected(jb, weight)
    obs, m2 = c04_observed(jb, pb)
    L = F(jb["Len"])
    names = ("local fx", "local fy", "moment about the bar start")
    # positions closer than 1e-10 are identified (the smaller one is kept): a distributed load may start or end up to
    # 1e-10 (in t) away from where it was declared, which moves intensity x 1e-10 x L of its resultant
    dens_f = sum(max(abs(F(d["V0"])), abs(F(d["V1"]))) for d in (jb.get("DL") or []) if d["Term"] != "mz")
    dens_m = sum(max(abs(F(d["V0"])), abs(F(d["V1"]))) for d in (jb.get("DL") or []) if d["Term"] == "mz")
    for k in range(3):
        scale = m1[k] + m2[k]
        tol = REL * scale + 2 * EPS * L * dens_f
        if k == 2:
            tol += 2 * EPS * L * (m1[1] + m2[1] + 1) + 2 * EPS * L * (dens_m + dens_f * L)  # positions are identified up to 1e-10
        if abs(exp[k] - obs[k]) > tol:
            fails.append("bar %s: %s applied %s, on the slice nodes %s" % (jb["ID"], names[k], float(exp[k]), float(obs[k])))
    # net = ext + left + right
    for n in pb["Nodes"]:
        for k in range(3):
            e, l, r, net = F(n["Ext"][k]), F(n["Left"][k]), F(n["Right"][k]), F(n["Net"][k])
            if abs(net - (e + l + r)) > REL * (abs(e) + abs(l) + abs(r)):
                fails.append("bar %s: net load of node t=%s is not ext+left+right" % (jb["ID"], n["T"]))
                return fails
    return fails


def c04_history(out):
    """Repeated preprocessing: every call gives what the first gave; the input is unchanged."""
    fails = []
    if out.get("BarsAfter") is not None and out["BarsAfter"] != out["Bars"]:
        fails.append("the input structure was modified by preprocessing (loads now differ)")
    first = out["Pre"][0]
    for k, p in enumerate(out["Pre"][1:], start=2):
        a = {b["ID"]: [(n["T"], n["Ext"], n["Left"], n["Right"]) for n in b["Nodes"]] for b in first["Bars"]}
        bb = {b["ID"]: [(n["T"], n["Ext"], n["Left"], n["Right"]) for n in b["Nodes"]] for b in p["Bars"]}
        if a != bb:
            bad = [i for i in a if a[i] != bb.get(i)]
            fails.append("preprocessing call #%d differs from the first on bars %s" % (k, bad[:3]))
    return fails


# ------------------------------------------------------------------ C16

COMP = ("dx", "dy", "rz")


def c16_structure(out, pre):
    fails = []
    byid = {b["ID"]: b for b in out["Bars"]}
    count = pre["DofCount"]
    num_to_unknown = {}
    unknown_to_num = {}

    def note(u, k, where):
        if k < 0 or k >= count:
            fails.append("%s carries number %d outside 0..%d" % (where, k, count - 1))
        if k in num_to_unknown and num_to_unknown[k] != u:
            fails.append("number %d is shared by different unknowns: %s and %s" % (k, num_to_unknown[k], u))
        if u in unknown_to_num and unknown_to_num[u] != k:
            fails.append("unknown %s carries two numbers: %d and %d" % (u, unknown_to_num[u], k))
        num_to_unknown.setdefault(k, u)
        unknown_to_num.setdefault(u, k)

    used_nodes = set()
    for pb in pre["Bars"]:
        jb = byid[pb["ID"]]
        n = len(pb["Nodes"])
        used_nodes |= {jb["N1"], jb["N2"]}
        for ni, nd in enumerate(pb["Nodes"]):
            for ci in range(3):
                if ni == 0 and jb["L1"][ci]:
                    u = ("node", jb["N1"], COMP[ci])
                elif ni == n - 1 and jb["L2"][ci]:
                    u = ("node", jb["N2"], COMP[ci])
                else:
                    u = ("own", pb["ID"], ni, COMP[ci])
                note(u, nd["Dof"][ci], "bar %s node %d %s" % (pb["ID"], ni, COMP[ci]))
    for nid in sorted(used_nodes):
        d = pre["NodeDofs"][nid]
        for ci in range(3):
            note(("node", nid, COMP[ci]), d[ci], "structural node %s %s" % (nid, COMP[ci]))
    missing = [k for k in range(count) if k not in num_to_unknown]
    if missing:
        fails.append("numbers %s below the count %d are carried by nothing (gaps)" % (missing[:5], count))
    if len(num_to_unknown) != count and not missing:
        fails.append("declared count %d but %d distinct numbers" % (count, len(num_to_unknown)))
    return fails[:6]


# ------------------------------------------------------------------ C17

def slice_matrix(c, s, l, EA, EI):
    a, b3, b2, b1 = EA / l, EI / l ** 3, EI / l ** 2, EI / l
    k = [[a, 0, 0, -a, 0, 0], [0, 12 * b3, 6 * b2, 0, -12 * b3, 6 * b2], [0, 6 * b2, 4 * b1, 0, -6 * b2, 2 * b1],
         [-a, 0, 0, a, 0, 0], [0, -12 * b3, -6 * b2, 0, 12 * b3, -6 * b2], [0, 6 * b2, 2 * b1, 0, -6 * b2, 4 * b1]]
    T = [[c, s, 0, 0, 0, 0], [-s, c, 0, 0, 0, 0], [0, 0, 1, 0, 0, 0], [0, 0, 0, c, s, 0], [0, 0, 0, -s, c, 0], [0, 0, 0, 0, 0, 1]]
    kT = [[sum(k[i][m] * T[m][j] for m in range(6) if k[i][m] and T[m][j]) for j in range(6)] for i in range(6)]
    return [[sum(T[m][i] * kT[m][j] for m in range(6) if T[m][i] and kT[m][j]) for j in range(6)] for i in range(6)]


def c17_structure(out, pre):
    """Independent recomputation of the assembled system from the implementation's own sliced
    bars and numbers."""
    fails = []
    if out.get("SysPanic"):
        return ["assembling the system panicked: " + out["SysPanic"]]
    byid = {b["ID"]: b for b in out["Bars"]}
    n = pre["DofCount"]
    K, Kmag, f, fmag = {}, {}, [Fr(0)] * n, [Fr(0)] * n
    for pb in pre["Bars"]:
        jb = byid[pb["ID"]]
        c, s, L = F(jb["C"]), F(jb["S_"]), F(jb["Len"])
        EA, EI = F(jb["E"]) * F(jb["A"]), F(jb["E"]) * F(jb["I"])
        nodes = pb["Nodes"]
        for a, b in zip(nodes, nodes[1:]):
            l = L * (F(b["T"]) - F(a["T"]))
            if l == 0:
                return ["bar %s has a zero-length slice" % pb["ID"]]
            k = slice_matrix(c, s, l, EA, EI)
            ds = list(a["Dof"]) + list(b["Dof"])
            for i in range(6):
                for j in range(6):
                    v = k[i][j]
                    if abs(v) < EPS:
                        continue
                    K[(ds[i], ds[j])] = K.get((ds[i], ds[j]), 0) + v
                    Kmag[(ds[i], ds[j])] = Kmag.get((ds[i], ds[j]), 0) + abs(v)
        for nd in nodes:
            net = [F(nd["Ext"][k]) + F(nd["Left"][k]) + F(nd["Right"][k]) for k in range(3)]
            g = (net[0] * c - net[1] * s, net[0] * s + net[1] * c, net[2])
            parts = [sum(abs(F(nd[p][k])) for p in ("Ext", "Left", "Right")) for k in range(3)]
            gm = (parts[0] * abs(c) + parts[1] * abs(s), parts[0] * abs(s) + parts[1] * abs(c), parts[2])
            for k in range(3):
                f[nd["Dof"][k]] += g[k]
                fmag[nd["Dof"][k]] += gm[k]
    rows = {i for (i, j) in K}
    for d in range(n):
        if d not in rows:
            K[(d, d)] = Fr(1)
    sup = set()
    for nd in out["Nodes"]:
        if nd["Ext"] and nd["ID"] in pre["NodeDofs"]:
            d = pre["NodeDofs"][nd["ID"]]
            for ci, on in enumerate((nd["Dx"], nd["Dy"], nd["Rz"])):
                if on and d[ci] >= 0:
                    sup.add(d[ci])
    for (i, j) in list(K):
        if i in sup or j in sup:
            del K[(i, j)]
    for d in sup:
        K[(d, d)] = Fr(1)
        f[d] = Fr(0)
    G = {}
    for e in out["KEntries"]:
        if not finite(e[2]):
            return ["non-finite stiffness entry (%s,%s)" % (e[0], e[1])]
        G[(int(e[0]), int(e[1]))] = F(e[2])
    for key in set(K) | set(G):
        a, b = K.get(key, Fr(0)), G.get(key, Fr(0))
        tol = REL * (Kmag.get(key, 0) + abs(a) + abs(b))
        if abs(a - b) > tol:
            fails.append("K[%d][%d] is %s, the sum of the slice stiffnesses placed there is %s" % (key[0], key[1], float(b), float(a)))
        c2 = G.get((key[1], key[0]), Fr(0))
        if abs(b - c2) > tol:
            fails.append("K is not symmetric at (%d,%d)" % key)
        if len(fails) > 4:
            return fails
    if len(out["F"]) != n:
        fails.append("load vector has %d entries for %d equations" % (len(out["F"]), n))
    else:
        for i in range(n):
            if not finite(out["F"][i]):
                fails.append("non-finite load vector entry %d" % i)
                break
            if abs(F(out["F"][i]) - f[i]) > REL * (fmag[i] + abs(f[i])):
                fails.append("f[%d] is %s, the nodal loads sharing that equation add up to %s" % (i, out["F"][i], float(f[i])))
                if len(fails) > 4:
                    break
    return fails
