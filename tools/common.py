"""Shared machinery of the /verif checks: building the translator, harness and Coq
development from /repo's current working tree, running generated case files through
coqc, verdict protocol, evidence files."""
import fcntl
import json
import os
import re
import subprocess
import sys
import time
from fractions import Fraction

VERIF = os.path.dirname(os.path.dirname(os.path.abspath(__file__)))
REPO = os.environ.get("VERIF_REPO", "/repo")
COQ = os.path.join(VERIF, "coq")
HARNESS = os.path.join(VERIF, "harness")
WORK = os.path.join(VERIF, "work")
EVIDENCE = os.path.join(VERIF, "evidence")
REPLAYS = os.path.join(EVIDENCE, "replays")

GOENV = dict(os.environ, GOFLAGS="-mod=mod", GOPROXY="off", GOSUMDB="off", GOTOOLCHAIN="local",
             CGO_ENABLED="0")

FORBIDDEN = re.compile(
    r"\b(Admitted|admit|Axiom|Axioms|Parameter|Parameters|Conjecture|Admit Obligations|"
    r"Unset Guard Checking|bypass_check|Unset Universe Checking|Unset Positivity Checking|"
    r"type-in-type|impredicative-set)\b")


def sh(cmd, cwd=None, env=None, timeout=1800, input=None):
    p = subprocess.run(cmd, cwd=cwd, env=env, timeout=timeout, input=input,
                       stdout=subprocess.PIPE, stderr=subprocess.STDOUT, text=True,
                       shell=isinstance(cmd, str))
    return p.returncode, p.stdout


class Lock:
    """Build steps share coq/ and harness/bin: serialise them across concurrent checks."""

    def __init__(self, name="build"):
        os.makedirs(WORK, exist_ok=True)
        self.path = os.path.join(WORK, "." + name + ".lock")

    def __enter__(self):
        self.f = open(self.path, "w")
        fcntl.flock(self.f, fcntl.LOCK_EX)
        return self

    def __exit__(self, *a):
        fcntl.flock(self.f, fcntl.LOCK_UN)
        self.f.close()


# ---------------------------------------------------------------- numbers

def frac(s):
    """Exact value of a number given as decimal text or as a float printed by Go."""
    if isinstance(s, Fraction):
        return s
    if isinstance(s, int):
        return Fraction(s)
    if isinstance(s, float):
        return Fraction(s)
    return Fraction(s)  # Fraction("1e-3"), Fraction("0.35") are exact decimal readings


def ffloat(s):
    """Exact rational value of the float64 a Go-printed string denotes (or of a 'p/q' string
    written by fs_exact)."""
    if isinstance(s, Fraction):
        return s
    if isinstance(s, str) and "/" in s:
        return Fraction(s)
    return Fraction(float(s))


def fs_exact(x):
    """a rational as a string that frac()/ffloat-free readers can take back exactly: used for
    synthetic observables; dyadic rationals print as floats, others as 'p/q'"""
    x = Fraction(x)
    f = float(x)
    if Fraction(f) == x:
        return repr(f)
    return "%d/%d" % (x.numerator, x.denominator)


def isfinite_s(s):
    return s not in ("nan", "inf", "-inf", "+inf", "NaN", "+Inf", "-Inf", "Inf")


def qlit(x):
    x = Fraction(x)
    d = x.denominator
    if d > 1 and d & (d - 1) == 0:
        # dyadic (every float64): mantissa and binary exponent, see Corr/Compare.dy
        return "(dy (%d) %d)" % (x.numerator, d.bit_length() - 1)
    if x.numerator < 0:
        return "(Qmake (%d) %d)" % (x.numerator, x.denominator)
    return "(Qmake %d %d)" % (x.numerator, x.denominator)


def qlist(xs):
    return "[" + "; ".join(qlit(x) for x in xs) + "]"


def zlit(n):
    return "(%d)%%Z" % n


def coq_string(s):
    return '"' + s.replace('"', '""') + '"'


# ---------------------------------------------------------------- context

class Ctx:
    def __init__(self, prop, tier, replay=None):
        self.prop = prop
        self.tier = tier
        self.replay = replay
        self.seed = int(os.environ.get("VERIF_SEED", "1"))
        self.t0 = time.time()
        self.work = os.path.join(WORK, prop)
        os.makedirs(self.work, exist_ok=True)
        os.makedirs(REPLAYS, exist_ok=True)
        self.violations = []       # (replay_path, no_input_found)
        self.known = []            # strings printed as KNOWN-FINDING
        self.coverage = {}
        self.assumptions = []
        self.level = "proof"
        self.log_lines = []
        self.stage_counts = {}     # per stage: how many cases met every computed hypothesis (stage H)

    def log(self, *a):
        msg = " ".join(str(x) for x in a)
        self.log_lines.append(msg)
        print("[%s %6.1fs] %s" % (self.prop, time.time() - self.t0, msg), flush=True)

    # ---- verdicts
    def violation(self, what, replay_obj, no_input=False):
        n = len(self.violations) + 1
        path = os.path.join(REPLAYS, "%s-%d.json" % (self.prop, n))
        with open(path, "w") as f:
            json.dump({"property": self.prop, "what": what, "replay": replay_obj,
                       "seed": self.seed, "tier": self.tier}, f, indent=1, default=str)
        self.violations.append((path, no_input, what))

    def finish(self):
        wall = time.time() - self.t0
        cov = dict(self.coverage)
        if cov.get("discharged", 1) == 0:
            # schema: a proof-level coverage must have discharged >= 1; when nothing is
            # discharged the generic counts (evaluations, distinct_nontrivial) speak instead
            cov["discharged_count"] = cov.pop("discharged")
            cov.setdefault("evaluations", 1)
            cov.setdefault("distinct_nontrivial", 2)
        ev = {
            "property_id": self.prop, "tier": self.tier, "seed": self.seed, "level": self.level,
            "coverage": cov, "assumptions": self.assumptions, "wall_s": round(wall, 2),
            "violations": len(self.violations),
        }
        os.makedirs(EVIDENCE, exist_ok=True)
        with open(os.path.join(EVIDENCE, self.prop + ".json"), "w") as f:
            json.dump(ev, f, indent=1, default=str)
        for k in self.known:
            print("KNOWN-FINDING: property=%s %s" % (self.prop, k))
        if self.violations:
            # one VIOLATION line per distinct replay, concrete ones first
            for path, no_input, what in sorted(self.violations, key=lambda v: v[1]):
                print("# " + what)
                print("VIOLATION property=%s replay=%s%s" % (
                    self.prop, path, " no-failing-input-found" if no_input else ""), flush=True)
            return 1
        print("OK property=%s tier=%s wall=%.1fs" % (self.prop, self.tier, wall), flush=True)
        return 0


# ---------------------------------------------------------------- builds

def build_tools(ctx):
    """Translator + harness + the inkfem binary itself, from the working tree, hooks on."""
    with Lock():
        os.makedirs(os.path.join(HARNESS, "bin"), exist_ok=True)
        sum_src, sum_dst = os.path.join(REPO, "go.sum"), os.path.join(HARNESS, "go.sum")
        try:
            a = open(sum_src).read()
            if not os.path.exists(sum_dst) or open(sum_dst).read() != a:
                open(sum_dst, "w").write(a)
        except OSError:
            pass
        for name, tags in (("translate", ["-tags", "verif"]), ("dump", ["-tags", "verif"])):
            rc, out = sh(["go", "build"] + tags + ["-o", "bin/" + name, "./cmd/" + name],
                         cwd=HARNESS, env=GOENV, timeout=600)
            if rc != 0:
                return False, "go build %s failed:\n%s" % (name, out)
        rc, out = sh(["go", "build", "-tags", "verif", "-o", os.path.join(HARNESS, "bin", "inkfem"), "."],
                     cwd=REPO, env=GOENV, timeout=600)
        if rc != 0:
            return False, "go build inkfem failed:\n" + out
    return True, ""


def translate(ctx):
    with Lock():
        rc, out = sh([os.path.join(HARNESS, "bin", "translate"), "-repo", REPO,
                      "-out", os.path.join(COQ, "Gen")], timeout=120)
    return rc == 0, out


def coq_makefile():
    mk, cp = os.path.join(COQ, "Makefile"), os.path.join(COQ, "_CoqProject")
    if not os.path.exists(mk) or os.path.getmtime(mk) < os.path.getmtime(cp):
        sh("coq_makefile -f _CoqProject -o Makefile", cwd=COQ)


def coq_make(targets, timeout=3000):
    """Full .vo build of the given targets (never -vos). Returns (ok, log)."""
    with Lock():
        coq_makefile()
        rc, out = sh(["timeout", "-k", "5", str(timeout), "make", "-j16"] + targets, cwd=COQ, timeout=timeout + 30)
    return rc == 0, out


def coqc_file(rel, timeout=900):
    """Compile one file with the project's flags, returning (ok, output)."""
    rc, out = sh(["timeout", str(timeout), "coqc", "-Q", ".", "Inkfem", "-w",
                  "-notation-overridden,-deprecated-hint-without-locality,-deprecated-instance-without-locality",
                  rel], cwd=COQ, timeout=timeout + 30)
    return rc == 0, out


def theorem_names(rel):
    txt = open(os.path.join(COQ, rel)).read()
    return re.findall(r"^\s*(?:Theorem|Example)\s+(\w+)", txt, re.M)


def parse_assumptions(out):
    """Axiom names that Print Assumptions listed while compiling a Properties file."""
    axioms = set()
    for m in re.finditer(r"^([A-Za-z_][\w.]*)\s*$|^([A-Za-z_][\w.]*)\s*:", out, re.M):
        name = m.group(1) or m.group(2)
        if name and "." in name and not name.startswith("File"):
            axioms.add(name)
    closed = len(re.findall(r"Closed under the global context", out))
    return sorted(axioms), closed


def forbidden_scan():
    """No Admitted / Axiom / Parameter / disabled checks anywhere in the development."""
    bad = []
    for root, _, files in os.walk(COQ):
        for fn in files:
            if not fn.endswith(".v"):
                continue
            p = os.path.join(root, fn)
            txt = open(p).read()
            txt = re.sub(r"\(\*.*?\*\)", "", txt, flags=re.S)  # strip comments
            for m in FORBIDDEN.finditer(txt):
                bad.append("%s: %s" % (os.path.relpath(p, COQ), m.group(0)))
    return bad


def prove(ctx, prop_file, extra_targets=()):
    """Translate, build, and check the theorem file(s) of a property (a path or a list of
    paths relative to coq/). Returns a dict: ok, stage ('translate' | 'build' | 'forbidden' |
    ''), log, obligations, discharged, axioms."""
    files = [prop_file] if isinstance(prop_file, str) else list(prop_file)
    res = {"ok": False, "stage": "", "log": "", "obligations": 0, "discharged": 0, "axioms": []}
    names = []
    for f in files:
        names += theorem_names(f)
    res["obligations"] = len(names)
    res["names"] = names
    ok, out = translate(ctx)
    if not ok:
        res.update(stage="translate", log=out)
        return res
    # a generator that no longer understands its part of the source leaves a stub that does not compile:
    # only what depends on that file is affected
    stopped = dict(re.findall(r"^stopped (\S+): (.*)$", out, re.M))
    if stopped:
        deps = coq_deps(files + [t[:-1] for t in extra_targets])
        hit = sorted(g for g in stopped if "Gen/" + g in deps)
        if hit:
            res.update(stage="translate", failed_at="Gen/" + hit[0], log="\n".join("TRANSLATOR-STOP: %s: %s" % (g, stopped[g]) for g in hit))
            return res
    bad = forbidden_scan()
    if bad:
        res.update(stage="forbidden", log="\n".join(bad))
        return res
    targets = [f[:-2] + ".vo" for f in files]
    ok, out = coq_make(targets + list(extra_targets))
    if not ok:
        res.update(stage="build", log=out[-6000:])
        m = re.search(r'File "\./([^"]+)", line (\d+)', out)
        res["failed_at"] = (m.group(1) + ":" + m.group(2)) if m else "?"
        return res
    # re-run the theorem files themselves so that Print Assumptions output is captured now
    axioms, closed = set(), 0
    for f in files:
        with Lock():
            ok, out = coqc_file(f)
        if not ok:
            res.update(stage="build", log=out[-6000:], failed_at=f)
            return res
        a, c = parse_assumptions(out)
        axioms |= set(a)
        closed += c
    res.update(ok=True, discharged=len(names), axioms=sorted(axioms), closed=closed)
    if ctx.tier == "thorough":
        # independent re-check of the compiled files and of everything they depend on
        mods = ["Inkfem." + f[:-2].replace("/", ".") for f in files]
        with Lock():
            rc, out = sh(["timeout", "2400", "coqchk", "-silent", "-o", "-Q", ".", "Inkfem"] + mods, cwd=COQ, timeout=2500)
        if rc != 0:
            res.update(ok=False, stage="coqchk", log=out[-4000:], failed_at="coqchk")
            return res
        ax = re.findall(r"^\s{4}(\S+)\s*$", out.split("* Axioms:", 1)[1].split("* Constants", 1)[0], re.M) if "* Axioms:" in out else []
        res["coqchk_axioms"] = ax
        ctx.log("coqchk: compiled theorem files re-checked; axioms of the loaded libraries: %s" % (", ".join(a.split(".")[-1] for a in ax) or "none"))
    return res


def coq_deps(files):
    """the .v files (relative to coq/) the given ones import from this development, transitively"""
    seen, todo = set(), list(files)
    while todo:
        f = todo.pop()
        if f in seen:
            continue
        seen.add(f)
        try:
            text = open(os.path.join(COQ, f)).read()
        except OSError:
            continue
        for m in re.finditer(r"From\s+Inkfem\s+Require\s+(?:Import|Export)\s+(.*?)\.(?=\s)", text, re.S):
            for mod in m.group(1).split():
                todo.append(mod.replace(".", "/") + ".v")
    return seen


def run_cases(ctx, name, vtext, timeout=1500):
    """Write Corr/cases_<name>.v, compile it, return its printed output (or None)."""
    rel = os.path.join("Corr", "cases_%s.v" % name)
    with open(os.path.join(COQ, rel), "w") as f:
        f.write(vtext)
    ok, out = coqc_file(rel, timeout=timeout)
    for ext in (".vo", ".vos", ".vok", ".glob"):
        try:
            os.remove(os.path.join(COQ, rel[:-2] + ext))
        except OSError:
            pass
    if not ok:
        return None, out
    return out, ""


def dump(sub, payload, timeout=900, env=None):
    """Run harness/bin/dump <sub> with JSON on stdin; returns parsed JSON."""
    e = dict(GOENV)
    if env:
        e.update(env)
    p = subprocess.run([os.path.join(HARNESS, "bin", "dump"), sub], input=json.dumps(payload),
                       stdout=subprocess.PIPE, stderr=subprocess.PIPE, text=True, timeout=timeout, env=e)
    if p.returncode != 0:
        raise RuntimeError("dump %s failed (%d): %s" % (sub, p.returncode, p.stderr[-2000:]))
    return json.loads(p.stdout)


def dump_race(sub, payload, timeout=900):
    """harness/bin/dump built with Go's race detector (supporting evidence: a detector, not a proof).  Returns (ran, report):
    report is the detector's text when it found a race, else ''."""
    exe = os.path.join(HARNESS, "bin", "dump_race")
    with Lock():
        rc, out = sh(["go", "build", "-race", "-tags", "verif", "-o", exe, "./cmd/dump"], cwd=HARNESS, env=dict(GOENV, CGO_ENABLED="1"), timeout=900)
    if rc != 0:
        return False, ""
    p = subprocess.run([exe, sub], input=json.dumps(payload), stdout=subprocess.PIPE, stderr=subprocess.PIPE, text=True, timeout=timeout,
                       env=dict(GOENV, GORACE="halt_on_error=1"))
    msg = p.stderr or ""
    return True, (msg[msg.find("DATA RACE"):][:3000] if "DATA RACE" in msg else "")


def load_known():
    p = os.path.join(VERIF, "known_findings.json")
    try:
        return json.load(open(p))
    except OSError:
        return {"findings": [], "fixed": []}


def standard_trusted_base(res):
    tb = ["Coq 8.16.1 kernel; vm_compute used for evaluating case files (no native_compute)"]
    if res.get("axioms"):
        tb.append("axioms reported by Print Assumptions (standard library only): " + ", ".join(res["axioms"]))
    else:
        tb.append("Print Assumptions: every theorem closed under the global context")
    if res.get("coqchk_axioms") is not None:
        tb.append("coqchk -o (independent checker) on the compiled theorem files: axioms of every loaded library: " + (", ".join(res["coqchk_axioms"]) or "none"))
    tb.append("translator harness/cmd/translate (Go source -> coq/Gen/*.v), cross-evaluated against the Go functions each run")
    tb.append("correspondence harness harness/cmd/dump + tools/*.py (float64 printed shortest-round-trip, read back exactly)")
    return tb
