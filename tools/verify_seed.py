#!/usr/bin/env python3
"""verify_seed.py <agent out dir (…/out/mK)> <property> <seed name>
Confirms, in a scratch worktree of /repo, that a seeded change compiles, passes the existing
suite, and that its demonstration fails with it and passes without it; then files it under
/verif/seeded/<property>-<name>/."""
import json
import os
import shutil
import subprocess
import sys

src, prop, name = sys.argv[1], sys.argv[2], sys.argv[3]
env = dict(os.environ, GOFLAGS="-mod=mod", GOPROXY="off", GOSUMDB="off", GOTOOLCHAIN="local")
wt = "/tmp/seedchk-%s-%s" % (prop, name)


def sh(cmd, cwd=wt, ok=None):
    p = subprocess.run(cmd, shell=True, cwd=cwd, env=env, stdout=subprocess.PIPE, stderr=subprocess.STDOUT, text=True, timeout=1800)
    return p.returncode, p.stdout


subprocess.run("git -C /repo worktree remove --force %s" % wt, shell=True, stdout=subprocess.DEVNULL, stderr=subprocess.DEVNULL)
rc, out = sh("git -C /repo worktree add -q --detach %s HEAD" % wt, cwd="/repo")
assert rc == 0, out
ran = []
result = {"ok": False}
try:
    meta = json.load(open(os.path.join(src, "meta.json")))
    rc, out = sh("git apply %s" % os.path.join(src, "patch.diff"))
    ran.append("git apply patch.diff -> %d" % rc)
    assert rc == 0, "patch does not apply: " + out
    rc, out = sh("go build ./... && go build -tags verif ./...")
    ran.append("go build ./... (and with -tags verif) -> %d" % rc)
    assert rc == 0, "does not build: " + out[-800:]
    passes = 0
    for _ in range(2):
        rc, out = sh("go test -vet=off -count=1 ./...")
        passes += rc == 0
    ran.append("go test -vet=off -count=1 ./... x2 with the change -> %d/2 pass" % passes)
    assert passes == 2, "existing tests fail with the change: " + out[-800:]
    copied = []
    # demos may refer to their files as out/<mK>/...: make that path exist in the scratch tree
    os.makedirs(os.path.join(wt, "out"), exist_ok=True)
    shutil.copytree(src, os.path.join(wt, "out", os.path.basename(os.path.normpath(src))), dirs_exist_ok=True)
    if os.path.exists(os.path.join(os.path.dirname(os.path.normpath(src)), "go.mod")):
        shutil.copy(os.path.join(os.path.dirname(os.path.normpath(src)), "go.mod"), os.path.join(wt, "out", "go.mod"))
    for f, dst in (meta.get("demo_files") or {}).items():
        if dst:
            os.makedirs(os.path.dirname(os.path.join(wt, dst)), exist_ok=True)
            shutil.copy(os.path.join(src, f), os.path.join(wt, dst))
            copied.append(dst)
        else:
            shutil.copy(os.path.join(src, f), os.path.join(wt, os.path.basename(f)))
            copied.append(os.path.basename(f))
    cmd = meta["demo_cmd"]
    rc1, out1 = sh(cmd)
    ran.append("demo with the change: `%s` -> exit %d" % (cmd, rc1))
    sh("git apply -R %s" % os.path.join(src, "patch.diff"))
    rc2, out2 = sh(cmd)
    ran.append("demo without the change -> exit %d" % rc2)
    assert rc1 != 0, "demo does not fail with the change"
    assert rc2 == 0, "demo does not pass without the change: " + out2[-800:]
    result = {"ok": True, "demo_with": out1[-600:], "demo_without": out2[-300:]}
    dst = os.path.join("/verif/seeded", "%s-%s" % (prop, name))
    os.makedirs(dst, exist_ok=True)
    shutil.copy(os.path.join(src, "patch.diff"), os.path.join(dst, "patch.diff"))
    for f in (meta.get("demo_files") or {}):
        shutil.copy(os.path.join(src, f), os.path.join(dst, os.path.basename(f)))
    json.dump({"property": prop, "breaks": meta.get("summary"), "needs_to_manifest": meta.get("needs_to_manifest"),
               "files_touched": meta.get("files_touched"), "demo_files": meta.get("demo_files"), "demo_cmd": cmd,
               "what_i_ran": ran, "base_commit": subprocess.run("git -C /repo rev-parse --short HEAD", shell=True, capture_output=True, text=True).stdout.strip(),
               "observed_with_change": meta.get("observed_with_patch"), "observed_without_change": meta.get("observed_without_patch")},
              open(os.path.join(dst, "meta.json"), "w"), indent=1)
    print("CONFIRMED", prop, name)
except AssertionError as e:
    print("REJECTED", prop, name, str(e)[:1000])
    for r in ran:
        print("  ", r)
finally:
    subprocess.run("git -C /repo worktree remove --force %s" % wt, shell=True)
