"""Seeded generators of structures (as exact decimals) and the .inkfem writer used by the
checks.  Every random choice comes from the one random.Random handed in."""
from fractions import Fraction as Fr

PYTH = [(3, 4, 5), (5, 12, 13), (8, 15, 17), (7, 24, 25), (20, 21, 29)]

LINKS = {"rigid": (True, True, True), "pin": (True, True, False), "free": (False, False, False),
         "slide_x": (False, True, True), "slide_y": (True, False, True), "only_dx": (True, False, False),
         "only_dy": (False, True, False), "only_rz": (False, False, True)}


def dec(x):
    """Exact decimal text of a rational whose denominator divides a power of ten."""
    x = Fr(x)
    if x.denominator == 1:
        return str(x.numerator)
    p = 0
    while (10 ** p) % x.denominator != 0:
        p += 1
        if p > 60:
            raise ValueError("not a finite decimal: %s" % x)
    n = x.numerator * (10 ** p) // x.denominator
    s = str(abs(n)).rjust(p + 1, "0")
    return ("-" if n < 0 else "") + s[:-p] + "." + s[-p:]


def cstr(c, spaced=True):
    toks = [n for n, on in zip(("dx", "dy", "rz"), c) if on]
    if spaced:
        return "{ " + "".join(t + " " for t in toks) + "}"
    return "{" + " ".join(toks) + "}"


class Structure:
    def __init__(self):
        self.nodes = {}      # id -> (x, y, (dx, dy, rz))
        self.mats = {}       # name -> (density, young, shear, poisson, yield, ultimate)
        self.secs = {}       # name -> (area, istrong, iweak, sstrong, sweak)
        self.bars = []       # dict(id, n1, l1, n2, l2, mat, sec)
        self.loads = []      # dict(kind='c'|'d', term, local, bar, t, v | t0, v0, t1, v1)
        self.version = (1, 1)

    def copy(self):
        s = Structure()
        s.nodes = dict(self.nodes)
        s.mats = dict(self.mats)
        s.secs = dict(self.secs)
        s.bars = [dict(b) for b in self.bars]
        s.loads = [dict(l) for l in self.loads]
        s.version = self.version
        s.node_dof_notes = dict(getattr(self, "node_dof_notes", {}))
        return s

    def bar(self, bid):
        for b in self.bars:
            if b["id"] == bid:
                return b
        raise KeyError(bid)

    def loads_of(self, bid):
        return [l for l in self.loads if l["bar"] == bid]

    def text(self, order=("nodes", "materials", "sections", "loads", "bars"), num=dec, spaced=True,
             comments=False, pad=""):
        out = ["inkfem v%d.%d" % self.version, ""]
        for sec in order:
            if comments:
                out.append("# section " + sec)
            out.append("|%s|" % sec)
            if sec == "nodes":
                notes = getattr(self, "node_dof_notes", {})
                for i, (x, y, c) in self.nodes.items():
                    line = "%s%s -> %s %s %s" % (pad, i, num(x), num(y), cstr(c, spaced))
                    if i in notes:
                        # the grammar lets a node line carry equation numbers (as .inkfempre files do)
                        line += " | [%d %d %d]" % notes[i]
                    out.append(line)
            elif sec == "materials":
                for n, v in self.mats.items():
                    out.append("%s'%s' -> %s" % (pad, n, " ".join(num(a) for a in v)))
            elif sec == "sections":
                for n, v in self.secs.items():
                    out.append("%s'%s' -> %s" % (pad, n, " ".join(num(a) for a in v)))
            elif sec == "loads":
                for l in self.loads:
                    ref = "l" if l["local"] else "g"
                    if l["kind"] == "c":
                        out.append("%s%s %sc %s %s %s" % (pad, l["term"], ref, l["bar"], num(l["t"]), num(l["v"])))
                    else:
                        out.append("%s%s %sd %s %s %s %s %s" % (pad, l["term"], ref, l["bar"], num(l["t0"]),
                                                                num(l["v0"]), num(l["t1"]), num(l["v1"])))
            elif sec == "bars":
                for b in self.bars:
                    out.append("%s%s -> %s %s %s %s '%s' '%s'" % (pad, b["id"], b["n1"], cstr(b["l1"], spaced),
                                                                  b["n2"], cstr(b["l2"], spaced), b["mat"], b["sec"]))
            out.append("")
        return "\n".join(out) + "\n"


# ---------------------------------------------------------------- load positions

CUT_BASES = [Fr(k, 10) for k in range(0, 11)] + [Fr(k, 6) for k in range(1, 6)]
DELTAS = [Fr(0), Fr(0), Fr("5e-11"), Fr("1e-6"), Fr("5e-4"), Fr("9.9e-4"), Fr("1.1e-3"), Fr("2e-3"), Fr("0.013"), Fr("0.0437")]


def tricky_t(rng):
    base = rng.choice(CUT_BASES)
    if base.denominator == 6 or base.denominator == 3:
        base = Fr(dec6(base))
    d = rng.choice(DELTAS) * rng.choice([1, -1])
    t = base + d
    return min(max(t, Fr(0)), Fr(1))


def dec6(x):
    """k/6 rounded to 6 decimals (kept as an exact decimal)."""
    return "%.6f" % float(x)


def positions_ok(ts):
    """Generator rule: keep discrete decisions away from their float-ambiguous boundary.
    (i) any two positions (and 0, 1) are closer than 0.9e-10 or farther than 1.1e-10, and the
    1e-10 clusters are not chains; (ii) no position is within 1e-9 of distance 1e-3 from a
    uniform cut (k/10)."""
    pts = sorted(set([Fr(0), Fr(1)] + list(ts)))
    lo, hi = Fr("0.9e-10"), Fr("1.1e-10")
    for i in range(len(pts)):
        for j in range(i + 1, len(pts)):
            d = pts[j] - pts[i]
            if lo <= d <= hi:
                return False
    # no chains: clusters linked by gaps < 1e-10 must have diameter < 1e-10
    start = pts[0]
    for a, b in zip(pts, pts[1:]):
        if b - a < lo:
            if b - start >= lo:
                return False
        else:
            start = b
    for t in ts:
        for k in range(0, 11):
            d = abs(t - Fr(k, 10))
            if abs(d - Fr("1e-3")) < Fr("1e-9"):
                return False
    return True


def gen_loads_for_bar(rng, bid, nmax=6, allow_mz_dist=True, nodal_only=False):
    for _ in range(50):
        loads = []
        ts = []
        for _k in range(rng.randint(0, nmax)):
            term = rng.choice(["fx", "fy", "fy", "mz"])
            local = rng.random() < 0.5
            val = Fr(rng.choice([-1, 1]) * rng.choice([1, 5, 37, 100, 2500]), rng.choice([1, 1, 10, 4]))
            if nodal_only:
                t = rng.choice([Fr(0), Fr(1)])
                if term == "mz":
                    term = "fx"
                loads.append({"kind": "c", "term": term, "local": local, "bar": bid, "t": t, "v": val})
                continue
            if rng.random() < 0.5:
                t = tricky_t(rng)
                if ts and rng.random() < 0.25:
                    # a twin: within 1e-10 of a position already used (the code identifies them)
                    t = min(max(rng.choice(ts) + rng.choice([1, -1]) * Fr("5e-11"), Fr(0)), Fr(1))
                elif rng.random() < 0.2:
                    # within 1e-10 of a bar end without being the end
                    # ... or a little farther (single-precision exports such as 0.99999994): still not the end
                    t = rng.choice([Fr("5e-11"), 1 - Fr("5e-11"), Fr("3e-12"), 1 - Fr("1e-12"), 1 - Fr("6e-8"), Fr("6e-8"), Fr("0.0000002"), 1 - Fr("0.0000009")])
                ts.append(t)
                loads.append({"kind": "c", "term": term, "local": local, "bar": bid, "t": t, "v": val})
            else:
                if term == "mz" and not allow_mz_dist:
                    term = "fy"
                a, b = tricky_t(rng), tricky_t(rng)
                if rng.random() < 0.3:
                    a, b = Fr(0), Fr(1)
                if a > b:
                    a, b = b, a
                if b - a < Fr("1e-9"):
                    continue
                ts += [a, b]
                val2 = val if rng.random() < 0.4 else Fr(rng.choice([-1, 1]) * rng.choice([0, 3, 80, 1200]), rng.choice([1, 10]))
                loads.append({"kind": "d", "term": term, "local": local, "bar": bid,
                              "t0": a, "v0": val, "t1": b, "v1": val2})
                if b < 1 and rng.random() < 0.3:
                    # a stepped load: the next one starts exactly where this one ends, with another value
                    # (or along the other axis), in the same frame of reference
                    e = rng.choice([Fr(1), (b + 1) / 2 if (b + 1) / 2 - b > Fr("1e-3") else Fr(1)])
                    e = Fr(dec6(e)) if e != 1 else e
                    if e - b >= Fr("1e-9"):
                        term2 = term if rng.random() < 0.6 else ("fx" if term != "fx" else "fy")
                        val3 = val2 + Fr(rng.choice([-1, 1]) * rng.choice([15, 300]))
                        ts.append(e)
                        loads.append({"kind": "d", "term": term2, "local": local, "bar": bid, "t0": b, "v0": val3, "t1": e, "v1": val3 if rng.random() < 0.5 else val2})
        if positions_ok(ts):
            return loads
    return []


def std_mat_sec(s, rng=None, units=None):
    s.mats["steel"] = (Fr("0.00000785"), Fr(21000000), Fr(8100000), Fr("0.3"), Fr(27500), Fr(43000))
    s.secs["ipe"] = (Fr("10.3"), Fr(171), Fr("15.92"), Fr("34.2"), Fr("5.79"))
    if rng is not None and rng.random() < 0.5:
        s.mats["alu"] = (Fr("0.0000027"), Fr(7000000), Fr(2600000), Fr("0.33"), Fr(16000), Fr(30000))
        s.secs["box"] = (Fr(24), Fr(720), Fr(180), Fr(96), Fr(40))


def direction(rng):
    kind = rng.choice(["pyth", "pyth", "axis", "free"])
    if kind == "pyth":
        a, b, _ = rng.choice(PYTH)
        if rng.random() < 0.5:
            a, b = b, a
        return kind, Fr(a * rng.choice([1, -1])), Fr(b * rng.choice([1, -1]))
    if kind == "axis":
        dx, dy = rng.choice([(1, 0), (-1, 0), (0, 1), (0, -1)])
        return kind, Fr(dx), Fr(dy)
    dx, dy = Fr(rng.randint(-99, 99), 10), Fr(rng.randint(-99, 99), 10)
    if dx == 0 and dy == 0:
        dx = Fr(1)
    return kind, dx, dy


def gen_single_bar(rng):
    """One bar, any direction, every link kind, up to 6 loads at tricky positions."""
    s = Structure()
    std_mat_sec(s, rng)
    kind, dx, dy = direction(rng)
    scale = Fr(rng.choice(["1", "10", "25", "0.5", "100"]))
    x1, y1 = Fr(rng.randint(-500, 500), 10), Fr(rng.randint(-500, 500), 10)
    s.nodes["n1"] = (x1, y1, (True, True, True))
    s.nodes["n2"] = (x1 + dx * scale, y1 + dy * scale, rng.choice([(False, False, False), (False, True, False), (True, True, False)]))
    lk = rng.choice(["rigid", "rigid", "pin"])
    l1 = LINKS[lk]
    l2 = LINKS[rng.choice(["rigid", "rigid", "pin"])]
    mat = rng.choice(list(s.mats))
    sec = rng.choice(list(s.secs))
    s.bars.append({"id": "b1", "n1": "n1", "l1": l1, "n2": "n2", "l2": l2, "mat": mat, "sec": sec})
    axialish = (not l1[2]) and (not l2[2]) and rng.random() < 0.6
    s.loads = gen_loads_for_bar(rng, "b1", nodal_only=axialish)
    s.meta = {"kind": "single/" + kind}
    return s


def gen_frame(rng, max_cells=3, loads=True, allow_mz_dist=True):
    """Frame on a 3a x 4a grid (so that horizontals, verticals and both diagonals have rational
    length), random subset of edges, all link kinds at bar ends, 1..3 supports."""
    s = Structure()
    std_mat_sec(s, rng)
    a = Fr(rng.choice(["1", "10", "25", "50", "2.5"]))
    nx, ny = rng.randint(1, max_cells), rng.randint(1, max_cells)
    ox, oy = Fr(rng.randint(-20, 20)) * 10, Fr(rng.randint(-20, 20)) * 10
    grid = {}
    for i in range(nx + 1):
        for j in range(ny + 1):
            grid[(i, j)] = (ox + 3 * a * i, oy + 4 * a * j)
    cand = []
    for i in range(nx + 1):
        for j in range(ny + 1):
            if i < nx:
                cand.append(((i, j), (i + 1, j)))
            if j < ny:
                cand.append(((i, j), (i, j + 1)))
            if i < nx and j < ny and rng.random() < 0.5:
                cand.append(((i, j), (i + 1, j + 1)))
            if i < nx and j > 0 and rng.random() < 0.3:
                cand.append(((i, j), (i + 1, j - 1)))
    rng.shuffle(cand)
    keep = cand[:max(1, rng.randint(len(cand) // 2, len(cand)))]
    used = sorted({p for e in keep for p in e})
    ids = {p: "n%d" % (k + 1) for k, p in enumerate(used)}
    # supports on the lowest row first (keeps most frames stable), then random
    low = [p for p in used if p[1] == min(q[1] for q in used)]
    sup = {}
    for p in low:
        sup[p] = rng.choice([(True, True, True), (True, True, True), (True, True, False)])
    if rng.random() < 0.3:
        p = rng.choice(used)
        sup[p] = rng.choice([(False, True, False), (True, True, False), (True, False, False), (True, True, True)])
    for p in used:
        x, y = grid[p]
        s.nodes[ids[p]] = (x, y, sup.get(p, (False, False, False)))
    for k, (p, q) in enumerate(keep):
        if rng.random() < 0.3:
            p, q = q, p
        lk1 = LINKS[rng.choice(["rigid", "rigid", "rigid", "pin", "slide_x", "only_dx", "only_dy", "free"] if rng.random() < 0.25 else ["rigid", "rigid", "pin"])]
        lk2 = LINKS[rng.choice(["rigid", "rigid", "pin"])]
        s.bars.append({"id": "b%d" % (k + 1), "n1": ids[p], "l1": lk1, "n2": ids[q], "l2": lk2,
                       "mat": rng.choice(list(s.mats)), "sec": rng.choice(list(s.secs))})
    if loads:
        for b in s.bars:
            if rng.random() < 0.6:
                pinned = (not b["l1"][2]) and (not b["l2"][2])
                s.loads += gen_loads_for_bar(rng, b["id"], nmax=3, allow_mz_dist=allow_mz_dist,
                                             nodal_only=pinned and rng.random() < 0.5)
    s.meta = {"kind": "frame/%dx%d" % (nx, ny)}
    return s


def gen_twins(rng):
    """two or three equal bars (same direction, length, material, section) side by side whose loads sit at
    positions that agree to six or more decimals without being equal, and equal loads on all of them:
    whatever is remembered from one bar must not leak into the next"""
    s = Structure()
    std_mat_sec(s)
    kind, dx, dy = direction(rng)
    scale = Fr(rng.choice(["1", "10", "100"]))
    t0 = Fr(rng.choice(["0.333333", "0.5", "0.25", "0.7071067", "0.123456"]))
    deltas = [Fr(0), Fr(rng.choice(["0.0000003", "0.0000004", "0.00000007"])), Fr(rng.choice(["0.000000001", "0.00000002"]))]
    nb = rng.choice([2, 3])
    for k in range(nb):
        ox = Fr(1000 * k)
        s.nodes["p%d" % k] = (ox, Fr(0), (True, True, True))
        s.nodes["q%d" % k] = (ox + dx * scale, dy * scale, (False, False, False))
        s.bars.append({"id": "t%d" % k, "n1": "p%d" % k, "l1": LINKS["rigid"], "n2": "q%d" % k, "l2": LINKS["rigid"], "mat": "steel", "sec": "ipe"})
        s.loads.append({"kind": "c", "term": "fy", "local": True, "bar": "t%d" % k, "t": t0 + deltas[k], "v": Fr(-100)})
        if rng.random() < 0.5:
            s.loads.append({"kind": "d", "term": "fy", "local": True, "bar": "t%d" % k, "t0": Fr("0.6") + deltas[k], "v0": Fr(-10), "t1": Fr("0.9") - deltas[k], "v1": Fr(-10)})
    s.meta = {"kind": "twins"}
    return s


def gen_support_loads(rng):
    """concentrated forces and moments applied exactly on supported bar ends (t = 0 of a bar that starts at a
    support, t = 1 of one that ends there), besides ordinary loads: they reach the reactions directly"""
    s = gen_portal(rng) if rng.random() < 0.5 else gen_beam(rng)
    for b in s.bars:
        for end, t in (("n1", Fr(0)), ("n2", Fr(1))):
            c = s.nodes[b[end]][2]
            if any(c):
                for term in rng.sample(["fx", "fy", "mz"], 2):
                    s.loads.append({"kind": "c", "term": term, "local": rng.random() < 0.5, "bar": b["id"], "t": t,
                                    "v": Fr(rng.choice([-1, 1]) * rng.choice([250, 600, 1000]))})
    s.meta = {"kind": "support-loads/" + s.meta.get("kind", "?")}
    return s


def gen_pinned_near_end(rng):
    """a bar pinned at both ends whose only loads are forces close to, but not at, an end (1e-9 .. 1e-4
    away): not an axial member - it must be sliced and keep its loads"""
    s = gen_single_bar(rng)
    b = s.bars[0]
    b["l1"], b["l2"] = LINKS["pin"], LINKS["pin"]
    d = Fr(rng.choice(["6e-8", "1e-9", "0.0000009", "0.00002", "0.0002", "2e-7"]))
    t = d if rng.random() < 0.5 else 1 - d
    s.loads = [{"kind": "c", "term": rng.choice(["fx", "fy"]), "local": rng.random() < 0.5, "bar": b["id"], "t": t, "v": Fr(-70)}]
    if rng.random() < 0.4:
        s.loads.append({"kind": "c", "term": "fy", "local": True, "bar": b["id"], "t": rng.choice([Fr(0), Fr(1)]), "v": Fr(120)})
    s.meta = {"kind": "pinned-near-end"}
    return s


def gen_pinned_at_end_within_tolerance(rng):
    """a bar pinned at both ends whose loads are forces the code identifies with an end (within 1e-10 of it) without
    being written as 0 or 1: an axial member - each force belongs to the end it is next to"""
    s = gen_single_bar(rng)
    b = s.bars[0]
    b["l1"], b["l2"] = LINKS["pin"], LINKS["pin"]
    near1 = Fr(rng.choice(["0.99999999999", "0.9999999999999999", "0.99999999995"]))
    near0 = Fr(rng.choice(["0.00000000001", "0.00000000005", "3e-12"]))
    s.loads = [{"kind": "c", "term": rng.choice(["fx", "fy"]), "local": rng.random() < 0.5, "bar": b["id"], "t": near1, "v": Fr(rng.choice([-400, 250]))}]
    if rng.random() < 0.6:
        s.loads.append({"kind": "c", "term": rng.choice(["fx", "fy"]), "local": rng.random() < 0.5, "bar": b["id"], "t": near0, "v": Fr(rng.choice([90, -35]))})
    if rng.random() < 0.4:
        s.loads.append({"kind": "c", "term": "fy", "local": True, "bar": b["id"], "t": Fr(1), "v": Fr(120)})
    s.meta = {"kind": "pinned-at-end-within-tolerance"}
    return s


def with_unused_node(s, rng):
    """a node no bar starts or ends at (left over after a bar was removed): valid input, part of the structure"""
    xs = [x for x, y, c in s.nodes.values()]
    ys = [y for x, y, c in s.nodes.values()]
    s.nodes["unused"] = (max(xs) + (max(xs) - min(xs) or Fr(8)) / 2, min(ys), rng.choice([(True, True, True), (False, False, False), (True, True, False)]))
    s.meta = dict(getattr(s, "meta", {}), kind=getattr(s, "meta", {}).get("kind", "?") + "+unused-node")
    return s


def gen_doubled_tie(rng):
    """two members pinned at both ends between the same two free joints (twin rods, a rod beside a beam): both
    share the joints' dx / dy equations"""
    s = Structure()
    std_mat_sec(s)
    s.mats["alu"] = (Fr("0.0000027"), Fr(7000000), Fr(2600000), Fr("0.33"), Fr(16000), Fr(30000))
    a = Fr(rng.choice(["100", "50", "10"]))
    s.nodes = {"a": (Fr(0), Fr(0), (True, True, True)), "j1": (3 * a, Fr(0), (False, False, False)), "j2": (6 * a, 4 * a, (False, False, False)),
               "b": (9 * a, Fr(0), (True, True, False))}
    pin, rig = LINKS["pin"], LINKS["rigid"]
    s.bars = [{"id": "p1", "n1": "a", "l1": rig, "n2": "j1", "l2": rig, "mat": "steel", "sec": "ipe"},
              {"id": "tie1", "n1": "j1", "l1": pin, "n2": "j2", "l2": pin, "mat": "steel", "sec": "ipe"},
              {"id": "tie2", "n1": "j1" if rng.random() < 0.5 else "j2", "l1": pin, "n2": "j2", "l2": pin, "mat": "alu", "sec": "ipe"},
              {"id": "p2", "n1": "j2", "l1": rig, "n2": "b", "l2": rig, "mat": "steel", "sec": "ipe"},
              {"id": "p3", "n1": "j1", "l1": rig, "n2": "b", "l2": pin, "mat": "steel", "sec": "ipe"}]
    if s.bars[2]["n1"] == "j2":
        s.bars[2]["n2"] = "j1"
    s.loads = [{"kind": "c", "term": "fy", "local": False, "bar": "p2", "t": Fr(0), "v": Fr(-900)},
               {"kind": "c", "term": "fx", "local": False, "bar": "tie1", "t": Fr(0), "v": Fr(300)}]
    s.meta = {"kind": "doubled-tie"}
    return s


def gen_name_collision(rng):
    """materials and sections whose names run into each other when joined with a blank:
    ('A', '36 W8') and ('A 36', 'W8'); different density x area"""
    s = gen_portal(rng)
    steel, ipe = list(s.mats.values())[0], list(s.secs.values())[0]
    s.mats = {"A": steel, "A 36": (steel[0] * 3, steel[1], steel[2], steel[3], steel[4], steel[5])}
    s.secs = {"36 W8": ipe, "W8": (ipe[0] * 2, ipe[1], ipe[2], ipe[3], ipe[4])}
    for k, b in enumerate(s.bars):
        b["mat"], b["sec"] = ("A", "36 W8") if k % 2 == 0 else ("A 36", "W8")
    s.meta = {"kind": "name-collision"}
    return s


def gen_disparate_loads(rng):
    """a small load next to a very large one: the small step in the diagrams is still a step"""
    s = gen_beam(rng)
    b = s.bars[0]
    # a cantilever clamped at its start: the large force is carried through the whole span, the small steps sit on top of it
    s.nodes[b["n1"]] = s.nodes[b["n1"]][:2] + ((True, True, True),)
    s.nodes[b["n2"]] = s.nodes[b["n2"]][:2] + ((False, False, False),)
    big = Fr(rng.choice([150000, 200000, -180000]))
    s.loads = [{"kind": "c", "term": "fy", "local": True, "bar": b["id"], "t": Fr(1) if not any(s.nodes[b["n2"]][2]) else Fr("0.75"), "v": big},
               {"kind": "c", "term": "fy", "local": True, "bar": b["id"], "t": Fr("0.5"), "v": Fr(rng.choice([1, -2, 3]))},
               {"kind": "c", "term": "fx", "local": True, "bar": b["id"], "t": Fr("0.25"), "v": Fr(rng.choice([1, -1]))},
               {"kind": "c", "term": "fx", "local": True, "bar": b["id"], "t": Fr(1) if not s.nodes[b["n2"]][2][0] else Fr("0.85"), "v": big}]
    s.meta = {"kind": "disparate-loads"}
    return s


def gen_doubled_nodes(rng):
    """distinct nodes at the same coordinates (members that cross without being connected, a doubled
    node): each is its own set of unknowns"""
    s = Structure()
    std_mat_sec(s)
    a = Fr(rng.choice(["10", "100", "25"]))
    s.nodes = {"a": (Fr(0), Fr(0), (True, True, True)), "m1": (3 * a, 4 * a, (False, False, False)), "m2": (3 * a, 4 * a, (False, False, False)),
               "b": (6 * a, Fr(0), (True, True, True)), "c": (6 * a, 8 * a, (True, True, rng.random() < 0.5)), "d": (Fr(0), 8 * a, (True, True, True))}
    lk = lambda: LINKS[rng.choice(["rigid", "rigid", "pin"])]
    s.bars = [{"id": "u1", "n1": "a", "l1": lk(), "n2": "m1", "l2": lk(), "mat": "steel", "sec": "ipe"},
              {"id": "u2", "n1": "m1", "l1": LINKS["rigid"], "n2": "c", "l2": lk(), "mat": "steel", "sec": "ipe"},
              {"id": "v1", "n1": "m2", "l1": LINKS["rigid"], "n2": "b", "l2": lk(), "mat": "steel", "sec": "ipe"},
              {"id": "v2", "n1": "m2", "l1": lk(), "n2": "d", "l2": LINKS["rigid"], "mat": "steel", "sec": "ipe"}]
    if rng.random() < 0.5:
        s.bars.reverse()
    s.loads = [{"kind": "c", "term": "fy", "local": False, "bar": "u1", "t": Fr(1), "v": Fr(-500)},
               {"kind": "c", "term": "fx", "local": False, "bar": "v1", "t": Fr(0), "v": Fr(300)}]
    s.meta = {"kind": "doubled-nodes"}
    return s


# ---------------------------------------------------------------- solvable structures

def _rat_dir(rng, allow_axis=True):
    """direction with rational length: (dx, dy, L) for a unit 'scale'"""
    if allow_axis and rng.random() < 0.35:
        dx, dy = rng.choice([(1, 0), (0, 1), (-1, 0), (0, -1)])
        return Fr(dx), Fr(dy), Fr(1)
    a, b, c = rng.choice(PYTH)
    if rng.random() < 0.5:
        a, b = b, a
    return Fr(a * rng.choice([1, -1])), Fr(b * rng.choice([1, -1])), Fr(c)


def _len_for(rng, unit):
    """a bar length that is a decimal multiple of the direction's integer length"""
    target = Fr(rng.choice(["50", "100", "120", "250", "37.5", "400", "65", "200"]))
    m = max(1, round(target / unit))
    return Fr(m) if rng.random() < 0.7 else Fr(m) + Fr(rng.choice(["0.5", "0.25", "0.1"]))


def _loads(rng, s, bid, pinned, nmax=3, tricky=True):
    if pinned and rng.random() < 0.5:
        s.loads += gen_loads_for_bar(rng, bid, nmax=2, nodal_only=True)
    else:
        s.loads += gen_loads_for_bar(rng, bid, nmax=nmax, allow_mz_dist=False)


SUPPORTS = [(True, True, True), (True, True, False), (False, True, False), (True, False, False),
            (True, False, True), (False, True, True), (False, False, True)]


def gen_beam(rng):
    """one bar, any rational direction, a statically sound support pair"""
    s = Structure()
    std_mat_sec(s, rng)
    dx, dy, unit = _rat_dir(rng)
    L = _len_for(rng, unit)
    x1, y1 = Fr(rng.randint(-30, 30)) * 10, Fr(rng.randint(-30, 30)) * 10
    kind = rng.choice(["cantilever", "cantilever", "fixed-fixed", "fixed-pin", "pin-roller", "fixed-slide"])
    if kind == "cantilever":
        c1, c2 = (True, True, True), (False, False, False)
    elif kind == "fixed-fixed":
        c1, c2 = (True, True, True), (True, True, True)
    elif kind == "fixed-pin":
        c1, c2 = (True, True, True), (True, True, False)
    elif kind == "pin-roller":
        # the roller must not be parallel to the bar
        c1 = (True, True, False)
        c2 = (False, True, False) if dx != 0 else (True, False, False)
    else:
        c1 = (True, True, True)
        c2 = (False, True, True) if dx != 0 else (True, False, True)
    if rng.random() < 0.5 and kind != "pin-roller":
        c1, c2 = c2, c1
    s.nodes["n1"] = (x1, y1, c1)
    s.nodes["n2"] = (x1 + dx * L, y1 + dy * L, c2)
    s.bars.append({"id": "b1", "n1": "n1", "l1": LINKS["rigid"], "n2": "n2", "l2": LINKS["rigid"],
                   "mat": rng.choice(list(s.mats)), "sec": rng.choice(list(s.secs))})
    s.loads = gen_loads_for_bar(rng, "b1", nmax=4, allow_mz_dist=False)
    s.meta = {"kind": "beam/" + kind}
    return s


def gen_chain(rng):
    """2-4 bars in a polyline with free joints between them; first node clamped, others free or
    on rollers; some joints pinned on one side"""
    s = Structure()
    std_mat_sec(s, rng)
    n = rng.randint(2, 4)
    x, y = Fr(rng.randint(-20, 20)) * 10, Fr(rng.randint(-20, 20)) * 10
    s.nodes["n0"] = (x, y, (True, True, True))
    for k in range(n):
        dx, dy, unit = _rat_dir(rng)
        L = _len_for(rng, unit)
        x, y = x + dx * L, y + dy * L
        last = k == n - 1
        sup = (False, False, False)
        if last and rng.random() < 0.6:
            sup = rng.choice([(True, True, True), (True, True, False), (False, True, False) if dx != 0 else (True, False, False)])
        elif rng.random() < 0.2:
            sup = (False, True, False) if dx != 0 else (True, False, False)
        s.nodes["n%d" % (k + 1)] = (x, y, sup)
        l1 = LINKS["rigid"]
        l2 = LINKS["pin"] if (not last and rng.random() < 0.25) else LINKS["rigid"]
        s.bars.append({"id": "b%d" % (k + 1), "n1": "n%d" % k, "l1": l1, "n2": "n%d" % (k + 1), "l2": l2,
                       "mat": rng.choice(list(s.mats)), "sec": rng.choice(list(s.secs))})
        if rng.random() < 0.3:
            b = s.bars[-1]
            b["n1"], b["n2"], b["l1"], b["l2"] = b["n2"], b["n1"], b["l2"], b["l1"]
        if rng.random() < 0.7:
            s.loads += gen_loads_for_bar(rng, "b%d" % (k + 1), nmax=3, allow_mz_dist=False)
    if not s.loads:
        s.loads += gen_loads_for_bar(rng, "b1", nmax=3, allow_mz_dist=False)
    s.meta = {"kind": "chain/%d" % n}
    return s


def gen_portal(rng):
    """two columns and a beam (or an A-frame on a 3-4-5 grid), clamped or pinned feet, the beam
    hung rigidly or with a pinned end, loads on every bar incl. on the supported nodes"""
    s = Structure()
    std_mat_sec(s, rng)
    a = Fr(rng.choice(["10", "25", "50"]))
    ox, oy = Fr(rng.randint(-10, 10)) * 10, Fr(rng.randint(-10, 10)) * 10
    shape = rng.choice(["portal", "portal", "aframe", "braced"])
    foot = lambda: rng.choice([(True, True, True), (True, True, True), (True, True, False)])
    if shape == "aframe":
        pts = {"n1": (0, 0), "n2": (3, 4), "n3": (6, 0)}
        edges = [("n1", "n2"), ("n2", "n3")]
        sups = {"n1": foot(), "n3": foot()}
    elif shape == "braced":
        pts = {"n1": (0, 0), "n2": (0, 4), "n3": (3, 4), "n4": (3, 0)}
        edges = [("n1", "n2"), ("n2", "n3"), ("n4", "n3"), ("n1", "n3")]
        sups = {"n1": foot(), "n4": foot()}
    else:
        w = rng.choice([3, 6])
        pts = {"n1": (0, 0), "n2": (0, 4), "n3": (w, 4), "n4": (w, 0)}
        edges = [("n1", "n2"), ("n2", "n3"), ("n3", "n4")]
        sups = {"n1": foot(), "n4": foot()}
    for k, (px, py) in pts.items():
        s.nodes[k] = (ox + a * px, oy + a * py, sups.get(k, (False, False, False)))
    for i, (p, q) in enumerate(edges):
        if rng.random() < 0.3:
            p, q = q, p
        l1, l2 = LINKS["rigid"], LINKS["rigid"]
        if shape == "braced" and {p, q} == {"n1", "n3"}:
            l1, l2 = LINKS["pin"], LINKS["pin"]
        elif rng.random() < 0.15:
            l2 = LINKS["pin"]
        s.bars.append({"id": "b%d" % (i + 1), "n1": p, "l1": l1, "n2": q, "l2": l2,
                       "mat": rng.choice(list(s.mats)), "sec": rng.choice(list(s.secs))})
        pinned = (not l1[2]) and (not l2[2])
        if rng.random() < 0.75:
            if pinned:
                s.loads += gen_loads_for_bar(rng, "b%d" % (i + 1), nmax=2, nodal_only=True)
            else:
                s.loads += gen_loads_for_bar(rng, "b%d" % (i + 1), nmax=3, allow_mz_dist=False)
    if not s.loads:
        s.loads += gen_loads_for_bar(rng, "b2", nmax=3, allow_mz_dist=False)
    s.meta = {"kind": "portal/" + shape}
    return s


def gen_truss(rng, hair=None):
    """pin-jointed triangle(s) on the 3-4-5 grid with nodal loads (axial members, joints that
    carry no rotational stiffness); hair = True: every nodal load is written a hair inside its bar"""
    s = Structure()
    std_mat_sec(s, rng)
    a = Fr(rng.choice(["10", "25"]))
    pts = {"n1": (0, 0), "n2": (6, 0), "n3": (3, 4)}
    edges = [("n1", "n2"), ("n1", "n3"), ("n2", "n3")]
    if rng.random() < 0.5:
        pts["n4"] = (9, 4)
        edges += [("n3", "n4"), ("n2", "n4")]
    sups = {"n1": (True, True, False), "n2": (False, True, False)}
    for k, (px, py) in pts.items():
        s.nodes[k] = (a * px, a * py, sups.get(k, (False, False, False)))
    for i, (p, q) in enumerate(edges):
        if rng.random() < 0.3 and not hair:     # (hair: the member that brings the load to a free joint ends there, t = 1)
            p, q = q, p
        s.bars.append({"id": "b%d" % (i + 1), "n1": p, "l1": LINKS["pin"], "n2": q, "l2": LINKS["pin"],
                       "mat": "steel", "sec": "ipe"})
    free = [k for k in pts if k not in sups]
    for k in free:
        # a nodal load enters through one of the bars that end at the node
        for b in s.bars:
            if k in (b["n1"], b["n2"]):
                t = Fr(0) if b["n1"] == k else Fr(1)
                if (rng.random() < 0.4) if hair is None else hair:
                    # written a hair inside the bar: the code identifies positions within 1e-10 of an end with that end
                    t = Fr(rng.choice(["0.00000000005", "3e-12"])) if t == 0 else Fr(rng.choice(["0.99999999995", "0.9999999999999999"]))
                s.loads.append({"kind": "c", "term": rng.choice(["fx", "fy"]), "local": False, "bar": b["id"], "t": t,
                                "v": Fr(rng.choice([-1, 1]) * rng.choice([100, 250, 1000]))})
                break
    s.meta = {"kind": "truss/%d" % len(edges)}
    return s


def gen_asym_joint(rng):
    """two bars meeting at a free joint: a loaded bar rigid at both ends, and a bar hinged at its far
    (clamped) end and rigid at the joint - drawn towards the joint or away from it.  The joint's rotation
    equation is shared by both bars; which bar is assembled first depends on where each one starts."""
    s = Structure()
    std_mat_sec(s, rng)
    dx, dy, unit = _rat_dir(rng)
    ex, ey, unit2 = _rat_dir(rng)
    L1, L2 = _len_for(rng, unit), _len_for(rng, unit2)
    x1, y1 = Fr(rng.randint(-20, 20)) * 10, Fr(rng.randint(-20, 20)) * 10
    s.nodes["n1"] = (x1, y1, (True, True, True))
    s.nodes["n2"] = (x1 + dx * L1, y1 + dy * L1, (False, False, False))
    s.nodes["n3"] = (x1 + dx * L1 + ex * L2, y1 + dy * L1 + ey * L2, (True, True, True))
    if s.nodes["n3"][:2] == s.nodes["n1"][:2]:
        s.nodes["n3"] = (s.nodes["n3"][0] + 50, s.nodes["n3"][1] + 20, (True, True, True))
    m, c = rng.choice(list(s.mats)), rng.choice(list(s.secs))
    s.bars.append({"id": "b1", "n1": "n1", "l1": LINKS["rigid"], "n2": "n2", "l2": LINKS["rigid"], "mat": m, "sec": c})
    if rng.random() < 0.6:
        s.bars.append({"id": "b2", "n1": "n3", "l1": LINKS["pin"], "n2": "n2", "l2": LINKS["rigid"], "mat": m, "sec": c})
    else:
        s.bars.append({"id": "b2", "n1": "n2", "l1": LINKS["rigid"], "n2": "n3", "l2": LINKS["pin"], "mat": m, "sec": c})
    v = Fr(rng.choice([-60, -25, 40]))
    s.loads = [{"kind": "d", "term": "fy", "local": True, "bar": "b1", "t0": Fr(0), "v0": v, "t1": Fr(1), "v1": v * rng.choice([1, 2])}]
    if rng.random() < 0.5:
        s.loads.append({"kind": "c", "term": "mz", "local": True, "bar": "b1", "t": Fr(1), "v": Fr(rng.choice([-4000, 2500]))})
    if rng.random() < 0.5:
        s.loads += gen_loads_for_bar(rng, "b2", nmax=2, allow_mz_dist=False)
    s.meta = {"kind": "asym_joint/%s" % ("towards" if s.bars[1]["n2"] == "n2" else "away")}
    return s


def big_beam_text(nbars, loaded_every=50):
    """a continuous beam of nbars spans on rollers, clamped at its start (text only: thousands of bars)"""
    lines = ["inkfem v1.1", "", "|nodes|", "n0 -> 0 0 { dx dy rz }"]
    for k in range(1, nbars + 1):
        lines.append("n%d -> %d 0 { dy }" % (k, 100 * k))
    lines += ["", "|materials|", "'steel' -> 0.00000785 21000000 8100000 0.3 27500 43000", "", "|sections|", "'ipe' -> 10.3 171 15.92 34.2 5.79", "", "|loads|"]
    for k in range(0, nbars, loaded_every):
        lines.append("fy ld b%d 0 -5 1 -5" % k)
    lines += ["", "|bars|"]
    for k in range(nbars):
        lines.append("b%d -> n%d { dx dy rz } n%d { dx dy rz } 'steel' 'ipe'" % (k, k, k + 1))
    return "\n".join(lines) + "\n"


def posts_text(n):
    """n independent clamped posts, each with a horizontal force at its top (text only)"""
    lines = ["inkfem v1.1", "", "|nodes|"]
    for k in range(n):
        lines.append("f%d -> %d 0 { dx dy rz }" % (k, 50 * k))
        lines.append("t%d -> %d 300 { }" % (k, 50 * k))
    lines += ["", "|materials|", "'steel' -> 0.00000785 21000000 8100000 0.3 27500 43000", "", "|sections|", "'ipe' -> 10.3 171 15.92 34.2 5.79", "", "|loads|"]
    for k in range(n):
        lines.append("fx gc p%d 1 %d" % (k, 100 + k % 7))
    lines += ["", "|bars|"]
    for k in range(n):
        lines.append("p%d -> f%d { dx dy rz } t%d { dx dy rz } 'steel' 'ipe'" % (k, k, k))
    return "\n".join(lines) + "\n"


def gen_hub(rng, n):
    """n pin-ended members from fixed feet on a circle-like polygon to one free hub, each bringing a force to the hub:
    the hub's two equations collect a term from every member"""
    s = Structure()
    std_mat_sec(s)
    s.nodes["hub"] = (Fr(0), Fr(0), (False, False, False))
    dirs = [(3, 4), (4, 3), (5, 12), (12, 5), (8, 15), (15, 8), (7, 24), (24, 7), (20, 21), (21, 20), (1, 0), (0, 1)]
    for k in range(n):
        a, b = dirs[k % len(dirs)]
        sx, sy = [(1, 1), (-1, 1), (-1, -1), (1, -1)][(k // len(dirs)) % 4]
        r = Fr(10 + k // (4 * len(dirs)))
        s.nodes["f%d" % k] = (sx * a * r, sy * b * r, (True, True, False))
        s.bars.append({"id": "m%d" % k, "n1": "f%d" % k, "l1": LINKS["pin"], "n2": "hub", "l2": LINKS["pin"], "mat": "steel", "sec": "ipe"})
        s.loads.append({"kind": "c", "term": "fy" if k % 2 else "fx", "local": False, "bar": "m%d" % k, "t": Fr(1), "v": Fr(-10 - k % 5)})
    s.meta = {"kind": "hub/%d" % n}
    return s


def gen_solvable(rng):
    s = _gen_solvable(rng)
    # loads applied exactly on bar ends (they go to the joint / the support): forces and moments,
    # also on hinged ends and on supported nodes
    for b in s.bars:
        if rng.random() < 0.2:
            if any(l["kind"] == "c" and l["bar"] == b["id"] and l["t"] in (0, 1) for l in s.loads):
                continue
            s.loads.append({"kind": "c", "term": rng.choice(["mz", "mz", "fx", "fy"]), "local": rng.random() < 0.5, "bar": b["id"],
                            "t": Fr(rng.choice([0, 1])), "v": Fr(rng.choice([-1, 1]) * rng.choice([50, 400, 5000]))})
    return s


def gen_guided(rng):
    """bars whose end links release exactly one translation (guided / sliding connections):
    a beam between two clamped nodes with a sliding end, optionally continued by a second bar"""
    s = Structure()
    std_mat_sec(s, rng)
    dx, dy, unit = _rat_dir(rng)
    L = _len_for(rng, unit)
    x1, y1 = Fr(rng.randint(-20, 20)) * 10, Fr(rng.randint(-20, 20)) * 10
    s.nodes["n1"] = (x1, y1, (True, True, True))
    s.nodes["n2"] = (x1 + dx * L, y1 + dy * L, (True, True, True))
    rel = rng.choice(["slide_x", "slide_y", "only_dx", "only_dy"])
    l1, l2 = LINKS["rigid"], LINKS[rel]
    if rng.random() < 0.4:
        l1, l2 = l2, l1
    s.bars.append({"id": "b1", "n1": "n1", "l1": l1, "n2": "n2", "l2": l2, "mat": rng.choice(list(s.mats)), "sec": rng.choice(list(s.secs))})
    s.loads = gen_loads_for_bar(rng, "b1", nmax=3, allow_mz_dist=False)
    if rng.random() < 0.5:
        ex, ey, unit2 = _rat_dir(rng)
        L2 = _len_for(rng, unit2)
        s.nodes["n3"] = (x1 + dx * L + ex * L2, y1 + dy * L + ey * L2, rng.choice([(True, True, True), (True, True, False)]))
        s.bars.append({"id": "b2", "n1": "n2", "l1": LINKS[rng.choice(["rigid", "slide_x", "slide_y"])], "n2": "n3", "l2": LINKS["rigid"],
                       "mat": rng.choice(list(s.mats)), "sec": rng.choice(list(s.secs))})
        s.loads += gen_loads_for_bar(rng, "b2", nmax=2, allow_mz_dist=False)
    if not s.loads:
        s.loads = [{"kind": "d", "term": "fy", "local": True, "bar": "b1", "t0": Fr(0), "v0": Fr(-10), "t1": Fr(1), "v1": Fr(-10)}]
    s.meta = {"kind": "guided/" + rel}
    return s


def _gen_solvable(rng):
    r = rng.random()
    if r < 0.1:
        return gen_guided(rng)
    if r < 0.3:
        return gen_beam(rng)
    if r < 0.55:
        return gen_chain(rng)
    if r < 0.8:
        return gen_portal(rng)
    if r < 0.9:
        return gen_truss(rng)
    s = gen_frame(rng, max_cells=1, allow_mz_dist=False)
    for b in s.bars:  # rigid or pinned ends only
        for k in ("l1", "l2"):
            if b[k] not in (LINKS["rigid"], LINKS["pin"]):
                b[k] = LINKS["rigid"]
    s.loads = [l for l in s.loads if not (l["kind"] == "d" and l["term"] == "mz")]
    return s


# ---------------------------------------------------------------- unit systems

def rnd(x, digits=17):
    """x rounded to a finite decimal with `digits` significant digits (exact when already finite)"""
    x = Fr(x)
    try:
        dec(x)
        return x
    except ValueError:
        pass
    if x == 0:
        return x
    from math import floor, log10
    e = floor(log10(abs(float(x))))
    q = Fr(10) ** (digits - 1 - e)
    return Fr(round(x * q)) / q


def convert_units(s, lam, phi):
    """The same structure with lengths multiplied by lam and forces by phi (all derived
    quantities converted consistently)."""
    lam, phi = Fr(lam), Fr(phi)
    t = s.copy()
    r = rnd
    t.nodes = {k: (r(x * lam), r(y * lam), c) for k, (x, y, c) in s.nodes.items()}
    st = phi / lam ** 2
    t.mats = {k: (r(v[0] * phi / lam ** 3), r(v[1] * st), r(v[2] * st), v[3], r(v[4] * st), r(v[5] * st)) for k, v in s.mats.items()}
    t.secs = {k: (r(v[0] * lam ** 2), r(v[1] * lam ** 4), r(v[2] * lam ** 4), r(v[3] * lam ** 3), r(v[4] * lam ** 3)) for k, v in s.secs.items()}
    for l in t.loads:
        if l["kind"] == "c":
            l["v"] = r(l["v"] * (phi * lam if l["term"] == "mz" else phi))
        else:
            f = phi if l["term"] == "mz" else phi / lam
            l["v0"], l["v1"] = r(l["v0"] * f), r(l["v1"] * f)
    t.meta = dict(getattr(s, "meta", {}))
    return t


def gen_bracket(rng):
    """A wall bracket: an arm built into the wall and a strut pinned at both ends under it (3-4-5), unloaded - the strut carries
    nothing but what the arm hands it and, with -w, its own weight; optionally a load at the tip of the arm."""
    s = Structure()
    std_mat_sec(s, rng)
    a = Fr(rng.choice(["10", "25", "50", "2.5"]))
    ox, oy = Fr(rng.randint(-20, 20)) * 10, Fr(rng.randint(-20, 20)) * 10
    up = rng.choice([-1, 1])
    s.nodes["wall"] = (ox, oy, (True, True, True))
    s.nodes["tip"] = (ox + 4 * a, oy, (False, False, False))
    s.nodes["foot"] = (ox, oy + up * 3 * a, (True, True, False))
    mat = rng.choice(list(s.mats))
    sec = rng.choice(list(s.secs))
    s.bars.append({"id": "arm", "n1": "wall", "l1": LINKS["rigid"], "n2": "tip", "l2": LINKS["rigid"], "mat": mat, "sec": sec})
    s.bars.append({"id": "strut", "n1": "foot", "l1": LINKS["pin"], "n2": "tip", "l2": LINKS["pin"], "mat": rng.choice(list(s.mats)), "sec": rng.choice(list(s.secs))})
    s.loads = []
    if rng.random() < 0.5:
        s.loads.append({"kind": "c", "term": "fy", "local": False, "bar": "arm", "t": Fr(1), "v": Fr(-rng.choice([100, 400, 1500]))})
    s.meta = {"kind": "bracket"}
    return s


def gen_slider_joint(rng, lk=None):
    """A loaded beam A-J followed by a bar that ENDS in J with a link that releases the x movement there ({dy rz}, {dy} or {rz}):
    the later bar's end has a fresh x number next to the joint's own y / rotation numbers, which already carry the beam's loads."""
    s = Structure()
    std_mat_sec(s, rng)
    a = Fr(rng.choice(["10", "25", "50"]))
    ox, oy = Fr(rng.randint(-20, 20)) * 10, Fr(rng.randint(-20, 20)) * 10
    s.nodes["A"] = (ox, oy, (True, True, True))
    s.nodes["J"] = (ox + 4 * a, oy, (False, False, False))
    s.nodes["C"] = (ox + 4 * a, oy - 3 * a, (True, True, True))
    mat, sec = rng.choice(list(s.mats)), rng.choice(list(s.secs))
    s.bars.append({"id": "b1", "n1": "A", "l1": LINKS["rigid"], "n2": "J", "l2": LINKS["rigid"], "mat": mat, "sec": sec})
    lk = lk or rng.choice(["slide_x", "only_dy", "only_rz"])
    s.bars.append({"id": "b2", "n1": "C", "l1": LINKS["rigid"], "n2": "J", "l2": LINKS[lk], "mat": mat, "sec": sec})
    s.loads = [{"kind": "d", "term": "fy", "local": True, "bar": "b1", "t0": Fr(0), "v0": Fr(-rng.choice([3, 12])), "t1": Fr(1), "v1": Fr(-rng.choice([3, 20]))},
               {"kind": "c", "term": "mz", "local": True, "bar": "b1", "t": Fr(1), "v": Fr(rng.choice([-5000, 12000]))}]
    if lk != "slide_x" or rng.random() < 0.5:
        # (with two movements released at its end the second bar bends under a load of its own: the released movements are not zero)
        s.loads.append({"kind": "d", "term": "fy", "local": True, "bar": "b2", "t0": Fr(0), "v0": Fr(2), "t1": Fr(1), "v1": Fr(5)})
    s.meta = {"kind": "slider-joint/" + lk}
    return s


def gen_pin_first_joint(rng):
    """A joint where a bar hinged to it comes first in every order (id, place in the file, coordinates) and two bars built
    into it come later: the joint's rotation gets all its stiffness from bars assembled after one that refers to the joint
    without referring to that rotation."""
    s = Structure()
    std_mat_sec(s, rng)
    a = Fr(rng.choice(["10", "25", "50"]))
    ox, oy = Fr(rng.randint(-20, 20)) * 10, Fr(rng.randint(-20, 20)) * 10
    s.nodes["n1"] = (ox, oy, (True, True, True))
    s.nodes["n2"] = (ox + 4 * a, oy + 3 * a, (False, False, False))
    s.nodes["n3"] = (ox + 8 * a, oy + 3 * a, (True, True, rng.random() < 0.5))
    s.nodes["n4"] = (ox + 4 * a, oy + 6 * a, (False, False, False))
    m, c = rng.choice(list(s.mats)), rng.choice(list(s.secs))
    s.bars.append({"id": "a1", "n1": "n1", "l1": LINKS["rigid"], "n2": "n2", "l2": LINKS["pin"], "mat": m, "sec": c})
    s.bars.append({"id": "b2", "n1": "n2", "l1": LINKS["rigid"], "n2": "n3", "l2": LINKS["rigid"], "mat": m, "sec": c})
    s.bars.append({"id": "b3", "n1": "n2", "l1": LINKS["rigid"], "n2": "n4", "l2": LINKS["rigid"], "mat": m, "sec": c})
    v = Fr(rng.choice([-60, -25, 40]))
    s.loads = [{"kind": "d", "term": "fy", "local": True, "bar": "b2", "t0": Fr(0), "v0": v, "t1": Fr(1), "v1": v * rng.choice([1, 2])},
               {"kind": "c", "term": "fx", "local": False, "bar": "b3", "t": Fr(1), "v": Fr(rng.choice([300, -800]))}]
    s.meta = {"kind": "pin_first_joint"}
    return s


def gen_many_positions(rng, npos=14, ndist=0):
    """One bending bar cut in many unequal finite elements: npos concentrated loads at distinct positions off the even tenths
    (and ndist partial distributed loads): 11 + npos nodes or more - past every small fixed size (16, 24, 32 ...) for npos >= 22."""
    s = gen_beam(rng)
    b = s.bars[0]
    pool = ["0.03", "0.07", "0.13", "0.17", "0.23", "0.27", "0.31", "0.37", "0.43", "0.47", "0.53", "0.57", "0.61", "0.67", "0.73", "0.77", "0.83",
            "0.87", "0.93", "0.97", "0.115", "0.255", "0.345", "0.455", "0.565", "0.655", "0.745", "0.855", "0.945", "0.025"]
    ts = [Fr(t) for t in pool[:npos]]
    s.loads = [{"kind": "c", "term": ["fy", "fx", "mz", "fy"][k % 4], "local": k % 3 != 0, "bar": b["id"], "t": t, "v": Fr((-1) ** k * (50 + 13 * k))} for k, t in enumerate(ts)]
    for k in range(ndist):
        t0 = Fr(k, 2 * ndist) + Fr(1, 100)
        s.loads.append({"kind": "d", "term": ["fy", "fx"][k % 2], "local": True, "bar": b["id"], "t0": t0, "v0": Fr(-3 - k), "t1": t0 + Fr(2, 5 * max(1, ndist)) + Fr(3, 1000), "v1": Fr(-1 - 2 * k)})
    s.meta = {"kind": "many-positions/%d+%d" % (npos, ndist)}
    return s


def gen_tie_between_supports(rng, k=0):
    """A pin-jointed bar exactly along an axis (x for even k, y for odd k) between two supports that both hold that direction, pushed
    along its axis at both ends: what goes straight into a support - its equations are trivial ones, whatever stands beside them."""
    s = Structure()
    std_mat_sec(s, rng)
    L = Fr(rng.choice([100, 250, 40]))
    x0, y0 = Fr(rng.randint(-20, 20)) * 10, Fr(rng.randint(-20, 20)) * 10
    s.nodes["a"] = (x0, y0, (True, True, False))
    s.nodes["b"] = (x0 + L, y0, (True, True, False)) if k % 2 == 0 else (x0, y0 + L, (True, True, False))
    s.bars.append({"id": "tie", "n1": "a", "l1": LINKS["pin"], "n2": "b", "l2": LINKS["pin"], "mat": "steel", "sec": "ipe"})
    t = "fx" if k % 2 == 0 else "fy"
    s.loads = [{"kind": "c", "term": t, "local": False, "bar": "tie", "t": Fr(0), "v": Fr(-250)}, {"kind": "c", "term": t, "local": False, "bar": "tie", "t": Fr(1), "v": Fr(-400)}]
    s.meta = {"kind": "tie-between-supports"}
    return s
