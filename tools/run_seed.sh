#!/bin/sh
# run_seed.sh <seed dir name under /verif/seeded> [property to check (default: the seed's)] — applies the
# seeded change to /repo, runs the quick check, and undoes the change straight afterwards.
d=/verif/seeded/$1
prop=${2:-$(echo $1 | cut -d- -f1)}
cd /repo && git status --short | grep -q . && { echo "/repo not clean"; exit 2; }
git -C /repo apply $d/patch.diff || exit 2
(cd /verif && ./check $prop --tier quick > /verif/work/seed_$1_$prop.log 2>&1; echo "exit=$?" >> /verif/work/seed_$1_$prop.log)
git -C /repo checkout -- . ; git -C /repo status --short
grep -c "^VIOLATION" /verif/work/seed_$1_$prop.log | sed "s/^/$1 on $prop: VIOLATION lines: /"
grep "^# \|^exit=" /verif/work/seed_$1_$prop.log | head -4
