"""Stage-wise correspondence: run the implementation (harness/bin/dump pipeline) on generated
structures and evaluate the Coq model on the same inputs, comparing inside Coq."""
import json
import os
import re
from fractions import Fraction as Fr

from . import common as C
from . import emit as E


def run_pipeline(ctx, cases, chunk=60):
    """cases: list of dict(Text, Weight, Repeat, Solve, Assemble, Error, Order).  A case marked
    Isolate runs in a process of its own (package-level state of the implementation, if any, starts
    fresh): what a run yields must not depend on what the process did before."""
    def payload(c, scratch=None):
        return {"Text": c["Text"], "Weight": bool(c.get("Weight")), "Repeat": int(c.get("Repeat", 1)),
                "Solve": bool(c.get("Solve")), "Assemble": bool(c.get("Assemble")),
                "Error": c.get("Error", ""), "Order": c.get("Order", ""), "ScratchDir": scratch or ctx.work,
                "ViaPre": bool(c.get("ViaPre")), "Restage": int(c.get("Restage") or 0), "Reassemble": bool(c.get("Reassemble")), "Repre": bool(c.get("Repre")), "KeepPre": bool(c.get("KeepPre")), "HoldText": c.get("HoldText") or "", "WriteBack": bool(c.get("WriteBack")), "ParseOnly": bool(c.get("ParseOnly")),
                "Repo": C.REPO, "Templates": bool(c.get("Templates"))}
    outs = [None] * len(cases)
    conc = [k for k, c in enumerate(cases) if c.get("Concurrent") and not c.get("Isolate")]
    # all members of a batch at the same time, each in a goroutine of its own, in one process per batch
    for batch in sorted({cases[k].get("Concurrent") for k in conc}, key=str):
        idx = [k for k in conc if cases[k].get("Concurrent") == batch]
        for k, o in zip(idx, C.dump("concurrent", [payload(cases[k]) for k in idx], timeout=1800)):
            outs[k] = o
    shared = [k for k, c in enumerate(cases) if not c.get("Isolate") and not c.get("Concurrent")]
    alone = [k for k, c in enumerate(cases) if c.get("Isolate")]
    for i in range(0, len(shared), chunk):
        idx = shared[i:i + chunk]
        for k, o in zip(idx, C.dump("pipeline", [payload(cases[k]) for k in idx], timeout=1800)):
            outs[k] = o
    if alone:
        from concurrent.futures import ThreadPoolExecutor
        with ThreadPoolExecutor(max_workers=8) as ex:
            def one(k):
                d = os.path.join(ctx.work, "iso_%d" % k)
                os.makedirs(d, exist_ok=True)
                try:
                    return C.dump("pipeline", [payload(cases[k], d)], timeout=1800, env={"GOMAXPROCS": str(cases[k]["Procs"])} if cases[k].get("Procs") else None)[0]
                finally:
                    import shutil
                    shutil.rmtree(d, ignore_errors=True)
            for k, o in zip(alone, ex.map(one, alone)):
                outs[k] = o
    return outs


def node_index(out):
    return {n["ID"]: k for k, n in enumerate(out["Nodes"])}


def bars_in_pre_order(out, pre):
    byid = {b["ID"]: b for b in out["Bars"]}
    return [byid[pb["ID"]] for pb in pre["Bars"]]


def stageB_case(out, weight):
    """Coq term: (weight, [(bar, observed nodes)]) for the first preprocess call."""
    ni = node_index(out)
    pre = out["Pre"][0]
    items = []
    for pb, jb in zip(pre["Bars"], bars_in_pre_order(out, pre)):
        items.append("(%s,\n    %s)" % (E.bar(jb, ni), E.coq_list([E.pnode(n) for n in pb["Nodes"]], sep=";\n     ")))
    return "(%s, %s)" % (E.b(weight), E.coq_list(items))


def stageB_v(cases_terms, tol="(1 # 10000000000)"):
    lines = [E.HEADER]
    for k, t in enumerate(cases_terms):
        lines.append("Definition case_%d : bool * list (bar Q * list (pnode Q)) :=\n  %s." % (k, t))
    lines.append("Definition all_cases := [%s]." % "; ".join("case_%d" % k for k in range(len(cases_terms))))
    lines.append("Definition M := Eval vm_compute in\n  flat_map (fun p => map (fun m => (fst p, m)) (cmp_sliced %s (fst (snd p)) (snd (snd p)))) (indexed all_cases)." % tol)
    lines.append("Print M.")
    return "\n".join(lines) + "\n"


def run_stage(ctx, name, terms, builder, shard=4, workers=14):
    """Evaluate a stage comparison in Coq, sharded and in parallel. Returns (n_evaluated,
    mismatches) where mismatches is a list of (global case index, text); None when a case
    file did not compile or printed nothing."""
    from concurrent.futures import ThreadPoolExecutor

    def one(s0):
        part = terms[s0:s0 + shard]
        out, err = C.run_cases(ctx, "%s_%s_%d" % (ctx.prop, name, s0), builder(part))
        return s0, len(part), out, err

    mism = []
    n = 0
    broken = False
    with ThreadPoolExecutor(max_workers=workers) as ex:
        results = list(ex.map(one, range(0, len(terms), shard)))
    for s0, cnt, out, err in results:
        if out is None:
            ctx.log("case file %s@%d did not compile: %s" % (name, s0, err[-1500:]))
            broken = True
            continue
        m = E.parse_M(out)
        if m is None:
            ctx.log("no result printed for %s@%d: %s" % (name, s0, out[-500:]))
            broken = True
            continue
        n += cnt
        sv = E.parse_M(out, "S")
        if sv is not None:
            try:
                ctx.stage_counts[name] = ctx.stage_counts.get(name, 0) + int(sv.rstrip("%nat").strip())
            except (ValueError, AttributeError):
                pass
        if m != "[]":
            idx = sorted({int(x) for x in re.findall(r"\((\d+)%nat, \(", m)} or {0})
            for k in idx:
                mism.append((s0 + k, m[:1500]))
    if broken:
        return n, None
    return n, mism


# ------------------------------------------------------------------ exact helpers

def fr_tor(t):
    return [C.ffloat(x) for x in t]


def bar_kind(jb, weight):
    """axial / unloaded / loaded, from the input as the property describes it."""
    cl, dl = jb.get("CL") or [], jb.get("DL") or []
    n_dl = len(dl) + (1 if weight else 0)
    eps = Fr(1, 10 ** 10)

    def extreme(t):
        return abs(t) < eps or abs(t - 1) < eps
    pinned = (not jb["L1"][2]) and (not jb["L2"][2])
    if n_dl == 0 and pinned and all(extreme(C.ffloat(l["T"])) and l["Term"] != "mz" for l in cl):
        return "axial"
    if n_dl == 0 and not cl:
        return "unloaded"
    return "loaded"


def load_positions(jb):
    """interior load positions the chain must contain (concentrated; both ends of distributed)"""
    eps = Fr(1, 10 ** 10)
    ps = []
    for l in jb.get("CL") or []:
        ps.append(C.ffloat(l["T"]))
    for l in jb.get("DL") or []:
        ps += [C.ffloat(l["T0"]), C.ffloat(l["T1"])]
    return [p for p in ps if not (abs(p) < eps or abs(p - 1) < eps)]


# ------------------------------------------------------------------ stage C: numbering

def d3(d):
    return "(%d, %d, %d)%%nat" % (d[0], d[1], d[2])


def stageC_case(out):
    ni = node_index(out)
    pre = out["Pre"][0]
    items = []
    for pb, jb in zip(pre["Bars"], bars_in_pre_order(out, pre)):
        sk = "{| sk_n1 := %d; sk_n2 := %d; sk_l1 := %s; sk_l2 := %s; sk_nn := %d |}" % (
            ni[jb["N1"]], ni[jb["N2"]], E.link(jb["L1"]), E.link(jb["L2"]), len(pb["Nodes"]))
        items.append("(%s, [%s])" % (sk, "; ".join(d3(n["Dof"]) for n in pb["Nodes"])))
    used = {jb["N1"] for jb in out["Bars"]} | {jb["N2"] for jb in out["Bars"]}
    onodes = ["(%d%%nat, %s)" % (ni[k], d3(v)) for k, v in sorted(pre["NodeDofs"].items()) if k in used]
    return "(%s, [%s], %d%%nat)" % (E.coq_list(items), "; ".join(onodes), pre["DofCount"])


def stageC_v(terms):
    lines = [E.HEADER, "From Inkfem Require Import Model.Dof."]
    for k, t in enumerate(terms):
        lines.append("Definition case_%d : list (skel * list dof3) * list (nat * dof3) * nat :=\n  %s." % (k, t))
    lines.append("Definition all_cases := [%s]." % "; ".join("case_%d" % k for k in range(len(terms))))
    lines.append("Definition M := Eval vm_compute in\n  flat_map (fun p => map (fun m => (fst p, m)) (cmp_dofs (fst (fst (snd p))) (snd (fst (snd p))) (snd (snd p)))) (indexed all_cases).")
    lines.append("Print M.")
    return "\n".join(lines) + "\n"


# ------------------------------------------------------------------ stage D: assembly

def stageD_case(out, rng, nsample=12):
    ni = node_index(out)
    pre = out["Pre"][-1]
    bars = []
    for pb, jb in zip(pre["Bars"], bars_in_pre_order(out, pre)):
        bars.append("{| pb_bar := %s;\n     pb_nodes := %s;\n     pb_dofs := [%s] |}" % (
            E.bar(jb, ni), E.coq_list([E.pnode(n) for n in pb["Nodes"]], sep=";\n      "),
            "; ".join(d3(n["Dof"]) for n in pb["Nodes"])))
    nodes = []
    for n in out["Nodes"]:
        if n["Ext"] and n["ID"] in pre["NodeDofs"] and min(pre["NodeDofs"][n["ID"]]) >= 0:    # a node no bar is linked to has no equations
            nodes.append("(%s, %s)" % (E.link((n["Dx"], n["Dy"], n["Rz"])), d3(pre["NodeDofs"][n["ID"]])))
    K = ["(%s%%nat, %s%%nat, %s)" % (e[0], e[1], E.q(e[2])) for e in out["KEntries"]]
    F = [E.q(v) for v in out["F"]]
    n = pre["DofCount"]
    sample = []
    ents = out["KEntries"]
    for _ in range(min(nsample, len(ents))):
        e = ents[rng.randrange(len(ents))]
        sample.append("(%s, %s)%%nat" % (e[0], e[1]))
    for _ in range(3):
        sample.append("(%d, %d)%%nat" % (rng.randrange(max(n, 1)), rng.randrange(max(n, 1))))
    return ("{| sy_bars := %s;\n   sy_nodes := [%s];\n   sy_n := %d;\n   sy_K := [%s];\n   sy_F := [%s];\n   sy_sample := [%s] |}"
            % (E.coq_list(bars), "; ".join(nodes), n, "; ".join(K), "; ".join(F), "; ".join(sample)))


def stageG(ctx, triples, shard=3):
    """stage G: the translated template rendered by the Coq model of text/template over what the template
    saw of the value == the text Go wrote (map-backed sections in canonical order).  triples: (template,
    data record, text).  Returns (n, mismatches) as run_stage."""
    canon = [(tm, E.canon_template_data(d), E.canon_written_text(t)) if tm != "tmpl_solution" else (tm, d, t) for tm, d, t in triples]
    return run_stage(ctx, "G", canon, E.render_v, shard=shard)


def stageH_v(terms):
    """the computed hypotheses of the structure-level theorems on the implementation's sliced structures"""
    lines = [E.HEADER, "From Inkfem Require Import Model.Dof Model.Assemble."]
    for k, t in enumerate(terms):
        lines.append("Definition case_%d : sys_case :=\n  %s." % (k, t))
    lines.append("Definition all_cases := [%s]." % "; ".join("case_%d" % k for k in range(len(terms))))
    lines.append("Definition HS : list (bool * bool * bool) := Eval vm_compute in map hyp_system all_cases.")
    lines.append("Definition alarms (h : bool * bool * bool) : list (nat * nat * nat) := (if fst (fst h) then [] else [(1, 0, 0)%nat]) ++ (if snd (fst h) then [] else [(2, 0, 0)%nat]).")
    lines.append("Definition M := Eval vm_compute in\n  flat_map (fun p : nat * (bool * bool * bool) => map (fun m => (fst p, m)) (alarms (snd p))) (indexed HS).")
    lines.append("Definition S := Eval vm_compute in length (filter (fun h : bool * bool * bool => fst (fst h) && snd (fst h) && snd h) HS).")
    lines.append("Print M.")
    lines.append("Print S.")
    return "\n".join(lines) + "\n"


def stageD_v(terms, tol="(1 # 10000000000)"):
    lines = [E.HEADER, "From Inkfem Require Import Model.Dof Model.Assemble."]
    for k, t in enumerate(terms):
        lines.append("Definition case_%d : sys_case :=\n  %s." % (k, t))
    lines.append("Definition all_cases := [%s]." % "; ".join("case_%d" % k for k in range(len(terms))))
    lines.append("Definition M := Eval vm_compute in\n  flat_map (fun p => map (fun m => (fst p, m)) (cmp_system %s (snd p))) (indexed all_cases)." % tol)
    lines.append("Print M.")
    return "\n".join(lines) + "\n"
