#!/usr/bin/env python3
"""Regenerates /verif/MANIFEST.json from the table below (one entry per claimed property).
Run: python3 tools/manifest.py   (validates against /root/.vp/MANIFEST.schema.json when
jsonschema is importable)."""
import json
import os
import subprocess
import sys

VERIF = os.path.dirname(os.path.dirname(os.path.abspath(__file__)))
ALL = ["C%02d" % i for i in range(1, 21)]

COMMON_TRUST = ("Trusted: Coq 8.16.1 kernel (+ vm_compute for the case files); the translator "
                "harness/cmd/translate (cross-evaluated against the Go functions each run); the "
                "correspondence harness (harness/cmd/dump, tools/*.py); inkgeom / inkmath / Go "
                "runtime modelled, not verified. ")

CLAIMS = {}


def claim(pid, text, note, technique, design):
    CLAIMS[pid] = {
        "property_id": pid,
        "quick_cmd": "./check %s --tier quick" % pid,
        "thorough_cmd": "./check %s --tier thorough" % pid,
        "evidence_file": "/verif/evidence/%s.json" % pid,
        "replay_cmd_template": "./check %s --replay {path}" % pid,
        "engine": "coq",
        "level_claimed": {"category": "proof", "text": text, "design_ref": design},
        "level_note": note,
        "technique": technique,
    }


claim("C20",
      "Theorems over R and Q about stiff_gen, regenerated from StiffnessGlobalMat on every run: symmetry, three rigid-body modes about any point, equality with the rotated standard local stiffness written in EA/l, EI/l^3, EI/l^2, EI/l, positive semi-definiteness by an explicit sum of squares; all angles, lengths, sub-spans.",
      "Trusted: Coq kernel; real-number axioms (sig_forall_dec, functional_extensionality_dep) for the R theorems, none for Q; the translator (cross-evaluated against the Go function on every run); inkgeom's LengthBetween/RefFrame modelled.",
      "machine-checked proof in Coq (field identities) over a kernel translated from the Go source; correspondence by vm_compute",
      "DESIGN.md 4 (C20)")
claim("C15",
      "Theorems over Q about the executable slicing model for every load list with positions in [0,1]: chain starts at 0, ends at 1, strictly increasing by at least 1e-10, has a node at every interior load position (up to the code's own 1e-10 equality), nodes lie on the bar axis, 2 nodes for axial bars, 7 for unloaded ones, at most 11 + #load positions for loaded ones.",
      "Trusted: Coq kernel (theorems closed under the global context); the hand-written model Model/Slice.v + Model/Loads.v is tied to preprocess/*.go by correspondence stage B on every run (model executed by vm_compute at the BigQ instance on the implementation's own inputs); inkgeom modelled.",
      "machine-checked proof in Coq (induction over sorted lists) on a hand-written model + correspondence by vm_compute",
      "DESIGN.md 4 (C15)")
claim("C04",
      "Theorems about the executable load model: (R and Q kernels) the two nodal loads of a finite element are statically equivalent to the linear load on it; (Q, every bar, every load list, any number of loads, under the code's own 1e-10 separation) the slice-node torsors moved to the bar start equal the closed-form resultant of the user's loads; own weight adds exactly rho*A*L downwards once; the n-th preprocessing call yields what the first did and leaves the input unchanged.",
      "Trusted: Coq kernel; lump_gen / own_weight_gen regenerated from apply_distributed_loads.go / element.go each run; Model/Slice.v + Model/Loads.v tied to the code by correspondence stage B (every node torsor) and stage R (the theorem's statement evaluated on the implementation's bars); inkgeom modelled; eps_separated hypothesis explicit.",
      "machine-checked proof in Coq (induction along the node chain, field identities) over translated kernels + correspondence by vm_compute",
      "DESIGN.md 4 (C04)")
claim("C16",
      "Theorems (nat, closed under the global context) about the executable numbering model for every list of bar skeletons: the number of a slice-node component is the number of the physical unknown it stands for; numbering of existing unknowns is a bijection onto 0..count-1; same number iff same unknown; rigid bars share all three; any permutation of the bars induces the same partition.",
      "Trusted: Coq kernel; Model/Dof.v tied to preprocess/structure.go AssignDof by correspondence stage C (exact equality of every number and of the count, on the implementation's bar order).",
      "machine-checked proof in Coq (refinement to an allocation-order list of unknowns) + correspondence by vm_compute",
      "DESIGN.md 4 (C16)")
claim("C17",
      "Theorems over Q about the executable assembly model: the accumulated matrix is the sum over bars and slices of the (regenerated) slice stiffness placed at the slice's equation numbers; the load vector entry is the sum of the global net loads sharing the equation; both are invariant under any permutation of the bars; the final matrix is symmetric; supported equations become identity rows/zero columns with zero right-hand side and nothing else changes; for every displacement vector, row i of (accumulated matrix) x u is the sum of the element forces placed at number i. Operationally (Proofs/AssembleSteps.v): an interpreter of the steps the source takes, in the source's order (Gen/GenAssemble.v: per bar AddToValue for every stiffness term and an addition for every load term; then the trivial equation for empty rows; then SetZeroCol / SetIdentityRow / SetZero per supported number) ends with exactly k_final / f_final, entry for entry; the translator also checks that these functions are plain loops (no goroutine, channel or lock).",
      "Trusted: Coq kernel; Model/Assemble.v tied to MakeSystemOfEquations by correspondence stage D (every stored entry and every load entry, incl. structures read back from .inkfempre) and stage H (computed hypotheses of the structure-level theorems on the same structures); inkmath SparseMat semantics modelled; the 1e-10 cut-off of element.go is explicit (filtered / no_tiny).",
      "machine-checked proof in Coq (setoid sums over Q) over a translated kernel + correspondence by vm_compute",
      "DESIGN.md 4 (C17)")

# further claims are appended by tools/manifest_more.py style blocks below
try:
    from tools import manifest_claims  # noqa
except Exception:
    try:
        sys.path.insert(0, VERIF)
        from tools import manifest_claims  # noqa
    except ImportError:
        manifest_claims = None
if manifest_claims:
    manifest_claims.register(claim)

NOT_YET = "check under construction in this session; will be claimed when its theorem file and correspondence exist"


def main():
    hooks = subprocess.run("git -C /repo log --format=%h --grep='^verif hook' --reverse", shell=True,
                           stdout=subprocess.PIPE, text=True).stdout.split()
    order = [p for p in ALL if p in CLAIMS]
    stray = [p for p in CLAIMS if p not in ALL]
    if stray:
        raise SystemExit("manifest.py: claims for ids that are not properties: %r" % [x[:40] for x in stray])
    man = {
        "version": 1,
        "setup_cmd": "cd /verif && ./setup.sh",
        "hooks": {
            "guard": "verif",
            "enable": "go build -tags verif (harness/bin/inkfem and harness/bin/dump are built with it by every check)",
            "baseline_off_cmd": "cd /repo && GOFLAGS=-mod=mod GOPROXY=off go test -vet=off -count=1 ./...",
            "source_commits": hooks,
            "add_only": True,
        },
        "engines": [
            {"name": "coq", "path": "/verif/coq", "serves_properties": order,
             "kind_free_text": "Coq 8.16.1 development: polymorphic executable model, kernels regenerated from the Go source by harness/cmd/translate, theorem files Properties/Cxx.v"},
            {"name": "correspondence", "path": "/verif/harness", "serves_properties": order,
             "kind_free_text": "Go harness (dump) + Python generators/oracles; model executed in Coq (vm_compute, BigQ instance) on the cases the implementation ran"},
        ],
        "checks": [CLAIMS[p] for p in order],
        "not_applicable": [{"property_id": p, "reason": NOT_YET} for p in ALL if p not in CLAIMS],
        "notes": "See DESIGN.md.",
    }
    path = os.path.join(VERIF, "MANIFEST.json")
    with open(path, "w") as f:
        json.dump(man, f, indent=1)
    try:
        import jsonschema
        jsonschema.validate(man, json.load(open("/root/.vp/MANIFEST.schema.json")))
        print("MANIFEST.json valid,", len(order), "claimed")
    except ImportError:
        print("MANIFEST.json written (jsonschema not importable),", len(order), "claimed")


if __name__ == "__main__":
    main()
