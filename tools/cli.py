"""Drives the real inkfem binary (built from /repo's working tree with -tags verif into
harness/bin/inkfem): runs a command in a scratch directory and reports exit status, output
streams and the directory contents."""
import glob
import os
import shutil
import subprocess
from fractions import Fraction as Fr

from . import common as C

BIN = os.path.join(C.HARNESS, "bin", "inkfem")


class Run:
    pass


def run(ctx, args, files=None, env=None, name="run", timeout=120, keep=False, prepare=None):
    """files: {relative name: text}.  args may refer to the files by their relative names."""
    d = os.path.join(ctx.work, "cli_" + name)
    shutil.rmtree(d, ignore_errors=True)
    os.makedirs(d)
    for fn, text in (files or {}).items():
        p = os.path.join(d, fn)
        os.makedirs(os.path.dirname(p), exist_ok=True)
        with open(p, "w") as f:
            f.write(text)
    if prepare:
        prepare(d)
    e = dict(os.environ)
    for k in ("VERIF_WRITER", "VERIF_SLICE_ORDER", "VERIF_DUMP_SOLUTION"):
        e.pop(k, None)
    e.update(env or {})
    r = Run()
    try:
        p = subprocess.run([BIN] + list(args), cwd=d, env=e, stdout=subprocess.PIPE, stderr=subprocess.PIPE,
                           text=True, timeout=timeout)
        r.status, r.stdout, r.stderr, r.timeout = p.returncode, p.stdout, p.stderr, False
    except subprocess.TimeoutExpired as ex:
        r.status, r.stdout, r.stderr, r.timeout = -9, (ex.stdout or b"").decode() if isinstance(ex.stdout, bytes) else (ex.stdout or ""), "", True
    r.dir = d
    r.files = {}
    for p in sorted(glob.glob(os.path.join(d, "**"), recursive=True)):
        rel = os.path.relpath(p, d)
        if os.path.isdir(p):
            if rel != ".":
                r.files[rel + "/"] = None
        else:
            try:
                r.files[rel] = open(p, errors="replace").read()
            except OSError:
                r.files[rel] = None
    if not keep:
        shutil.rmtree(d, ignore_errors=True)
    return r


def run_history(ctx, steps, files=None, env=None, name="hist", timeout=120):
    """several commands one after the other in ONE scratch directory (steps: list of argument lists);
    returns one Run per step, each with the directory contents as they were after that step.  Files the
    verif observer writes (dump.txt) are removed before every step so that each step's own dump is seen."""
    d = os.path.join(ctx.work, "cli_" + name)
    shutil.rmtree(d, ignore_errors=True)
    os.makedirs(d)
    for fn, text in (files or {}).items():
        with open(os.path.join(d, fn), "w") as f:
            f.write(text)
    e = dict(os.environ)
    for k in ("VERIF_WRITER", "VERIF_SLICE_ORDER", "VERIF_DUMP_SOLUTION"):
        e.pop(k, None)
    e.update(env or {})
    out = []
    for args in steps:
        try:
            os.remove(os.path.join(d, "dump.txt"))
        except OSError:
            pass
        r = Run()
        try:
            p = subprocess.run([BIN] + list(args), cwd=d, env=e, stdout=subprocess.PIPE, stderr=subprocess.PIPE, text=True, timeout=timeout)
            r.status, r.stdout, r.stderr, r.timeout = p.returncode, p.stdout, p.stderr, False
        except subprocess.TimeoutExpired:
            r.status, r.stdout, r.stderr, r.timeout = -9, "", "", True
        r.files = {}
        for fp in sorted(glob.glob(os.path.join(d, "*"))):
            if os.path.isfile(fp):
                r.files[os.path.basename(fp)] = open(fp, errors="replace").read()
        out.append(r)
    shutil.rmtree(d, ignore_errors=True)
    return out


def read_dump(text):
    """The observer hook's dump -> dict(n, maxerror, K entries, F, U) in the pipeline's format."""
    out = {"KEntries": [], "F": [], "U": [], "MaxError": None}
    for line in text.splitlines():
        p = line.split()
        if not p:
            continue
        if p[0] == "k":
            out["KEntries"].append([p[1], p[2], p[3]])
        elif p[0] == "f":
            out["F"].append(p[2])
        elif p[0] == "u":
            v = {"NaN": "nan", "+Inf": "inf", "-Inf": "-inf"}.get(p[2], p[2])
            out["U"].append(v)
        elif p[0] == "maxerror":
            out["MaxError"] = p[1]
    return out


def sol_numbers(text):
    """every number printed in a .inkfemsol text (tokens that parse as floats), as strings"""
    import re
    return re.findall(r"(?<![\w.])[-+]?(?:\d+\.?\d*(?:[eE][-+]?\d+)?|NaN|[-+]?Inf)(?![\w.])", text)


def c05_cli(ctx):
    """Exit status / files contract of solve around the accept decision, on the shipped
    examples, on a mechanism and on a requested error nobody can meet."""
    from . import physics as P
    exdir = os.path.join(C.REPO, "examples")
    runs = []
    names = sorted(os.listdir(exdir)) if os.path.isdir(exdir) else []
    if ctx.tier == "quick":
        names = [n for n in names if "20x10" not in n]
    for fn in names:
        if fn.endswith(".inkfem"):
            runs.append((fn, open(os.path.join(exdir, fn)).read(), []))
    mech = ("inkfem v1.1\n\n|nodes|\nn1 -> 0 0 { dx dy }\nn2 -> 100 0 { }\nn3 -> 200 0 { dy }\n\n|materials|\n'm' -> 1 21000000 1 1 1 1\n\n"
            "|sections|\n's' -> 10 100 1 10 1\n\n|loads|\nfy lc b1 1 -100\n\n|bars|\nb1 -> n1 { dx dy } n2 { dx dy } 'm' 's'\nb2 -> n2 { dx dy } n3 { dx dy } 'm' 's'\n")
    runs.append(("zz_mechanism.inkfem", mech, []))
    canti = ("inkfem v1.1\n\n|nodes|\nn1 -> 0 0 { dx dy rz }\nn2 -> 100 0 { }\n\n|materials|\n'm' -> 1 21000000 1 1 1 1\n\n"
             "|sections|\n's' -> 10 100 1 10 1\n\n|loads|\nfy ld b1 0 -10 1 -10\n\n|bars|\nb1 -> n1 { dx dy rz } n2 { dx dy rz } 'm' 's'\n")
    runs.append(("zz_cantilever.inkfem", canti, []))
    runs.append(("zz_unreachable.inkfem", canti, ["-e", "1e-300"]))
    checked = 0
    for fn, text, extra in runs:
        base = fn[:-len(".inkfem")]
        r = run(ctx, ["solve", fn] + extra, files={fn: text}, env={"VERIF_DUMP_SOLUTION": "dump.txt"}, name="c05")
        sol = r.files.get(base + ".inkfemsol")
        dump = r.files.get("dump.txt")
        case = {"file": fn, "args": ["solve", fn] + extra, "Text": text, "exit": r.status}
        checked += 1
        if r.timeout:
            ctx.violation("solve did not finish on %s" % fn, {"cli": case})
            continue
        if r.status == 0:
            if sol is None:
                ctx.violation("solve exited 0 without writing %s.inkfemsol" % base, {"cli": case})
                continue
            low = sol.lower()
            if "nan" in low or "inf " in low or "+inf" in low or "-inf" in low:
                ctx.violation("solve wrote non-finite numbers into %s.inkfemsol and exited 0" % base, {"cli": case})
                continue
            if dump:
                o = read_dump(dump)
                o["Pre"] = [{"NodeDofs": {}}]
                o["Nodes"] = []
                f = P.c05_solution(o)
                if f:
                    ctx.violation("solve wrote a solution that does not meet the requested error: " + f[0], {"cli": case, "failures": f})
        else:
            if sol is not None:
                ctx.violation("solve failed (exit %d) but left %s.inkfemsol behind" % (r.status, base), {"cli": case})
            elif not (r.stderr.strip() or r.stdout.strip()):
                ctx.violation("solve failed (exit %d) without any message" % r.status, {"cli": case})
            elif dump and fn.startswith("zz_cantilever"):
                ctx.violation("solve failed on a plain cantilever: " + r.stderr[-200:], {"cli": case})
    # histories in one directory: what an earlier successful run left behind must not stand in for a later run
    for second in (["-e", "1e-300"], ["-w", "-e", "1e-300"], ["-s", "-e", "1e-300"]):
        h = run_history(ctx, [["solve", "zz_cantilever.inkfem"], ["solve"] + second + ["zz_cantilever.inkfem"]],
                        files={"zz_cantilever.inkfem": canti}, env={"VERIF_DUMP_SOLUTION": "dump.txt"}, name="c05h")
        checked += 2
        if h[0].status == 0 and h[1].status == 0:
            ctx.violation("after a successful solve in the same directory, solve %s exits 0 although that error cannot be met (%s)" % (
                " ".join(second), "the equations were not even solved again" if "dump.txt" not in h[1].files else "residual not enforced"),
                {"cli": {"history": [["solve", "zz_cantilever.inkfem"], ["solve"] + second + ["zz_cantilever.inkfem"]], "Text": canti, "exit": [h[0].status, h[1].status]}})
    # ... nor may a preprocessed file kept from an earlier run (another -w setting) be what gets solved
    fn = "zz_cantilever.inkfem"
    for first, second in ((["-w", "-p"], []), (["-p"], ["-w"]), (["-p"], [])):
        fresh = run(ctx, ["solve"] + second + [fn], files={fn: canti}, name="c05")
        h = run_history(ctx, [["solve"] + first + [fn], ["solve"] + second + [fn]], files={fn: canti}, name="c05h")
        checked += 3
        if fresh.status == 0 and h[1].status == 0:
            a, b = ([float(v) for v in sol_numbers(t_ or "") if v not in ("NaN", "Inf", "+Inf", "-Inf")]
                    for t_ in (h[1].files.get("zz_cantilever.inkfemsol"), fresh.files.get("zz_cantilever.inkfemsol")))
            if len(a) != len(b) or any(abs(x - y) > 1e-6 * max(1.0, abs(x), abs(y)) for x, y in zip(a, b)):
                k = next((i for i, (x, y) in enumerate(zip(a, b)) if abs(x - y) > 1e-6 * max(1.0, abs(x), abs(y))), -1)
                ctx.violation("after solve %s in the same directory, solve %s writes another solution than in a clean directory (%s)" % (
                    " ".join(first), " ".join(second), "%d vs %d numbers" % (len(a), len(b)) if len(a) != len(b) else "number %d: %r vs %r" % (k, a[k], b[k])),
                    {"cli": {"history": [["solve"] + first + [fn], ["solve"] + second + [fn]], "Text": canti}})
        elif (fresh.status == 0) != (h[1].status == 0):
            ctx.violation("after solve %s in the same directory, solve %s exits %s; in a clean directory %s" % (" ".join(first), " ".join(second), h[1].status, fresh.status),
                          {"cli": {"history": [["solve"] + first + [fn], ["solve"] + second + [fn]], "Text": canti}})
    ctx.coverage.setdefault("cli_runs", 0)
    ctx.coverage["cli_runs"] += checked
    ctx.log("command-line contract checked on %d runs (shipped examples, a mechanism, an unreachable error)" % checked)
