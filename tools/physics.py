"""Shared machinery of the properties about solutions (C01, C02, C03, C05 and the metamorphic
ones): stage E / F terms for Coq, and the property oracles stated on the implementation's
observables in exact rational arithmetic."""
from fractions import Fraction as Fr

from . import common as C
from . import emit as E
from . import stages as S
from . import exact_frame as X

EPS10 = Fr(1, 10 ** 10)


def F(s):
    return C.ffloat(s)


def finite(s):
    return C.isfinite_s(s)


# ------------------------------------------------------------------ Coq terms

def pbar_term(jb, pb, ni):
    return "{| pb_bar := %s;\n     pb_nodes := %s;\n     pb_dofs := [%s] |}" % (
        E.bar(jb, ni), E.coq_list([E.pnode(n) for n in pb["Nodes"]], sep=";\n      "),
        "; ".join(S.d3(n["Dof"]) for n in pb["Nodes"]))


def ser(s):
    return "[" + "; ".join("(%s, %s)" % (E.q(t), E.q(v)) for t, v in zip(s["T"] or [], s["V"] or [])) + "]"


def tri(sb, names):
    a, b, c = (sb["Series"][n] for n in names)
    return "[" + "; ".join("(%s, (%s, %s, %s))" % (E.q(t), E.q(x), E.q(y), E.q(z))
                           for t, x, y, z in zip(a["T"] or [], a["V"] or [], b["V"] or [], c["V"] or [])) + "]"


def stageF_case(out):
    ni = S.node_index(out)
    pre = out["Pre"][-1]
    bars = [pbar_term(jb, pb, ni) for pb, jb in zip(pre["Bars"], S.bars_in_pre_order(out, pre))]
    obs = []
    for sb in out["Sol"]:
        obs.append("{| so_gd := %s; so_ld := %s;\n     so_ax := %s; so_sh := %s;\n     so_bm := %s; so_tf := %s |}" % (
            tri(sb, ("gdx", "gdy", "grz")), tri(sb, ("ldx", "ldy", "lrz")),
            ser(sb["Series"]["axial"]), ser(sb["Series"]["shear"]), ser(sb["Series"]["bend"]), ser(sb["Series"]["bend_axial"])))
    reac = ["(%d%%nat, %s)" % (ni[k], E.tor(v)) for k, v in sorted(out["Reactions"].items())]
    return ("{| sv_bars := %s;\n   sv_u := [%s];\n   sv_eps := %s;\n   sv_obs := %s;\n   sv_reactions := [%s] |}"
            % (E.coq_list(bars), "; ".join(E.q(v) for v in out["U"]), E.q(out["MaxError"]),
               E.coq_list(obs), "; ".join(reac)))


def stageF_v(terms, tol="(1 # 1000000000)"):
    lines = [E.HEADER, "From Inkfem Require Import Model.Dof Model.Assemble Model.Recover."]
    for k, t in enumerate(terms):
        lines.append("Definition case_%d : solve_case :=\n  %s." % (k, t))
    lines.append("Definition all_cases := [%s]." % "; ".join("case_%d" % k for k in range(len(terms))))
    lines.append("Definition M := Eval vm_compute in\n  flat_map (fun p => map (fun m => (fst p, m)) (cmp_solution %s (snd p))) (indexed all_cases)." % tol)
    lines.append("Print M.")
    return "\n".join(lines) + "\n"


def stageE_case(out):
    K = ["(%s%%nat, %s%%nat, %s)" % (e[0], e[1], E.q(e[2])) for e in out["KEntries"]]
    u = ["(Some %s)" % E.q(v) if finite(v) else "None" for v in out["U"]]
    return ("{| ac_K := [%s];\n   ac_F := [%s];\n   ac_u := [%s];\n   ac_eps := %s;\n   ac_accepted := %s |}"
            % ("; ".join(K), "; ".join(E.q(v) for v in out["F"]), "; ".join(u), E.q(out["MaxError"]),
               E.b(not out.get("SolvePanic"))))


def stageE_v(terms):
    lines = [E.HEADER, "From Inkfem Require Import Model.Dof Model.Assemble Model.Recover."]
    for k, t in enumerate(terms):
        lines.append("Definition case_%d : accept_case :=\n  %s." % (k, t))
    lines.append("Definition all_cases := [%s]." % "; ".join("case_%d" % k for k in range(len(terms))))
    lines.append("Definition M := Eval vm_compute in\n  flat_map (fun p => map (fun m => (fst p, (m, 0%nat))) (cmp_accept (snd p))) (indexed all_cases).")
    lines.append("Print M.")
    return "\n".join(lines) + "\n"


# ------------------------------------------------------------------ residuals

def u_from_solution(out):
    """the displacement vector read back from the reported global displacements of the slice nodes
    (used when the observer hook saw no solver call: whatever was reported is what is judged)"""
    pre = out["Pre"][-1]
    n = pre["DofCount"]
    u = ["0"] * n
    sols = {sb["ID"]: sb for sb in out["Sol"]}
    for pb in pre["Bars"]:
        sb = sols.get(pb["ID"])
        if sb is None:
            continue
        for j, nd in enumerate(pb["Nodes"]):
            for k, nm in enumerate(("gdx", "gdy", "grz")):
                vals = sb["Series"][nm]["V"] or []
                if j < len(vals) and 0 <= nd["Dof"][k] < n:
                    u[nd["Dof"][k]] = vals[j]
    return u


def residuals(out):
    """exact f - K u per equation, and the magnitude sum of the terms of each row"""
    n = len(out["F"])
    u = [F(v) for v in out["U"]]
    r = [F(v) for v in out["F"]]
    mag = [abs(x) for x in r]
    for e in out["KEntries"]:
        i, j, v = int(e[0]), int(e[1]), F(e[2])
        r[i] -= v * u[j]
        mag[i] += abs(v * u[j])
    return r, mag


# float evaluation of f_i - sum_j K_ij u_j: at most (nnz + 1) roundings of relative size 2^-53 on
# the sum of the magnitudes of the terms (rows of a frame system hold <= 18 entries)
FLOAT_DOT = Fr(4, 10 ** 15)


def borderline(out, band=Fr(1, 10 ** 6)):
    """True when some exact residual is so close to the requested error that the float
    evaluation of the implementation may legitimately decide either way."""
    if not out.get("U") or not all(finite(v) for v in out["U"]):
        return False
    eps = F(out["MaxError"])
    r, mag = residuals(out)
    return any(abs(abs(x) - eps) <= band * eps + FLOAT_DOT * m for x, m in zip(r, mag))


def supported_numbers(out, pre):
    sup = set()
    for nd in out["Nodes"]:
        if nd["Ext"] and nd["ID"] in pre["NodeDofs"]:
            d = pre["NodeDofs"][nd["ID"]]
            for ci, on in enumerate((nd["Dx"], nd["Dy"], nd["Rz"])):
                if on and d[ci] >= 0:
                    sup.add(d[ci])
    return sup


# ------------------------------------------------------------------ C05

def c05_solution(out):
    """The implementation went on with this answer: it must be finite, meet the requested error
    in every equation and be exactly zero at the supported numbers."""
    fails = []
    if out.get("SolvePanic"):
        return fails
    if not out.get("U"):
        return ["no solver answer observed"]
    bad = [i for i, v in enumerate(out["U"]) if not finite(v)]
    if bad:
        return ["accepted displacement %d is %s" % (bad[0], out["U"][bad[0]])]
    eps = F(out["MaxError"])
    r, mag = residuals(out)
    for i, (x, m) in enumerate(zip(r, mag)):
        if abs(x) > eps * (1 + Fr(1, 10 ** 6)) + FLOAT_DOT * m:
            fails.append("equation %d: residual %.6g exceeds the requested error %.6g" % (i, float(abs(x)), float(eps)))
            break
    pre = out["Pre"][-1]
    for d in sorted(supported_numbers(out, pre)):
        if F(out["U"][d]) != 0:
            fails.append("supported degree of freedom %d moves by %s" % (d, out["U"][d]))
            break
    for sb in out.get("Sol") or []:
        for name, s in sb["Series"].items():
            if any(not finite(v) for v in (s["V"] or [])):
                fails.append("bar %s series %s contains a non-finite value" % (sb["ID"], name))
                return fails
    for nid, r3 in (out.get("Reactions") or {}).items():
        if any(not finite(v) for v in r3):
            fails.append("reaction of node %s is not finite" % nid)
    return fails


# ------------------------------------------------------------------ helpers over listed series

def by_node(series, ts):
    """Go's listing -> per slice node (left value, right value, merged?).  ts: node positions."""
    T = [F(t) for t in series["T"] or []]
    V = [F(v) for v in series["V"] or []]
    out = []
    k = 0
    for t in ts:
        vals = []
        while k < len(T) and abs(T[k] - t) < EPS10:
            vals.append(V[k])
            k += 1
        if not vals:
            return None
        if len(vals) > 2:
            return None
        out.append((vals[0], vals[-1], len(vals) == 1))
    if k != len(T):
        return None
    return out


def input_loads_global(out, weight):
    """Resultant of everything applied: (Fx, Fy, Mz about the origin), with magnitude scales."""
    R = [Fr(0)] * 3
    mag = [Fr(0)] * 3
    for jb in out["Bars"]:
        b = X.build_bar(jb, weight)
        if b is None:
            return None, None
        c, s = b.c, b.s

        def add(x, fx, fy, mz):
            gx, gy = fx * c - fy * s, fx * s + fy * c
            px, py = b.x1 + c * x, b.y1 + s * x
            terms = (gx, gy, mz + px * gy - py * gx)
            for k in range(3):
                R[k] += terms[k]
            mag[0] += abs(gx)
            mag[1] += abs(gy)
            mag[2] += abs(mz) + abs(px * gy) + abs(py * gx)
        for (a, fx, fy, mz) in b.points:
            add(a, fx, fy, mz)
        for (a, e, v0, v1) in b.dists:
            if not e > a:
                continue
            ln = e - a
            # a linear load = two triangles: resultants at the third points
            for (w0, w1) in ((v0, (0, 0, 0)), ((0, 0, 0), v1)):
                pass
            f0 = [v0[k] * ln / 2 for k in range(3)]
            f1 = [v1[k] * ln / 2 for k in range(3)]
            add(a + ln / 3, f0[0], f0[1], f0[2])
            add(a + 2 * ln / 3, f1[0], f1[1], f1[2])
    return R, mag


def extent(out):
    xs = [abs(F(n["X"])) for n in out["Nodes"]] + [abs(F(n["Y"])) for n in out["Nodes"]]
    return max(xs + [Fr(1)])


# ------------------------------------------------------------------ C03

def reaction_rounding(out):
    """float rounding in the recovery of bar-end forces at supports: each is a sum of stiffness x displacement terms of the
    end finite element; with a very short element (a load a hair from the bar end) those terms are huge and nearly cancel.
    Returns (force allowance, moment allowance) = 16 ulp x the largest sum of |k_ij| |u_j| over the rows of the end elements
    of bars that reach a supported node."""
    try:
        pre = out["Pre"][-1]
        u = [abs(float(v)) for v in out["U"]]
        nodes = {nd["ID"]: nd for nd in out["Nodes"]}
        byid = {b["ID"]: b for b in out["Bars"]}
    except (KeyError, IndexError, TypeError, ValueError):
        return Fr(0), Fr(0)
    worst_f = worst_m = 0.0
    for pb in pre["Bars"]:
        jb = byid.get(pb["ID"])
        if jb is None or len(pb["Nodes"]) < 2:
            continue
        L, EA, EI = float(jb["Len"]), float(jb["E"]) * float(jb["A"]), float(jb["E"]) * float(jb["I"])
        for nid, (a, b) in ((jb["N1"], (pb["Nodes"][0], pb["Nodes"][1])), (jb["N2"], (pb["Nodes"][-2], pb["Nodes"][-1]))):
            nd = nodes.get(nid)
            if nd is None or not (nd["Dx"] or nd["Dy"] or nd["Rz"]):
                continue
            l = L * abs(float(b["T"]) - float(a["T"]))
            if l <= 0:
                continue
            ua = [u[k] if 0 <= k < len(u) else 0.0 for k in list(a["Dof"]) + list(b["Dof"])]
            ut, ur = max(ua[0], ua[1], ua[3], ua[4]), max(ua[2], ua[5])
            worst_f = max(worst_f, 2 * (EA / l) * ut + 24 * (EI / l ** 3) * ut + 12 * (EI / l ** 2) * ur)
            worst_m = max(worst_m, 12 * (EI / l ** 2) * ut + 6 * (EI / l) * ur)
    k = 16 * 2.0 ** -53
    return Fr(k * worst_f), Fr(k * worst_m)


def c03_reactions(out, weight, exact=None, utol=None):
    fails = []
    if out.get("SolvePanic") or out.get("Reactions") is None:
        return fails
    eps = F(out["MaxError"])
    n = len(out["U"])
    nodes = {nd["ID"]: nd for nd in out["Nodes"]}
    want = {k for k, nd in nodes.items() if nd["Dx"] or nd["Dy"] or nd["Rz"]}
    got = set(out["Reactions"])
    if want != got:
        fails.append("reactions listed for %s, externally constrained nodes are %s" % (sorted(got), sorted(want)))
    R, mag = input_loads_global(out, weight)
    if R is None:
        return fails
    S3 = list(R)
    M3 = list(mag)
    for nid, r3 in out["Reactions"].items():
        if nid not in nodes or not all(finite(v) for v in r3):
            fails.append("reaction of %s is not a finite torsor of a known node" % nid)
            return fails
        fx, fy, mz = (F(v) for v in r3)
        px, py = F(nodes[nid]["X"]), F(nodes[nid]["Y"])
        terms = (fx, fy, mz + px * fy - py * fx)
        for k in range(3):
            S3[k] += terms[k]
        M3[0] += abs(fx)
        M3[1] += abs(fy)
        M3[2] += abs(mz) + abs(px * fy) + abs(py * fx)
    ext = extent(out)
    # each equation is met within eps: the imbalance is a sum of at most n residuals (forces),
    # each with a lever arm of at most ~2 x extent for the moment
    rf, rm = reaction_rounding(out)
    tols = (n * eps + rf, n * eps + rf, n * eps * (1 + 2 * ext) + rm + 2 * ext * rf)
    names = ("sum of Fx", "sum of Fy", "sum of moments about the origin")
    for k in range(3):
        if abs(S3[k]) > tols[k] + Fr(1, 10 ** 9) * M3[k]:
            fails.append("%s of loads and reactions is %.6g (loads %.6g)" % (names[k], float(S3[k]), float(R[k])))
    # no component along a direction the support leaves free
    for nid, r3 in out["Reactions"].items():
        nd = nodes[nid]
        for k, on in enumerate((nd["Dx"], nd["Dy"], nd["Rz"])):
            if not on and abs(F(r3[k])) > 4 * eps * (1 + (2 * ext if k == 2 else 0)) + Fr(1, 10 ** 9) * M3[k]:
                fails.append("node %s: reaction component %s = %s along a free direction" % (nid, ("fx", "fy", "mz")[k], r3[k]))
    return fails


# ------------------------------------------------------------------ C02

def c02_bar(jb, pb, sb, eps, weight):
    """Statics along one bar, on the implementation's own first values."""
    fails = []
    b = X.build_bar(jb, weight)
    if b is None or b.has_dist_moment:
        return fails
    ts = [F(n["T"]) for n in pb["Nodes"]]
    names = ("axial", "shear", "bend", "bend_axial")
    pn = {}
    for nm in names:
        pn[nm] = by_node(sb["Series"][nm], ts)
        if pn[nm] is None:
            return ["bar %s: series %s is not listed at the slice nodes (one or two values per node)" % (jb["ID"], nm)]
        if not all(finite(v) for v in sb["Series"][nm]["V"]):
            return ["bar %s: series %s has a non-finite value" % (jb["ID"], nm)]
    # the implementation identifies positions closer than 1e-10: move every load position onto
    # the slice node it was identified with (changes moments by at most 1e-10 L |load|)
    def snap(a):
        for t in ts:
            if abs(a / b.L - t) < EPS10:
                return t * b.L
        return a
    b.points = [(snap(p[0]),) + tuple(p[1:]) for p in b.points]
    b.dists = [(snap(d[0]), snap(d[1]), d[2], d[3]) for d in b.dists]
    loadsum = sum(abs(v) for p in b.points for v in p[1:]) + sum(abs(v) * b.L for d in b.dists for v in d[2] + d[3])
    # integrate statics from the first listed values
    N0 = pn["axial"][0][1] * b.A
    Vy0 = -pn["shear"][0][1]
    M0 = pn["bend"][0][1]
    b.d_local = [Fr(0)] * 6
    b.end_forces_local = [Fr(0)] * 6
    X.integrate_bar(b, start=(N0, Vy0, M0))
    L = b.L
    k = len(ts)
    # scale of the float evaluation of the recovery: stiffness terms times displacements
    dl = [(F(a), F(c), F(d)) for a, c, d in zip(sb["Series"]["ldx"]["V"], sb["Series"]["ldy"]["V"], sb["Series"]["lrz"]["V"])]
    lmin = min((ts[i + 1] - ts[i]) * L for i in range(k - 1))
    EA, EI = b.E * b.A, b.E * b.I
    dmax = [max(abs(x[c]) for x in dl) for c in range(3)]
    noise = Fr(1, 10 ** 11)
    snapped = Fr(1, 10 ** 9) * (1 + L) * loadsum
    scaleN = EA / lmin * 2 * dmax[0] + 1
    scaleV = 24 * EI / lmin ** 3 * dmax[1] + 12 * EI / lmin ** 2 * dmax[2] + 1
    scaleM = 12 * EI / lmin ** 2 * dmax[1] + 6 * EI / lmin * dmax[2] + 1
    for j, t in enumerate(ts):
        x = t * L
        eL = X.fields_at(b, x, "L")
        eR = X.fields_at(b, x, "R")
        # allowance: every interior node passed so far may be out of balance by eps per equation
        tolN = 2 * (j + 1) * eps + noise * scaleN + snapped
        tolV = 2 * (j + 1) * eps + noise * scaleV + snapped
        tolM = (j + 1) * eps * (1 + 2 * L) + noise * scaleM + snapped
        for nm, idx, tol, div in (("axial", 3, tolN, b.A), ("shear", 4, tolV, 1), ("bend", 5, tolM, 1)):
            gl, gr, merged = pn[nm][j]
            el, er = eL[idx] / div, eR[idx] / div
            tl = tol / div
            if j > 0 and abs(gl - el) > tl:
                fails.append("bar %s %s at t=%s (left of the node): listed %.9g, statics from the bar start gives %.9g" % (
                    jb["ID"], nm, pb["Nodes"][j]["T"], float(gl), float(el)))
            if j < k - 1 and abs(gr - er) > tl + (eps if merged else 0):
                fails.append("bar %s %s at t=%s (right of the node): listed %.9g, statics from the bar start gives %.9g" % (
                    jb["ID"], nm, pb["Nodes"][j]["T"], float(gr), float(er)))
            if len(fails) > 3:
                return fails
        # top fibre stress = M / S
        bl, br, bmerged = pn["bend"][j]
        fl, fr_, fmerged = pn["bend_axial"][j]
        for g, m, mg in ((fl, bl, False), (fr_, br, fmerged or bmerged)):
            if abs(g - m / b.S) > Fr(1, 10 ** 12) * abs(g) + ((eps + eps / b.S) if mg else 0):
                fails.append("bar %s: top-fibre stress %.9g at t=%s is not M/S = %.9g" % (jb["ID"], float(g), pb["Nodes"][j]["T"], float(m / b.S)))
                break
    # local displacements are the global ones rotated into the bar axes
    c, s = F(jb["C"]), F(jb["S_"])
    for j in range(k):
        gx, gy, gz = (F(sb["Series"][nm]["V"][j]) for nm in ("gdx", "gdy", "grz"))
        lx, ly, lz = dl[j]
        sc = abs(gx) + abs(gy)
        if abs(lx - (gx * c + gy * s)) > Fr(1, 10 ** 12) * sc or abs(ly - (gy * c - gx * s)) > Fr(1, 10 ** 12) * sc or lz != gz:
            fails.append("bar %s node %d: local displacements are not the global ones rotated into the bar axes" % (jb["ID"], j))
            break
    return fails


def c02_structure(out, weight):
    fails = []
    if out.get("SolvePanic") or not out.get("Sol"):
        return fails
    eps = F(out["MaxError"])
    pre = out["Pre"][-1]
    byid = {b["ID"]: b for b in out["Bars"]}
    pbs = {pb["ID"]: pb for pb in pre["Bars"]}
    for sb in out["Sol"]:
        fails += c02_bar(byid[sb["ID"]], pbs[sb["ID"]], sb, eps, weight)
        if len(fails) > 4:
            break
    return fails


# ------------------------------------------------------------------ C01

def inverse_row_sums(out):
    """float estimate of sum_j |K^-1_ij| for the system handed to the solver (tolerance only)"""
    import numpy as np
    n = len(out["F"])
    K = np.zeros((n, n))
    for e in out["KEntries"]:
        K[int(e[0]), int(e[1])] = float(e[2])
    try:
        inv = np.linalg.inv(K)
    except np.linalg.LinAlgError:
        return None
    if not np.all(np.isfinite(inv)):
        return None
    # the estimate scales a tolerance: when the float inverse is not an inverse to several digits (finite elements a
    # ten-millionth of the bar long next to ordinary ones) it says nothing, and the case is compared with the model only
    if np.abs(K @ inv - np.eye(n)).max() > 1e-6:
        return None
    return [Fr(float(x)) for x in np.abs(inv).sum(axis=1)]


def c01_structure(out, weight, ex, rows):
    """Reported displacements vs the exact Euler-Bernoulli frame response."""
    fails = []
    if out.get("SolvePanic") or not out.get("Sol"):
        return fails
    eps = F(out["MaxError"])
    pre = out["Pre"][-1]
    pbs = {pb["ID"]: pb for pb in pre["Bars"]}
    umax = max([abs(F(v)) for v in out["U"]] + [Fr(0)])
    worst = Fr(0)
    for sb in out["Sol"]:
        b = ex.bars[sb["ID"]]
        pb = pbs[sb["ID"]]
        for j, nd in enumerate(pb["Nodes"]):
            x = F(nd["T"]) * b.L
            e = X.fields_at(b, x, "R" if j == 0 else "L")
            el = (e[0], e[1], e[2])
            eg = (el[0] * b.c - el[1] * b.s, el[0] * b.s + el[1] * b.c, el[2])
            for k, nm in enumerate(("gdx", "gdy", "grz")):
                g = F(sb["Series"][nm]["V"][j])
                if abs(F(sb["Series"][nm]["T"][j]) - F(nd["T"])) >= EPS10:
                    fails.append("bar %s: %s entry %d is not at the slice node's position" % (sb["ID"], nm, j))
                    return fails
                tol = 2 * eps * rows[nd["Dof"][k]] + Fr(1, 10 ** 9) * umax + Fr(1, 10 ** 15)
                d = abs(g - eg[k])
                if d > tol:
                    fails.append("bar %s t=%s %s: reported %.10g, exact Euler-Bernoulli frame solution %.10g (tolerance %.3g from error %s and conditioning)" % (
                        sb["ID"], nd["T"], nm, float(g), float(eg[k]), float(tol), out["MaxError"]))
                    if len(fails) > 3:
                        return fails
    # bars that share a joint degree of freedom report the same joint movement
    byid = {b["ID"]: b for b in out["Bars"]}
    seen = {}
    for sb in out["Sol"]:
        jb = byid[sb["ID"]]
        last = len(sb["Series"]["gdx"]["V"]) - 1
        for nid, lk, j in ((jb["N1"], jb["L1"], 0), (jb["N2"], jb["L2"], last)):
            for k, nm in enumerate(("gdx", "gdy", "grz")):
                if lk[k]:
                    v = sb["Series"][nm]["V"][j]
                    if (nid, k) in seen and seen[(nid, k)][0] != v:
                        fails.append("joint %s %s: bar %s reports %s, bar %s reports %s" % (nid, nm, sb["ID"], v, seen[(nid, k)][1], seen[(nid, k)][0]))
                    seen.setdefault((nid, k), (v, sb["ID"]))
    return fails
