"""Claims added after the preprocessing core (one block per property)."""

SOLVER = ("The linear solver (inkmath PCG, outside /repo) is an oracle: nothing is assumed about its answer; "
          "what /repo does with the answer is modelled, proved and tied. ")


def register(claim):
    claim("C05",
          "Theorems (Q, closed under the global context) about the decision solve takes on the solver's answer, for every system, every requested error and every answer including NaN/Inf: accepted iff finite and every equation's exact residual is within the error (sound and complete); a rejected answer leaves the file system unchanged; a solution file that appears holds an accepted answer; supported equations within eps of zero.",
          SOLVER + "Model/Recover.v accept is tied to ensureSolutionIsGoodEnough by correspondence stage E (evaluated in Coq on the (K, f, u, eps) the implementation saw, verdict compared with whether it went on), the exact-residual oracle runs on every accepted answer, and the binary's exit status / files are checked on the shipped examples, a mechanism and an unreachable error. Partial: convergence of the float PCG, and 'exactly zero' on supports (observed each run, delivered by the external solver).",
          "machine-checked proof in Coq of the accept/fail decision + correspondence by vm_compute + exact residual oracle",
          "DESIGN.md 4 (C05)")
    claim("C01",
          "Exactness certificate, proved over Q for every bar, slice, load and displacement vector: the polynomial field determined element by element by the reported nodal displacements satisfies the Euler-Bernoulli equations (EA u_xx = -p, EI v_xxxx = q) for the user's linear loads at every x, takes the reported displacements and rotations at every listed position, is continuous in u, v, v_x across slice nodes, and its section forces jump by exactly the concentrated load at every node in equilibrium; bars sharing an equation number report identical movements; |u_i - u*_i| <= eps * sum_j |K^-1_ij| whenever every equation is met within eps, and the exact solution is unique (kernel theorems also over R).",
          SOLVER + "lump_gen / recover_gen / stiff_gen regenerated from the Go source each run; Model/Recover.v tied by stage F (every displacement value of every bar). An independent exact rational frame solver (tools/exact_frame.py) is the search oracle: reported displacements are compared with it at every listed position within the proved bound. Partial: the hypothesis node_equilibrium (interior rows of K u = f in bar axes) is discharged per run by the exact-residual check, not yet derived in Coq from the assembled system; irrational bar lengths are covered by the R kernels only.",
          "machine-checked proof in Coq (field identities over translated kernels, conditioning bound) + correspondence by vm_compute + exact rational frame oracle",
          "DESIGN.md 4 (C01)")
    claim("C02",
          "Theorems over Q (kernels also over R) for every bar, any number of slices, any displacement vector: what the recovery lists at the ends of a finite element are stiffness x displacements minus the nodal loads it brought; across a node in equilibrium the listed axial force, shear and moment jump by exactly the concentrated load (-Fx, +Fy, -Mz); along an element N_x = -p, V_x = q, M_x = V - m; hence all listed values equal the section forces obtained by marching from the bar's first values across every element and node (chain_statics); top fibre = M / S; local = rotated global; merging drops only repeats.",
          SOLVER + "recover_gen, lump_gen regenerated each run; loops tied by stage F (every listed value, merge decisions accepted either way inside the float band). Oracle: exact statics integrated from the bar's own first values over the user's loads. Partial: node_equilibrium as for C01.",
          "machine-checked proof in Coq (induction along the node chain over translated kernels) + correspondence by vm_compute + exact statics oracle",
          "DESIGN.md 4 (C02)")
    claim("C03",
          "Theorems over Q: every bar with all interior nodes in equilibrium has its two end torsors (exactly what solve adds to the reactions of its end nodes) in balance with everything applied to it - axial force, transverse force and moment about the bar start, any number of slices; the reaction of a node is the sum over the bars that start or end there of end torsor minus the load applied on that end, independent of bar order; a reaction is listed exactly for the externally constrained nodes.",
          SOLVER + "end torsor formulas regenerated each run; summation tied by stage F (every reaction component). Oracle: exact resultant of the user's loads (own weight included) plus the listed reactions must vanish within (equations x error); keys = constrained nodes; no component along a free direction. Partial: the structure-level sum over free joints (rows of K u = f) is checked per run, not derived in Coq.",
          "machine-checked proof in Coq (conserved quantities of the marching statics) + correspondence by vm_compute + exact balance oracle",
          "DESIGN.md 4 (C03)")
