"""Claims added after the preprocessing core (one block per property)."""


def register(claim):
    pass
