"""Claims added after the preprocessing core (one block per property)."""

SOLVER = ("The linear solver (inkmath PCG, outside /repo) is an oracle: nothing is assumed about its answer; "
          "what /repo does with the answer is modelled, proved and tied. ")


def register(claim):
    claim("C05",
          "Theorems (Q, closed under the global context) about the decision solve takes on the solver's answer, for every system, every requested error and every answer including NaN/Inf: accepted iff finite and every equation's exact residual is within the error (sound and complete); a rejected answer leaves the file system unchanged; a solution file that appears holds an accepted answer; supported equations within eps of zero.",
          SOLVER + "Model/Recover.v accept is tied to ensureSolutionIsGoodEnough by correspondence stage E (evaluated in Coq on the (K, f, u, eps) the implementation saw, verdict compared with whether it went on), the exact-residual oracle runs on every accepted answer, and the binary's exit status / files are checked on the shipped examples, a mechanism and an unreachable error. Partial: convergence of the float PCG, and 'exactly zero' on supports (observed each run, delivered by the external solver).",
          "machine-checked proof in Coq of the accept/fail decision + correspondence by vm_compute + exact residual oracle",
          "DESIGN.md 4 (C05)")
