"""Independent exact solver for plane Euler-Bernoulli frames, in rational arithmetic.

It does NOT slice bars and shares nothing with the Coq model or the Go code: every bar is one
beam-column element (textbook local stiffness, rotation by the bar's direction cosines),
equivalent nodal loads come from integrating the Hermite shape functions against the user's
loads, the unknowns are solved by Gaussian elimination over Fractions, and the fields inside
a bar (u, v, v', N, EI v''', EI v'') are obtained by integrating statics from the bar start
(piecewise polynomials between load positions).  Used as the oracle of C01, C02 and C03.

Works on the structure as the implementation's reader produced it (dump JSON: Nodes, Bars).
Requires bars of rational length (axis-aligned or Pythagorean); returns None otherwise."""
from fractions import Fraction as Fr
from math import isqrt

from . import common as C


def F(s):
    return C.ffloat(s)


def rat_sqrt(q):
    n, d = q.numerator, q.denominator
    rn, rd = isqrt(n), isqrt(d)
    if rn * rn == n and rd * rd == d:
        return Fr(rn, rd)
    return None


# ---------------------------------------------------------------- polynomials (low degree first)

def padd(a, b):
    n = max(len(a), len(b))
    return [(a[i] if i < len(a) else 0) + (b[i] if i < len(b) else 0) for i in range(n)]


def pscale(k, a):
    return [k * x for x in a]


def pmul(a, b):
    out = [Fr(0)] * (len(a) + len(b) - 1)
    for i, x in enumerate(a):
        for j, y in enumerate(b):
            out[i + j] += x * y
    return out


def pint(a):
    """antiderivative vanishing at 0"""
    return [Fr(0)] + [x / (i + 1) for i, x in enumerate(a)]


def pder(a):
    return [x * i for i, x in enumerate(a)][1:] or [Fr(0)]


def pev(a, x):
    r = Fr(0)
    for c in reversed(a):
        r = r * x + c
    return r


def pshift(a, h):
    """coefficients of p(x + h)"""
    out = [Fr(0)]
    for c in reversed(a):
        out = padd(pmul(out, [h, Fr(1)]), [c])
    return out


def definite(a, x0, x1):
    A = pint(a)
    return pev(A, x1) - pev(A, x0)


# ---------------------------------------------------------------- bars

class Bar:
    pass


def local_of(term, v, local, c, s):
    t = {"fx": (v, Fr(0), Fr(0)), "fy": (Fr(0), v, Fr(0)), "mz": (Fr(0), Fr(0), v)}[term]
    if local:
        return t
    return (t[0] * c + t[1] * s, t[1] * c - t[0] * s, t[2])


def build_bar(jb, weight):
    b = Bar()
    b.id = jb["ID"]
    x1, y1, x2, y2 = F(jb["X1"]), F(jb["Y1"]), F(jb["X2"]), F(jb["Y2"])
    dx, dy = x2 - x1, y2 - y1
    L = rat_sqrt(dx * dx + dy * dy)
    if L is None or L == 0:
        return None
    b.L, b.c, b.s = L, dx / L, dy / L
    b.x1, b.y1 = x1, y1
    b.E, b.A, b.I, b.S = F(jb["E"]), F(jb["A"]), F(jb["I"]), F(jb["S"])
    b.n1, b.n2, b.l1, b.l2 = jb["N1"], jb["N2"], jb["L1"], jb["L2"]
    # loads in local axes: points (a, fx, fy, mz); distributed (a, b, (p1,q1,m1), (p2,q2,m2))
    b.points, b.dists = [], []
    eps = Fr(1, 10 ** 10)
    for l in jb.get("CL") or []:
        t = F(l["T"])
        # the implementation identifies positions closer than 1e-10 to the bar ends with them
        if abs(t) < eps:
            t = Fr(0)
        if abs(t - 1) < eps:
            t = Fr(1)
        b.points.append((t * L,) + local_of(l["Term"], F(l["V"]), l["Local"], b.c, b.s))
    for l in jb.get("DL") or []:
        t0, t1 = F(l["T0"]), F(l["T1"])
        b.dists.append((t0 * L, t1 * L, local_of(l["Term"], F(l["V0"]), l["Local"], b.c, b.s),
                        local_of(l["Term"], F(l["V1"]), l["Local"], b.c, b.s)))
    if weight:
        w = -F(jb["Rho"]) * b.A
        v = local_of("fy", w, False, b.c, b.s)
        b.dists.append((Fr(0), L, v, v))
    b.has_dist_moment = any(d[2][2] != 0 or d[3][2] != 0 for d in b.dists)
    return b


def k_local(b):
    EA, EI, L = b.E * b.A, b.E * b.I, b.L
    a = EA / L
    k3, k2, k1 = 12 * EI / L ** 3, 6 * EI / L ** 2, EI / L
    return [[a, 0, 0, -a, 0, 0],
            [0, k3, k2, 0, -k3, k2],
            [0, k2, 4 * k1, 0, -k2, 2 * k1],
            [-a, 0, 0, a, 0, 0],
            [0, -k3, -k2, 0, k3, -k2],
            [0, k2, 2 * k1, 0, -k2, 4 * k1]]


def shape_functions(L):
    """N1..N6 as polynomials in x: axial linear pair, Hermite cubics"""
    x = [Fr(0), Fr(1)]
    one = [Fr(1)]
    xi = pscale(1 / L, x)
    n1 = padd(one, pscale(-1, xi))
    n4 = xi
    xi2, xi3 = pmul(xi, xi), pmul(pmul(xi, xi), xi)
    h1 = padd(padd(one, pscale(-3, xi2)), pscale(2, xi3))
    h2 = pscale(L, padd(padd(xi, pscale(-2, xi2)), xi3))
    h3 = padd(pscale(3, xi2), pscale(-2, xi3))
    h4 = pscale(L, padd(pscale(-1, xi2), xi3))
    return n1, h1, h2, n4, h3, h4


def equivalent_loads(b):
    n1, h1, h2, n4, h3, h4 = shape_functions(b.L)
    f = [Fr(0)] * 6
    for (a, fx, fy, mz) in b.points:
        f[0] += pev(n1, a) * fx
        f[3] += pev(n4, a) * fx
        for k, h in ((1, h1), (2, h2), (4, h3), (5, h4)):
            f[k] += pev(h, a) * fy + pev(pder(h), a) * mz
    for (a, e, v0, v1) in b.dists:
        if e == a:
            continue
        for comp in (0, 1, 2):
            q = lin_poly(a, e, v0[comp], v1[comp])
            if comp == 0:
                f[0] += definite(pmul(n1, q), a, e)
                f[3] += definite(pmul(n4, q), a, e)
            elif comp == 1:
                for k, h in ((1, h1), (2, h2), (4, h3), (5, h4)):
                    f[k] += definite(pmul(h, q), a, e)
            else:
                for k, h in ((1, h1), (2, h2), (4, h3), (5, h4)):
                    f[k] += definite(pmul(pder(h), q), a, e)
    return f


def lin_poly(a, e, v0, v1):
    """the linear function through (a, v0), (e, v1)"""
    sl = (v1 - v0) / (e - a)
    return [v0 - sl * a, sl]


def rot_rows(b):
    c, s = b.c, b.s
    return [[c, s, 0], [-s, c, 0], [0, 0, 1]]


def to_local6(b, g):
    R = rot_rows(b)
    out = []
    for blk in (g[0:3], g[3:6]):
        out += [sum(R[i][j] * blk[j] for j in range(3)) for i in range(3)]
    return out


def k_global(b):
    k = k_local(b)
    R = rot_rows(b)
    T = [[Fr(0)] * 6 for _ in range(6)]
    for blk in (0, 3):
        for i in range(3):
            for j in range(3):
                T[blk + i][blk + j] = Fr(R[i][j])
    kT = [[sum(Fr(k[i][m]) * T[m][j] for m in range(6)) for j in range(6)] for i in range(6)]
    return [[sum(T[m][i] * kT[m][j] for m in range(6)) for j in range(6)] for i in range(6)]


def to_global6(b, l):
    R = rot_rows(b)
    out = []
    for blk in (l[0:3], l[3:6]):
        out += [sum(R[j][i] * blk[j] for j in range(3)) for i in range(3)]
    return out


# ---------------------------------------------------------------- solve

def gauss(Am, bv):
    n = len(bv)
    M = [row[:] + [bv[i]] for i, row in enumerate(Am)]
    for col in range(n):
        piv = None
        for r in range(col, n):
            if M[r][col] != 0:
                piv = r
                break
        if piv is None:
            return None
        M[col], M[piv] = M[piv], M[col]
        pv = M[col][col]
        M[col] = [x / pv for x in M[col]]
        for r in range(n):
            if r != col and M[r][col] != 0:
                f = M[r][col]
                M[r] = [x - f * y for x, y in zip(M[r], M[col])]
    return [M[i][n] for i in range(n)]


class Exact:
    pass


def solve(out, weight):
    """out: dump of the parsed structure.  Returns an Exact with the bar fields and reactions,
    None when a bar has an irrational length, or the string 'singular' for a mechanism."""
    bars = []
    for jb in out["Bars"]:
        b = build_bar(jb, weight)
        if b is None:
            return None
        bars.append(b)
    nodes = {n["ID"]: n for n in out["Nodes"]}
    ndof = {}
    nxt = 0
    for nid in nodes:
        ndof[nid] = (nxt, nxt + 1, nxt + 2)
        nxt += 3
    for b in bars:
        d = []
        for nid, lk in ((b.n1, b.l1), (b.n2, b.l2)):
            for k in range(3):
                if lk[k]:
                    d.append(ndof[nid][k])
                else:
                    d.append(nxt)
                    nxt += 1
        b.dofs = d
    n = nxt
    K = [[Fr(0)] * n for _ in range(n)]
    f = [Fr(0)] * n
    for b in bars:
        kg = k_global(b)
        b.feq_local = equivalent_loads(b)
        fg = to_global6(b, b.feq_local)
        for i in range(6):
            f[b.dofs[i]] += fg[i]
            for j in range(6):
                K[b.dofs[i]][b.dofs[j]] += kg[i][j]
    sup = set()
    for nid, nd in nodes.items():
        for k, on in enumerate((nd["Dx"], nd["Dy"], nd["Rz"])):
            if on:
                sup.add(ndof[nid][k])
    used = {d for b in bars for d in b.dofs}
    Kc = [row[:] for row in K]
    fc = f[:]
    for i in range(n):
        if i in sup or i not in used:
            for j in range(n):
                Kc[i][j] = Fr(0)
                Kc[j][i] = Fr(0)
            Kc[i][i] = Fr(1)
            fc[i] = Fr(0)
    u = gauss(Kc, fc)
    if u is None:
        return "singular"
    ex = Exact()
    ex.bars, ex.u, ex.ndof, ex.n = {b.id: b for b in bars}, u, ndof, n
    # reactions: what the bars take from each supported node's constrained components
    ex.reactions = {}
    for nid, nd in nodes.items():
        if nd["Dx"] or nd["Dy"] or nd["Rz"]:
            ex.reactions[nid] = [Fr(0)] * 3
    for b in bars:
        dg = [u[d] for d in b.dofs]
        b.d_local = to_local6(b, dg)
        kl = k_local(b)
        b.end_forces_local = [sum(Fr(kl[i][j]) * b.d_local[j] for j in range(6)) - b.feq_local[i] for i in range(6)]
        eg = to_global6(b, b.end_forces_local)
        for e, (nid, lk) in enumerate(((b.n1, b.l1), (b.n2, b.l2))):
            if nid in ex.reactions:
                for k in range(3):
                    if lk[k]:
                        ex.reactions[nid][k] += eg[3 * e + k]
        integrate_bar(b)
    # a reaction has a component only where the support constrains
    for nid, r in ex.reactions.items():
        nd = nodes[nid]
        for k, on in enumerate((nd["Dx"], nd["Dy"], nd["Rz"])):
            if not on:
                r[k] = Fr(0)
    return ex


def integrate_bar(b, start=None):
    """piecewise fields on [0, L]: segments (x0, x1, dict of polynomials in s = x - x0).
    start = (N, Vy, M) just right of x = 0 (after the point loads acting at 0), when the
    integration is to begin from given section forces instead of the solved end forces."""
    L = b.L
    cuts = {Fr(0), L}
    for p in b.points:
        cuts.add(p[0])
    for d in b.dists:
        cuts.add(d[0])
        cuts.add(d[1])
    cuts = sorted(x for x in cuts if 0 <= x <= L)
    EA, EI = b.E * b.A, b.E * b.I
    Fx0, Fy0, Mz0 = b.end_forces_local[0:3]
    # state at the right side of x = 0 (after the point loads acting exactly at 0)
    N = -Fx0
    Vy = -Fy0     # force of the right part on the left part, +y
    M = -Mz0      # moment of the right part on the left part at the cut
    u, v, th = b.d_local[0], b.d_local[1], b.d_local[2]
    if start is not None:
        N, Vy, M = start
    segs = []
    for k in range(len(cuts) - 1):
        x0, x1 = cuts[k], cuts[k + 1]
        for (a, fx, fy, mz) in b.points:
            if a == x0 and not (start is not None and k == 0):
                N -= fx
                Vy -= fy
                M -= mz
        # distributed intensities on this segment as polynomials of the local s = x - x0
        p, q, m = [Fr(0)], [Fr(0)], [Fr(0)]
        for (a, e, v0, v1) in b.dists:
            if e > a and a <= x0 and x1 <= e:
                p = padd(p, pshift(lin_poly(a, e, v0[0], v1[0]), x0))
                q = padd(q, pshift(lin_poly(a, e, v0[1], v1[1]), x0))
                m = padd(m, pshift(lin_poly(a, e, v0[2], v1[2]), x0))
        Np = padd([N], pscale(-1, pint(p)))                 # N' = -p
        Vp = padd([Vy], pscale(-1, pint(q)))                # Vy' = -q
        Mp = padd([M], pscale(-1, padd(pint(Vp), pint(m))))  # M' = -Vy - m
        thp = padd([th], pscale(1 / EI, pint(Mp)))          # EI v'' = M
        vp = padd([v], pint(thp))
        up = padd([u], pscale(1 / EA, pint(Np)))            # EA u' = N
        segs.append((x0, x1, {"N": Np, "Vy": Vp, "M": Mp, "th": thp, "v": vp, "u": up}))
        h = x1 - x0
        N, Vy, M, th, v, u = pev(Np, h), pev(Vp, h), pev(Mp, h), pev(thp, h), pev(vp, h), pev(up, h)
    b.segs = segs
    b.end_state = (u, v, th)


def fields_at(b, x, side):
    """(u, v, theta, N, shear (= EI v''' = -Vy), M) at x, side = 'L' (limit from the left) or 'R'."""
    segs = b.segs
    for (x0, x1, P) in (segs if side == "R" else reversed(segs)):
        inside = (x0 <= x < x1) if side == "R" else (x0 < x <= x1)
        if inside:
            h = x - x0
            return (pev(P["u"], h), pev(P["v"], h), pev(P["th"], h), pev(P["N"], h), -pev(P["Vy"], h), pev(P["M"], h))
    # x = 0 from the left or x = L from the right: the nearest segment's end
    if side == "L":
        x0, x1, P = segs[0]
        h = Fr(0)
    else:
        x0, x1, P = segs[-1]
        h = x1 - x0
    return (pev(P["u"], h), pev(P["v"], h), pev(P["th"], h), pev(P["N"], h), -pev(P["Vy"], h), pev(P["M"], h))


def self_check(ex):
    """The integrated fields must arrive at the end displacements the solve produced."""
    bad = []
    for b in ex.bars.values():
        for k in range(3):
            if b.end_state[k] != b.d_local[3 + k]:
                bad.append((b.id, k, float(b.end_state[k]), float(b.d_local[3 + k])))
    return bad
