module verifharness

go 1.21

require (
	github.com/angelsolaorbaiceta/inkfem v0.0.0
	github.com/angelsolaorbaiceta/inkgeom v0.1.5
	github.com/angelsolaorbaiceta/inkmath v0.2.6
)

require github.com/ajstarks/svgo v0.0.0-20211024235047-1546f124cd8b // indirect

replace github.com/angelsolaorbaiceta/inkfem => /repo
