package main

import (
	"go/ast"
	"os"
	"os/exec"
	"path/filepath"
	"regexp"
	"strings"
)

// genPcg ties the model of the iterative solver (Proofs/PcgProofs.v) to the text it models: the loop of
// PreconditionedConjugateGradientSolver.Solve in the inkmath release that /repo's go.mod pins, and the preconditioner
// /repo hands to it (computePreconditioner, diagonalMatrix.TimesVector in process/solve_displacements.go). Every
// statement is compared with what the model follows; the definitions are then emitted as they stand.
func genPcg(repo string) string {
	gomod, err := os.ReadFile(filepath.Join(repo, "go.mod"))
	if err != nil {
		fatal("cannot read go.mod: %v", err)
	}
	m := regexp.MustCompile(`github\.com/angelsolaorbaiceta/inkmath\s+(v[0-9][^\s]*)`).FindStringSubmatch(string(gomod))
	if m == nil {
		fatal("go.mod no longer requires github.com/angelsolaorbaiceta/inkmath")
	}
	var dir string
	if _, err := os.Stat(filepath.Join(repo, "vendor", "github.com", "angelsolaorbaiceta", "inkmath")); err == nil {
		dir = filepath.Join(repo, "vendor", "github.com", "angelsolaorbaiceta", "inkmath")
	} else {
		cache := os.Getenv("GOMODCACHE")
		if cache == "" {
			if out, err := exec.Command("go", "env", "GOMODCACHE").Output(); err == nil {
				cache = strings.TrimSpace(string(out))
			}
		}
		if cache == "" {
			cache = filepath.Join(os.Getenv("HOME"), "go", "pkg", "mod")
		}
		dir = filepath.Join(cache, "github.com", "angelsolaorbaiceta", "inkmath@"+m[1])
	}
	src := parseFile(dir, "lineq/preconjgrad.go")
	fd := src.funcDecl("PreconditionedConjugateGradientSolver", "Solve")
	var body []string
	var loop *ast.ForStmt
	for _, s := range fd.Body.List {
		if fs, ok := s.(*ast.ForStmt); ok {
			loop = fs
			body = append(body, "<loop>")
			continue
		}
		body = append(body, normalize(src.text(s)))
	}
	has := func(want string) bool {
		for _, s := range body {
			if s == want {
				return true
			}
		}
		return false
	}
	if loop == nil || !has("r=b.Minus(a.TimesVector(x))") || !has("p=precond.TimesVector(r)") ||
		body[len(body)-1] != "returnmakeErrorSolution(iter,computeMaxError(r),x)" {
		fatal("%s: the solver no longer starts from r = b - A x, p = M r and returns x", src.pos(fd))
	}
	// x starts as the zero vector
	if !strings.Contains(normalize(src.text(fd.Body.List[0])), "x=vec.MakeReadOnly(size)") {
		fatal("%s: the solver no longer starts from the zero vector", src.pos(fd))
	}
	// nothing after the loop but the notification and the return; the two initial statements stand right before the loop
	k := -1
	for i, s := range body {
		if s == "<loop>" {
			k = i
		}
	}
	if k < 2 || body[k-2] != "r=b.Minus(a.TimesVector(x))" || body[k-1] != "p=precond.TimesVector(r)" ||
		len(body) != k+3 || body[k+1] != "notifyProgress()" {
		fatal("%s: statements around the iteration loop of the solver changed", src.pos(fd))
	}
	if normalize(src.text(loop.Init))+";"+normalize(src.text(loop.Cond))+";"+normalize(src.text(loop.Post)) != "iter=0;iter<solver.MaxIter;iter++" {
		fatal("%s: the iteration loop of the solver changed", src.pos(loop))
	}
	want := []string{
		"ifsolutionGoodEnough(){break}",
		"notifyProgress()",
		"alpha=r.Times(precond.TimesVector(r))/(p.Times(a.TimesVector(p)))",
		"x=x.Plus(p.Scaled(alpha))",
		"oldr=r.Clone()",
		"r=oldr.Minus(a.TimesVector(p).Scaled(alpha))",
		"precondTimesR=precond.TimesVector(r)",
		"beta=r.Times(precondTimesR)/oldr.Times(precond.TimesVector(oldr))",
		"p=precondTimesR.Plus(p.Scaled(beta))",
	}
	if len(loop.Body.List) != len(want) {
		fatal("%s: the iteration of the solver has %d statements, the model follows %d", src.pos(loop), len(loop.Body.List), len(want))
	}
	for i, s := range loop.Body.List {
		if got := normalize(src.text(s)); got != want[i] {
			fatal("%s: statement %d of the iteration of the solver is no longer what the model follows: %s (the model has %s)", src.pos(s), i+1, got, want[i])
		}
	}
	// the preconditioner of /repo: the inverse of the diagonal, applied entry by entry
	sd := parseFile(repo, "process/solve_displacements.go")
	cp := sd.funcDecl("", "computePreconditioner")
	if !strings.Contains(normalize(sd.text(cp.Body)), "fori:=0;i<sysMat.Rows();i++{precond[i]=1.0/sysMat.Value(i,i)}") ||
		!strings.Contains(normalize(sd.text(cp.Body)), "precond:=make(diagonalMatrix,sysMat.Rows())") {
		fatal("%s: the preconditioner is no longer the inverse of the diagonal of the system matrix", sd.pos(cp))
	}
	tv := sd.funcDecl("diagonalMatrix", "TimesVector")
	if normalize(sd.text(tv.Body)) != "{result:=vec.Make(len(m))fori,value:=rangem{result.SetValue(i,value*v.Value(i))}returnresult}" {
		fatal("%s: diagonalMatrix.TimesVector no longer multiplies entry by entry", sd.pos(tv))
	}
	// the solver literal takes this preconditioner and the assembled system
	cg := sd.funcDecl("", "computeGlobalDisplacements")
	t := normalize(sd.text(cg.Body))
	if !strings.Contains(t, "Preconditioner:computePreconditioner(sysMatrix)") || !strings.Contains(t, "solver.Solve(sysMatrix,sysVector)") {
		fatal("%s: the solver is no longer given the assembled system and its diagonal preconditioner", sd.pos(cg))
	}

	var b strings.Builder
	b.WriteString("(* GENERATED on every run by /verif/harness/cmd/translate: the statements of PreconditionedConjugateGradientSolver.Solve\n" +
		"   (inkmath " + m[1] + ", lineq/preconjgrad.go, the release pinned by /repo's go.mod) and of computePreconditioner /\n" +
		"   diagonalMatrix.TimesVector (process/solve_displacements.go) were compared, one by one, with what is written below - never edited by hand. *)\n")
	b.WriteString("From Coq Require Import QArith List.\nImport ListNotations.\nLocal Open Scope Q_scope.\n\n")
	b.WriteString("Section Pcg.\nVariable n : nat.                 (* number of equations *)\nVariable A : nat -> nat -> Q.     (* the assembled matrix *)\nVariable b : nat -> Q.            (* the assembled load vector *)\n\n")
	b.WriteString("Definition pcg_dot (u v : nat -> Q) : Q := fold_left (fun acc j => acc + u j * v j) (seq 0 n) 0.\n")
	b.WriteString("Definition pcg_mv (u : nat -> Q) (i : nat) : Q := fold_left (fun acc j => acc + A i j * u j) (seq 0 n) 0.\n")
	b.WriteString("(* computePreconditioner, diagonalMatrix.TimesVector *)\nDefinition pcg_pre (u : nat -> Q) (i : nat) : Q := (1 / A i i) * u i.\n\n")
	b.WriteString("Record pcg_state := { pcg_x : nat -> Q; pcg_r : nat -> Q; pcg_p : nat -> Q }.\n")
	b.WriteString("(* x = 0; r = b.Minus(a.TimesVector(x)); p = precond.TimesVector(r) *)\n")
	b.WriteString("Definition pcg_init : pcg_state :=\n  let x := fun _ : nat => 0 in let r := fun i => b i - pcg_mv x i in\n  {| pcg_x := x; pcg_r := r; pcg_p := pcg_pre r |}.\n")
	b.WriteString("(* one pass of the loop body *)\n")
	b.WriteString("Definition pcg_step (s : pcg_state) : pcg_state :=\n" +
		"  let alpha := pcg_dot (pcg_r s) (pcg_pre (pcg_r s)) / pcg_dot (pcg_p s) (pcg_mv (pcg_p s)) in\n" +
		"  let x := fun i => pcg_x s i + alpha * pcg_p s i in\n" +
		"  let oldr := pcg_r s in\n" +
		"  let r := fun i => oldr i - alpha * pcg_mv (pcg_p s) i in\n" +
		"  let precondTimesR := pcg_pre r in\n" +
		"  let beta := pcg_dot r precondTimesR / pcg_dot oldr (pcg_pre oldr) in\n" +
		"  {| pcg_x := x; pcg_r := r; pcg_p := fun i => precondTimesR i + beta * pcg_p s i |}.\n")
	b.WriteString("(* the loop leaves after any number of passes (good enough, or MaxIter) and x is returned *)\n")
	b.WriteString("Fixpoint pcg_iter (k : nat) (s : pcg_state) : pcg_state := match k with O => s | S k' => pcg_iter k' (pcg_step s) end.\n")
	b.WriteString("Definition pcg_answer (k : nat) : nat -> Q := pcg_x (pcg_iter k pcg_init).\nEnd Pcg.\n")
	return b.String()
}
