package main

import (
	"fmt"
	"go/ast"
	"regexp"
	"strings"
)

// genAssemble translates the shape of the assembly of the global system
// (preprocess/structure.go MakeSystemOfEquations; preprocess/element.go setEquationTerms,
// addTermsToStiffnessMatrix, addTermsToLoadVector): which six equation numbers a finite element's
// 6x6 matrix is placed at, which three numbers a node's net load goes to, the order of the steps, and
// that the bars are assembled one after the other by plain loops (the model's folds), with nothing
// started concurrently. Proofs/AssembleShape.v proves the generated definitions equal to Model/Assemble.v.
func genAssemble(repo string) string {
	st := parseFile(repo, "preprocess/structure.go")
	el := parseFile(repo, "preprocess/element.go")

	sequential := func(src *source, fd *ast.FuncDecl) {
		ast.Inspect(fd.Body, func(n ast.Node) bool {
			switch v := n.(type) {
			case *ast.GoStmt:
				fatal("%s: %s starts a goroutine: the model assembles the bars one after the other", src.pos(v), fd.Name.Name)
			case *ast.DeferStmt, *ast.SelectStmt, *ast.SendStmt:
				fatal("%s: %s defers, selects or sends: the model assembles the bars by plain loops", src.pos(n), fd.Name.Name)
			case *ast.SelectorExpr:
				if id, ok := v.X.(*ast.Ident); ok && (id.Name == "sync" || id.Name == "atomic" || id.Name == "errgroup") {
					fatal("%s: %s uses %s: the model assembles the bars one after the other", src.pos(v), fd.Name.Name, src.text(v))
				}
			case *ast.UnaryExpr:
				if v.Op.String() == "<-" {
					fatal("%s: %s receives from a channel: the model assembles the bars by plain loops", src.pos(v), fd.Name.Name)
				}
			}
			return true
		})
	}
	stmts := func(src *source, fd *ast.FuncDecl) []string {
		var out []string
		for _, s := range fd.Body.List {
			if ds, ok := s.(*ast.DeclStmt); ok {
				out = append(out, "var:"+normalize(src.text(ds)))
				continue
			}
			out = append(out, normalize(src.text(s)))
		}
		return out
	}
	expect := func(src *source, fd *ast.FuncDecl, got, want []string) {
		if len(got) != len(want) {
			fatal("%s: %s has %d statements, the model follows %d", src.pos(fd), fd.Name.Name, len(got), len(want))
		}
		for i := range want {
			if strings.HasPrefix(want[i], "re:") {
				if !regexp.MustCompile("^" + want[i][3:] + "$").MatchString(got[i]) {
					fatal("%s: statement %d of %s is no longer what the model follows: %s", src.pos(fd.Body.List[i]), i+1, fd.Name.Name, got[i])
				}
			} else if got[i] != want[i] {
				fatal("%s: statement %d of %s is no longer what the model follows: %s (the model has %s)", src.pos(fd.Body.List[i]), i+1, fd.Name.Name, got[i], want[i])
			}
		}
	}

	// MakeSystemOfEquations: the steps and their order
	mk := st.funcDecl("Structure", "MakeSystemOfEquations")
	sequential(st, mk)
	expect(st, mk, stmts(st, mk), []string{
		"var:var(sysMatrix=mat.MakeSparse(str.DofsCount(),str.DofsCount())sysVector=vec.Make(str.DofsCount()))",
		"for_,element:=rangestr.Elements(){element.setEquationTerms(sysMatrix,sysVector)}",
		"fordof:=0;dof<str.DofsCount();dof++{iflen(sysMatrix.NonZeroIndicesAtRow(dof))==0{sysMatrix.SetIdentityRow(dof)}}",
		"str.addDispConstraints(sysMatrix,sysVector)",
		"returnsysMatrix,sysVector",
	})
	// Elements(): the bars in the order the model folds over
	es := parseFile(repo, "preprocess/elements.go")
	els := es.funcDecl("ElementsSeq", "Elements")
	expect(es, els, stmts(es, els), []string{"returnel.elements"})

	// setEquationTerms: stiffness, then loads
	se := el.funcDecl("Element", "setEquationTerms")
	sequential(el, se)
	expect(el, se, stmts(el, se), []string{
		"element.addTermsToStiffnessMatrix(matrix)",
		"element.addTermsToLoadVector(vector)",
	})

	// addTermsToStiffnessMatrix
	sm := el.funcDecl("Element", "addTermsToStiffnessMatrix")
	sequential(el, sm)
	got := stmts(el, sm)
	if len(got) != 2 || !strings.HasPrefix(got[0], "var:") {
		fatal("%s: addTermsToStiffnessMatrix is no longer declarations followed by one loop over the slices", el.pos(sm))
	}
	loop, ok := sm.Body.List[1].(*ast.ForStmt)
	if !ok || normalize(el.text(loop.Init))+";"+normalize(el.text(loop.Cond))+";"+normalize(el.text(loop.Post)) != "i:=1;i<len(element.nodes);i++" {
		fatal("%s: addTermsToStiffnessMatrix no longer visits every slice i = 1 .. len(nodes)-1", el.pos(sm))
	}
	var dofsLit *ast.CompositeLit
	body := []string{}
	for _, s := range loop.Body.List {
		if as, ok := s.(*ast.AssignStmt); ok && len(as.Lhs) == 1 && normalize(el.text(as.Lhs[0])) == "dofs" {
			if cl, ok := as.Rhs[0].(*ast.CompositeLit); ok {
				dofsLit = cl
				body = append(body, "dofs=<numbers>")
				continue
			}
		}
		body = append(body, normalize(el.text(s)))
	}
	wantBody := []string{
		"trailNode,leadNode=element.nodes[i-1],element.nodes[i]",
		"trailNodeDofs,leadNodeDofs=trailNode.DegreesOfFreedomNum(),leadNode.DegreesOfFreedomNum()",
		"stiffMat=element.StiffnessGlobalMat(trailNode.T,leadNode.T)",
		"dofs=<numbers>",
		"forrow:=0;row<stiffMat.Rows();row++{forcol:=0;col<stiffMat.Cols();col++{ifstiffVal=stiffMat.Value(row,col);!nums.IsCloseToZero(stiffVal){matrix.AddToValue(dofs[row],dofs[col],stiffVal)}}}",
	}
	if len(body) != len(wantBody) {
		fatal("%s: the loop of addTermsToStiffnessMatrix has %d statements, the model follows %d", el.pos(loop), len(body), len(wantBody))
	}
	for i := range wantBody {
		if body[i] != wantBody[i] {
			fatal("%s: statement %d of the loop of addTermsToStiffnessMatrix is no longer what the model follows: %s (the model has %s)",
				el.pos(loop.Body.List[i]), i+1, body[i], wantBody[i])
		}
	}
	if dofsLit == nil || normalize(el.text(dofsLit.Type)) != "[6]int" || len(dofsLit.Elts) != 6 {
		fatal("%s: the six equation numbers of a slice are no longer a [6]int literal", el.pos(loop))
	}
	comp := map[string]string{"0": "fst (fst %s)", "1": "snd (fst %s)", "2": "snd %s"}
	num := func(x ast.Expr, names map[string]string) string {
		ix, ok := x.(*ast.IndexExpr)
		if !ok {
			fatal("%s: equation number %s is not a component of a node's numbers", el.pos(x), el.text(x))
		}
		who, ok1 := names[normalize(el.text(ix.X))]
		c, ok2 := comp[normalize(el.text(ix.Index))]
		if !ok1 || !ok2 {
			fatal("%s: equation number %s is not a component of a node's numbers", el.pos(x), el.text(x))
		}
		return fmt.Sprintf(c, who)
	}
	var six []string
	for _, x := range dofsLit.Elts {
		six = append(six, num(x, map[string]string{"trailNodeDofs": "t", "leadNodeDofs": "l"}))
	}

	// addTermsToLoadVector
	lv := el.funcDecl("Element", "addTermsToLoadVector")
	sequential(el, lv)
	got = stmts(el, lv)
	if len(got) != 2 || got[0] != "var:var(globalTorsor*math.Torsordofs[3]intrefFrame=element.RefFrame())" {
		fatal("%s: addTermsToLoadVector is no longer declarations followed by one loop over the nodes: %v", el.pos(lv), got)
	}
	rl, ok := lv.Body.List[1].(*ast.RangeStmt)
	if !ok || normalize(el.text(rl.X)) != "element.nodes" || normalize(el.text(rl.Value)) != "node" {
		fatal("%s: addTermsToLoadVector no longer visits every node of the bar", el.pos(lv))
	}
	if len(rl.Body.List) != 5 ||
		normalize(el.text(rl.Body.List[0])) != "globalTorsor=node.NetLocalLoadTorsor().ProjectedToGlobal(refFrame)" ||
		normalize(el.text(rl.Body.List[1])) != "dofs=node.DegreesOfFreedomNum()" {
		fatal("%s: the loop of addTermsToLoadVector is no longer: net load projected to global axes, numbers of the node, three additions", el.pos(rl))
	}
	var terms []string
	setRe := regexp.MustCompile(`^sysVector\.SetValue\((dofs\[[0-2]\]),sysVector\.Value\((dofs\[[0-2]\])\)\+globalTorsor\.(Fx|Fy|Mz)\(\)\)$`)
	for _, s := range rl.Body.List[2:] {
		m := setRe.FindStringSubmatch(normalize(el.text(s)))
		if m == nil || m[1] != m[2] {
			fatal("%s: a load term is no longer added to the entry it reads: %s", el.pos(s), el.text(s))
		}
		k := m[1][5:6]
		terms = append(terms, fmt.Sprintf("(%s, %s)", fmt.Sprintf(comp[k], "d"), strings.ToLower(m[3])))
	}

	// addDispConstraints: which numbers of a supported node get the trivial equation
	dc := st.funcDecl("Structure", "addDispConstraints")
	sequential(st, dc)
	got = stmts(st, dc)
	if len(got) != 3 || got[0] != "var:var(constraint*structure.Constraintdofs[3]int)" ||
		got[1] != "addConstraintAtDof:=func(dofint){matrix.SetZeroCol(dof)matrix.SetIdentityRow(dof)vector.SetZero(dof)}" {
		fatal("%s: addDispConstraints is no longer: declarations, the trivial equation of one number (zero column, identity row, zero load), one loop over the nodes: %v", st.pos(dc), got)
	}
	nl, ok := dc.Body.List[2].(*ast.RangeStmt)
	if !ok || normalize(st.text(nl.X)) != "s.GetAllNodes()" || normalize(st.text(nl.Value)) != "node" || len(nl.Body.List) != 1 {
		fatal("%s: addDispConstraints no longer visits every node of the structure", st.pos(dc))
	}
	guard, ok := nl.Body.List[0].(*ast.IfStmt)
	if !ok || guard.Else != nil || guard.Init != nil ||
		normalize(st.text(guard.Cond)) != "node.IsExternallyConstrained()&&node.HasDegreesOfFreedomNum()" || len(guard.Body.List) != 5 ||
		normalize(st.text(guard.Body.List[0])) != "constraint=node.ExternalConstraint" ||
		normalize(st.text(guard.Body.List[1])) != "dofs=node.DegreesOfFreedomNum()" {
		fatal("%s: addDispConstraints no longer takes the supported nodes that have equation numbers, their constraint and their numbers", st.pos(nl))
	}
	which := map[string]string{"AllowsDispX": "dx", "AllowsDispY": "dy", "AllowsRotation": "rz"}
	supRe := regexp.MustCompile(`^if!constraint\.(AllowsDispX|AllowsDispY|AllowsRotation)\(\)\{addConstraintAtDof\(dofs\[([0-2])\]\)\}$`)
	var sup []string
	for _, s := range guard.Body.List[2:] {
		m := supRe.FindStringSubmatch(normalize(st.text(s)))
		if m == nil {
			fatal("%s: a support component is no longer 'if the constraint does not allow it, the trivial equation at its number': %s", st.pos(s), st.text(s))
		}
		sup = append(sup, fmt.Sprintf("(if %s then [%s] else [])", which[m[1]], fmt.Sprintf(comp[m[2]], "d")))
	}

	var b strings.Builder
	b.WriteString("(* GENERATED on every run by /verif/harness/cmd/translate from preprocess/structure.go (MakeSystemOfEquations, addDispConstraints)\n" +
		"   and preprocess/element.go (setEquationTerms, addTermsToStiffnessMatrix, addTermsToLoadVector) — never edited by hand. *)\n")
	b.WriteString("From Coq Require Import List.\nImport ListNotations.\n\n")
	b.WriteString("(* the six equation numbers a finite element's 6x6 matrix is placed at: t the numbers of its trailing node, l of its leading node *)\n")
	fmt.Fprintf(&b, "Definition asm_slice_numbers (t l : nat * nat * nat) : list nat :=\n  [%s].\n\n", strings.Join(six, "; "))
	b.WriteString("(* the entries of the load vector a node's net load (global axes) is added to: d the numbers of the node *)\n")
	fmt.Fprintf(&b, "Definition asm_load_terms {F : Type} (d : nat * nat * nat) (fx fy mz : F) : list (nat * F) :=\n  [%s].\n\n", strings.Join(terms, "; "))
	b.WriteString("(* the numbers of a supported node that get the trivial equation x = 0 (zero column, identity row, zero load):\n" +
		"   dx dy rz say which components the support holds, d the numbers of the node *)\n")
	fmt.Fprintf(&b, "Definition asm_supported_numbers (dx dy rz : bool) (d : nat * nat * nat) : list nat :=\n  %s.\n\n", strings.Join(sup, " ++ "))
	b.WriteString("(* MakeSystemOfEquations: every bar in turn (its stiffness terms, then its load terms), then the trivial equation for\n" +
		"   the numbers no bar refers to, then the supports — plain loops, nothing started concurrently (checked on the syntax tree) *)\n")
	b.WriteString("Inductive asm_step := AsmBarStiffness | AsmBarLoads | AsmTrivialRows | AsmSupports.\n")
	b.WriteString("Definition asm_per_bar : list asm_step := [AsmBarStiffness; AsmBarLoads].\n")
	b.WriteString("Definition asm_after_bars : list asm_step := [AsmTrivialRows; AsmSupports].\n")
	b.WriteString("Definition asm_bars_one_after_the_other : bool := true.\n")
	b.WriteString("(* a stiffness term is added unless nums.IsCloseToZero says it is negligible *)\n")
	b.WriteString("Definition asm_skips_negligible_terms : bool := true.\n")
	return b.String()
}
