// Command translate regenerates /verif/coq/Gen/*.v from the current Go sources of the
// repository under verification. When a translated function no longer has a shape it understands,
// the generator concerned stops (message TRANSLATOR-STOP) and its file becomes a stub that does not compile.
package main

import (
	"flag"
	"fmt"
	"os"
	"path/filepath"
	"strings"
)

func runGen(fn func(string) string, repo string) (text, stop string) {
	defer func() {
		if r := recover(); r != nil {
			if ts, ok := r.(translatorStop); ok {
				stop = ts.msg
				return
			}
			stop = fmt.Sprintf("translator panic: %v", r)
		}
	}()
	return fn(repo), ""
}

func main() {
	repo := flag.String("repo", "/repo", "repository working tree")
	out := flag.String("out", "/verif/coq/Gen", "output directory")
	flag.Parse()

	gens := []struct {
		file string
		fn   func(string) string
	}{
		{"GenStiffness.v", genStiffness},
	}
	gens = append(gens, moreGens()...)

	if err := os.MkdirAll(*out, 0o755); err != nil {
		fatal("%v", err)
	}
	for _, g := range gens {
		text, stop := runGen(g.fn, *repo)
		if stop != "" {
			msg := strings.ReplaceAll(strings.ReplaceAll(stop, "*)", "* )"), "\n", " ")
			text = "(* TRANSLATOR-STOP: " + msg + " *)\n(* deliberately ill-typed: what depends on this file no longer checks *)\n" +
				"Definition translator_stop : False := I.\n"
			fmt.Fprintf(os.Stderr, "TRANSLATOR-STOP: %s: %s\n", g.file, msg)
			fmt.Printf("stopped %s: %s\n", g.file, msg)
		} else {
			fmt.Println("generated", g.file)
		}
		writeIfChanged(filepath.Join(*out, g.file), text)
	}
}
