// Command translate regenerates /verif/coq/Gen/*.v from the current Go sources of the
// repository under verification. It stops (exit status 3, message TRANSLATOR-STOP) when
// a translated function no longer has a shape it understands.
package main

import (
	"flag"
	"fmt"
	"os"
	"path/filepath"
)

func main() {
	repo := flag.String("repo", "/repo", "repository working tree")
	out := flag.String("out", "/verif/coq/Gen", "output directory")
	flag.Parse()

	gens := []struct {
		file string
		fn   func(string) string
	}{
		{"GenStiffness.v", genStiffness},
	}
	gens = append(gens, moreGens()...)

	if err := os.MkdirAll(*out, 0o755); err != nil {
		fatal("%v", err)
	}
	for _, g := range gens {
		writeIfChanged(filepath.Join(*out, g.file), g.fn(*repo))
		fmt.Println("generated", g.file)
	}
}
