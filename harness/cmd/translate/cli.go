package main

// GenCli.v: the synchronisation skeleton of `solve -p` (cmd/solve.go), read off the Go AST:
// where the wait-group is incremented, where the .inkfempre file is created, whether the
// background writer signals completion and whether the main flow waits for it before returning.

import (
	"fmt"
	"go/ast"
	"strings"
)

func genCli(repo string) string {
	src := parseFile(repo, "cmd/solve.go")
	fd := src.funcDecl("", "solveStructure")
	var goStmt *ast.GoStmt
	ast.Inspect(fd.Body, func(n ast.Node) bool {
		if g, ok := n.(*ast.GoStmt); ok && goStmt == nil {
			goStmt = g
		}
		return true
	})
	if goStmt == nil {
		fatal("%s: solveStructure no longer starts a background writer", src.path)
	}
	inside := func(n ast.Node) bool { return n.Pos() >= goStmt.Pos() && n.End() <= goStmt.End() }
	type site struct {
		found  bool
		inGo   bool
		before bool // before the go statement (when outside it)
		pos    int
		defers bool
	}
	find := func(match func(string) bool) site {
		var s site
		ast.Inspect(fd.Body, func(n ast.Node) bool {
			switch v := n.(type) {
			case *ast.DeferStmt:
				if match(src.text(v.Call)) && !s.found {
					s = site{true, inside(v), v.Pos() < goStmt.Pos(), int(v.Pos()), true}
				}
			case *ast.CallExpr:
				if match(src.text(v)) && !s.found {
					s = site{true, inside(v), v.Pos() < goStmt.Pos(), int(v.Pos()), false}
				}
			}
			return true
		})
		return s
	}
	add := find(func(t string) bool { return strings.HasSuffix(t, ".Add(1)") })
	done := find(func(t string) bool { return strings.HasSuffix(t, ".Done()") })
	wait := find(func(t string) bool { return strings.HasSuffix(t, ".Wait()") })
	createPre := find(func(t string) bool { return strings.Contains(t, "CreateFile(") && strings.Contains(t, "PreFileExt") })
	createSol := find(func(t string) bool { return strings.Contains(t, "CreateFile(") && strings.Contains(t, "SolFileExt") })
	writeSol := find(func(t string) bool { return strings.HasPrefix(t, "iosol.Write(") })
	writePre := find(func(t string) bool { return strings.HasPrefix(t, "iopre.Write(") })
	solveCall := find(func(t string) bool { return strings.HasPrefix(t, "process.Solve(") })
	for name, s := range map[string]site{"pre-file creation": createPre, "solution-file creation": createSol, "iosol.Write": writeSol, "iopre.Write": writePre, "process.Solve": solveCall} {
		if !s.found {
			fatal("%s: %s not found in solveStructure", src.path, name)
		}
	}
	if !writePre.inGo {
		fatal("%s: the preprocessed file is no longer written by the background goroutine", src.path)
	}
	b := func(v bool) string {
		if v {
			return "true"
		}
		return "false"
	}
	var out strings.Builder
	out.WriteString("(* GENERATED on every run by /verif/harness/cmd/translate from cmd/solve.go (solveStructure) - never edited by hand. *)\n\n")
	fmt.Fprintf(&out, "(* the wait-group is incremented by the main flow before the writer is started *)\nDefinition cli_add_before_spawn : bool := %s.\n", b(add.found && !add.inGo && add.before))
	fmt.Fprintf(&out, "(* the writer signals completion (deferred Done inside the goroutine) *)\nDefinition cli_writer_signals_done : bool := %s.\n", b(done.found && done.inGo))
	fmt.Fprintf(&out, "(* the main flow waits for the writer after the solution has been written *)\nDefinition cli_waits_at_end : bool := %s.\n", b(wait.found && !wait.inGo && wait.pos > writeSol.pos))
	fmt.Fprintf(&out, "(* the .inkfempre file is created by the main flow before the solver runs *)\nDefinition cli_pre_created_first : bool := %s.\n", b(!createPre.inGo && createPre.pos < solveCall.pos))
	fmt.Fprintf(&out, "(* the solution file is created only after the solver returned *)\nDefinition cli_sol_created_after_solve : bool := %s.\n", b(createSol.pos > solveCall.pos))
	return out.String()
}
