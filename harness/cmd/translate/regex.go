//go:build verif

package main

// GenRegex.v: every regular expression the readers compile (obtained from the packages
// themselves through the add-only verif exports, so string concatenation and Sprintf in the
// Go source are already resolved), parsed with regexp/syntax and printed as a Coq term.

import (
	"fmt"
	"regexp/syntax"
	"sort"
	"strings"

	inkio "github.com/angelsolaorbaiceta/inkfem/io"
	iodef "github.com/angelsolaorbaiceta/inkfem/io/def"
	iopre "github.com/angelsolaorbaiceta/inkfem/io/pre"
)

func init() {
	extraGens = append(extraGens, struct {
		file string
		fn   func(string) string
	}{"GenRegex.v", genRegex})
}

func reTerm(r *syntax.Regexp) string {
	nest := func(op string, subs []*syntax.Regexp) string {
		if len(subs) == 0 {
			return "REmpty"
		}
		out := reTerm(subs[len(subs)-1])
		for i := len(subs) - 2; i >= 0; i-- {
			out = fmt.Sprintf("(%s %s %s)", op, reTerm(subs[i]), out)
		}
		return out
	}
	if r.Flags&syntax.FoldCase != 0 && r.Op != syntax.OpLiteral {
		fatal("regex: case folding is not modelled: %s", r)
	}
	if r.Flags&syntax.NonGreedy != 0 {
		fatal("regex: non-greedy operators are not modelled: %s", r)
	}
	switch r.Op {
	case syntax.OpEmptyMatch:
		return "REmpty"
	case syntax.OpLiteral:
		parts := []string{}
		for _, c := range r.Rune {
			if c > 127 {
				fatal("regex: non-ASCII literal in %s", r)
			}
			if r.Flags&syntax.FoldCase != 0 && ((c >= 'a' && c <= 'z') || (c >= 'A' && c <= 'Z')) {
				u, l := c&^0x20, c|0x20
				parts = append(parts, fmt.Sprintf("(RClass [(%d, %d); (%d, %d)]%%N)", u, u, l, l))
				continue
			}
			parts = append(parts, fmt.Sprintf("(RLit %d)", c))
		}
		out := parts[len(parts)-1]
		for i := len(parts) - 2; i >= 0; i-- {
			out = fmt.Sprintf("(RCat %s %s)", parts[i], out)
		}
		return out
	case syntax.OpCharClass:
		rs := []string{}
		for i := 0; i+1 < len(r.Rune); i += 2 {
			lo, hi := r.Rune[i], r.Rune[i+1]
			if lo > 255 {
				continue
			}
			if hi > 255 {
				hi = 255
			}
			rs = append(rs, fmt.Sprintf("(%d, %d)", lo, hi))
		}
		return "(RClass [" + strings.Join(rs, "; ") + "]%N)"
	case syntax.OpAnyCharNotNL:
		return "(RClass [(0, 9); (11, 255)]%N)"
	case syntax.OpAnyChar:
		return "(RClass [(0, 255)]%N)"
	case syntax.OpBeginText:
		return "RBol"
	case syntax.OpEndText:
		return "REol"
	case syntax.OpCapture:
		return fmt.Sprintf("(RGrp %d %s)", r.Cap, reTerm(r.Sub[0]))
	case syntax.OpStar:
		return "(RStar " + reTerm(r.Sub[0]) + ")"
	case syntax.OpPlus:
		return "(RPlus " + reTerm(r.Sub[0]) + ")"
	case syntax.OpQuest:
		return "(ROpt " + reTerm(r.Sub[0]) + ")"
	case syntax.OpConcat:
		return nest("RCat", r.Sub)
	case syntax.OpAlternate:
		return nest("RAlt", r.Sub)
	}
	fatal("regex: operator %v is not modelled in %s", r.Op, r)
	return ""
}

func genRegex(repo string) string {
	all := map[string]string{}
	for pkg, m := range map[string]map[string]string{"io": inkio.VerifRegexSources(), "def": iodef.VerifRegexSources(), "pre": iopre.VerifRegexSources()} {
		for name, src := range m {
			all[pkg+"_"+name] = src
		}
	}
	names := make([]string, 0, len(all))
	for n := range all {
		names = append(names, n)
	}
	sort.Strings(names)
	var b strings.Builder
	b.WriteString("(* GENERATED on every run by /verif/harness/cmd/translate from the regular expressions compiled by\n   io, io/def and io/pre (read through their verif exports, parsed with regexp/syntax) - never edited by hand. *)\n")
	b.WriteString("From Coq Require Import NArith List String.\nFrom Inkfem Require Import Model.Regex.\nImport ListNotations.\nLocal Open Scope string_scope.\n\n")
	for _, n := range names {
		parsed, err := syntax.Parse(all[n], syntax.Perl)
		if err != nil {
			fatal("regex %s does not parse: %v", n, err)
		}
		simp := parsed.Simplify()
		fmt.Fprintf(&b, "(* %s *)\nDefinition re_%s : re :=\n  %s.\n", strings.ReplaceAll(all[n], "*)", "* )"), n, reTerm(simp))
		groups := []string{}
		for i, g := range parsed.CapNames() {
			if i > 0 {
				groups = append(groups, fmt.Sprintf("(%d%%nat, \"%s\")", i, g))
			}
		}
		fmt.Fprintf(&b, "Definition groups_%s : list (nat * string) := [%s].\n\n", n, strings.Join(groups, "; "))
	}
	return b.String()
}
