package main

// Translation of the three output templates (io/def, io/pre, io/sol *.template.txt) into Coq
// terms: the parse tree text/template itself builds (text/template/parse), restricted to the
// node kinds these templates use (text, field / variable actions, range with 0-2 variables,
// if / else).  Anything else stops the translator.

import (
	"fmt"
	"os"
	"path/filepath"
	"strings"
	"text/template/parse"
)

func coqStringLit(s string) string {
	var b strings.Builder
	// a Coq string literal may hold any character but the double quote (doubled); line feeds are
	// written as explicit characters so that the generated file does not depend on its own layout
	parts := strings.Split(s, "\n")
	for i, p := range parts {
		if i > 0 {
			b.WriteString(" ++ nl ++ ")
		}
		b.WriteString("\"" + strings.ReplaceAll(p, "\"", "\"\"") + "\"")
	}
	return "(" + b.String() + ")"
}

// ref renders the source of a value: (variable or "", dotted path)
func tmplRef(where string, n parse.Node) (string, string) {
	switch x := n.(type) {
	case *parse.FieldNode:
		return "", strings.Join(x.Ident, ".")
	case *parse.VariableNode:
		return x.Ident[0], strings.Join(x.Ident[1:], ".")
	case *parse.DotNode:
		return "", ""
	}
	fatal("%s: template construct not understood: %s", where, n.String())
	return "", ""
}

func tmplPipeRef(where string, p *parse.PipeNode) (string, string) {
	if len(p.Cmds) != 1 || len(p.Cmds[0].Args) != 1 {
		fatal("%s: pipeline not understood: %s", where, p.String())
	}
	return tmplRef(where, p.Cmds[0].Args[0])
}

func tmplList(where string, l *parse.ListNode, indent string) string {
	if l == nil {
		return "[]"
	}
	var items []string
	for _, n := range l.Nodes {
		switch x := n.(type) {
		case *parse.TextNode:
			items = append(items, "TText "+coqStringLit(string(x.Text)))
		case *parse.ActionNode:
			if len(x.Pipe.Decl) != 0 {
				fatal("%s: variable declaration outside range: %s", where, x.String())
			}
			v, p := tmplPipeRef(where, x.Pipe)
			items = append(items, fmt.Sprintf("TField %q %q", v, p))
		case *parse.RangeNode:
			if x.ElseList != nil {
				fatal("%s: range with else: %s", where, x.String())
			}
			kv, ev := "", ""
			switch len(x.Pipe.Decl) {
			case 0:
			case 1:
				ev = x.Pipe.Decl[0].Ident[0]
			case 2:
				kv, ev = x.Pipe.Decl[0].Ident[0], x.Pipe.Decl[1].Ident[0]
			default:
				fatal("%s: range with %d variables", where, len(x.Pipe.Decl))
			}
			v, p := tmplPipeRef(where, x.Pipe)
			items = append(items, fmt.Sprintf("TRange %q %q %q %q\n%s  %s", kv, ev, v, p, indent, tmplList(where, x.List, indent+"  ")))
		case *parse.IfNode:
			v, p := tmplPipeRef(where, x.Pipe)
			items = append(items, fmt.Sprintf("TIf %q %q %s %s", v, p, tmplList(where, x.List, indent+"  "), tmplList(where, x.ElseList, indent+"  ")))
		default:
			fatal("%s: template node not understood: %s", where, n.String())
		}
	}
	return "[" + strings.Join(items, ";\n"+indent) + "]"
}

func genTemplates(repo string) string {
	var b strings.Builder
	b.WriteString("(* GENERATED on every run by /verif/harness/cmd/translate from io/def/definition.template.txt, io/pre/preprocess.template.txt and\n   io/sol/solution.template.txt (parsed with text/template/parse) - never edited by hand. *)\n")
	b.WriteString("From Coq Require Import String Ascii List.\nFrom Inkfem Require Import Model.Template.\nImport ListNotations.\nLocal Open Scope string_scope.\n\n")
	for _, t := range []struct{ name, path string }{
		{"tmpl_definition", "io/def/definition.template.txt"},
		{"tmpl_preprocess", "io/pre/preprocess.template.txt"},
		{"tmpl_solution", "io/sol/solution.template.txt"},
	} {
		raw, err := os.ReadFile(filepath.Join(repo, t.path))
		if err != nil {
			fatal("%v", err)
		}
		trees, err := parse.Parse(t.name, string(raw), "{{", "}}")
		if err != nil {
			fatal("%s: %v", t.path, err)
		}
		tree := trees[t.name]
		if tree == nil || len(trees) != 1 {
			fatal("%s: expected exactly one template", t.path)
		}
		fmt.Fprintf(&b, "(* %s *)\nDefinition %s : list tnode :=\n  %s.\n\n", t.path, t.name, tmplList(t.path, tree.Root, "   "))
	}
	return b.String()
}

func init() {
	extraGens = append(extraGens, struct {
		file string
		fn   func(string) string
	}{"GenTemplates.v", genTemplates})
}
