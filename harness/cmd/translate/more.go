package main

func moreGens() []struct {
	file string
	fn   func(string) string
} {
	return []struct {
		file string
		fn   func(string) string
	}{
		{"GenLoads.v", genLoads},
		{"GenRecover.v", genRecover},
		{"GenConsts.v", genConsts},
		{"GenReticular.v", genReticular},
	}
}
