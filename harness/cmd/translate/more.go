package main

func moreGens() []struct {
	file string
	fn   func(string) string
} {
	return nil
}
