package main

// extraGens is filled by files that need the verif build tag (regex.go).
var extraGens []struct {
	file string
	fn   func(string) string
}

func moreGens() []struct {
	file string
	fn   func(string) string
} {
	return append([]struct {
		file string
		fn   func(string) string
	}{
		{"GenLoads.v", genLoads},
		{"GenRecover.v", genRecover},
		{"GenConsts.v", genConsts},
		{"GenReticular.v", genReticular},
		{"GenCli.v", genCli},
		{"GenSolver.v", genSolver},
		{"GenAccept.v", genAccept},
		{"GenAssemble.v", genAssemble},
		{"GenPcg.v", genPcg},
	}, extraGens...)
}
