package main

import (
	"fmt"
	"go/ast"
	"strings"
)

// torsorChains registers name.Fx()/Fy()/Mz() -> Coq identifiers.
func torsorChains(e *env, goName, coqPrefix string) {
	e.chains[goName+".Fx()"] = coqPrefix + "Fx"
	e.chains[goName+".Fy()"] = coqPrefix + "Fy"
	e.chains[goName+".Mz()"] = coqPrefix + "Mz"
}

// genLoads translates the equivalent nodal load formulas of
// preprocess/apply_distributed_loads.go and the own-weight value of structure/element.go.
func genLoads(repo string) string {
	src := parseFile(repo, "preprocess/apply_distributed_loads.go")

	// --- computeLoadSlopes(startLoad, endLoad, length) = MakeTorsor(a, b, c)
	sl := src.funcDecl("", "computeLoadSlopes")
	var slNames []string
	for _, f := range sl.Type.Params.List {
		for _, n := range f.Names {
			slNames = append(slNames, n.Name)
		}
	}
	if len(slNames) != 3 {
		fatal("%s: computeLoadSlopes no longer takes (startLoad, endLoad, length)", src.pos(sl))
	}
	se := newEnv(src)
	torsorChains(se, slNames[0], "s")
	torsorChains(se, slNames[1], "e")
	se.idents[slNames[2]] = "len"
	if len(sl.Body.List) != 1 {
		fatal("%s: computeLoadSlopes is no longer a single return", src.pos(sl))
	}
	ret, ok := sl.Body.List[0].(*ast.ReturnStmt)
	if !ok || len(ret.Results) != 1 {
		fatal("%s: computeLoadSlopes is no longer a single return", src.pos(sl))
	}
	mk, ok := ret.Results[0].(*ast.CallExpr)
	if !ok || normalize(src.text(mk.Fun)) != "math.MakeTorsor" || len(mk.Args) != 3 {
		fatal("%s: computeLoadSlopes does not return math.MakeTorsor(a, b, c)", src.pos(sl))
	}
	slope := [3]string{se.expr(mk.Args[0]), se.expr(mk.Args[1]), se.expr(mk.Args[2])}

	// --- applyDistributedLoadToNodes
	fd := src.funcDecl("", "applyDistributedLoadToNodes")
	e := newEnv(src)
	var bs []binding
	var trail, lead [3]string
	startName, endName, slopesName := "", "", ""
	sawGuard := false
	for _, st := range fd.Body.List {
		switch s := st.(type) {
		case *ast.AssignStmt:
			// midT := nums.AverageT(trailNode.T, leadNode.T): part of the span guard (hand model)
			if strings.Contains(normalize(src.text(s)), "nums.AverageT(") {
				continue
			}
			if !e.bindStmt(st, nil, &bs) {
				fatal("%s: unsupported statement %s", src.pos(st), src.text(st))
			}
		case *ast.IfStmt:
			// the span guard: `if midT... { return }` — modelled by hand (Model/Loads.v in_span)
			t := normalize(src.text(s.Cond))
			if !strings.Contains(t, "IsLessThan(load.StartT)") || !strings.Contains(t, "IsGreaterThan(load.EndT)") || s.Else != nil {
				fatal("%s: the span guard of applyDistributedLoadToNodes changed: %s", src.pos(st), src.text(s.Cond))
			}
			if len(s.Body.List) != 1 {
				fatal("%s: the span guard no longer just returns", src.pos(st))
			}
			if _, ok := s.Body.List[0].(*ast.ReturnStmt); !ok {
				fatal("%s: the span guard no longer just returns", src.pos(st))
			}
			sawGuard = true
		case *ast.DeclStmt:
			gd := s.Decl.(*ast.GenDecl)
			skip := map[string]bool{}
			for _, sp := range gd.Specs {
				vs := sp.(*ast.ValueSpec)
				if len(vs.Values) == 1 && len(vs.Names) == 2 &&
					strings.HasPrefix(normalize(src.text(vs.Values[0])), "forceTorsorInLocalCoords(") {
					startName, endName = vs.Names[0].Name, vs.Names[1].Name
					torsorChains(e, startName, "s")
					torsorChains(e, endName, "e")
					continue
				}
				if len(vs.Values) == 1 && len(vs.Names) == 1 {
					t := normalize(src.text(vs.Values[0]))
					if strings.HasPrefix(t, "computeLoadSlopes(") {
						want := "computeLoadSlopes(" + startName + "," + endName + ",length)"
						if t != want {
							fatal("%s: computeLoadSlopes is called with other arguments: %s", src.pos(vs), t)
						}
						slopesName = vs.Names[0].Name
						// inline the slopes; `length` is already bound
						sub := strings.NewReplacer("len", e.idents["length"])
						bs = append(bs, binding{"v_slFx", sub.Replace(slope[0])},
							binding{"v_slFy", sub.Replace(slope[1])}, binding{"v_slMz", sub.Replace(slope[2])})
						torsorChains(e, slopesName, "v_sl")
						continue
					}
					if t == "trailNode.DistanceTo(leadNode)" {
						e.chains["trailNode.DistanceTo(leadNode)"] = "len"
					}
				}
				e.bindSpec(vs.Names, vs.Values, skip, &bs)
			}
		case *ast.ExprStmt:
			call, ok := s.X.(*ast.CallExpr)
			if !ok || len(call.Args) != 3 {
				fatal("%s: unsupported statement %s", src.pos(st), src.text(st))
			}
			switch normalize(src.text(call.Fun)) {
			case "trailNode.AddLocalLeftLoad":
				trail = [3]string{e.expr(call.Args[0]), e.expr(call.Args[1]), e.expr(call.Args[2])}
			case "leadNode.AddLocalRightLoad":
				lead = [3]string{e.expr(call.Args[0]), e.expr(call.Args[1]), e.expr(call.Args[2])}
			default:
				fatal("%s: unexpected call %s", src.pos(st), src.text(call.Fun))
			}
		default:
			fatal("%s: unsupported statement in applyDistributedLoadToNodes: %s", src.pos(st), src.text(st))
		}
	}
	if trail[0] == "" || lead[0] == "" {
		fatal("%s: AddLocalLeftLoad / AddLocalRightLoad calls not found", src.pos(fd))
	}

	// --- own weight: value = -e.material.Density * e.section.Area ; load FY global 0..1
	esrc := parseFile(repo, "structure/element.go")
	ow := esrc.funcDecl("Element", "AddOwnWeight")
	recv := ow.Recv.List[0].Names[0].Name
	oe := newEnv(esrc)
	oe.chains[recv+".material.Density"] = "rho"
	oe.chains[recv+".section.Area"] = "A"
	var obs []binding
	owValue, owShape := "", ""
	for _, st := range ow.Body.List {
		if ds, ok := st.(*ast.DeclStmt); ok {
			gd := ds.Decl.(*ast.GenDecl)
			for _, sp := range gd.Specs {
				vs := sp.(*ast.ValueSpec)
				for i, v := range vs.Values {
					t := normalize(esrc.text(v))
					if strings.HasPrefix(t, "load.MakeDistributed(") {
						owShape = t
					} else {
						term := oe.expr(v)
						obs = append(obs, binding{"v_" + vs.Names[i].Name, term})
						oe.idents[vs.Names[i].Name] = "v_" + vs.Names[i].Name
						owValue = "v_" + vs.Names[i].Name
					}
				}
			}
		}
	}
	if owShape != "load.MakeDistributed(load.FY,false,nums.MinT,value,nums.MaxT,value)" {
		fatal("%s: AddOwnWeight no longer adds MakeDistributed(FY, global, 0, value, 1, value): %s", esrc.pos(ow), owShape)
	}

	var b strings.Builder
	fmt.Fprintf(&b, genHeader, "preprocess/apply_distributed_loads.go (applyDistributedLoadToNodes, computeLoadSlopes) and structure/element.go (AddOwnWeight)")
	b.WriteString("Section GenLoads.\nContext {F : Type} {O : NumOps F}.\n\n")
	fmt.Fprintf(&b, "(* span guard present in the source: %v *)\n", sawGuard)
	b.WriteString("(* (sFx, sFy, sMz) / (eFx, eFy, eMz): local load intensity at the trail / lead node of a\n   finite element of length len. Returns the loads added to the trail node (left) and to the\n   lead node (right). *)\n")
	b.WriteString("Definition lump_gen (sFx sFy sMz eFx eFy eMz len : F) : (F * F * F) * (F * F * F) :=\n")
	b.WriteString(lets(bs, "  "))
	fmt.Fprintf(&b, "  ((%s,\n    %s,\n    %s),\n   (%s,\n    %s,\n    %s)).\n\n", trail[0], trail[1], trail[2], lead[0], lead[1], lead[2])
	b.WriteString("(* intensity of the own-weight load (global FY, whole span, constant) *)\n")
	b.WriteString("Definition own_weight_gen (rho A : F) : F :=\n")
	b.WriteString(lets(obs, "  "))
	fmt.Fprintf(&b, "  %s.\n\nEnd GenLoads.\n", owValue)
	return b.String()
}
