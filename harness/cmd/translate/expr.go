package main

// Shared machinery of the translator: locating declarations in the Go sources of
// /repo and printing straight-line float64 arithmetic as Coq terms over NumOps.

import (
	"bytes"
	"fmt"
	"go/ast"
	"go/parser"
	"go/printer"
	"go/token"
	"math/big"
	"os"
	"path/filepath"
	"strings"
)

// fatal stops the translation: the source no longer has the shape the translator
// understands, so the tie between the model and the code is broken.
// It ends the generator that called it (see main): that generator's file is replaced by a stub
// which does not compile, so that exactly the theorems depending on it stop checking.
type translatorStop struct{ msg string }

func fatal(format string, args ...interface{}) {
	panic(translatorStop{fmt.Sprintf(format, args...)})
}

type source struct {
	fset *token.FileSet
	file *ast.File
	path string
}

func parseFile(repo, rel string) *source {
	fset := token.NewFileSet()
	p := filepath.Join(repo, rel)
	f, err := parser.ParseFile(fset, p, nil, parser.ParseComments)
	if err != nil {
		fatal("cannot parse %s: %v", rel, err)
	}
	return &source{fset, f, rel}
}

func (s *source) text(n ast.Node) string {
	var b bytes.Buffer
	printer.Fprint(&b, s.fset, n)
	return b.String()
}

func (s *source) pos(n ast.Node) string {
	p := s.fset.Position(n.Pos())
	return fmt.Sprintf("%s:%d", s.path, p.Line)
}

// funcDecl finds a function or method by name (receiver type name optional, "" = any).
func (s *source) funcDecl(recv, name string) *ast.FuncDecl {
	for _, d := range s.file.Decls {
		fd, ok := d.(*ast.FuncDecl)
		if !ok || fd.Name.Name != name {
			continue
		}
		if recv == "" {
			return fd
		}
		if fd.Recv != nil && len(fd.Recv.List) == 1 {
			t := fd.Recv.List[0].Type
			if st, ok := t.(*ast.StarExpr); ok {
				t = st.X
			}
			if id, ok := t.(*ast.Ident); ok && id.Name == recv {
				return fd
			}
		}
	}
	fatal("%s: function %s.%s not found", s.path, recv, name)
	return nil
}

// env maps Go identifiers and Go call/selector chains (by source text) to Coq terms.
type env struct {
	src    *source
	idents map[string]string // Go local name -> Coq name
	chains map[string]string // Go source text of a call/selector -> Coq term
}

func newEnv(src *source) *env {
	return &env{src: src, idents: map[string]string{}, chains: map[string]string{}}
}

func ratLiteral(lit string) string {
	r, ok := new(big.Rat).SetString(lit)
	if !ok {
		fatal("cannot read numeric literal %q", lit)
	}
	if r.IsInt() {
		return fmt.Sprintf("Z#%s", r.Num().String())
	}
	return fmt.Sprintf("(Z#%s / Z#%s)", r.Num().String(), r.Denom().String())
}

// expr prints a float64 expression as a Coq term in num_scope.
func (e *env) expr(x ast.Expr) string {
	switch v := x.(type) {
	case *ast.BasicLit:
		if v.Kind == token.FLOAT || v.Kind == token.INT {
			return ratLiteral(v.Value)
		}
		fatal("%s: unsupported literal %s", e.src.pos(x), v.Value)
	case *ast.Ident:
		if c, ok := e.idents[v.Name]; ok {
			return c
		}
		if c, ok := e.chains[v.Name]; ok {
			return c
		}
		fatal("%s: identifier %q is not a known local, parameter or constant", e.src.pos(x), v.Name)
	case *ast.ParenExpr:
		return e.expr(v.X)
	case *ast.UnaryExpr:
		if v.Op == token.SUB {
			return "(- " + e.expr(v.X) + ")"
		}
		if v.Op == token.ADD {
			return e.expr(v.X)
		}
		fatal("%s: unsupported unary operator %s", e.src.pos(x), v.Op)
	case *ast.BinaryExpr:
		var op string
		switch v.Op {
		case token.ADD:
			op = "+"
		case token.SUB:
			op = "-"
		case token.MUL:
			op = "*"
		case token.QUO:
			op = "/"
		default:
			fatal("%s: unsupported binary operator %s in %s", e.src.pos(x), v.Op, e.src.text(x))
		}
		return "(" + e.expr(v.X) + " " + op + " " + e.expr(v.Y) + ")"
	case *ast.CallExpr, *ast.SelectorExpr:
		t := normalize(e.src.text(x))
		if c, ok := e.chains[t]; ok {
			return c
		}
		// float64(x) conversions of already-float values are the identity
		if call, ok := x.(*ast.CallExpr); ok {
			if id, ok := call.Fun.(*ast.Ident); ok && id.Name == "float64" && len(call.Args) == 1 {
				return e.expr(call.Args[0])
			}
		}
		fatal("%s: call/selector %q is not in the translation table", e.src.pos(x), t)
	}
	fatal("%s: unsupported expression %s", e.src.pos(x), e.src.text(x))
	return ""
}

func normalize(s string) string {
	return strings.Join(strings.Fields(s), "")
}

// bindVarBlock walks `var ( a = e1; b = e2 ... )` / `a := e` / `a = e` statements and
// returns Coq `let` bindings in order. Names listed in skip are not bound (they are
// handled by the caller); chains may pre-bind a name.
type binding struct{ name, term string }

func (e *env) bindSpec(names []*ast.Ident, values []ast.Expr, skip map[string]bool, out *[]binding) {
	if len(values) == 0 {
		return // declaration without value (e.g. `var x float64`): assigned later
	}
	if len(names) != len(values) {
		// tuple assignment from a call: must be handled by the caller via skip
		for _, n := range names {
			if !skip[n.Name] {
				fatal("%s: tuple assignment to %q is not supported", e.src.pos(n), n.Name)
			}
		}
		return
	}
	for i, n := range names {
		if skip[n.Name] || n.Name == "_" {
			continue
		}
		term := e.expr(values[i])
		coq := "v_" + n.Name
		*out = append(*out, binding{coq, term})
		e.idents[n.Name] = coq
	}
}

func (e *env) bindStmt(st ast.Stmt, skip map[string]bool, out *[]binding) bool {
	switch s := st.(type) {
	case *ast.DeclStmt:
		gd, ok := s.Decl.(*ast.GenDecl)
		if !ok || gd.Tok != token.VAR {
			return false
		}
		for _, sp := range gd.Specs {
			vs := sp.(*ast.ValueSpec)
			e.bindSpec(vs.Names, vs.Values, skip, out)
		}
		return true
	case *ast.AssignStmt:
		if s.Tok != token.DEFINE && s.Tok != token.ASSIGN {
			return false
		}
		var names []*ast.Ident
		for _, l := range s.Lhs {
			id, ok := l.(*ast.Ident)
			if !ok {
				return false
			}
			names = append(names, id)
		}
		e.bindSpec(names, s.Rhs, skip, out)
		return true
	}
	return false
}

func lets(bs []binding, indent string) string {
	var b strings.Builder
	for _, x := range bs {
		fmt.Fprintf(&b, "%slet %s := %s in\n", indent, x.name, x.term)
	}
	return b.String()
}

const genHeader = `(* GENERATED on every run by /verif/harness/cmd/translate from %s
   — never edited by hand; regenerated from /repo's working tree. *)
From Coq Require Import ZArith List.
From Inkfem Require Import Num.NumOps.
Import ListNotations.
Local Open Scope num_scope.

`

// writeIfChanged keeps timestamps stable so that `make` does not rebuild needlessly.
func writeIfChanged(path, content string) {
	old, err := os.ReadFile(path)
	if err == nil && string(old) == content {
		return
	}
	if err := os.WriteFile(path, []byte(content), 0o644); err != nil {
		fatal("cannot write %s: %v", path, err)
	}
}
