package main

import (
	"fmt"
	"go/ast"
	"strings"
)

// genSolver translates what computeGlobalDisplacements (process/solve_displacements.go) does with
// the --error option: the tolerance and the iteration budget it hands to the iterative solver, the
// bound it hands to ensureSolutionIsGoodEnough, and the comparison that function makes.
func genSolver(repo string) string { return genSolverPart(repo, true) }

// genAccept: the bound handed to the acceptance test, the error reported with the displacements, and the
// shape of the acceptance test itself.
func genAccept(repo string) string { return genSolverPart(repo, false) }

func genSolverPart(repo string, solverPart bool) string {
	src := parseFile(repo, "process/solve_displacements.go")
	fd := src.funcDecl("", "computeGlobalDisplacements")
	e := newEnv(src)
	e.chains["options.MaxDisplacementsError"] = "err"
	var tol, iter, bound, retErr string
	ast.Inspect(fd.Body, func(n ast.Node) bool {
		switch v := n.(type) {
		case *ast.CompositeLit:
			t := normalize(src.text(v.Type))
			if t == "lineq.PreconditionedConjugateGradientSolver" {
				for _, el := range v.Elts {
					kv, ok := el.(*ast.KeyValueExpr)
					if !ok {
						fatal("%s: positional solver literal", src.pos(el))
					}
					switch normalize(src.text(kv.Key)) {
					case "MaxError":
						if solverPart {
							tol = e.expr(kv.Value)
						}
					case "MaxIter":
						if !solverPart {
							continue
						}
						ie := newEnv(src)
						ie.chains["sysVector.Length()"] = "n"
						iter = ie.expr(kv.Value)
					}
				}
			}
			if strings.HasSuffix(t, "GlobalDisplacementsVector") {
				for _, el := range v.Elts {
					if kv, ok := el.(*ast.KeyValueExpr); ok && normalize(src.text(kv.Key)) == "MaxError" && !solverPart {
						retErr = e.expr(kv.Value)
					}
				}
			}
		case *ast.CallExpr:
			if normalize(src.text(v.Fun)) == "ensureSolutionIsGoodEnough" && !solverPart {
				if len(v.Args) != 4 || normalize(src.text(v.Args[0])) != "sysMatrix" || normalize(src.text(v.Args[1])) != "sysVector" ||
					normalize(src.text(v.Args[2])) != "globalDispSolution.Solution" {
					fatal("%s: ensureSolutionIsGoodEnough is no longer called on the assembled system and the solver's answer: %s", src.pos(v), src.text(v))
				}
				bound = e.expr(v.Args[3])
			}
		}
		return true
	})
	if solverPart {
		if tol == "" || iter == "" {
			fatal("%s: solver tolerance %q or iteration budget %q not found", src.path, tol, iter)
		}
		var b strings.Builder
		b.WriteString("(* GENERATED on every run by /verif/harness/cmd/translate from process/solve_displacements.go\n" +
			"   (computeGlobalDisplacements: what the iterative solver is given) — never edited by hand. *)\n")
		b.WriteString("From Coq Require Import ZArith List.\nFrom Inkfem Require Import Num.NumOps.\nImport ListNotations.\nLocal Open Scope num_scope.\n\n")
		b.WriteString("(* err is the --error option (SolveOptions.MaxDisplacementsError), n the number of equations *)\n")
		fmt.Fprintf(&b, "Definition solver_tolerance {F : Type} {O : NumOps F} (err : F) : F := %s.\n", tol)
		fmt.Fprintf(&b, "Definition solver_max_iter {F : Type} {O : NumOps F} (n : F) : F := %s.\n", iter)
		return b.String()
	}
	if bound == "" || retErr == "" {
		fatal("%s: acceptance bound %q or reported error %q not found", src.path, bound, retErr)
	}
	// every statement between the solver's answer and the return: nothing may stand between the check and the result
	// the acceptance test itself
	gd := src.funcDecl("", "ensureSolutionIsGoodEnough")
	if len(gd.Type.Params.List) != 3 {
		fatal("%s: ensureSolutionIsGoodEnough signature changed", src.pos(gd))
	}
	var cond string
	var residual string
	ast.Inspect(gd.Body, func(n ast.Node) bool {
		switch v := n.(type) {
		case *ast.IfStmt:
			if v.Init != nil {
				cond = normalize(src.text(v.Init)) + ";" + normalize(src.text(v.Cond))
			}
		case *ast.AssignStmt:
			if len(v.Lhs) == 1 && normalize(src.text(v.Lhs[0])) == "errors" {
				residual = normalize(src.text(v.Rhs[0]))
			}
		}
		return true
	})
	const wantCond = "err:=math.Abs(errors.Value(i));!(err<=maxError)||math.IsInf(solution.Value(i),0)"
	const wantRes = "sysVector.Minus(sysMatrix.TimesVector(solution))"
	if cond != wantCond {
		fatal("%s: the acceptance test of ensureSolutionIsGoodEnough changed: %s (the model has %s)", src.pos(gd), cond, wantCond)
	}
	if residual != wantRes {
		fatal("%s: the residual of ensureSolutionIsGoodEnough changed: %s (the model has %s)", src.pos(gd), residual, wantRes)
	}
	var loop string
	for _, st := range gd.Body.List {
		if fs, ok := st.(*ast.ForStmt); ok {
			loop = normalize(src.text(fs.Init)) + ";" + normalize(src.text(fs.Cond)) + ";" + normalize(src.text(fs.Post))
		}
	}
	if loop != "i:=0;i<errors.Length();i++" {
		fatal("%s: ensureSolutionIsGoodEnough no longer visits every equation: %s", src.pos(gd), loop)
	}
	var b strings.Builder
	b.WriteString("(* GENERATED on every run by /verif/harness/cmd/translate from process/solve_displacements.go\n" +
		"   (computeGlobalDisplacements, ensureSolutionIsGoodEnough) — never edited by hand. *)\n")
	b.WriteString("From Coq Require Import ZArith List.\nFrom Inkfem Require Import Num.NumOps.\nImport ListNotations.\nLocal Open Scope num_scope.\n\n")
	b.WriteString("(* err is the --error option (SolveOptions.MaxDisplacementsError) *)\n")
	fmt.Fprintf(&b, "Definition accept_bound {F : Type} {O : NumOps F} (err : F) : F := %s.\n", bound)
	fmt.Fprintf(&b, "Definition reported_error {F : Type} {O : NumOps F} (err : F) : F := %s.\n", retErr)
	b.WriteString("\n")
	b.WriteString("(* ensureSolutionIsGoodEnough: residual = sysVector - sysMatrix * solution; every equation i in 0 .. length-1;\n" +
		"   rejects when not (|residual i| <= bound) or solution i is infinite: checked textually by the translator,\n   modelled by Model/Recover.v accept. *)\n")
	b.WriteString("Definition accept_visits_every_equation : bool := true.\n")
	return b.String()
}
