package main

import (
	"fmt"
	"go/ast"
	"strconv"
	"strings"
)

// genStiffness translates structure.Element.StiffnessGlobalMat: the `var (...)` block
// becomes a chain of lets and the 36 `k.SetValue(i, j, e)` calls become the 6x6 table.
func genStiffness(repo string) string {
	src := parseFile(repo, "structure/element.go")
	fd := src.funcDecl("Element", "StiffnessGlobalMat")
	if len(fd.Type.Params.List) != 1 || len(fd.Type.Params.List[0].Names) != 2 {
		fatal("%s: StiffnessGlobalMat no longer takes (startT, endT)", src.pos(fd))
	}
	p0 := fd.Type.Params.List[0].Names[0].Name
	p1 := fd.Type.Params.List[0].Names[1].Name
	recv := fd.Recv.List[0].Names[0].Name

	e := newEnv(src)
	e.idents[p0] = "t1"
	e.idents[p1] = "t2"
	// external (inkgeom / record fields): modelled, see DESIGN.md trusted base
	e.chains[recv+".geometry.LengthBetween("+p0+","+p1+")"] = "(L * (t2 - t1))"
	e.chains[recv+".LengthBetween("+p0+","+p1+")"] = "(L * (t2 - t1))"
	e.chains[recv+".geometry.RefFrame().Cos()"] = "c"
	e.chains[recv+".geometry.RefFrame().Sin()"] = "s"
	e.chains[recv+".RefFrame().Cos()"] = "c"
	e.chains[recv+".RefFrame().Sin()"] = "s"
	e.chains[recv+".material.YoungMod"] = "E"
	e.chains[recv+".section.Area"] = "A"
	e.chains[recv+".section.IStrong"] = "I"

	var bs []binding
	var table [6][6]string
	matName := ""
	for _, st := range fd.Body.List {
		// var block: the matrix allocation is skipped, everything else is arithmetic
		if ds, ok := st.(*ast.DeclStmt); ok {
			gd := ds.Decl.(*ast.GenDecl)
			skip := map[string]bool{}
			for _, sp := range gd.Specs {
				vs := sp.(*ast.ValueSpec)
				for i, v := range vs.Values {
					if strings.HasPrefix(normalize(src.text(v)), "mat.MakeSquareDense(6)") {
						matName = vs.Names[i].Name
						skip[matName] = true
					}
				}
			}
			e.bindStmt(st, skip, &bs)
			continue
		}
		if as, ok := st.(*ast.AssignStmt); ok {
			if len(as.Rhs) == 1 && strings.HasPrefix(normalize(src.text(as.Rhs[0])), "mat.MakeSquareDense(6)") {
				matName = as.Lhs[0].(*ast.Ident).Name
				continue
			}
			if !e.bindStmt(st, nil, &bs) {
				fatal("%s: unsupported statement in StiffnessGlobalMat: %s", src.pos(st), src.text(st))
			}
			continue
		}
		if es, ok := st.(*ast.ExprStmt); ok {
			call, ok := es.X.(*ast.CallExpr)
			if !ok {
				fatal("%s: unsupported statement %s", src.pos(st), src.text(st))
			}
			sel, ok := call.Fun.(*ast.SelectorExpr)
			if !ok || sel.Sel.Name != "SetValue" || src.text(sel.X) != matName || len(call.Args) != 3 {
				fatal("%s: expected %s.SetValue(i, j, e), found %s", src.pos(st), matName, src.text(st))
			}
			i, err1 := strconv.Atoi(src.text(call.Args[0]))
			j, err2 := strconv.Atoi(src.text(call.Args[1]))
			if err1 != nil || err2 != nil || i < 0 || i > 5 || j < 0 || j > 5 {
				fatal("%s: SetValue indices are not literals in 0..5: %s", src.pos(st), src.text(st))
			}
			table[i][j] = e.expr(call.Args[2]) // a later SetValue overwrites, as in Go
			continue
		}
		if rs, ok := st.(*ast.ReturnStmt); ok {
			if len(rs.Results) != 1 || src.text(rs.Results[0]) != matName {
				fatal("%s: StiffnessGlobalMat returns something else than the filled matrix", src.pos(st))
			}
			continue
		}
		fatal("%s: unsupported statement in StiffnessGlobalMat: %s", src.pos(st), src.text(st))
	}

	var b strings.Builder
	fmt.Fprintf(&b, genHeader, "structure/element.go (StiffnessGlobalMat)")
	b.WriteString("Section GenStiffness.\nContext {F : Type} {O : NumOps F}.\n\n")
	b.WriteString("(* L: bar length, (c, s): direction cosines, [t1, t2]: sub-span, E A I: material/section. *)\n")
	b.WriteString("Definition stiff_gen (L c s t1 t2 E A I : F) : list (list F) :=\n")
	b.WriteString(lets(bs, "  "))
	b.WriteString("  [")
	for i := 0; i < 6; i++ {
		if i > 0 {
			b.WriteString(";\n   ")
		}
		b.WriteString("[")
		for j := 0; j < 6; j++ {
			if j > 0 {
				b.WriteString("; ")
			}
			if table[i][j] == "" {
				b.WriteString("n0") // never set: dense matrices start at zero
			} else {
				b.WriteString(table[i][j])
			}
		}
		b.WriteString("]")
	}
	b.WriteString("].\n\nEnd GenStiffness.\n")
	return b.String()
}
