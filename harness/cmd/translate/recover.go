package main

import (
	"fmt"
	"go/ast"
	"go/token"
	"strings"
)

// genRecover translates process/element_solution.go: the per-slice stress recovery
// of computeStresses and the bar end torsors.
func genRecover(repo string) string {
	src := parseFile(repo, "process/element_solution.go")
	fd := src.funcDecl("ElementSolution", "computeStresses")
	recv := fd.Recv.List[0].Names[0].Name
	e := newEnv(src)
	// record fields and slice-local observables (hand table; see DESIGN.md trusted base)
	e.chains[recv+".Element.Material().YoungMod"] = "E"
	e.chains[recv+".Element.Section().IStrong"] = "I"
	e.chains[recv+".Element.Section().SStrong"] = "S"
	e.chains[recv+".Section().Area"] = "A"
	e.chains[recv+".Element.Section().Area"] = "A"
	e.chains[recv+".Element.LengthBetween(trailNode.T,leadNode.T)"] = "len"
	e.chains[recv+".LocalXDispl[i-1].Value"] = "tdx"
	e.chains[recv+".LocalXDispl[i].Value"] = "ldx"
	e.chains[recv+".LocalYDispl[i-1].Value"] = "tdy"
	e.chains[recv+".LocalYDispl[i].Value"] = "ldy"
	e.chains[recv+".LocalZRot[i-1].Value"] = "trz"
	e.chains[recv+".LocalZRot[i].Value"] = "lrz"
	e.chains["trailNode.LocalLeftFx()"] = "tLFx"
	e.chains["trailNode.LocalLeftFy()"] = "tLFy"
	e.chains["trailNode.LocalLeftMz()"] = "tLMz"
	e.chains["leadNode.LocalRightFx()"] = "lRFx"
	e.chains["leadNode.LocalRightFy()"] = "lRFy"
	e.chains["leadNode.LocalRightMz()"] = "lRMz"

	var bs []binding
	skipNames := map[string]bool{"trailNode": true, "leadNode": true, "nodesCount": true}
	// function-level var block
	var loop *ast.ForStmt
	for _, st := range fd.Body.List {
		switch s := st.(type) {
		case *ast.DeclStmt:
			gd := s.Decl.(*ast.GenDecl)
			for _, sp := range gd.Specs {
				vs := sp.(*ast.ValueSpec)
				if len(vs.Values) == 0 {
					continue
				}
				if len(vs.Names) == 1 && skipNames[vs.Names[0].Name] {
					continue
				}
				e.bindSpec(vs.Names, vs.Values, skipNames, &bs)
			}
		case *ast.ForStmt:
			loop = s
		default:
			fatal("%s: unsupported statement in computeStresses: %s", src.pos(st), src.text(st))
		}
	}
	if loop == nil {
		fatal("%s: the slice loop of computeStresses was not found", src.pos(fd))
	}
	if normalize(src.text(loop.Init)) != "i:=1" || normalize(src.text(loop.Cond)) != "i<nodesCount" || normalize(src.text(loop.Post)) != "i++" {
		fatal("%s: the slice loop header changed: %s; %s; %s", src.pos(loop), src.text(loop.Init), src.text(loop.Cond), src.text(loop.Post))
	}
	// which value goes to which series, and whether through appendIfNotSameAsLast
	type emit struct {
		series, pos, value string
		dedupe             bool
	}
	var emits []emit
	for _, st := range loop.Body.List {
		switch s := st.(type) {
		case *ast.DeclStmt:
			e.bindStmt(st, nil, &bs)
		case *ast.AssignStmt:
			t := normalize(src.text(s))
			if strings.HasPrefix(t, "trailNode,leadNode=") {
				if t != "trailNode,leadNode="+recv+".Element.NodeAt(i-1),"+recv+".Element.NodeAt(i)" {
					fatal("%s: trail/lead nodes are no longer NodeAt(i-1), NodeAt(i)", src.pos(st))
				}
				continue
			}
			// series appends
			if len(s.Lhs) == 1 && len(s.Rhs) == 1 {
				if call, ok := s.Rhs[0].(*ast.CallExpr); ok {
					fn := normalize(src.text(call.Fun))
					lhs := normalize(src.text(s.Lhs[0]))
					if fn == "appendIfNotSameAsLast" || fn == "append" {
						if len(call.Args) < 2 || normalize(src.text(call.Args[0])) != lhs {
							fatal("%s: unexpected append form %s", src.pos(st), t)
						}
						cl, ok := call.Args[1].(*ast.CompositeLit)
						if !ok || len(cl.Elts) != 2 {
							fatal("%s: appended value is not PointSolutionValue{T, value}: %s", src.pos(st), t)
						}
						if fn == "appendIfNotSameAsLast" && (len(call.Args) != 3 || normalize(src.text(call.Args[2])) != "maxDispError") {
							fatal("%s: appendIfNotSameAsLast no longer uses maxDispError", src.pos(st))
						}
						emits = append(emits, emit{strings.TrimPrefix(lhs, recv+"."), normalize(src.text(cl.Elts[0])), e.expr(cl.Elts[1]), fn == "appendIfNotSameAsLast"})
						continue
					}
				}
			}
			if s.Tok == token.ASSIGN || s.Tok == token.DEFINE {
				if !e.bindStmt(st, nil, &bs) {
					fatal("%s: unsupported statement %s", src.pos(st), src.text(st))
				}
				continue
			}
			fatal("%s: unsupported statement %s", src.pos(st), src.text(st))
		default:
			fatal("%s: unsupported statement in the slice loop: %s", src.pos(st), src.text(st))
		}
	}
	// expected emission pattern: per series, trail value (deduped) then lead value (plain)
	want := []struct {
		series, pos string
		dedupe      bool
	}{
		{"AxialStress", "trailNode.T", true}, {"AxialStress", "leadNode.T", false},
		{"ShearForce", "trailNode.T", true}, {"ShearForce", "leadNode.T", false},
		{"BendingMoment", "trailNode.T", true}, {"BendingMomentTopFiberAxialStress", "trailNode.T", true},
		{"BendingMoment", "leadNode.T", false}, {"BendingMomentTopFiberAxialStress", "leadNode.T", false},
	}
	if len(emits) != len(want) {
		fatal("%s: computeStresses appends %d values per slice, expected %d", src.pos(loop), len(emits), len(want))
	}
	vals := map[string]string{}
	for i, w := range want {
		g := emits[i]
		if g.series != w.series || g.pos != w.pos || g.dedupe != w.dedupe {
			fatal("%s: append #%d is (%s, %s, dedupe=%v), expected (%s, %s, dedupe=%v)", src.pos(loop), i, g.series, g.pos, g.dedupe, w.series, w.pos, w.dedupe)
		}
		key := w.series + "/" + map[bool]string{true: "trail", false: "lead"}[w.pos == "trailNode.T"]
		vals[key] = g.value
	}

	// --- end torsors
	torsor := func(name string, idx map[string]string) [3]string {
		f := src.funcDecl("ElementSolution", name)
		r := f.Recv.List[0].Names[0].Name
		te := newEnv(src)
		te.chains[r+".Section().Area"] = "A"
		for k, v := range idx {
			te.chains[strings.ReplaceAll(k, "RECV", r)] = v
		}
		for _, st := range f.Body.List {
			if ds, ok := st.(*ast.DeclStmt); ok {
				// index variables: axialIndex = len(es.AxialStress) - 1 ...
				gd := ds.Decl.(*ast.GenDecl)
				for _, sp := range gd.Specs {
					vs := sp.(*ast.ValueSpec)
					for i, v := range vs.Values {
						t := normalize(src.text(v))
						n := vs.Names[i].Name
						switch t {
						case "len(" + r + ".AxialStress)-1":
							te.chains[r+".AxialStress["+n+"].Value"] = "ax"
						case "len(" + r + ".ShearForce)-1":
							te.chains[r+".ShearForce["+n+"].Value"] = "sh"
						case "len(" + r + ".BendingMoment)-1":
							te.chains[r+".BendingMoment["+n+"].Value"] = "bm"
						default:
							fatal("%s: unexpected index %s in %s", src.pos(v), t, name)
						}
					}
				}
				continue
			}
			rs, ok := st.(*ast.ReturnStmt)
			if !ok || len(rs.Results) != 1 {
				fatal("%s: unsupported statement in %s", src.pos(st), name)
			}
			outer, ok := rs.Results[0].(*ast.CallExpr)
			if !ok {
				fatal("%s: %s does not return MakeTorsor(...).ProjectedToGlobal(frame)", src.pos(st), name)
			}
			sel, ok := outer.Fun.(*ast.SelectorExpr)
			if !ok || sel.Sel.Name != "ProjectedToGlobal" || len(outer.Args) != 1 || normalize(src.text(outer.Args[0])) != r+".RefFrame()" {
				fatal("%s: %s does not project to global with the bar's frame", src.pos(st), name)
			}
			inner, ok := sel.X.(*ast.CallExpr)
			if !ok || normalize(src.text(inner.Fun)) != "math.MakeTorsor" || len(inner.Args) != 3 {
				fatal("%s: %s does not build math.MakeTorsor(a, b, c)", src.pos(st), name)
			}
			return [3]string{te.expr(inner.Args[0]), te.expr(inner.Args[1]), te.expr(inner.Args[2])}
		}
		fatal("%s: no return in %s", src.pos(f), name)
		return [3]string{}
	}
	st := torsor("GlobalStartTorsor", map[string]string{
		"RECV.AxialStress[0].Value": "ax", "RECV.ShearForce[0].Value": "sh", "RECV.BendingMoment[0].Value": "bm"})
	en := torsor("GlobalEndTorsor", map[string]string{})

	var b strings.Builder
	fmt.Fprintf(&b, genHeader, "process/element_solution.go (computeStresses, GlobalStartTorsor, GlobalEndTorsor)")
	b.WriteString("Section GenRecover.\nContext {F : Type} {O : NumOps F}.\n\n")
	b.WriteString("(* One finite element: E I S A material/section, len its length, (tdx tdy trz)/(ldx ldy lrz) the\n   local displacements of its trail/lead node, tL* the trail node's left load, lR* the lead\n   node's right load. Returns ((axial, shear, bending, top-fibre) at the trail node,\n   (same) at the lead node). *)\n")
	b.WriteString("Definition recover_gen (E I S A len tdx tdy trz ldx ldy lrz tLFx tLFy tLMz lRFx lRFy lRMz : F)\n  : (F * F * F * F) * (F * F * F * F) :=\n")
	b.WriteString(lets(bs, "  "))
	fmt.Fprintf(&b, "  ((%s,\n    %s,\n    %s,\n    %s),\n   (%s,\n    %s,\n    %s,\n    %s)).\n\n",
		vals["AxialStress/trail"], vals["ShearForce/trail"], vals["BendingMoment/trail"], vals["BendingMomentTopFiberAxialStress/trail"],
		vals["AxialStress/lead"], vals["ShearForce/lead"], vals["BendingMoment/lead"], vals["BendingMomentTopFiberAxialStress/lead"])
	b.WriteString("(* bar end torsors in LOCAL axes, before projection to global with the bar's frame:\n   ax sh bm are the first (start) / last (end) listed axial stress, shear force, bending moment *)\n")
	fmt.Fprintf(&b, "Definition start_torsor_gen (A ax sh bm : F) : F * F * F :=\n  (%s, %s, %s).\n", st[0], st[1], st[2])
	fmt.Fprintf(&b, "Definition end_torsor_gen (A ax sh bm : F) : F * F * F :=\n  (%s, %s, %s).\n\nEnd GenRecover.\n", en[0], en[1], en[2])
	return b.String()
}
