package main

// GenReticular.v: the index arithmetic of generate/reticular.go (node grid, bar count
// formula, the three row predicates, the two conditions and end-node expressions of the bar
// loop, the load put on beams), extracted from the Go AST.

import (
	"fmt"
	"go/ast"
	"go/token"
	"strings"
)

type intEnv struct {
	src    *source
	idents map[string]string            // Go identifier / selector text -> Coq term
	calls  map[string]func(string) string // closure name -> application printer
	z      bool                         // print over Z (true) or nat (false)
}

func (e *intEnv) expr(x ast.Expr) string {
	switch v := x.(type) {
	case *ast.ParenExpr:
		return "(" + e.expr(v.X) + ")"
	case *ast.BasicLit:
		if v.Kind != token.INT {
			fatal("%s: %s is not an integer literal", e.src.pos(x), e.src.text(x))
		}
		if e.z {
			return "(" + v.Value + ")%Z"
		}
		return v.Value
	case *ast.Ident:
		if t, ok := e.idents[v.Name]; ok {
			return t
		}
		fatal("%s: unknown identifier %s", e.src.pos(x), v.Name)
	case *ast.SelectorExpr:
		if t, ok := e.idents[e.src.text(v)]; ok {
			return t
		}
		fatal("%s: unknown selector %s", e.src.pos(x), e.src.text(v))
	case *ast.UnaryExpr:
		if v.Op == token.NOT {
			return "(negb " + e.expr(v.X) + ")"
		}
		fatal("%s: unsupported unary operator in %s", e.src.pos(x), e.src.text(x))
	case *ast.CallExpr:
		name := e.src.text(v.Fun)
		if name == "len" && len(v.Args) == 1 {
			if t, ok := e.idents["len("+e.src.text(v.Args[0])+")"]; ok {
				return t
			}
		}
		if f, ok := e.calls[name]; ok && len(v.Args) == 1 {
			return f(e.expr(v.Args[0]))
		}
		fatal("%s: unsupported call %s", e.src.pos(x), e.src.text(x))
	case *ast.BinaryExpr:
		a, b := e.expr(v.X), e.expr(v.Y)
		op := map[bool]map[token.Token]string{
			true:  {token.ADD: "(%s + %s)%%Z", token.SUB: "(%s - %s)%%Z", token.MUL: "(%s * %s)%%Z", token.REM: "(Z.rem %s %s)", token.LEQ: "(%s <=? %s)%%Z", token.GTR: "(%[2]s <? %[1]s)%%Z", token.LSS: "(%s <? %s)%%Z", token.EQL: "(%s =? %s)%%Z", token.LAND: "(%s && %s)%%bool"},
			false: {token.ADD: "(%s + %s)", token.SUB: "(%s - %s)", token.MUL: "(%s * %s)", token.REM: "(Nat.modulo %s %s)", token.LEQ: "(Nat.leb %s %s)", token.GTR: "(Nat.ltb %[2]s %[1]s)", token.LSS: "(Nat.ltb %s %s)", token.EQL: "(Nat.eqb %s %s)", token.LAND: "(%s && %s)%%bool"},
		}[e.z][v.Op]
		if op == "" {
			fatal("%s: unsupported operator %s in %s", e.src.pos(x), v.Op, e.src.text(x))
		}
		return fmt.Sprintf(op, a, b)
	}
	fatal("%s: unsupported expression %s", e.src.pos(x), e.src.text(x))
	return ""
}

// varInit finds `name = expr` in the var (...) blocks of a function body.
func varInit(src *source, body *ast.BlockStmt, name string) ast.Expr {
	var found ast.Expr
	ast.Inspect(body, func(n ast.Node) bool {
		vs, ok := n.(*ast.ValueSpec)
		if !ok {
			return true
		}
		for i, id := range vs.Names {
			if id.Name == name && i < len(vs.Values) {
				found = vs.Values[i]
			}
		}
		return true
	})
	if found == nil {
		fatal("%s: variable %s not found", src.path, name)
	}
	return found
}

// closureReturn: `var name = func(id int) bool { return EXPR }` -> (parameter name, EXPR)
func closureReturn(src *source, body *ast.BlockStmt, name string) (string, ast.Expr) {
	fl, ok := varInit(src, body, name).(*ast.FuncLit)
	if !ok || len(fl.Type.Params.List) != 1 || len(fl.Body.List) != 1 {
		fatal("%s: %s is not a one-parameter, one-statement closure", src.path, name)
	}
	ret, ok := fl.Body.List[0].(*ast.ReturnStmt)
	if !ok || len(ret.Results) != 1 {
		fatal("%s: %s does not consist of a single return", src.path, name)
	}
	return fl.Type.Params.List[0].Names[0].Name, ret.Results[0]
}

// chainCalls flattens a.B(x).C(y)... into the list of (method name, args)
func chainCalls(x ast.Expr) []*ast.CallExpr {
	var out []*ast.CallExpr
	for {
		call, ok := x.(*ast.CallExpr)
		if !ok {
			break
		}
		out = append([]*ast.CallExpr{call}, out...)
		sel, ok := call.Fun.(*ast.SelectorExpr)
		if !ok {
			break
		}
		x = sel.X
	}
	return out
}

func sprintArg(src *source, x ast.Expr) ast.Expr {
	// nodes[fmt.Sprint(E)] -> E
	idx, ok := x.(*ast.IndexExpr)
	if !ok {
		fatal("%s: %s is not nodes[...]", src.pos(x), src.text(x))
	}
	call, ok := idx.Index.(*ast.CallExpr)
	if !ok || src.text(call.Fun) != "fmt.Sprint" || len(call.Args) != 1 {
		fatal("%s: node index %s is not fmt.Sprint(expr)", src.pos(x), src.text(idx.Index))
	}
	return call.Args[0]
}

func genReticular(repo string) string {
	src := parseFile(repo, "generate/reticular.go")
	var b strings.Builder
	b.WriteString("(* GENERATED on every run by /verif/harness/cmd/translate from generate/reticular.go\n   (generateNodes, generateBars) - never edited by hand. *)\n")
	b.WriteString("From Coq Require Import ZArith QArith Arith Bool List.\nFrom Inkfem Require Import Model.Types.\nImport ListNotations.\n\n")

	// ---- generateBars
	fb := src.funcDecl("", "generateBars")
	envZ := &intEnv{src: src, z: true, idents: map[string]string{"params.Levels": "levels", "params.Spans": "spans"}, calls: map[string]func(string) string{}}
	rowsZ := envZ.expr(varInit(src, fb.Body, "rows"))
	colsZ := envZ.expr(varInit(src, fb.Body, "cols"))
	fmt.Fprintf(&b, "Definition ret_rows_Z (levels : Z) : Z := %s.\nDefinition ret_cols_Z (spans : Z) : Z := %s.\n", rowsZ, colsZ)
	envZ.idents["rows"], envZ.idents["cols"] = "rows", "cols"
	fmt.Fprintf(&b, "(* barsCount *)\nDefinition ret_bars_count (rows cols : Z) : Z := %s.\n\n", envZ.expr(varInit(src, fb.Body, "barsCount")))

	envN := &intEnv{src: src, z: false, idents: map[string]string{"params.Levels": "levels", "params.Spans": "spans", "rows": "rows", "cols": "cols", "len(nodes)": "nnodes"}, calls: map[string]func(string) string{}}
	fmt.Fprintf(&b, "Definition ret_rows (levels : nat) : nat := %s.\nDefinition ret_cols (spans : nat) : nat := %s.\n",
		(&intEnv{src: src, idents: map[string]string{"params.Levels": "levels"}}).expr(varInit(src, fb.Body, "rows")),
		(&intEnv{src: src, idents: map[string]string{"params.Spans": "spans"}}).expr(varInit(src, fb.Body, "cols")))
	for _, c := range []struct{ goName, coqName string }{{"isLowestNodesRow", "ret_is_lowest"}, {"isRowsLastNode", "ret_is_rows_last"}, {"isUpperNodesRow", "ret_is_upper"}} {
		param, body := closureReturn(src, fb.Body, c.goName)
		envN.idents[param] = "id"
		fmt.Fprintf(&b, "Definition %s (rows cols id : nat) : bool := %s.\n", c.coqName, envN.expr(body))
		delete(envN.idents, param)
		coq := c.coqName
		envN.calls[c.goName] = func(arg string) string { return "(" + coq + " rows cols " + arg + ")" }
	}
	// the loop
	var loop *ast.ForStmt
	for _, st := range fb.Body.List {
		if f, ok := st.(*ast.ForStmt); ok {
			loop = f
		}
	}
	if loop == nil {
		fatal("%s: generateBars has no for loop", src.path)
	}
	init, ok := loop.Init.(*ast.AssignStmt)
	if !ok || len(init.Lhs) != 1 {
		fatal("%s: unexpected loop initialisation", src.pos(loop))
	}
	ivar := src.text(init.Lhs[0])
	envN.idents[ivar] = "i"
	fmt.Fprintf(&b, "(* for %s := %s; %s; ... *)\nDefinition ret_loop_start : nat := %s.\nDefinition ret_loop_cond (nnodes i : nat) : bool := %s.\n",
		ivar, src.text(init.Rhs[0]), src.text(loop.Cond), envN.expr(init.Rhs[0]), envN.expr(loop.Cond))
	kind := 0
	for _, st := range loop.Body.List {
		ifs, ok := st.(*ast.IfStmt)
		if !ok {
			fatal("%s: the bar loop holds something other than if statements: %s", src.pos(st), src.text(st))
		}
		kind++
		name := map[int]string{1: "beam", 2: "column"}[kind]
		if name == "" {
			fatal("%s: more than two kinds of bars are generated", src.pos(st))
		}
		fmt.Fprintf(&b, "Definition ret_%s_cond (rows cols i : nat) : bool := %s.\n", name, envN.expr(ifs.Cond))
		// bars[barIndex] = builder chain ; barIndex += 1
		if len(ifs.Body.List) != 2 {
			fatal("%s: a bar branch no longer consists of one assignment and one increment", src.pos(ifs))
		}
		asg, ok := ifs.Body.List[0].(*ast.AssignStmt)
		if !ok || src.text(asg.Lhs[0]) != "bars[barIndex]" {
			fatal("%s: expected bars[barIndex] = ...", src.pos(ifs.Body.List[0]))
		}
		if src.text(ifs.Body.List[1]) != "barIndex += 1" {
			fatal("%s: expected barIndex += 1, found %s", src.pos(ifs.Body.List[1]), src.text(ifs.Body.List[1]))
		}
		var start, end, idExpr ast.Expr
		loaded := false
		links := []string{}
		for _, call := range chainCalls(asg.Rhs[0]) {
			fn := src.text(call.Fun)
			if sel, ok := call.Fun.(*ast.SelectorExpr); ok {
				fn = "." + sel.Sel.Name
			}
			switch {
			case strings.HasSuffix(fn, "MakeElementBuilder"):
				c2, ok := call.Args[0].(*ast.CallExpr)
				if !ok || src.text(c2.Fun) != "fmt.Sprint" {
					fatal("%s: bar id is not fmt.Sprint(...)", src.pos(call))
				}
				idExpr = c2.Args[0]
			case strings.HasSuffix(fn, ".WithStartNode"):
				start = sprintArg(src, call.Args[0])
				links = append(links, src.text(call.Args[1]))
			case strings.HasSuffix(fn, ".WithEndNode"):
				end = sprintArg(src, call.Args[0])
				links = append(links, src.text(call.Args[1]))
			case strings.HasSuffix(fn, ".AddDistributedLoad"):
				if src.text(call.Args[0]) != "load" {
					fatal("%s: unexpected load %s", src.pos(call), src.text(call.Args[0]))
				}
				loaded = true
			case strings.HasSuffix(fn, ".WithMaterial"), strings.HasSuffix(fn, ".WithSection"):
				if a := src.text(call.Args[0]); a != "params.Material" && a != "params.Section" {
					fatal("%s: unexpected material/section %s", src.pos(call), a)
				}
			case strings.HasSuffix(fn, ".Build"):
			default:
				fatal("%s: unexpected builder call %s", src.pos(call), fn)
			}
		}
		if start == nil || end == nil || idExpr == nil || len(links) != 2 {
			fatal("%s: bar branch without start/end node or id", src.pos(ifs))
		}
		envN.idents["barIndex"] = "barIndex"
		rigid := links[0] == "&structure.FullConstraint" && links[1] == "&structure.FullConstraint"
		fmt.Fprintf(&b, "Definition ret_%s_start (rows cols i : nat) : nat := %s.\nDefinition ret_%s_end (rows cols i : nat) : nat := %s.\n", name, envN.expr(start), name, envN.expr(end))
		fmt.Fprintf(&b, "Definition ret_%s_id (barIndex : nat) : nat := %s.\nDefinition ret_%s_loaded : bool := %v.\nDefinition ret_%s_rigid : bool := %v.\n", name, envN.expr(idExpr), name, loaded, name, rigid)
	}
	if kind != 2 {
		fatal("%s: expected a beam branch and a column branch", src.path)
	}
	// the load put on beams
	lc, ok := varInit(src, fb.Body, "load").(*ast.CallExpr)
	if !ok || src.text(lc.Fun) != "load.MakeDistributed" || len(lc.Args) != 6 {
		fatal("%s: load is not load.MakeDistributed(term, local, t0, v0, t1, v1)", src.path)
	}
	term := map[string]string{"load.FX": "FX", "load.FY": "FY", "load.MZ": "MZ"}[src.text(lc.Args[0])]
	tpar := map[string]string{"nums.MinT": "0", "nums.MaxT": "1"}
	val := func(x ast.Expr) string {
		s := src.text(x)
		switch s {
		case "-params.LoadDistValue":
			return "(- v)"
		case "params.LoadDistValue":
			return "v"
		}
		fatal("%s: unexpected load value %s", src.pos(x), s)
		return ""
	}
	if term == "" || tpar[src.text(lc.Args[2])] == "" || tpar[src.text(lc.Args[4])] == "" {
		fatal("%s: unexpected load definition %s", src.pos(lc), src.text(lc))
	}
	fmt.Fprintf(&b, "(* %s *)\nDefinition ret_load (v : Q) : dload Q :=\n  {| dl_term := %s; dl_local := %s; dl_t0 := %s; dl_v0 := %s; dl_t1 := %s; dl_v1 := %s |}%%Q.\n\n",
		src.text(lc), term, src.text(lc.Args[1]), tpar[src.text(lc.Args[2])], val(lc.Args[3]), tpar[src.text(lc.Args[4])], val(lc.Args[5]))

	// ---- generateNodes
	fn := src.funcDecl("", "generateNodes")
	var outer *ast.ForStmt
	for _, st := range fn.Body.List {
		if f, ok := st.(*ast.ForStmt); ok {
			outer = f
		}
	}
	if outer == nil {
		fatal("%s: generateNodes has no loop", src.path)
	}
	bound := func(f *ast.ForStmt) (string, ast.Expr) {
		in, ok := f.Init.(*ast.AssignStmt)
		if !ok || src.text(in.Rhs[0]) != "0" {
			fatal("%s: node loop does not start at 0", src.pos(f))
		}
		cond, ok := f.Cond.(*ast.BinaryExpr)
		if !ok || cond.Op != token.LSS || src.text(cond.X) != src.text(in.Lhs[0]) {
			fatal("%s: node loop condition is not `var < bound`", src.pos(f))
		}
		return src.text(in.Lhs[0]), cond.Y
	}
	iv, ib := bound(outer)
	var inner *ast.ForStmt
	var fixedCond ast.Expr
	for _, st := range outer.Body.List {
		switch v := st.(type) {
		case *ast.ForStmt:
			inner = v
		case *ast.IfStmt:
			fixedCond = v.Cond
			thenTxt, elseTxt := src.text(v.Body), ""
			if v.Else != nil {
				elseTxt = src.text(v.Else)
			}
			if !strings.Contains(thenTxt, "structure.FullConstraint") || !strings.Contains(elseTxt, "structure.NilConstraint") {
				fatal("%s: the row constraint is no longer Full / Nil", src.pos(v))
			}
		}
	}
	if inner == nil || fixedCond == nil {
		fatal("%s: generateNodes lost its inner loop or constraint choice", src.path)
	}
	jv, jb := bound(inner)
	en := &intEnv{src: src, idents: map[string]string{"params.Levels": "levels", "params.Spans": "spans", iv: "i", jv: "j", "nodeIndex": "nodeIndex"}}
	fmt.Fprintf(&b, "Definition ret_node_rows (levels : nat) : nat := %s.\nDefinition ret_node_cols (spans : nat) : nat := %s.\n", en.expr(ib), en.expr(jb))
	fmt.Fprintf(&b, "Definition ret_node_fixed (i : nat) : bool := %s.\n", en.expr(fixedCond))
	// nodeId = fmt.Sprint(nodeIndex + 1); MakeNodeAtPosition(nodeId, float64(j)*params.Span, float64(i)*params.Height, constraint); nodeIndex += 1
	var idE, xE, yE ast.Expr
	incr := false
	for _, st := range inner.Body.List {
		switch v := st.(type) {
		case *ast.AssignStmt:
			l := src.text(v.Lhs[0])
			if l == "nodeId" {
				c, ok := v.Rhs[0].(*ast.CallExpr)
				if !ok || src.text(c.Fun) != "fmt.Sprint" {
					fatal("%s: node id is not fmt.Sprint(...)", src.pos(v))
				}
				idE = c.Args[0]
			} else if l == "nodes[nodeId]" {
				c, ok := v.Rhs[0].(*ast.CallExpr)
				if !ok || src.text(c.Fun) != "structure.MakeNodeAtPosition" || len(c.Args) != 4 || src.text(c.Args[3]) != "constraint" {
					fatal("%s: unexpected node construction %s", src.pos(v), src.text(v.Rhs[0]))
				}
				xE, yE = c.Args[1], c.Args[2]
			} else if l == "nodeIndex" && v.Tok == token.ADD_ASSIGN && src.text(v.Rhs[0]) == "1" {
				incr = true
			} else {
				fatal("%s: unexpected statement in the node loop: %s", src.pos(v), src.text(v))
			}
		default:
			fatal("%s: unexpected statement in the node loop: %s", src.pos(st), src.text(st))
		}
	}
	if idE == nil || xE == nil || !incr {
		fatal("%s: node loop lost its id, position or increment", src.path)
	}
	coord := func(x ast.Expr) string {
		be, ok := x.(*ast.BinaryExpr)
		if !ok || be.Op != token.MUL {
			fatal("%s: node coordinate %s is not index * length", src.pos(x), src.text(x))
		}
		c, ok := be.X.(*ast.CallExpr)
		if !ok || src.text(c.Fun) != "float64" {
			fatal("%s: node coordinate %s is not float64(index) * length", src.pos(x), src.text(x))
		}
		idx := src.text(c.Args[0])
		par := map[string]string{"params.Span": "span", "params.Height": "height"}[src.text(be.Y)]
		if par == "" || (idx != iv && idx != jv) {
			fatal("%s: unexpected node coordinate %s", src.pos(x), src.text(x))
		}
		return fmt.Sprintf("(inject_Z (Z.of_nat %s) * %s)%%Q", map[string]string{iv: "i", jv: "j"}[idx], par)
	}
	fmt.Fprintf(&b, "Definition ret_node_id (nodeIndex : nat) : nat := %s.\n", en.expr(idE))
	fmt.Fprintf(&b, "Definition ret_node_x (i j : nat) (span height : Q) : Q := %s.\nDefinition ret_node_y (i j : nat) (span height : Q) : Q := %s.\n", coord(xE), coord(yE))
	return b.String()
}
