package main

import (
	"fmt"
	"go/ast"
	"go/token"
	"math/big"
	"os"
	"path/filepath"
	"regexp"
	"strconv"
	"strings"
)

// constValue finds `name = literal` in a const/var declaration of a file.
func constValue(src *source, name string) ast.Expr {
	for _, d := range src.file.Decls {
		gd, ok := d.(*ast.GenDecl)
		if !ok || (gd.Tok != token.CONST && gd.Tok != token.VAR) {
			continue
		}
		for _, sp := range gd.Specs {
			vs := sp.(*ast.ValueSpec)
			for i, n := range vs.Names {
				if n.Name == name && i < len(vs.Values) {
					return vs.Values[i]
				}
			}
		}
	}
	fatal("%s: constant %s not found", src.path, name)
	return nil
}

func litOf(src *source, x ast.Expr) string {
	// unwrap conversions such as unitsScale(150.0) and `unitsScale = 150.0` typed consts
	if call, ok := x.(*ast.CallExpr); ok && len(call.Args) == 1 {
		x = call.Args[0]
	}
	bl, ok := x.(*ast.BasicLit)
	if !ok {
		fatal("%s: %s is not a literal", src.pos(x), src.text(x))
	}
	return bl.Value
}

func qOf(lit string) string {
	r, ok := new(big.Rat).SetString(lit)
	if !ok {
		fatal("cannot read numeric literal %q", lit)
	}
	return fmt.Sprintf("(%s # %s)%%Q", r.Num().String(), r.Denom().String())
}

func natOf(lit string) string {
	n, err := strconv.Atoi(lit)
	if err != nil || n < 0 {
		fatal("cannot read natural literal %q", lit)
	}
	return fmt.Sprintf("%d%%nat", n)
}

func strOf(lit string) string {
	s, err := strconv.Unquote(lit)
	if err != nil {
		fatal("cannot read string literal %s", lit)
	}
	return `"` + strings.ReplaceAll(s, `"`, `""`) + `"%string`
}

// flagDefault finds the default value in a cobra flag registration such as
// Float64VarP(&solveDispMaxError, "error", "e", 1e-5, "...").
func flagDefault(src *source, varName string) (long, short, def string) {
	found := false
	ast.Inspect(src.file, func(n ast.Node) bool {
		call, ok := n.(*ast.CallExpr)
		if !ok || len(call.Args) < 4 {
			return true
		}
		u, ok := call.Args[0].(*ast.UnaryExpr)
		if !ok || u.Op != token.AND {
			return true
		}
		id, ok := u.X.(*ast.Ident)
		if !ok || id.Name != varName {
			return true
		}
		sel, ok := call.Fun.(*ast.SelectorExpr)
		if !ok {
			return true
		}
		found = true
		long, _ = strconv.Unquote(src.text(call.Args[1]))
		if strings.HasSuffix(sel.Sel.Name, "VarP") {
			short, _ = strconv.Unquote(src.text(call.Args[2]))
			def = src.text(call.Args[3])
		} else {
			def = src.text(call.Args[2])
		}
		return false
	})
	if !found {
		fatal("%s: flag bound to %s not found", src.path, varName)
	}
	return
}

func genConsts(repo string) string {
	var b strings.Builder
	fmt.Fprintf(&b, `(* GENERATED on every run by /verif/harness/cmd/translate from the constants and flag tables of
   preprocess/element_preprocess.go, io/file_extensions.go, build/VERSION, cmd/*.go,
   plot/sizes.go, plot/units_scale.go, plot/config.go — never edited by hand. *)
From Coq Require Import ZArith QArith String List.
Import ListNotations.

`)
	def := func(name, typ, val string) { fmt.Fprintf(&b, "Definition %s : %s := %s.\n", name, typ, val) }

	pre := parseFile(repo, "preprocess/element_preprocess.go")
	def("c_slices_loaded", "nat", natOf(litOf(pre, constValue(pre, "elementWithLoadsSlices"))))
	def("c_slices_unloaded", "nat", natOf(litOf(pre, constValue(pre, "elementWithoutLoadsSlices"))))
	def("c_min_dist", "Q", qOf(litOf(pre, constValue(pre, "minDistBetweenTSlices"))))

	ext := parseFile(repo, "io/file_extensions.go")
	def("c_ext_def", "string", strOf(litOf(ext, constValue(ext, "DefinitionFileExt"))))
	def("c_ext_pre", "string", strOf(litOf(ext, constValue(ext, "PreFileExt"))))
	def("c_ext_sol", "string", strOf(litOf(ext, constValue(ext, "SolFileExt"))))

	ver, err := os.ReadFile(filepath.Join(repo, "build/VERSION"))
	if err != nil {
		fatal("cannot read build/VERSION: %v", err)
	}
	m := regexp.MustCompile(`v(\d+)(?:[.])(\d+)`).FindStringSubmatch(string(ver))
	if m == nil {
		fatal("build/VERSION does not hold vM.m")
	}
	def("c_version_major", "nat", natOf(m[1]))
	def("c_version_minor", "nat", natOf(m[2]))

	solve := parseFile(repo, "cmd/solve.go")
	b.WriteString("\n(* flag table of `solve`: (long name, short name, default) *)\n")
	for _, f := range []struct{ v, coq string }{
		{"solveIncludeOwnWeight", "weight"}, {"solveDispMaxError", "error"}, {"solveUseVerbose", "verbose"},
		{"solvePreprocessToFile", "preprocess"}, {"solveSafeChecks", "safe"}} {
		long, short, d := flagDefault(solve, f.v)
		def("c_solve_flag_"+f.coq, "string * string * string", fmt.Sprintf("(%s, %s, %s)", strOf(strconv.Quote(long)), strOf(strconv.Quote(short)), strOf(strconv.Quote(d))))
	}
	_, _, errDef := flagDefault(solve, "solveDispMaxError")
	def("c_default_error", "Q", qOf(errDef))
	prec := parseFile(repo, "cmd/pre.go")
	for _, f := range []struct{ v, coq string }{{"preIncludeOwnWeight", "weight"}, {"preUseVerbose", "verbose"}} {
		long, short, d := flagDefault(prec, f.v)
		def("c_pre_flag_"+f.coq, "string * string * string", fmt.Sprintf("(%s, %s, %s)", strOf(strconv.Quote(long)), strOf(strconv.Quote(short)), strOf(strconv.Quote(d))))
	}
	plotc := parseFile(repo, "cmd/plot.go")
	_, _, sc := flagDefault(plotc, "plotScale")
	def("c_plot_default_scale", "Q", qOf(sc))
	_, _, dsc := flagDefault(plotc, "plotDistLoadScale")
	def("c_plot_default_dload_scale", "Q", qOf(dsc))
	// MinMargin: 150 literal in StructurePlotOps composite
	minMargin := ""
	ast.Inspect(plotc.file, func(n ast.Node) bool {
		kv, ok := n.(*ast.KeyValueExpr)
		if ok && plotc.text(kv.Key) == "MinMargin" {
			minMargin = plotc.text(kv.Value)
		}
		return true
	})
	if minMargin == "" {
		fatal("cmd/plot.go: MinMargin not found")
	}
	def("c_plot_min_margin", "Z", "("+minMargin+")%Z")

	sizes := parseFile(repo, "plot/sizes.go")
	def("c_plot_thr_xsmall", "Q", qOf(litOf(sizes, constValue(sizes, "xSmallMedianThreshold"))))
	def("c_plot_thr_small", "Q", qOf(litOf(sizes, constValue(sizes, "smallMedianThreshold"))))
	def("c_plot_thr_medium", "Q", qOf(litOf(sizes, constValue(sizes, "mediumMedianThreshold"))))
	us := parseFile(repo, "plot/units_scale.go")
	def("c_plot_scale_xsmall", "Q", qOf(litOf(us, constValue(us, "xSmallScaleFactor"))))
	def("c_plot_scale_small", "Q", qOf(litOf(us, constValue(us, "smallScaleFactor"))))
	def("c_plot_scale_medium", "Q", qOf(litOf(us, constValue(us, "mediumScaleFactor"))))

	// plot/config.go: the two themes as lists of (field, value)
	cfg := parseFile(repo, "plot/config.go")
	for _, th := range []struct{ fn, coq string }{{"DefaultPlotConfig", "c_plot_theme_light"}, {"DarkPlotConfig", "c_plot_theme_dark"}} {
		fd := cfg.funcDecl("", th.fn)
		var items []string
		ast.Inspect(fd, func(n ast.Node) bool {
			kv, ok := n.(*ast.KeyValueExpr)
			if ok {
				items = append(items, fmt.Sprintf("(%s, %s)", strOf(strconv.Quote(cfg.text(kv.Key))), strOf(strconv.Quote(strings.Trim(cfg.text(kv.Value), `"`)))))
			}
			return true
		})
		def(th.coq, "list (string * string)", "["+strings.Join(items, "; ")+"]")
	}
	return b.String()
}
