package main

import (
	"github.com/angelsolaorbaiceta/inkfem/structure"
	"github.com/angelsolaorbaiceta/inkgeom/nums"
)

type stiffCase struct {
	X1, Y1, X2, Y2, T1, T2, E, A, I string
	Pin                             bool // both ends hinged (no loads: what the code calls an axial member)
}

type stiffOut struct {
	L, C, S string
	K       [][]string
	KRev    [][]string // the same sub-span given in the other order
	KAgain  [][]string // the same sub-span asked for once more at the end
	KLater  [][]string // the same sub-span of an equal bar asked for after every other case of the run was served
	Panic   string `json:",omitempty"`
}

func init() { commands["stiff"] = cmdStiff }

func makeBar(id string, x1, y1, x2, y2, e, a, i float64, pin bool) *structure.Element {
	var (
		n1  = structure.MakeFreeNodeAtPosition("n1", x1, y1)
		n2  = structure.MakeFreeNodeAtPosition("n2", x2, y2)
		mat = structure.MakeMaterial("m", 1, e, 1, 1, 1, 1)
		sec = structure.MakeSection("s", a, i, 1, 1, 1)
	)
	link := &structure.FullConstraint
	if pin {
		link = &structure.DispConstraint
	}
	return structure.MakeElementBuilder(id).
		WithStartNode(n1, link).
		WithEndNode(n2, link).
		WithMaterial(mat).
		WithSection(sec).
		Build()
}

func cmdStiff() {
	var cases []stiffCase
	readJSON(&cases)
	outs := make([]stiffOut, len(cases))
	for n, c := range cases {
		func() {
			defer func() {
				if r := recover(); r != nil {
					outs[n].Panic = toString(r)
				}
			}()
			bar := makeBar("b", pf(c.X1), pf(c.Y1), pf(c.X2), pf(c.Y2), pf(c.E), pf(c.A), pf(c.I), c.Pin)
			t1, t2 := nums.MakeTParam(pf(c.T1)), nums.MakeTParam(pf(c.T2))
			// histories: the matrix of this sub-span is asked for, then the same bar is asked for other
			// sub-spans (and for this one in the other order), and only then is the first matrix read
			k := bar.StiffnessGlobalMat(t1, t2)
			kRev := bar.StiffnessGlobalMat(t2, t1)
			revRows := matRows(kRev)
			bar.StiffnessGlobalMat(nums.MinT, nums.MaxT)
			bar.StiffnessGlobalMat(nums.MakeTParam(0.9), nums.MaxT)
			rows := matRows(k)
			outs[n] = stiffOut{
				L: fs(bar.Length()), C: fs(bar.RefFrame().Cos()), S: fs(bar.RefFrame().Sin()), K: rows, KRev: revRows,
				KAgain: matRows(bar.StiffnessGlobalMat(t1, t2)),
			}
		}()
	}
	// second pass, after hundreds of other bars and sub-spans went through the process: an equal bar, the same sub-span
	for n, c := range cases {
		if outs[n].Panic != "" {
			continue
		}
		func() {
			defer func() {
				if r := recover(); r != nil {
					outs[n].Panic = "second pass: " + toString(r)
				}
			}()
			bar := makeBar("b", pf(c.X1), pf(c.Y1), pf(c.X2), pf(c.Y2), pf(c.E), pf(c.A), pf(c.I), c.Pin)
			outs[n].KLater = matRows(bar.StiffnessGlobalMat(nums.MakeTParam(pf(c.T1)), nums.MakeTParam(pf(c.T2))))
		}()
	}
	writeJSON(outs)
}

func matRows(k interface {
	Rows() int
	Cols() int
	Value(int, int) float64
}) [][]string {
	rows := make([][]string, k.Rows())
	for i := 0; i < k.Rows(); i++ {
		rows[i] = make([]string, k.Cols())
		for j := 0; j < k.Cols(); j++ {
			rows[i][j] = fs(k.Value(i, j))
		}
	}
	return rows
}

func toString(r interface{}) string {
	switch v := r.(type) {
	case string:
		return v
	case error:
		return v.Error()
	}
	return "panic"
}
