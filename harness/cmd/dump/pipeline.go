package main

import (
	"sync"
	"bufio"
	"bytes"
	"fmt"
	"os"
	"sort"
	"strings"

	"github.com/angelsolaorbaiceta/inkfem/build"
	iodef "github.com/angelsolaorbaiceta/inkfem/io/def"
	iopre "github.com/angelsolaorbaiceta/inkfem/io/pre"
	iosol "github.com/angelsolaorbaiceta/inkfem/io/sol"
	"github.com/angelsolaorbaiceta/inkfem/math"
	"github.com/angelsolaorbaiceta/inkfem/preprocess"
	"github.com/angelsolaorbaiceta/inkfem/process"
	"github.com/angelsolaorbaiceta/inkfem/structure"
)

// pipeline: runs parse -> preprocess (k times) -> assemble -> solve -> recover on a
// definition given as text, in process, and reports the observables of every stage.

type pipeCase struct {
	Text       string // contents of a .inkfem file
	Weight     bool
	Error      string // --error value ("" = 1e-5)
	Order      string // VERIF_SLICE_ORDER ("" = free)
	Repeat     int    // number of StructureModel calls on the same parsed structure (>= 1)
	Solve      bool
	Assemble   bool
	ParseOnly  bool // stop after reading
	WriteBack  bool // also write the parsed structure back as a definition text (iodef.Write)
	ViaPre     bool // write the preprocessed structure as .inkfempre text, read it back, continue from that
	ScratchDir string
	Repo       string // working tree of the repository (the template files are read from it)
	Templates  bool   // also record what the output templates see of the values they are executed on
	KeepPre    bool   // after solving, dump the preprocessed structure again (solving must leave it as it was)
	Repre      bool   // preprocess the definition once more (other own-weight setting) and dump the first result again
	Reassemble bool   // after everything else: add a nodal load to a slice node through the exported API and assemble again
	concurrent bool   // set by the concurrent command: leave process-wide settings alone
	HoldText   string // a second definition solved in the same process after this one; the first solution is then looked at again
	Restage    int    // k > 0: number a second structure made of the sliced bars but the (k-1 mod n)-th (a construction stage)
}

type jAgain struct {
	Panic    string
	Pre      jPre
	KEntries [][3]string
	F        []string
}

type jNode struct {
	ID         string
	X, Y       string
	Dx, Dy, Rz bool // external constraint
	Ext        bool // IsExternallyConstrained
	Dof        [3]int
}

type jCLoad struct {
	Term  string
	Local bool
	T, V  string
}

type jDLoad struct {
	Term           string
	Local          bool
	T0, V0, T1, V1 string
}

type jBar struct {
	ID, N1, N2        string
	L1, L2            [3]bool // start/end link: dx, dy, rz constrained
	E, A, I, S, Rho   string
	Mat, Sec          string
	Len, C, S_        string
	X1, Y1, X2, Y2    string
	CL                []jCLoad
	DL                []jDLoad
	IsAxial, HasLoads bool
	MatAll            [6]string // density young shear poisson yield ultimate
	SecAll            [5]string // area istrong iweak sstrong sweak
}

type jPNode struct {
	T, X, Y          string
	Ext, Left, Right [3]string
	Net              [3]string
	Dof              [3]int
}

type jPBar struct {
	ID    string
	Nodes []jPNode
}

type jPre struct {
	Bars     []jPBar
	DofCount int
	OwnWeight bool
	NodeDofs map[string][3]int
	Panic    string `json:",omitempty"`
}

type jSeries struct {
	T, V []string
}

type jSolBar struct {
	ID     string
	Series map[string]jSeries // gdx gdy grz ldx ldy lrz axial shear bend bend_axial
}

type jPipeOut struct {
	ParsePanic string `json:",omitempty"`
	Major      int
	Minor      int
	Nodes      []jNode
	Bars       []jBar
	Pre        []jPre // one per StructureModel call
	PreSolved  *jPre   // the preprocessed structure as it is after process.Solve returned
	PreAfter   *jPre   // the first preprocessed structure, looked at again after the definition was preprocessed once more
	Again      *jAgain // the system assembled a second time, after a nodal load was added to a slice node
	Restaged   *jPre  // the structure without one bar, numbered again over the same sliced bars
	Dropped    string // the bar left out of the restaged structure
	// structure as seen after all preprocess calls (input mutated?)
	BarsAfter  []jBar
	KEntries   [][3]string // i, j, value
	F          []string
	SysPanic   string `json:",omitempty"`
	U          []string
	SolvePanic string `json:",omitempty"`
	Sol        []jSolBar
	Reactions  map[string][3]string
	MaxError   string
	SolHeld    []jSolBar          `json:",omitempty"` // the solution, read again after another structure was solved in the same process
	ReacHeld   map[string][3]string `json:",omitempty"`
	HeldPanic  string `json:",omitempty"`
	PreText    string `json:",omitempty"`
	DefText    string `json:",omitempty"`
	SolText    string `json:",omitempty"`
	DefData    *jCtx  `json:",omitempty"`
	PreData    *jCtx  `json:",omitempty"`
	SolData    *jCtx  `json:",omitempty"`
}

func init() { commands["pipeline"] = cmdPipeline }

func t3(t *math.Torsor) [3]string { return [3]string{fs(t.Fx()), fs(t.Fy()), fs(t.Mz())} }

func link3(c *structure.Constraint) [3]bool {
	return [3]bool{!c.AllowsDispX(), !c.AllowsDispY(), !c.AllowsRotation()}
}

func barOf(el *structure.Element) jBar {
	b := jBar{
		ID: el.GetID(), N1: el.StartNodeID(), N2: el.EndNodeID(),
		L1: link3(el.StartLink()), L2: link3(el.EndLink()),
		E: fs(el.Material().YoungMod), A: fs(el.Section().Area), I: fs(el.Section().IStrong),
		S: fs(el.Section().SStrong), Rho: fs(el.Material().Density),
		Mat: el.Material().Name, Sec: el.Section().Name,
		Len: fs(el.Length()), C: fs(el.RefFrame().Cos()), S_: fs(el.RefFrame().Sin()),
		X1: fs(el.StartPoint().X()), Y1: fs(el.StartPoint().Y()),
		X2: fs(el.EndPoint().X()), Y2: fs(el.EndPoint().Y()),
		IsAxial: el.IsAxialMember(), HasLoads: el.HasLoadsApplied(),
		MatAll: [6]string{fs(el.Material().Density), fs(el.Material().YoungMod), fs(el.Material().ShearMod),
			fs(el.Material().PoissonRatio), fs(el.Material().YieldStrength), fs(el.Material().UltimateStrength)},
		SecAll: [5]string{fs(el.Section().Area), fs(el.Section().IStrong), fs(el.Section().IWeak),
			fs(el.Section().SStrong), fs(el.Section().SWeak)},
	}
	for _, l := range el.ConcentratedLoads {
		b.CL = append(b.CL, jCLoad{string(l.Term), l.IsInLocalCoords, fs(l.T.Value()), fs(l.Value)})
	}
	for _, l := range el.DistributedLoads {
		b.DL = append(b.DL, jDLoad{string(l.Term), l.IsInLocalCoords,
			fs(l.StartT.Value()), fs(l.StartValue), fs(l.EndT.Value()), fs(l.EndValue)})
	}
	return b
}

func dumpBars(str *structure.Structure) []jBar {
	var out []jBar
	for _, el := range str.Elements() {
		out = append(out, barOf(el))
	}
	return out
}

func dumpPre(p *preprocess.Structure) jPre {
	var out jPre
	out.DofCount = p.DofsCount()
	out.OwnWeight = p.IncludesOwnWeight()
	out.NodeDofs = map[string][3]int{}
	for _, n := range p.GetAllNodes() {
		out.NodeDofs[n.GetID()] = n.DegreesOfFreedomNum()
	}
	for _, el := range p.Elements() {
		pb := jPBar{ID: el.GetID()}
		for _, n := range el.Nodes() {
			net := n.NetLocalLoadTorsor()
			left := [3]string{fs(n.LocalLeftFx()), fs(n.LocalLeftFy()), fs(n.LocalLeftMz())}
			right := [3]string{fs(n.LocalRightFx()), fs(n.LocalRightFy()), fs(n.LocalRightMz())}
			ext := t3(n.VerifExternalLoad())
			pb.Nodes = append(pb.Nodes, jPNode{
				T: fs(n.T.Value()), X: fs(n.Position.X()), Y: fs(n.Position.Y()),
				Ext: ext, Left: left, Right: right, Net: t3(net), Dof: n.DegreesOfFreedomNum(),
			})
		}
		out.Bars = append(out.Bars, pb)
	}
	return out
}

func series(vs []process.PointSolutionValue) jSeries {
	var s jSeries
	for _, v := range vs {
		s.T = append(s.T, fs(v.T.Value()))
		s.V = append(s.V, fs(v.Value))
	}
	return s
}

func guard(where *string, f func()) {
	defer func() {
		if r := recover(); r != nil {
			*where = toString(r)
			if *where == "" {
				*where = "panic"
			}
		}
	}()
	f()
}

func runPipe(c pipeCase) (out jPipeOut) {
	build.ReadBuildInfo()
	var solKept *process.Solution
	var str *structure.Structure
	guard(&out.ParsePanic, func() { str = iodef.Read(strings.NewReader(c.Text)) })
	if out.ParsePanic != "" {
		return
	}
	out.Major, out.Minor = str.Metadata.MajorVersion, str.Metadata.MinorVersion
	nodes := str.GetAllNodes()
	sort.Slice(nodes, func(i, j int) bool { return nodes[i].GetID() < nodes[j].GetID() })
	for _, n := range nodes {
		ec := n.ExternalConstraint
		out.Nodes = append(out.Nodes, jNode{ID: n.GetID(), X: fs(n.Position.X()), Y: fs(n.Position.Y()),
			Dx: !ec.AllowsDispX(), Dy: !ec.AllowsDispY(), Rz: !ec.AllowsRotation(),
			Ext: n.IsExternallyConstrained(), Dof: n.DegreesOfFreedomNum()})
	}
	out.Bars = dumpBars(str)
	if c.WriteBack {
		var buf bytes.Buffer
		guard(&out.ParsePanic, func() { iodef.Write(str, &buf) })
		out.DefText = buf.String()
		if c.Templates && out.ParsePanic == "" {
			guard(&out.ParsePanic, func() {
				out.DefData = templateData("definition", readTemplate(c.Repo, "io/def/definition.template.txt"), str)
			})
		}
	}
	if c.ParseOnly {
		return
	}

	if c.Repeat < 1 {
		c.Repeat = 1
	}
	var pre, firstPre *preprocess.Structure
	for k := 0; k < c.Repeat; k++ {
		var jp jPre
		if !c.concurrent {
			os.Setenv("VERIF_SLICE_ORDER", c.Order)
			preprocess.VerifResetSliceOrder()
		}
		guard(&jp.Panic, func() {
			pre = preprocess.StructureModel(str, &preprocess.PreprocessOptions{IncludeOwnWeight: c.Weight})
			jp = dumpPre(pre)
		})
		out.Pre = append(out.Pre, jp)
		if jp.Panic != "" {
			return
		}
		if k == 0 {
			firstPre = pre
		}
	}
	out.BarsAfter = dumpBars(str)
	if c.Repre && firstPre != nil {
		// the definition is preprocessed once more, with the other own-weight setting; what the first call returned
		// is then looked at again
		var jp jPre
		guard(&jp.Panic, func() {
			preprocess.StructureModel(str, &preprocess.PreprocessOptions{IncludeOwnWeight: !c.Weight})
			jp = dumpPre(firstPre)
		})
		out.PreAfter = &jp
	}

	if c.Restage > 0 && len(pre.Elements()) > 1 {
		var jp jPre
		guard(&jp.Panic, func() {
			els := pre.Elements()
			drop := (c.Restage - 1) % len(els)
			var remained []*preprocess.Element
			for i, el := range els {
				if i == drop {
					out.Dropped = el.GetID()
					continue
				}
				remained = append(remained, el)
			}
			stage := preprocess.MakeStructure(pre.Metadata, str.NodesById.Copy(), remained, c.Weight).AssignDof()
			jp = dumpPre(stage)
		})
		out.Restaged = &jp
	}

	if c.ViaPre {
		var jp jPre
		guard(&jp.Panic, func() {
			var buf bytes.Buffer
			iopre.Write(pre, &buf)
			out.PreText = buf.String()
			if c.Templates {
				out.PreData = templateData("preprocess", readTemplate(c.Repo, "io/pre/preprocess.template.txt"), pre)
			}
			pre = iopre.Read(strings.NewReader(out.PreText))
			jp = dumpPre(pre)
		})
		out.Pre = append(out.Pre, jp)
		if jp.Panic != "" {
			return
		}
	}

	if c.Assemble || c.Solve {
		guard(&out.SysPanic, func() {
			k, f := pre.MakeSystemOfEquations()
			for i := 0; i < k.Rows(); i++ {
				idx := k.NonZeroIndicesAtRow(i)
				sort.Ints(idx)
				for _, j := range idx {
					out.KEntries = append(out.KEntries, [3]string{fmt.Sprint(i), fmt.Sprint(j), fs(k.Value(i, j))})
				}
			}
			for i := 0; i < f.Length(); i++ {
				out.F = append(out.F, fs(f.Value(i)))
			}
		})
	}

	if c.Solve {
		maxErr := 1e-5
		if c.Error != "" {
			maxErr = pf(c.Error)
		}
		out.MaxError = fs(maxErr)
		dumpPath := c.ScratchDir + "/solution.dump"
		os.Remove(dumpPath)
		if !c.concurrent {
			os.Setenv("VERIF_DUMP_SOLUTION", dumpPath)
		}
		var sol *process.Solution
		guard(&out.SolvePanic, func() {
			sol = process.Solve(pre, process.SolveOptions{MaxDisplacementsError: maxErr})
		})
		solKept = sol
		if !c.concurrent {
			os.Unsetenv("VERIF_DUMP_SOLUTION")
			out.U = readU(dumpPath)
		}
		if c.KeepPre {
			var jp jPre
			guard(&jp.Panic, func() { jp = dumpPre(pre) })
			out.PreSolved = &jp
		}
		if out.SolvePanic == "" && sol != nil {
			guard(&out.SolvePanic, func() {
				out.Sol = dumpSol(sol)
				var sbuf bytes.Buffer
				iosol.Write(sol, &sbuf)
				out.SolText = sbuf.String()
				if c.Templates {
					out.SolData = templateData("solution", readTemplate(c.Repo, "io/sol/solution.template.txt"), sol)
				}
				out.Reactions = map[string][3]string{}
				for id, r := range sol.NodeReactions() {
					out.Reactions[id] = t3(r)
				}
			})
		}
	}
	if c.HoldText != "" && len(out.Sol) > 0 {
		// a caller that solves two load cases one after the other and compares them afterwards
		guard(&out.HeldPanic, func() {
			str2 := iodef.Read(strings.NewReader(c.HoldText))
			pre2 := preprocess.StructureModel(str2, &preprocess.PreprocessOptions{IncludeOwnWeight: c.Weight})
			func() {
				defer func() { recover() }() // whether the second one solves does not matter here
				process.Solve(pre2, process.SolveOptions{MaxDisplacementsError: pf(out.MaxError)})
			}()
		})
		if out.HeldPanic == "" {
			guard(&out.HeldPanic, func() {
				out.SolHeld = dumpSol(solKept)
				out.ReacHeld = map[string][3]string{}
				for id, r := range solKept.NodeReactions() {
					out.ReacHeld[id] = t3(r)
				}
			})
		}
	}
	if c.Reassemble && (c.Assemble || c.Solve) && out.SysPanic == "" {
		ag := &jAgain{}
		guard(&ag.Panic, func() {
			els := pre.Elements()
			el := els[len(els)/2]
			nodes := el.Nodes()
			nodes[len(nodes)/2].AddLocalLeftLoad(3, -7, 11)
			nodes[0].AddLocalRightLoad(-5, 2, 0)
			ag.Pre = dumpPre(pre)
			k, f := pre.MakeSystemOfEquations()
			for i := 0; i < k.Rows(); i++ {
				idx := k.NonZeroIndicesAtRow(i)
				sort.Ints(idx)
				for _, j := range idx {
					ag.KEntries = append(ag.KEntries, [3]string{fmt.Sprint(i), fmt.Sprint(j), fs(k.Value(i, j))})
				}
			}
			for i := 0; i < f.Length(); i++ {
				ag.F = append(ag.F, fs(f.Value(i)))
			}
		})
		out.Again = ag
	}
	return
}

func dumpSol(sol *process.Solution) []jSolBar {
	var bars []jSolBar
	for _, es := range sol.Elements {
		bars = append(bars, jSolBar{ID: es.GetID(), Series: map[string]jSeries{
			"gdx": series(es.GlobalXDispl), "gdy": series(es.GlobalYDispl), "grz": series(es.GlobalZRot),
			"ldx": series(es.LocalXDispl), "ldy": series(es.LocalYDispl), "lrz": series(es.LocalZRot),
			"axial": series(es.AxialStress), "shear": series(es.ShearForce), "bend": series(es.BendingMoment),
			"bend_axial": series(es.BendingMomentTopFiberAxialStress),
		}})
	}
	return bars
}

func readTemplate(repo, rel string) string {
	raw, err := os.ReadFile(repo + "/" + rel)
	if err != nil {
		panic(err)
	}
	return string(raw)
}

// readU reads the solver's raw answer from the observer hook's dump.
func readU(path string) []string {
	f, err := os.Open(path)
	if err != nil {
		return nil
	}
	defer f.Close()
	var u []string
	sc := bufio.NewScanner(f)
	sc.Buffer(make([]byte, 1<<20), 1<<26)
	for sc.Scan() {
		fields := strings.Fields(sc.Text())
		if len(fields) == 3 && fields[0] == "u" {
			v := fields[2]
			switch v {
			case "NaN":
				v = "nan"
			case "+Inf":
				v = "inf"
			case "-Inf":
				v = "-inf"
			}
			u = append(u, v)
		}
	}
	return u
}

func cmdPipeline() {
	var cases []pipeCase
	readJSON(&cases)
	outs := make([]jPipeOut, len(cases))
	for i, c := range cases {
		outs[i] = runPipe(c)
	}
	writeJSON(outs)
}

// concurrent: every case in a goroutine of its own, all at the same time (a program that handles several structures
// at once): what each one yields must be what it yields alone.  No imposed slicing order and no solver observer
// (both are process-wide settings).
func cmdConcurrent() {
	var cases []pipeCase
	readJSON(&cases)
	build.ReadBuildInfo()
	os.Setenv("VERIF_SLICE_ORDER", "")
	outs := make([]jPipeOut, len(cases))
	var wg sync.WaitGroup
	start := make(chan struct{})
	for i := range cases {
		wg.Add(1)
		go func(i int) {
			defer wg.Done()
			c := cases[i]
			c.Order, c.concurrent = "", true
			<-start
			outs[i] = runPipe(c)
		}(i)
	}
	close(start)
	wg.Wait()
	writeJSON(outs)
}

func init() { commands["concurrent"] = cmdConcurrent }
