// Command dump runs parts of the implementation under verification on cases given as
// JSON on stdin and prints what it observed as JSON on stdout. Every float64 is printed
// with strconv 'g' -1 (shortest representation that round-trips), so the Python and Coq
// sides see exactly the binary value the implementation computed.
package main

import (
	"encoding/json"
	"fmt"
	"math"
	"os"
	"strconv"
)

func fs(x float64) string {
	if math.IsNaN(x) {
		return "nan"
	}
	if math.IsInf(x, 1) {
		return "inf"
	}
	if math.IsInf(x, -1) {
		return "-inf"
	}
	return strconv.FormatFloat(x, 'g', -1, 64)
}

func pf(s string) float64 {
	v, err := strconv.ParseFloat(s, 64)
	if err != nil {
		panic(fmt.Sprintf("dump: bad float %q", s))
	}
	return v
}

func fss(xs []float64) []string {
	out := make([]string, len(xs))
	for i, x := range xs {
		out[i] = fs(x)
	}
	return out
}

func readJSON(v interface{}) {
	dec := json.NewDecoder(os.Stdin)
	if err := dec.Decode(v); err != nil {
		fmt.Fprintln(os.Stderr, "dump: cannot read input:", err)
		os.Exit(2)
	}
}

func writeJSON(v interface{}) {
	enc := json.NewEncoder(os.Stdout)
	if err := enc.Encode(v); err != nil {
		fmt.Fprintln(os.Stderr, "dump: cannot write output:", err)
		os.Exit(2)
	}
}

var commands = map[string]func(){}

func main() {
	if len(os.Args) < 2 {
		fmt.Fprintln(os.Stderr, "usage: dump <command>")
		os.Exit(2)
	}
	cmd, ok := commands[os.Args[1]]
	if !ok {
		fmt.Fprintln(os.Stderr, "dump: unknown command", os.Args[1])
		os.Exit(2)
	}
	cmd()
}
