package main

import (
	"bytes"
	"fmt"
	"math"
	"strings"

	"github.com/angelsolaorbaiceta/inkfem/build"
	"github.com/angelsolaorbaiceta/inkfem/generate"
	iodef "github.com/angelsolaorbaiceta/inkfem/io/def"
	"github.com/angelsolaorbaiceta/inkfem/preprocess"
	"github.com/angelsolaorbaiceta/inkfem/process"
	"github.com/angelsolaorbaiceta/inkfem/structure"
)

// bigcheck: structures too large to ship entry by entry to the Python oracle (thousands of bars, tens of thousands
// of equations).  The system MakeSystemOfEquations returns is compared, inside this process, with an independent
// superposition of the slice matrices (Element.StiffnessGlobalMat, the object of C20) and of the nodal loads placed at
// the slice nodes' own equation numbers; optionally the structure is solved and the answer judged against that system.

type bigCase struct {
	Text   string
	Weight bool
	Solve  bool
	Error  string
}

type bigOut struct {
	Panic      string
	Equations  int
	Bars       int
	KMismatch  int
	FMismatch  int
	First      []string
	Solved     bool
	SolvePanic string
	MaxResid   string // largest |f - K u| over the independent system's free equations
	MaxSupport string // largest |u| on a supported equation
}

func init() {
	commands["bigcheck"] = func() {
		var cases []bigCase
		readJSON(&cases)
		build.ReadBuildInfo()
		outs := make([]bigOut, len(cases))
		for n, c := range cases {
			o := &outs[n]
			guard(&o.Panic, func() { bigOne(c, o) })
		}
		writeJSON(outs)
	}
}

func bigOne(c bigCase, o *bigOut) {
	str := iodef.Read(strings.NewReader(c.Text))
	pre := preprocess.StructureModel(str, &preprocess.PreprocessOptions{IncludeOwnWeight: c.Weight})
	n := pre.DofsCount()
	o.Equations, o.Bars = n, len(pre.Elements())
	type key struct{ i, j int }
	K := map[key]float64{}
	Kmag := map[key]float64{}
	f := make([]float64, n)
	fmag := make([]float64, n)
	for _, el := range pre.Elements() {
		nodes := el.Nodes()
		frame := el.RefFrame()
		for k := 0; k+1 < len(nodes); k++ {
			a, b := nodes[k], nodes[k+1]
			m := el.StiffnessGlobalMat(a.T, b.T)
			da, db := a.DegreesOfFreedomNum(), b.DegreesOfFreedomNum()
			d := []int{da[0], da[1], da[2], db[0], db[1], db[2]}
			for p := 0; p < 6; p++ {
				for q := 0; q < 6; q++ {
					v := m.Value(p, q)
					K[key{d[p], d[q]}] += v
					Kmag[key{d[p], d[q]}] += math.Abs(v)
				}
			}
		}
		for _, nd := range nodes {
			g := nd.NetLocalLoadTorsor().ProjectedToGlobal(frame)
			d := nd.DegreesOfFreedomNum()
			for p, v := range []float64{g.Fx(), g.Fy(), g.Mz()} {
				f[d[p]] += v
				fmag[d[p]] += math.Abs(v)
			}
		}
	}
	sup := make([]bool, n)
	for _, nd := range pre.GetAllNodes() {
		if !nd.HasDegreesOfFreedomNum() {
			continue
		}
		d := nd.DegreesOfFreedomNum()
		ec := nd.ExternalConstraint
		if !ec.AllowsDispX() {
			sup[d[0]] = true
		}
		if !ec.AllowsDispY() {
			sup[d[1]] = true
		}
		if !ec.AllowsRotation() {
			sup[d[2]] = true
		}
	}
	kk, ff := pre.MakeSystemOfEquations()
	note := func(s string) {
		if len(o.First) < 5 {
			o.First = append(o.First, s)
		}
	}
	rowHas := make([]bool, n)
	for k, m := range Kmag {
		if m > 1e-10 {
			rowHas[k.i] = true
		}
	}
	seen := map[key]bool{}
	for i := 0; i < kk.Rows(); i++ {
		for _, j := range kk.NonZeroIndicesAtRow(i) {
			got := kk.Value(i, j)
			seen[key{i, j}] = true
			want := K[key{i, j}]
			if sup[i] || sup[j] || !rowHas[i] {
				want = 0
				if i == j {
					want = 1
				}
			}
			if math.Abs(got-want) > 1e-9*(Kmag[key{i, j}]+math.Abs(want))+1e-10 {
				o.KMismatch++
				note(fmt.Sprintf("K[%d][%d] is %g, the slices placed there add up to %g", i, j, got, want))
			}
		}
	}
	for k, want := range K {
		if seen[k] || sup[k.i] || sup[k.j] {
			continue
		}
		if math.Abs(want) > 1e-9*Kmag[k]+1e-9 {
			o.KMismatch++
			note(fmt.Sprintf("K[%d][%d] is missing, the slices placed there add up to %g", k.i, k.j, want))
		}
	}
	for i := 0; i < n; i++ {
		want := f[i]
		if sup[i] {
			want = 0
		}
		if math.Abs(ff.Value(i)-want) > 1e-9*(fmag[i]+math.Abs(want))+1e-300 {
			o.FMismatch++
			note(fmt.Sprintf("f[%d] is %g, the nodal loads sharing that equation add up to %g", i, ff.Value(i), want))
		}
	}
	if !c.Solve {
		return
	}
	maxErr := 1e-5
	if c.Error != "" {
		maxErr = pf(c.Error)
	}
	var sol *process.Solution
	guard(&o.SolvePanic, func() { sol = process.Solve(pre, process.SolveOptions{MaxDisplacementsError: maxErr}) })
	if o.SolvePanic != "" || sol == nil {
		return
	}
	o.Solved = true
	u := make([]float64, n)
	for _, es := range sol.Elements {
		nodes := es.Element.Nodes()
		for k, nd := range nodes {
			d := nd.DegreesOfFreedomNum()
			u[d[0]], u[d[1]], u[d[2]] = es.GlobalXDispl[k].Value, es.GlobalYDispl[k].Value, es.GlobalZRot[k].Value
		}
	}
	res := make([]float64, n)
	copy(res, f)
	for k, v := range K {
		res[k.i] -= v * u[k.j]
	}
	worst, worstSup := 0.0, 0.0
	for i := 0; i < n; i++ {
		if sup[i] {
			worstSup = math.Max(worstSup, math.Abs(u[i]))
			continue
		}
		// columns of supported unknowns carry u = 0 when the supports hold
		worst = math.Max(worst, math.Abs(res[i]))
	}
	o.MaxResid, o.MaxSupport = fs(worst), fs(worstSup)
}

// defwrites: several definitions generated and written one after the other in ONE process (a program that writes many
// files): each text must be what a process of its own writes.
type defWritesCase struct {
	Spans, Levels      int
	Span, Height, Load string
}

func init() {
	commands["defwrites"] = func() {
		var cases []defWritesCase
		readJSON(&cases)
		build.ReadBuildInfo()
		texts := make([]string, len(cases))
		for k, c := range cases {
			str := generate.Reticular(generate.ReticStructureParams{
				Spans: c.Spans, Levels: c.Levels, Span: pf(c.Span), Height: pf(c.Height), LoadDistValue: pf(c.Load),
				Section:  structure.MakeSection("sec", 10.3, 171.0, 15.92, 34.2, 5.79),
				Material: structure.MakeMaterial("mat", 0.00000785, 21000000, 8100000, 0.3, 27500, 43000),
			})
			var buf bytes.Buffer
			iodef.Write(str, &buf)
			texts[k] = buf.String()
		}
		writeJSON(texts)
	}
}
