package main

import (
	"strings"

	iodef "github.com/angelsolaorbaiceta/inkfem/io/def"
	iopre "github.com/angelsolaorbaiceta/inkfem/io/pre"
	"github.com/angelsolaorbaiceta/inkfem/preprocess"
	"github.com/angelsolaorbaiceta/inkfem/structure"
)

// readpre: gives .inkfempre texts to the implementation's reader and reports what it holds
// afterwards (or the panic).

type readPreCase struct{ Text string }

type readPreOut struct {
	Panic string `json:",omitempty"`
	Pre   *jPre  `json:",omitempty"`
	Def   *struct {
		Nodes []jNode
		Bars  []jBar
	} `json:",omitempty"`
}

func init() { commands["readpre"] = cmdReadPre }

func cmdReadPre() {
	var cases []readPreCase
	readJSON(&cases)
	outs := make([]readPreOut, len(cases))
	for i, c := range cases {
		var pre *preprocess.Structure
		guard(&outs[i].Panic, func() { pre = iopre.Read(strings.NewReader(c.Text)) })
		if outs[i].Panic != "" || pre == nil {
			continue
		}
		guard(&outs[i].Panic, func() {
			jp := dumpPre(pre)
			outs[i].Pre = &jp
			def := &struct {
				Nodes []jNode
				Bars  []jBar
			}{}
			for _, n := range pre.GetAllNodes() {
				ec := n.ExternalConstraint
				def.Nodes = append(def.Nodes, jNode{ID: n.GetID(), X: fs(n.Position.X()), Y: fs(n.Position.Y()),
					Dx: !ec.AllowsDispX(), Dy: !ec.AllowsDispY(), Rz: !ec.AllowsRotation(), Ext: n.IsExternallyConstrained()})
			}
			for _, el := range pre.Elements() {
				def.Bars = append(def.Bars, barOf(el.Element))
			}
			outs[i].Def = def
		})
	}
	writeJSON(outs)
}

var _ = iodef.Read
var _ *structure.Structure
