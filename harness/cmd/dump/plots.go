package main

import (
	"bytes"
	"strings"

	iodef "github.com/angelsolaorbaiceta/inkfem/io/def"
	"github.com/angelsolaorbaiceta/inkfem/plot"
)

// plots: one structure read once, plotted several times in one process (light, dark, light again):
// what a plot shows must not depend on the plots made before it, and plotting leaves the structure alone.

type plotsCase struct {
	Text   string
	Scale  string
	DScale string
}

type plotsOut struct {
	Panic      string
	SVGs       []string // light, dark, light
	BarsBefore []jBar
	BarsAfter  []jBar
}

func init() {
	commands["plots"] = func() {
		var cases []plotsCase
		readJSON(&cases)
		outs := make([]plotsOut, len(cases))
		for k, c := range cases {
			o := &outs[k]
			guard(&o.Panic, func() {
				str := iodef.Read(strings.NewReader(c.Text))
				o.BarsBefore = dumpBars(str)
				for _, dark := range []bool{false, true, false} {
					cfg := plot.DefaultPlotConfig()
					if dark {
						cfg = plot.DarkPlotConfig()
					}
					var buf bytes.Buffer
					plot.StructureToSVG(str, &plot.StructurePlotOps{Scale: pf(c.Scale), DistLoadScale: pf(c.DScale), MinMargin: 150}, cfg, &buf)
					o.SVGs = append(o.SVGs, buf.String())
				}
				o.BarsAfter = dumpBars(str)
			})
		}
		writeJSON(outs)
	}
}
