package main

import (
	"github.com/angelsolaorbaiceta/inkfem/process"
	"github.com/angelsolaorbaiceta/inkmath/mat"
	"github.com/angelsolaorbaiceta/inkmath/vec"
)

// accept: the acceptance test solve applies to the solver's answer (process.ensureSolutionIsGoodEnough, through the verif
// hook), on systems and answers written by the caller: which answers it lets through is decided here, not by what the
// solver happens to produce.
type acceptCase struct {
	N   int
	K   [][3]string // i, j, value
	F   []string
	U   []string // "NaN", "+Inf", "-Inf" allowed
	Eps string
}

type acceptOut struct {
	Refusal string
}

func init() {
	commands["accept"] = func() {
		var cases []acceptCase
		readJSON(&cases)
		outs := make([]acceptOut, len(cases))
		for k, c := range cases {
			m := mat.MakeSparse(c.N, c.N)
			for _, e := range c.K {
				m.SetValue(int(pf(e[0])), int(pf(e[1])), pf(e[2]))
			}
			f, u := vec.Make(c.N), vec.Make(c.N)
			for i := 0; i < c.N; i++ {
				f.SetValue(i, pf(c.F[i]))
				u.SetValue(i, pf(c.U[i]))
			}
			outs[k].Refusal = process.VerifAcceptSolution(m, f, u, pf(c.Eps))
		}
		writeJSON(outs)
	}
}
