package main

// What a text/template sees of a Go value: the harness walks the parse tree of a template over the
// very value handed to Template.Execute and records, per context, the printed form of every field
// path the template prints, the elements of every path it ranges over (maps in key order, as
// text/template does) and the truth value of every path it tests.  The Coq model of the template
// interpreter (Model/Template.v) renders the translated template over this record; the result must
// be the text Go wrote.  Printing a leaf is done by text/template itself ({{.}} on the value), so Go's
// number formatting is taken as it is.

import (
	"bytes"
	"fmt"
	"reflect"
	"sort"
	"strings"
	"text/template"
	"text/template/parse"
)

type jItem struct {
	Key string
	Ctx *jCtx
}

type jCtx struct {
	Leaves map[string]string
	Lists  map[string][]jItem
	Bools  map[string]bool
}

func newCtx() *jCtx {
	return &jCtx{Leaves: map[string]string{}, Lists: map[string][]jItem{}, Bools: map[string]bool{}}
}

var leafTemplate = template.Must(template.New("leaf").Parse("{{.}}"))

func printLeaf(v reflect.Value) string {
	var b bytes.Buffer
	if !v.IsValid() {
		return "<no value>"
	}
	if err := leafTemplate.Execute(&b, v.Interface()); err != nil {
		panic(err)
	}
	return b.String()
}

// evalPath follows field / niladic method names as text/template does
func evalPath(v reflect.Value, idents []string) reflect.Value {
	for _, name := range idents {
		for v.Kind() == reflect.Interface && !v.IsNil() {
			v = v.Elem()
		}
		ptr := v
		if ptr.Kind() != reflect.Interface && ptr.Kind() != reflect.Pointer && ptr.CanAddr() {
			ptr = ptr.Addr()
		}
		if m := ptr.MethodByName(name); m.IsValid() {
			out := m.Call(nil)
			v = out[0]
			continue
		}
		for v.Kind() == reflect.Pointer && !v.IsNil() {
			v = v.Elem()
		}
		if m := v.MethodByName(name); m.IsValid() {
			v = m.Call(nil)[0]
			continue
		}
		if v.Kind() == reflect.Struct {
			f := v.FieldByName(name)
			if !f.IsValid() {
				panic(fmt.Sprintf("template data: no field or method %s on %s", name, v.Type()))
			}
			v = f
			continue
		}
		panic(fmt.Sprintf("template data: cannot evaluate %s on %s", name, v.Type()))
	}
	return v
}

type tmplBinding struct {
	isKey bool
	key   string
	val   reflect.Value
	ctx   *jCtx
}

type tmplWalker struct {
	vars map[string]tmplBinding
}

func (w *tmplWalker) resolve(dot reflect.Value, dotCtx *jCtx, n parse.Node) (reflect.Value, *jCtx, string, *tmplBinding) {
	switch x := n.(type) {
	case *parse.FieldNode:
		return evalPath(dot, x.Ident), dotCtx, strings.Join(x.Ident, "."), nil
	case *parse.VariableNode:
		b, ok := w.vars[x.Ident[0]]
		if !ok {
			panic("template data: unbound variable " + x.Ident[0])
		}
		if b.isKey {
			return reflect.Value{}, nil, "", &b
		}
		return evalPath(b.val, x.Ident[1:]), b.ctx, strings.Join(x.Ident[1:], "."), nil
	case *parse.DotNode:
		return dot, dotCtx, "", nil
	}
	panic("template data: construct not understood: " + n.String())
}

func truth(v reflect.Value) bool {
	t, _ := template.IsTrue(v.Interface())
	return t
}

func (w *tmplWalker) walk(l *parse.ListNode, dot reflect.Value, ctx *jCtx) {
	if l == nil {
		return
	}
	for _, n := range l.Nodes {
		switch x := n.(type) {
		case *parse.TextNode:
		case *parse.ActionNode:
			v, c, path, key := w.resolve(dot, ctx, x.Pipe.Cmds[0].Args[0])
			if key == nil {
				c.Leaves[path] = printLeaf(v)
			}
		case *parse.IfNode:
			v, c, path, _ := w.resolve(dot, ctx, x.Pipe.Cmds[0].Args[0])
			t := truth(v)
			c.Bools[path] = t
			if t {
				w.walk(x.List, dot, ctx)
			} else {
				w.walk(x.ElseList, dot, ctx)
			}
		case *parse.RangeNode:
			v, c, path, _ := w.resolve(dot, ctx, x.Pipe.Cmds[0].Args[0])
			for v.Kind() == reflect.Interface || v.Kind() == reflect.Pointer {
				v = v.Elem()
			}
			var keys []string
			var vals []reflect.Value
			switch v.Kind() {
			case reflect.Slice, reflect.Array:
				for i := 0; i < v.Len(); i++ {
					keys = append(keys, "")
					vals = append(vals, v.Index(i))
				}
			case reflect.Map:
				mk := v.MapKeys()
				sort.Slice(mk, func(i, j int) bool { return mk[i].String() < mk[j].String() })
				for _, k := range mk {
					if k.Kind() != reflect.String {
						panic("template data: map with non-string keys")
					}
					keys = append(keys, printLeaf(k))
					vals = append(vals, v.MapIndex(k))
				}
			default:
				panic("template data: range over " + v.Kind().String())
			}
			items, seen := c.Lists[path]
			if seen {
				// the same path ranged over again in the same context: the same elements, seen through more fields
				if len(items) != len(vals) {
					panic("template data: a path ranged over twice yields different lengths: " + path)
				}
			} else {
				items = make([]jItem, len(vals))
				for i := range vals {
					items[i] = jItem{Key: keys[i], Ctx: newCtx()}
				}
				c.Lists[path] = items
			}
			for i := range vals {
				saved := map[string]tmplBinding{}
				for k, b := range w.vars {
					saved[k] = b
				}
				switch len(x.Pipe.Decl) {
				case 1:
					w.vars[x.Pipe.Decl[0].Ident[0]] = tmplBinding{val: vals[i], ctx: items[i].Ctx}
				case 2:
					w.vars[x.Pipe.Decl[0].Ident[0]] = tmplBinding{isKey: true, key: keys[i]}
					w.vars[x.Pipe.Decl[1].Ident[0]] = tmplBinding{val: vals[i], ctx: items[i].Ctx}
				}
				w.walk(x.List, vals[i], items[i].Ctx)
				w.vars = saved
			}
		default:
			panic("template data: node not understood: " + n.String())
		}
	}
}

// templateData records what the template at text sees of data.
func templateData(name, text string, data interface{}) *jCtx {
	trees, err := parse.Parse(name, text, "{{", "}}")
	if err != nil {
		panic(err)
	}
	root := newCtx()
	w := &tmplWalker{vars: map[string]tmplBinding{}}
	w.walk(trees[name].Root, reflect.ValueOf(data), root)
	return root
}
