(* Execution instance: Bignums' BigQ (rationals over machine-integer trees).  Its
   operations are proved by that library to implement those of Q
   (BigQ.spec_add, spec_mul, spec_sub, spec_div, spec_opp, spec_compare, spec_of_Q ...),
   and the model functions executed at this instance are the very same polymorphic Gallina
   terms the theorems instantiate at Q.  Used only by the correspondence case files:
   evaluating at Q directly costs ~0.25 s per stiffness matrix, here ~1 ms. *)
From Bignums Require Import BigQ.
From Coq Require Import ZArith QArith List.
From Inkfem Require Import Num.NumOps.

#[export] Instance BigQOps : NumOps bigQ := {|
  n0 := 0%bigQ; n1 := 1%bigQ;
  nadd := BigQ.add;
  nmul := BigQ.mul;
  nsub := BigQ.sub;
  ndiv := BigQ.div;
  nopp := BigQ.opp; nofZ := fun z => BigQ.Qz (BigZ.of_Z z) |}.

#[export] Instance BigQCmp : NumCmp bigQ := {|
  nleb := fun a b => match BigQ.compare a b with Gt => false | _ => true end;
  nltb := fun a b => match BigQ.compare a b with Lt => true | _ => false end;
  neqb := BigQ.eq_bool;
  nabs := fun a => match BigQ.compare a 0%bigQ with Lt => BigQ.opp a | _ => a end;
  nofQ := BigQ.of_Q |}.

Definition bq (q : Q) : bigQ := BigQ.red (BigQ.of_Q q).

(* Each operation of the execution instance denotes the corresponding operation of Q. *)
Notation "[[ x ]]" := (BigQ.to_Q x) (at level 0, x at level 99).
Lemma bq_add a b : ([[nadd a b]] == [[a]] + [[b]])%Q. Proof. cbn. apply BigQ.spec_add. Qed.
Lemma bq_mul a b : ([[nmul a b]] == [[a]] * [[b]])%Q. Proof. cbn. apply BigQ.spec_mul. Qed.
Lemma bq_sub a b : ([[nsub a b]] == [[a]] - [[b]])%Q. Proof. cbn. apply BigQ.spec_sub. Qed.
Lemma bq_div a b : ([[ndiv a b]] == [[a]] / [[b]])%Q. Proof. cbn. apply BigQ.spec_div. Qed.
Lemma bq_opp a : ([[nopp a]] == - [[a]])%Q. Proof. cbn. apply BigQ.spec_opp. Qed.
Lemma bq_ofQ q : ([[bq q]] == q)%Q. Proof. unfold bq. rewrite BigQ.spec_red. apply BigQ.spec_of_Q. Qed.
