(* Field-like operations over which every numerical kernel of the model is written once.
   Instances: Q (execution, whole-model theorems), R (kernel theorems for all reals),
   Mag (sum-of-magnitudes arithmetic over Q, used as the scale of rounding error). *)
From Coq Require Import ZArith QArith Qabs Reals List.
Import ListNotations.

Class NumOps (F : Type) := {
  n0 : F; n1 : F;
  nadd : F -> F -> F; nmul : F -> F -> F; nsub : F -> F -> F; ndiv : F -> F -> F;
  nopp : F -> F;
  nofZ : Z -> F
}.

Declare Scope num_scope.
Delimit Scope num_scope with num.
Infix "+" := nadd : num_scope.
Infix "*" := nmul : num_scope.
Infix "-" := nsub : num_scope.
Infix "/" := ndiv : num_scope.
Notation "- x" := (nopp x) : num_scope.
Notation "Z# z" := (nofZ z%Z) (at level 1, format "Z# z") : num_scope.

#[export] Instance QOps : NumOps Q := {|
  n0 := 0%Q; n1 := 1%Q;
  nadd := Qplus; nmul := Qmult; nsub := Qminus; ndiv := Qdiv;
  nopp := Qopp; nofZ := inject_Z |}.

#[export] Instance ROps : NumOps R := {|
  n0 := 0%R; n1 := 1%R;
  nadd := Rplus; nmul := Rmult; nsub := Rminus; ndiv := Rdiv;
  nopp := Ropp; nofZ := IZR |}.

(* Comparisons and absolute value, needed by the structural parts of the model (slicing,
   thresholds, sorting).  Instances: Q (theorems) and bigQ (execution, Num/BigQOps.v). *)
Class NumCmp (F : Type) {O : NumOps F} := {
  nleb : F -> F -> bool;
  nltb : F -> F -> bool;
  neqb : F -> F -> bool;
  nabs : F -> F;
  nofQ : Q -> F
}.

#[export] Instance QCmp : NumCmp Q := {|
  nleb := Qle_bool;
  nltb := fun a b => negb (Qle_bool b a);
  neqb := Qeq_bool;
  nabs := Qabs;
  nofQ := fun q => q |}.

(* Error-scale arithmetic on pairs (value, magnitude).  The magnitude is a first-order
   bound on how far a float64 evaluation of the same expression can drift, in units of
   the unit round-off: sums add magnitudes, products multiply them, and a quotient a/b
   has magnitude ma/|b| + |a| mb / b^2, so cancellation inside a denominator (a short
   sub-span t2 - t1, a short slice) widens the scale instead of shrinking it.  Not an
   instance; always passed explicitly. Inputs are injected with [einj]. *)
Section Mag.
Context {F : Type} {O : NumOps F} {C : NumCmp F}.
Local Open Scope num_scope.
Definition einj (x : F) : F * F := (x, nabs x).
Definition MagOps : NumOps (F * F) := {|
  n0 := (n0, n0); n1 := (n1, n1);
  nadd := fun a b => (fst a + fst b, snd a + snd b);
  nmul := fun a b => (fst a * fst b, snd a * snd b);
  nsub := fun a b => (fst a - fst b, snd a + snd b);
  ndiv := fun a b => (fst a / fst b,
                      snd a / nabs (fst b) + (nabs (fst a) * snd b) / (fst b * fst b));
  nopp := fun a => (- fst a, snd a);
  nofZ := fun z => (nofZ z, nofZ (Z.abs z)) |}.
(* comparisons look at the value only, so a model run at this instance takes exactly the
   branches of the plain run and additionally carries the error scale of every number *)
Definition MagCmp : @NumCmp (F * F) MagOps := {|
  nleb := fun a b => nleb (fst a) (fst b);
  nltb := fun a b => nltb (fst a) (fst b);
  neqb := fun a b => neqb (fst a) (fst b);
  nabs := fun a => (nabs (fst a), snd a);
  nofQ := fun q => (nofQ q, nabs (nofQ q)) |}.
(* |a - b| <= tol * scale *)
Definition close (tol scale a b : F) : bool := nleb (nabs (a - b)) (tol * scale).
End Mag.

Section Lin.
Context {F : Type} {O : NumOps F}.
Local Open Scope num_scope.

Definition vsum (l : list F) : F := fold_right nadd n0 l.
Definition dot (a b : list F) : F := vsum (map (fun p => fst p * snd p) (combine a b)).
Definition mv (m : list (list F)) (v : list F) : list F := map (fun row => dot row v) m.
Definition entry (m : list (list F)) (i j : nat) : F := nth j (nth i m []) n0.
Definition col (m : list (list F)) (j : nat) : list F := map (fun row => nth j row n0) m.
Definition transpose6 (m : list (list F)) : list (list F) := map (col m) (seq 0 6).
Definition mmul6 (a b : list (list F)) : list (list F) :=
  map (fun row => map (fun j => dot row (col b j)) (seq 0 6)) a.
Definition vadd (a b : list F) : list F := map (fun p => fst p + snd p) (combine a b).
Definition vscale (k : F) (a : list F) : list F := map (fun x => k * x) a.
End Lin.
