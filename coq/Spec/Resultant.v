(* C04: the resultant of what the user applied on a bar, in closed form, and the resultant of
   what the preprocessor put on the slice nodes.  Local axes, moments about the bar start. *)
From Coq Require Import ZArith QArith Qabs List Bool.
From Inkfem Require Import Num.NumOps Model.Types Model.Slice Model.Loads.
Import ListNotations.
Local Open Scope num_scope.

Section Resultant.
Context {F : Type} {O : NumOps F} {C : NumCmp F}.

(* a concentrated load: its local torsor, moved to the bar start (lever arm t L along the axis) *)
Definition cl_resultant (b : bar F) (l : cload F) : tor F :=
  let t := cl_local_tor (b_c b) (b_s b) l in
  (t_fx t, t_fy t, t_mz t + (cl_t l * b_L b) * t_fy t).

(* a linearly varying distributed load over [t0, t1]: integral of the intensity and of the
   intensity times the distance to the bar start, written out *)
Definition dl_resultant (b : bar F) (l : dload F) : tor F :=
  let a := dl_t0 l in let bb := dl_t1 l in
  let s := let t := term_tor (dl_term l) (dl_v0 l) in if dl_local l then t else to_local (b_c b) (b_s b) t in
  let e := let t := term_tor (dl_term l) (dl_v1 l) in if dl_local l then t else to_local (b_c b) (b_s b) t in
  let len := b_L b * (bb - a) in
  ((t_fx s + t_fx e) / Z#2 * len,
   (t_fy s + t_fy e) / Z#2 * len,
   (t_mz s + t_mz e) / Z#2 * len
   + b_L b * b_L b * (bb - a) * (t_fy s * (Z#2 * a + bb) + t_fy e * (a + Z#2 * bb)) / Z#6).

Definition resultant (b : bar F) : tor F :=
  fold_left (fun acc l => tor_add acc (dl_resultant b l)) (b_dl b)
    (fold_left (fun acc l => tor_add acc (cl_resultant b l)) (b_cl b) tor0).

(* what the slice nodes carry, moved to the bar start *)
Definition node_about_start (b : bar F) (nd : pnode F) : tor F :=
  let t := pn_net nd in (t_fx t, t_fy t, t_mz t + (pn_t nd * b_L b) * t_fy t).
Definition sum_about_start (b : bar F) (nodes : list (pnode F)) : tor F :=
  fold_left (fun acc nd => tor_add acc (node_about_start b nd)) nodes tor0.

End Resultant.

(* ---- hypotheses of the equivalence theorem, over Q ---- *)
Local Open Scope Q_scope.
Definition tor_eq (a b : tor Q) : Prop := t_fx a == t_fx b /\ t_fy a == t_fy b /\ t_mz a == t_mz b.

(* geometry witnesses are consistent: c L = dx, s L = dy, c^2 + s^2 = 1, L > 0 *)
Definition wf_geom (b : bar Q) : Prop :=
  0 < b_L b /\ b_c b * b_L b == b_x2 b - b_x1 b /\ b_s b * b_L b == b_y2 b - b_y1 b /\
  b_c b * b_c b + b_s b * b_s b == 1.

Definition all_positions (b : bar Q) : list Q :=
  [0; 1] ++ map (@cl_t Q) (b_cl b) ++ flat_map (fun l => [dl_t0 l; dl_t1 l]) (b_dl b).
(* positions are either identical or at least 1e-10 apart (the code identifies positions
   closer than that; clusters of distinct positions within 1e-10 are excluded here) *)
Definition eps_separated (b : bar Q) : Prop :=
  forall p q, In p (all_positions b) -> In q (all_positions b) -> p == q \/ (1 # 10000000000) <= Qabs (p - q).
(* every distributed load has a proper span inside [0,1]; concentrated loads lie in [0,1] *)
Definition spans_ok (b : bar Q) : Prop :=
  (forall l, In l (b_cl b) -> 0 <= cl_t l /\ cl_t l <= 1) /\
  (forall l, In l (b_dl b) -> 0 <= dl_t0 l /\ dl_t0 l < dl_t1 l /\ dl_t1 l <= 1).
