(* C16: what the physical unknowns of a sliced structure are, independently of how numbers
   are issued. *)
From Coq Require Import Arith List Bool Lia.
From Inkfem Require Import Model.Types Model.Dof.
Import ListNotations.

Inductive comp := Dx | Dy | Rz.
Definition comp_eqb (a b : comp) : bool :=
  match a, b with Dx, Dx | Dy, Dy | Rz, Rz => true | _, _ => false end.
Definition lk_comp (l : link) (c : comp) : bool :=
  match c with Dx => lk_dx l | Dy => lk_dy l | Rz => lk_rz l end.
Definition d3_comp (d : dof3) (c : comp) : nat :=
  match c with Dx => fst (fst d) | Dy => snd (fst d) | Rz => snd d end.

(* A physical unknown: a component of a structural node (shared by every bar end whose link
   constrains that component), or a component of one slice node of one bar that belongs to
   nothing else (interior slice nodes; released components of bar ends). *)
Inductive unknown :=
| UNode (n : nat) (c : comp)
| UOwn (bar node : nat) (c : comp).

(* the unknown that component c of slice node ni of bar bi (skeleton s) stands for *)
Definition unknown_of (bi : nat) (s : skel) (ni : nat) (c : comp) : unknown :=
  if Nat.eqb ni 0 then
    if lk_comp (sk_l1 s) c then UNode (sk_n1 s) c else UOwn bi ni c
  else if Nat.eqb ni (sk_nn s - 1) then
    if lk_comp (sk_l2 s) c then UNode (sk_n2 s) c else UOwn bi ni c
  else UOwn bi ni c.

(* well-formed skeleton: at least the two end nodes *)
Definition wf_skel (s : skel) : Prop := 2 <= sk_nn s.

(* number carried by component c of slice node ni of bar bi, according to the model *)
Definition num_at (bars : list skel) (bi ni : nat) (c : comp) : nat :=
  d3_comp (nth ni (nth bi (bar_dofs bars) []) (0, 0, 0)) c.
(* number of component c of structural node n *)
Definition node_num (bars : list skel) (n : nat) (c : comp) : option nat :=
  option_map (fun d => d3_comp d c) (lookup n (node_dofs bars)).

Definition valid (bars : list skel) (bi ni : nat) : Prop :=
  bi < length bars /\ ni < sk_nn (nth bi bars {| sk_n1 := 0; sk_n2 := 0; sk_l1 := rigid; sk_l2 := rigid; sk_nn := 0 |}).
Definition skel_at (bars : list skel) (bi : nat) : skel :=
  nth bi bars {| sk_n1 := 0; sk_n2 := 0; sk_l1 := rigid; sk_l2 := rigid; sk_nn := 0 |}.
Definition is_end_node (bars : list skel) (n : nat) : Prop :=
  exists bi, bi < length bars /\ (sk_n1 (skel_at bars bi) = n \/ sk_n2 (skel_at bars bi) = n).

(* the number the model gives to an unknown *)
Definition num_of_unknown (bars : list skel) (u : unknown) : option nat :=
  match u with
  | UNode n c => node_num bars n c
  | UOwn bi ni c => Some (num_at bars bi ni c)
  end.
(* unknowns that exist in the structure *)
Definition exists_unknown (bars : list skel) (u : unknown) : Prop :=
  match u with
  | UNode n c => is_end_node bars n
  | UOwn bi ni c => valid bars bi ni /\ unknown_of bi (skel_at bars bi) ni c = UOwn bi ni c
  end.
