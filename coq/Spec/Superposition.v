(* C17: vocabulary for stating that the system is the superposition of bar contributions. *)
From Coq Require Import ZArith QArith Qabs List Bool Arith Sorted.
From Inkfem Require Import Num.NumOps Gen.GenStiffness Model.Types Model.Slice Model.Dof Model.Assemble.
Import ListNotations.
Local Open Scope Q_scope.

Definition qsum (l : list Q) : Q := fold_right Qplus 0 l.

(* a sliced bar whose nodes and numbers line up and whose slices have non-zero length *)
Definition wf_pbar (p : pbar Q) : Prop :=
  length (pb_nodes p) = length (pb_dofs p) /\ ~ b_L (pb_bar p) == 0 /\
  StronglySorted (fun a b => pn_t a < pn_t b) (pb_nodes p).

(* the six equation numbers of a finite element *)
Definition slice_numbers (da db : dof3) : list nat := d3_list da ++ d3_list db.

(* entry (p, q) of a slice stiffness as the code adds it: terms below 1e-10 are skipped *)
Definition filtered (v : Q) : Q := if close_to_zero v then 0 else v.

(* the slice stiffness placed at the slice's equation numbers, read at (i, j) *)
Definition placed (k : list (list Q)) (ds : list nat) (i j : nat) : Q :=
  qsum (map (fun p => qsum (map (fun q =>
      if Nat.eqb (nth p ds 0%nat) i && Nat.eqb (nth q ds 0%nat) j then filtered (entry k p q) else 0)
    (seq 0 6))) (seq 0 6)).

(* no stiffness term of the structure falls strictly between 0 and the 1e-10 cut-off *)
Definition no_tiny (k : list (list Q)) : Prop :=
  forall p q, (p < 6)%nat -> (q < 6)%nat -> entry k p q == 0 \/ (1 # 10000000000) <= Qabs (entry k p q).
