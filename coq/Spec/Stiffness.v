(* What "the standard local beam-column stiffness rotated by the bar's angle" means.
   Hand-written specification, independent of the Go source. *)
From Coq Require Import ZArith List.
From Inkfem Require Import Num.NumOps.
Import ListNotations.
Local Open Scope num_scope.

Section Spec.
Context {F : Type} {O : NumOps F}.

(* Local 6x6 stiffness of an Euler-Bernoulli beam-column written in terms of the four
   coefficients a = EA/l, b3 = EI/l^3, b2 = EI/l^2, b1 = EI/l; the length does not occur. *)
Definition k_local_coeffs (a b3 b2 b1 : F) : list (list F) :=
  [[ a; n0; n0; - a; n0; n0];
   [n0; Z#12 * b3; Z#6 * b2; n0; - (Z#12 * b3); Z#6 * b2];
   [n0; Z#6 * b2; Z#4 * b1; n0; - (Z#6 * b2); Z#2 * b1];
   [- a; n0; n0; a; n0; n0];
   [n0; - (Z#12 * b3); - (Z#6 * b2); n0; Z#12 * b3; - (Z#6 * b2)];
   [n0; Z#6 * b2; Z#2 * b1; n0; - (Z#6 * b2); Z#4 * b1]].

Definition k_local (EA EI l : F) : list (list F) :=
  k_local_coeffs (EA / l) (EI / (l * l * l)) (EI / (l * l)) (EI / l).

(* Global -> local rotation of the six end displacements (u = c x + s y, v = -s x + c y). *)
Definition rot6 (c s : F) : list (list F) :=
  [[c; s; n0; n0; n0; n0];
   [- s; c; n0; n0; n0; n0];
   [n0; n0; n1; n0; n0; n0];
   [n0; n0; n0; c; s; n0];
   [n0; n0; n0; - s; c; n0];
   [n0; n0; n0; n0; n0; n1]].

Definition rotated_local (c s a b3 b2 b1 : F) : list (list F) :=
  mmul6 (transpose6 (rot6 c s)) (mmul6 (k_local_coeffs a b3 b2 b1) (rot6 c s)).

(* Rigid-body movements of a span whose trail node is at (x, y) and lead node at
   (x + c l, y + s l): unit translations and the unit small rotation about (px, py). *)
Definition rigid_tx : list F := [n1; n0; n0; n1; n0; n0].
Definition rigid_ty : list F := [n0; n1; n0; n0; n1; n0].
Definition rigid_rot (c s l x y px py : F) : list F :=
  [- (y - py); x - px; n1; - (y + s * l - py); x + c * l - px; n1].

(* Linear forms of the strain energy: axial stretch, and the two bending modes. *)
Definition form_a (c s : F) (d : list F) : F :=
  match d with [x1; y1; _; x2; y2; _] => (c * x2 + s * y2) - (c * x1 + s * y1) | _ => n0 end.
Definition form_b (c s l : F) (d : list F) : F :=
  match d with [x1; y1; r1; x2; y2; r2] =>
    Z#2 * ((- s * x1 + c * y1) - (- s * x2 + c * y2)) + l * (r1 + r2) | _ => n0 end.
Definition form_g (l : F) (d : list F) : F :=
  match d with [_; _; r1; _; _; r2] => l * (r1 - r2) | _ => n0 end.

End Spec.
