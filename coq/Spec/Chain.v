(* What a well-formed chain of slice nodes is (C15), stated over Q independently of the
   slicing algorithm. *)
From Coq Require Import ZArith QArith Qabs List Sorted.
From Inkfem Require Import Num.NumOps Gen.GenConsts Model.Types Model.Slice.
Import ListNotations.
Local Open Scope Q_scope.

Definition eps : Q := 1 # 10000000000.

(* position parameters of a bar's loads all lie in [0, 1] (the reader clamps them) *)
Definition in_unit (t : Q) : Prop := 0 <= t /\ t <= 1.
Definition loads_in_unit (cl : list (cload Q)) (dl : list (dload Q)) : Prop :=
  (forall l, In l cl -> in_unit (cl_t l)) /\
  (forall l, In l dl -> in_unit (dl_t0 l) /\ in_unit (dl_t1 l)).

(* interior = not within 1e-10 of a bar end *)
Definition interior (t : Q) : Prop := eps <= Qabs (t - 0) /\ eps <= Qabs (t - 1).
(* the chain has a node at p, up to the code's own equality of positions (1e-10) *)
Definition has_node_at (ts : list Q) (p : Q) : Prop := exists t, In t ts /\ Qabs (t - p) < eps.

Definition first_is (ts : list Q) (v : Q) : Prop := exists t rest, ts = t :: rest /\ t == v.
Definition last_is (ts : list Q) (v : Q) : Prop := exists front t, ts = front ++ [t] /\ t == v.

(* strictly increasing, consecutive nodes at least 1e-10 apart *)
Definition increasing (ts : list Q) : Prop := StronglySorted (fun a b => a + eps <= b) ts.

Definition chain_ok (ts : list Q) (cl : list (cload Q)) (dl : list (dload Q)) : Prop :=
  first_is ts 0 /\ last_is ts 1 /\ increasing ts /\
  (forall l, In l cl -> interior (cl_t l) -> has_node_at ts (cl_t l)) /\
  (forall l, In l dl -> (interior (dl_t0 l) -> has_node_at ts (dl_t0 l)) /\
                        (interior (dl_t1 l) -> has_node_at ts (dl_t1 l))).

(* number of interior load positions a bar brings (concentrated + both ends of distributed) *)
Definition n_load_positions (cl : list (cload Q)) (dl : list (dload Q)) : nat :=
  length (cpos cl) + length (dpos dl).
