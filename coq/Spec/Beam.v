(* Euler-Bernoulli beam-column on one finite element, with formal polynomials: the exact
   displacement field determined by the element's end displacements and its linearly varying
   distributed forces.  Local axes; x runs from 0 (trail node) to l (lead node).
   Hand-written specification, independent of the Go source. *)
From Coq Require Import ZArith List.
From Inkfem Require Import Num.NumOps.
Import ListNotations.
Local Open Scope num_scope.

Section Beam.
Context {F : Type} {O : NumOps F}.

(* polynomials: coefficient lists, lowest degree first *)
Definition peval (p : list F) (x : F) : F := fold_right (fun c acc => c + x * acc) n0 p.
Fixpoint pderiv_from (k : Z) (p : list F) : list F :=
  match p with [] => [] | c :: r => (nofZ k * c) :: pderiv_from (k + 1) r end.
Definition pderiv (p : list F) : list F := match p with [] => [] | _ :: r => pderiv_from 1 r end.

(* axial displacement u(x): u(0) = u1, u(l) = u2, EA u'' = -p with p linear from p1 to p2 *)
Definition axial_field (EA l u1 u2 p1 p2 : F) : list F :=
  [u1;
   (u2 - u1) / l + l * p1 / (Z#3 * EA) + l * p2 / (Z#6 * EA);
   - (p1 / (Z#2 * EA));
   (p1 - p2) / (Z#6 * EA * l)].

(* transverse displacement v(x): v(0) = v1, v'(0) = r1, v(l) = v2, v'(l) = r2,
   EI v'''' = q with q linear from q1 to q2 *)
Definition trans_field (EI l v1 r1 v2 r2 q1 q2 : F) : list F :=
  [v1;
   r1;
   - (Z#2 * r1 / l) - r2 / l - Z#3 * v1 / (l * l) + Z#3 * v2 / (l * l)
     + l * l * q1 / (Z#40 * EI) + l * l * q2 / (Z#60 * EI);
   r1 / (l * l) + r2 / (l * l) + Z#2 * v1 / (l * l * l) - Z#2 * v2 / (l * l * l)
     - Z#7 * l * q1 / (Z#120 * EI) - l * q2 / (Z#40 * EI);
   q1 / (Z#24 * EI);
   (q2 - q1) / (Z#120 * EI * l)].

(* linear load intensity along the element *)
Definition lin (a b l x : F) : F := a + (b - a) * x / l.

(* section forces of a field: axial force N = EA u', shear V = EI v''', moment M = EI v'' *)
Definition N_of (EA : F) (u : list F) (x : F) : F := EA * peval (pderiv u) x.
Definition V_of (EI : F) (v : list F) (x : F) : F := EI * peval (pderiv (pderiv (pderiv v))) x.
Definition M_of (EI : F) (v : list F) (x : F) : F := EI * peval (pderiv (pderiv v)) x.

(* forces the two end sections of the element receive from the nodes, in the order of the
   element's six local degrees of freedom *)
Definition end_forces (EA EI l : F) (u v : list F) : list F :=
  [- N_of EA u n0; V_of EI v n0; - M_of EI v n0; N_of EA u l; - V_of EI v l; M_of EI v l].

End Beam.
