(* GENERATED on every run by /verif/harness/cmd/translate from process/solve_displacements.go
   (computeGlobalDisplacements: what the iterative solver is given) — never edited by hand. *)
From Coq Require Import ZArith List.
From Inkfem Require Import Num.NumOps.
Import ListNotations.
Local Open Scope num_scope.

(* err is the --error option (SolveOptions.MaxDisplacementsError), n the number of equations *)
Definition solver_tolerance {F : Type} {O : NumOps F} (err : F) : F := ((Z#1 / Z#2) * err).
Definition solver_max_iter {F : Type} {O : NumOps F} (n : F) : F := (Z#10 * n).
