(* GENERATED on every run by /verif/harness/cmd/translate from preprocess/apply_distributed_loads.go (applyDistributedLoadToNodes, computeLoadSlopes) and structure/element.go (AddOwnWeight)
   — never edited by hand; regenerated from /repo's working tree. *)
From Coq Require Import ZArith List.
From Inkfem Require Import Num.NumOps.
Import ListNotations.
Local Open Scope num_scope.

Section GenLoads.
Context {F : Type} {O : NumOps F}.

(* span guard present in the source: true *)
(* (sFx, sFy, sMz) / (eFx, eFy, eMz): local load intensity at the trail / lead node of a
   finite element of length len. Returns the loads added to the trail node (left) and to the
   lead node (right). *)
Definition lump_gen (sFx sFy sMz eFx eFy eMz len : F) : (F * F * F) * (F * F * F) :=
  let v_length := len in
  let v_halfLength := ((Z#1 / Z#2) * v_length) in
  let v_length2 := (v_length * v_length) in
  let v_length3 := (v_length2 * v_length) in
  let v_slFx := ((eFx - sFx) / v_length) in
  let v_slFy := ((eFy - sFy) / v_length) in
  let v_slMz := ((eMz - sMz) / v_length) in
  let v_trailFx := ((sFx * v_halfLength) + ((v_length2 * v_slFx) / Z#6)) in
  let v_trailFy := ((sFy * v_halfLength) + (((Z#3 * v_length2) * v_slFy) / Z#20)) in
  let v_trailFyMoment := (((sFy * v_length2) / Z#12) + ((v_length3 * v_slFy) / Z#30)) in
  let v_leadFx := ((sFx * v_halfLength) + ((v_length2 * v_slFx) / Z#3)) in
  let v_leadFy := ((sFy * v_halfLength) + (((Z#7 * v_length2) * v_slFy) / Z#20)) in
  let v_leadFyMoment := ((- ((sFy * v_length2) / Z#12)) - ((v_length3 * v_slFy) / Z#20)) in
  ((v_trailFx,
    v_trailFy,
    ((((Z#1 / Z#2) * (sMz + eMz)) * v_halfLength) + v_trailFyMoment)),
   (v_leadFx,
    v_leadFy,
    ((((Z#1 / Z#2) * (sMz + eMz)) * v_halfLength) + v_leadFyMoment))).

(* intensity of the own-weight load (global FY, whole span, constant) *)
Definition own_weight_gen (rho A : F) : F :=
  let v_value := ((- rho) * A) in
  v_value.

End GenLoads.
