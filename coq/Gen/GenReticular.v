(* GENERATED on every run by /verif/harness/cmd/translate from generate/reticular.go
   (generateNodes, generateBars) - never edited by hand. *)
From Coq Require Import ZArith QArith Arith Bool List.
From Inkfem Require Import Model.Types.
Import ListNotations.

Definition ret_rows_Z (levels : Z) : Z := (levels + (1)%Z)%Z.
Definition ret_cols_Z (spans : Z) : Z := (spans + (1)%Z)%Z.
(* barsCount *)
Definition ret_bars_count (rows cols : Z) : Z := ((((((2)%Z * cols)%Z * rows)%Z - ((2)%Z * cols)%Z)%Z - rows)%Z + (1)%Z)%Z.

Definition ret_rows (levels : nat) : nat := (levels + 1).
Definition ret_cols (spans : nat) : nat := (spans + 1).
Definition ret_is_lowest (rows cols id : nat) : bool := (Nat.leb id cols).
Definition ret_is_rows_last (rows cols id : nat) : bool := (Nat.eqb (Nat.modulo id cols) 0).
Definition ret_is_upper (rows cols id : nat) : bool := (Nat.ltb (cols * ((rows - 1))) id).
(* for i := 1; i <= len(nodes); ... *)
Definition ret_loop_start : nat := 1.
Definition ret_loop_cond (nnodes i : nat) : bool := (Nat.leb i nnodes).
Definition ret_beam_cond (rows cols i : nat) : bool := ((negb (ret_is_rows_last rows cols i)) && (negb (ret_is_lowest rows cols i)))%bool.
Definition ret_beam_start (rows cols i : nat) : nat := i.
Definition ret_beam_end (rows cols i : nat) : nat := (i + 1).
Definition ret_beam_id (barIndex : nat) : nat := (barIndex + 1).
Definition ret_beam_loaded : bool := true.
Definition ret_beam_rigid : bool := true.
Definition ret_column_cond (rows cols i : nat) : bool := (negb (ret_is_upper rows cols i)).
Definition ret_column_start (rows cols i : nat) : nat := i.
Definition ret_column_end (rows cols i : nat) : nat := (i + cols).
Definition ret_column_id (barIndex : nat) : nat := (barIndex + 1).
Definition ret_column_loaded : bool := false.
Definition ret_column_rigid : bool := true.
(* load.MakeDistributed(
	load.FY, true,
	nums.MinT, -params.LoadDistValue,
	nums.MaxT, -params.LoadDistValue,
) *)
Definition ret_load (v : Q) : dload Q :=
  {| dl_term := FY; dl_local := true; dl_t0 := 0; dl_v0 := (- v); dl_t1 := 1; dl_v1 := (- v) |}%Q.

Definition ret_node_rows (levels : nat) : nat := (levels + 1).
Definition ret_node_cols (spans : nat) : nat := (spans + 1).
Definition ret_node_fixed (i : nat) : bool := (Nat.eqb i 0).
Definition ret_node_id (nodeIndex : nat) : nat := (nodeIndex + 1).
Definition ret_node_x (i j : nat) (span height : Q) : Q := (inject_Z (Z.of_nat j) * span)%Q.
Definition ret_node_y (i j : nat) (span height : Q) : Q := (inject_Z (Z.of_nat i) * height)%Q.
