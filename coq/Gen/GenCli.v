(* GENERATED on every run by /verif/harness/cmd/translate from cmd/solve.go (solveStructure) - never edited by hand. *)

(* the wait-group is incremented by the main flow before the writer is started *)
Definition cli_add_before_spawn : bool := true.
(* the writer signals completion (deferred Done inside the goroutine) *)
Definition cli_writer_signals_done : bool := true.
(* the main flow waits for the writer after the solution has been written *)
Definition cli_waits_at_end : bool := true.
(* the .inkfempre file is created by the main flow before the solver runs *)
Definition cli_pre_created_first : bool := true.
(* the solution file is created only after the solver returned *)
Definition cli_sol_created_after_solve : bool := true.
