(* GENERATED on every run by /verif/harness/cmd/translate from structure/element.go (StiffnessGlobalMat)
   — never edited by hand; regenerated from /repo's working tree. *)
From Coq Require Import ZArith List.
From Inkfem Require Import Num.NumOps.
Import ListNotations.
Local Open Scope num_scope.

Section GenStiffness.
Context {F : Type} {O : NumOps F}.

(* L: bar length, (c, s): direction cosines, [t1, t2]: sub-span, E A I: material/section. *)
Definition stiff_gen (L c s t1 t2 E A I : F) : list (list F) :=
  let v_l := (L * (t2 - t1)) in
  let v_c := c in
  let v_s := s in
  let v_ea := (E * A) in
  let v_ei := (E * I) in
  let v_c2 := (v_c * v_c) in
  let v_s2 := (v_s * v_s) in
  let v_cs := (v_c * v_s) in
  let v_eal := (v_ea / v_l) in
  let v_eil3 := ((Z#12 * v_ei) / ((v_l * v_l) * v_l)) in
  let v_eil2 := ((Z#6 * v_ei) / (v_l * v_l)) in
  let v_eil := (v_ei / v_l) in
  [[((v_c2 * v_eal) + (v_s2 * v_eil3)); ((v_cs * v_eal) - (v_cs * v_eil3)); ((- v_s) * v_eil2); (((- v_c2) * v_eal) - (v_s2 * v_eil3)); (((- v_cs) * v_eal) + (v_cs * v_eil3)); ((- v_s) * v_eil2)];
   [((v_cs * v_eal) - (v_cs * v_eil3)); ((v_s2 * v_eal) + (v_c2 * v_eil3)); (v_c * v_eil2); (((- v_cs) * v_eal) + (v_cs * v_eil3)); (((- v_s2) * v_eal) - (v_c2 * v_eil3)); (v_c * v_eil2)];
   [((- v_s) * v_eil2); (v_c * v_eil2); (Z#4 * v_eil); (v_s * v_eil2); ((- v_c) * v_eil2); (Z#2 * v_eil)];
   [(((- v_c2) * v_eal) - (v_s2 * v_eil3)); (((- v_cs) * v_eal) + (v_cs * v_eil3)); (v_s * v_eil2); ((v_c2 * v_eal) + (v_s2 * v_eil3)); ((v_cs * v_eal) - (v_cs * v_eil3)); (v_s * v_eil2)];
   [(((- v_cs) * v_eal) + (v_cs * v_eil3)); (((- v_s2) * v_eal) - (v_c2 * v_eil3)); ((- v_c) * v_eil2); ((v_cs * v_eal) - (v_cs * v_eil3)); ((v_s2 * v_eal) + (v_c2 * v_eil3)); ((- v_c) * v_eil2)];
   [((- v_s) * v_eil2); (v_c * v_eil2); (Z#2 * v_eil); (v_s * v_eil2); ((- v_c) * v_eil2); (Z#4 * v_eil)]].

End GenStiffness.
