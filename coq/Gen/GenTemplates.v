(* GENERATED on every run by /verif/harness/cmd/translate from io/def/definition.template.txt, io/pre/preprocess.template.txt and
   io/sol/solution.template.txt (parsed with text/template/parse) - never edited by hand. *)
From Coq Require Import String Ascii List.
From Inkfem Require Import Model.Template.
Import ListNotations.
Local Open Scope string_scope.

(* io/def/definition.template.txt *)
Definition tmpl_definition : list tnode :=
  [TText ("inkfem v");
   TField "" "Metadata.MajorVersion";
   TText (".");
   TField "" "Metadata.MinorVersion";
   TText ("" ++ nl ++ "" ++ nl ++ "|nodes|");
   TRange "" "" "" "GetAllNodes"
     [TText ("" ++ nl ++ "");
     TField "" "GetID";
     TText (" -> ");
     TField "" "Position.X";
     TText (" ");
     TField "" "Position.Y";
     TText (" ");
     TField "" "ExternalConstraint"];
   TText ("" ++ nl ++ "" ++ nl ++ "|materials|");
   TRange "" "" "" "GetMaterialsByName"
     [TText ("" ++ nl ++ "'");
     TField "" "Name";
     TText ("' -> ");
     TField "" "Density";
     TText (" ");
     TField "" "YoungMod";
     TText (" ");
     TField "" "ShearMod";
     TText (" ");
     TField "" "PoissonRatio";
     TText (" ");
     TField "" "YieldStrength";
     TText (" ");
     TField "" "UltimateStrength"];
   TText ("" ++ nl ++ "" ++ nl ++ "|sections|");
   TRange "" "" "" "GetSectionsByName"
     [TText ("" ++ nl ++ "'");
     TField "" "Name";
     TText ("' -> ");
     TField "" "Area";
     TText (" ");
     TField "" "IStrong";
     TText (" ");
     TField "" "IWeak";
     TText (" ");
     TField "" "SStrong";
     TText (" ");
     TField "" "SWeak"];
   TText ("" ++ nl ++ "" ++ nl ++ "|loads|");
   TRange "" "$el" "" "Elements"
     [TRange "" "$load" "$el" "ConcentratedLoads"
       [TText ("" ++ nl ++ "");
       TField "$load" "Term";
       TText (" ");
       TIf "$load" "IsInLocalCoords" [TText ("l")] [TText ("g")];
       TText ("c ");
       TField "$el" "GetID";
       TText (" ");
       TField "$load" "T.Value";
       TText (" ");
       TField "$load" "Value"];
     TRange "" "$load" "$el" "DistributedLoads"
       [TText ("" ++ nl ++ "");
       TField "$load" "Term";
       TText (" ");
       TIf "$load" "IsInLocalCoords" [TText ("l")] [TText ("g")];
       TText ("d ");
       TField "$el" "GetID";
       TText (" ");
       TField "$load" "StartT.Value";
       TText (" ");
       TField "$load" "StartValue";
       TText (" ");
       TField "$load" "EndT.Value";
       TText (" ");
       TField "$load" "EndValue"]];
   TText ("" ++ nl ++ "" ++ nl ++ "|bars|");
   TRange "" "" "" "Elements"
     [TText ("" ++ nl ++ "");
     TField "" "GetID";
     TText (" -> ");
     TField "" "StartNodeID";
     TText (" ");
     TField "" "StartLink";
     TText (" ");
     TField "" "EndNodeID";
     TText (" ");
     TField "" "EndLink";
     TText (" '");
     TField "" "Material.Name";
     TText ("' '");
     TField "" "Section.Name";
     TText ("'")];
   TText ("" ++ nl ++ "")].

(* io/pre/preprocess.template.txt *)
Definition tmpl_preprocess : list tnode :=
  [TText ("inkfem v");
   TField "" "Metadata.MajorVersion";
   TText (".");
   TField "" "Metadata.MinorVersion";
   TText ("" ++ nl ++ "" ++ nl ++ "dof_count: ");
   TField "" "DofsCount";
   TText ("" ++ nl ++ "includes_own_weight: ");
   TIf "" "IncludesOwnWeight" [TText ("yes")] [TText ("no")];
   TText ("" ++ nl ++ "" ++ nl ++ "|nodes|");
   TRange "" "" "" "GetAllNodes"
     [TText ("" ++ nl ++ "");
     TField "" "GetID";
     TText (" -> ");
     TField "" "Position.X";
     TText (" ");
     TField "" "Position.Y";
     TText (" ");
     TField "" "ExternalConstraint";
     TIf "" "HasDegreesOfFreedomNum" [TText (" | ");
       TField "" "DegreesOfFreedomNum"] []];
   TText ("" ++ nl ++ "" ++ nl ++ "|materials|");
   TRange "" "" "" "GetMaterialsByName"
     [TText ("" ++ nl ++ "'");
     TField "" "Name";
     TText ("' -> ");
     TField "" "Density";
     TText (" ");
     TField "" "YoungMod";
     TText (" ");
     TField "" "ShearMod";
     TText (" ");
     TField "" "PoissonRatio";
     TText (" ");
     TField "" "YieldStrength";
     TText (" ");
     TField "" "UltimateStrength"];
   TText ("" ++ nl ++ "" ++ nl ++ "|sections|");
   TRange "" "" "" "GetSectionsByName"
     [TText ("" ++ nl ++ "'");
     TField "" "Name";
     TText ("' -> ");
     TField "" "Area";
     TText (" ");
     TField "" "IStrong";
     TText (" ");
     TField "" "IWeak";
     TText (" ");
     TField "" "SStrong";
     TText (" ");
     TField "" "SWeak"];
   TText ("" ++ nl ++ "" ++ nl ++ "|bars|");
   TRange "" "" "" "Elements"
     [TText ("" ++ nl ++ "");
     TField "" "GetID";
     TText (" -> ");
     TField "" "StartNodeID";
     TText (" ");
     TField "" "StartLink";
     TText (" ");
     TField "" "EndNodeID";
     TText (" ");
     TField "" "EndLink";
     TText (" '");
     TField "" "Material.Name";
     TText ("' '");
     TField "" "Section.Name";
     TText ("' >> ");
     TField "" "NodesCount";
     TRange "" "" "" "Nodes"
       [TText ("" ++ nl ++ "");
       TField "" "String"];
     TText ("" ++ nl ++ "")]].

(* io/sol/solution.template.txt *)
Definition tmpl_solution : list tnode :=
  [TText ("inkfem v");
   TField "" "Metadata.MajorVersion";
   TText (".");
   TField "" "Metadata.MinorVersion";
   TText ("" ++ nl ++ "" ++ nl ++ "|reactions|");
   TRange "$nodeId" "$reaction" "" "NodeReactions"
     [TText ("" ++ nl ++ "");
     TField "$nodeId" "";
     TText (" -> ");
     TField "$reaction" "Fx";
     TText (" ");
     TField "$reaction" "Fy";
     TText (" ");
     TField "$reaction" "Mz"];
   TText ("" ++ nl ++ "" ++ nl ++ "|bars|");
   TRange "" "" "" "Elements"
     [TText ("" ++ nl ++ "");
     TField "" "GetID";
     TText (" -> ");
     TField "" "StartNodeID";
     TText (" ");
     TField "" "StartLink";
     TText (" ");
     TField "" "EndNodeID";
     TText (" ");
     TField "" "EndLink";
     TText (" '");
     TField "" "Material.Name";
     TText ("' '");
     TField "" "Section.Name";
     TText ("'" ++ nl ++ "__gdx__");
     TRange "" "" "" "GlobalXDispl"
       [TText ("" ++ nl ++ "");
       TField "" "String"];
     TText ("" ++ nl ++ "__gdy__");
     TRange "" "" "" "GlobalYDispl"
       [TText ("" ++ nl ++ "");
       TField "" "String"];
     TText ("" ++ nl ++ "__grz__");
     TRange "" "" "" "GlobalZRot"
       [TText ("" ++ nl ++ "");
       TField "" "String"];
     TText ("" ++ nl ++ "__ldx__");
     TRange "" "" "" "LocalXDispl"
       [TText ("" ++ nl ++ "");
       TField "" "String"];
     TText ("" ++ nl ++ "__ldy__");
     TRange "" "" "" "LocalYDispl"
       [TText ("" ++ nl ++ "");
       TField "" "String"];
     TText ("" ++ nl ++ "__lrz__");
     TRange "" "" "" "LocalZRot"
       [TText ("" ++ nl ++ "");
       TField "" "String"];
     TText ("" ++ nl ++ "__axial__");
     TRange "" "" "" "AxialStress"
       [TText ("" ++ nl ++ "");
       TField "" "String"];
     TText ("" ++ nl ++ "__shear__");
     TRange "" "" "" "ShearForce"
       [TText ("" ++ nl ++ "");
       TField "" "String"];
     TText ("" ++ nl ++ "__bend__");
     TRange "" "" "" "BendingMoment"
       [TText ("" ++ nl ++ "");
       TField "" "String"];
     TText ("" ++ nl ++ "__bend_axial_stress__");
     TRange "" "" "" "BendingMomentTopFiberAxialStress"
       [TText ("" ++ nl ++ "");
       TField "" "String"];
     TText ("" ++ nl ++ "")];
   TText ("" ++ nl ++ "")].

