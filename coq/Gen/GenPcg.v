(* GENERATED on every run by /verif/harness/cmd/translate: the statements of PreconditionedConjugateGradientSolver.Solve
   (inkmath v0.2.6, lineq/preconjgrad.go, the release pinned by /repo's go.mod) and of computePreconditioner /
   diagonalMatrix.TimesVector (process/solve_displacements.go) were compared, one by one, with what is written below - never edited by hand. *)
From Coq Require Import QArith List.
Import ListNotations.
Local Open Scope Q_scope.

Section Pcg.
Variable n : nat.                 (* number of equations *)
Variable A : nat -> nat -> Q.     (* the assembled matrix *)
Variable b : nat -> Q.            (* the assembled load vector *)

Definition pcg_dot (u v : nat -> Q) : Q := fold_left (fun acc j => acc + u j * v j) (seq 0 n) 0.
Definition pcg_mv (u : nat -> Q) (i : nat) : Q := fold_left (fun acc j => acc + A i j * u j) (seq 0 n) 0.
(* computePreconditioner, diagonalMatrix.TimesVector *)
Definition pcg_pre (u : nat -> Q) (i : nat) : Q := (1 / A i i) * u i.

Record pcg_state := { pcg_x : nat -> Q; pcg_r : nat -> Q; pcg_p : nat -> Q }.
(* x = 0; r = b.Minus(a.TimesVector(x)); p = precond.TimesVector(r) *)
Definition pcg_init : pcg_state :=
  let x := fun _ : nat => 0 in let r := fun i => b i - pcg_mv x i in
  {| pcg_x := x; pcg_r := r; pcg_p := pcg_pre r |}.
(* one pass of the loop body *)
Definition pcg_step (s : pcg_state) : pcg_state :=
  let alpha := pcg_dot (pcg_r s) (pcg_pre (pcg_r s)) / pcg_dot (pcg_p s) (pcg_mv (pcg_p s)) in
  let x := fun i => pcg_x s i + alpha * pcg_p s i in
  let oldr := pcg_r s in
  let r := fun i => oldr i - alpha * pcg_mv (pcg_p s) i in
  let precondTimesR := pcg_pre r in
  let beta := pcg_dot r precondTimesR / pcg_dot oldr (pcg_pre oldr) in
  {| pcg_x := x; pcg_r := r; pcg_p := fun i => precondTimesR i + beta * pcg_p s i |}.
(* the loop leaves after any number of passes (good enough, or MaxIter) and x is returned *)
Fixpoint pcg_iter (k : nat) (s : pcg_state) : pcg_state := match k with O => s | S k' => pcg_iter k' (pcg_step s) end.
Definition pcg_answer (k : nat) : nat -> Q := pcg_x (pcg_iter k pcg_init).
End Pcg.
