(* GENERATED on every run by /verif/harness/cmd/translate from the constants and flag tables of
   preprocess/element_preprocess.go, io/file_extensions.go, build/VERSION, cmd/*.go,
   plot/sizes.go, plot/units_scale.go, plot/config.go — never edited by hand. *)
From Coq Require Import ZArith QArith String List.
Import ListNotations.

Definition c_slices_loaded : nat := 10%nat.
Definition c_slices_unloaded : nat := 6%nat.
Definition c_min_dist : Q := (1 # 1000)%Q.
Definition c_ext_def : string := ".inkfem"%string.
Definition c_ext_pre : string := ".inkfempre"%string.
Definition c_ext_sol : string := ".inkfemsol"%string.
Definition c_version_major : nat := 1%nat.
Definition c_version_minor : nat := 1%nat.

(* flag table of `solve`: (long name, short name, default) *)
Definition c_solve_flag_weight : string * string * string := ("weight"%string, "w"%string, "false"%string).
Definition c_solve_flag_error : string * string * string := ("error"%string, "e"%string, "1e-5"%string).
Definition c_solve_flag_verbose : string * string * string := ("verbose"%string, "v"%string, "false"%string).
Definition c_solve_flag_preprocess : string * string * string := ("preprocess"%string, "p"%string, "false"%string).
Definition c_solve_flag_safe : string * string * string := ("safe"%string, "s"%string, "false"%string).
Definition c_default_error : Q := (1 # 100000)%Q.
Definition c_pre_flag_weight : string * string * string := ("weight"%string, "w"%string, "false"%string).
Definition c_pre_flag_verbose : string * string * string := ("verbose"%string, "v"%string, "false"%string).
Definition c_plot_default_scale : Q := (1 # 4)%Q.
Definition c_plot_default_dload_scale : Q := (1 # 2)%Q.
Definition c_plot_min_margin : Z := (150)%Z.
Definition c_plot_thr_xsmall : Q := (5 # 1)%Q.
Definition c_plot_thr_small : Q := (17 # 1)%Q.
Definition c_plot_thr_medium : Q := (200 # 1)%Q.
Definition c_plot_scale_xsmall : Q := (150 # 1)%Q.
Definition c_plot_scale_small : Q := (50 # 1)%Q.
Definition c_plot_scale_medium : Q := (4 # 1)%Q.
Definition c_plot_theme_light : list (string * string) := [("GeometryColor"%string, "black"%string); ("GeometryWidth"%string, "2"%string); ("ExternalConstColor"%string, "black"%string); ("ExternalConstWidth"%string, "2"%string); ("NodeRadius"%string, "10"%string); ("ConstraintLength"%string, "80"%string); ("DistLoadColor"%string, "#558B2F"%string); ("DistLoadFillColor"%string, "#9CCC6533"%string); ("DistLoadWidth"%string, "1"%string); ("DistLoadArrowSize"%string, "20"%string); ("ShearColor"%string, "#FB8C00"%string); ("ShearFillColor"%string, "#FFA72633"%string); ("AxialColor"%string, "#8E24AA"%string); ("AxialFillColor"%string, "#AB47BC33"%string); ("BendingColor"%string, "#1E88E5"%string); ("BendingFillColor"%string, "#42A5F533"%string)].
Definition c_plot_theme_dark : list (string * string) := [("GeometryColor"%string, "#FAFAFA"%string); ("GeometryWidth"%string, "2"%string); ("ExternalConstColor"%string, "#FAFAFA"%string); ("ExternalConstWidth"%string, "2"%string); ("NodeRadius"%string, "10"%string); ("ConstraintLength"%string, "80"%string); ("DistLoadColor"%string, "#9CCC65"%string); ("DistLoadFillColor"%string, "#9CCC6533"%string); ("DistLoadWidth"%string, "1"%string); ("DistLoadArrowSize"%string, "20"%string); ("ShearColor"%string, "#FFA726"%string); ("ShearFillColor"%string, "#FFA72633"%string); ("AxialColor"%string, "#CE93D8"%string); ("AxialFillColor"%string, "#CE93D833"%string); ("BendingColor"%string, "#42A5F5"%string); ("BendingFillColor"%string, "#42A5F533"%string)].
