(* GENERATED on every run by /verif/harness/cmd/translate from process/element_solution.go (computeStresses, GlobalStartTorsor, GlobalEndTorsor)
   — never edited by hand; regenerated from /repo's working tree. *)
From Coq Require Import ZArith List.
From Inkfem Require Import Num.NumOps.
Import ListNotations.
Local Open Scope num_scope.

Section GenRecover.
Context {F : Type} {O : NumOps F}.

(* One finite element: E I S A material/section, len its length, (tdx tdy trz)/(ldx ldy lrz) the
   local displacements of its trail/lead node, tL* the trail node's left load, lR* the lead
   node's right load. Returns ((axial, shear, bending, top-fibre) at the trail node,
   (same) at the lead node). *)
Definition recover_gen (E I S A len tdx tdy trz ldx ldy lrz tLFx tLFy tLMz lRFx lRFy lRMz : F)
  : (F * F * F * F) * (F * F * F * F) :=
  let v_youngMod := E in
  let v_iStrong := I in
  let v_sStrong := S in
  let v_section := A in
  let v_ei := (v_youngMod * v_iStrong) in
  let v_length := len in
  let v_length2 := (v_length * v_length) in
  let v_length3 := (v_length2 * v_length) in
  let v_eil := (v_ei / v_length) in
  let v_eil2 := (v_ei / v_length2) in
  let v_eil3 := (v_ei / v_length3) in
  let v_trailDx := tdx in
  let v_leadDx := ldx in
  let v_trailDy := tdy in
  let v_leadDy := ldy in
  let v_trailRz := trz in
  let v_leadRz := lrz in
  let v_axial := (((v_leadDx - v_trailDx) * v_youngMod) / v_length) in
  let v_trailAxial := (v_axial + (tLFx / v_section)) in
  let v_leadAxial := (v_axial - (lRFx / v_section)) in
  let v_shearDispTerm := ((Z#12 * v_eil3) * (v_trailDy - v_leadDy)) in
  let v_shearRotTerm := ((Z#6 * v_eil2) * (v_trailRz + v_leadRz)) in
  let v_shear := (v_shearDispTerm + v_shearRotTerm) in
  let v_trailShear := (v_shear - tLFy) in
  let v_leadShear := (v_shear + lRFy) in
  let v_bendStartDispTerm := ((Z#6 * v_eil2) * (v_leadDy - v_trailDy)) in
  let v_bendStartRotTerm := ((Z#2 * v_eil) * (v_leadRz + (Z#2 * v_trailRz))) in
  let v_bendEndDispTerm := ((Z#6 * v_eil2) * (v_trailDy - v_leadDy)) in
  let v_bendEndRotTerm := ((Z#2 * v_eil) * (v_trailRz + (Z#2 * v_leadRz))) in
  let v_trailBending := ((v_bendStartDispTerm - v_bendStartRotTerm) + tLMz) in
  let v_leadBending := ((v_bendEndDispTerm + v_bendEndRotTerm) - lRMz) in
  ((v_trailAxial,
    v_trailShear,
    v_trailBending,
    (v_trailBending / v_sStrong)),
   (v_leadAxial,
    v_leadShear,
    v_leadBending,
    (v_leadBending / v_sStrong))).

(* bar end torsors in LOCAL axes, before projection to global with the bar's frame:
   ax sh bm are the first (start) / last (end) listed axial stress, shear force, bending moment *)
Definition start_torsor_gen (A ax sh bm : F) : F * F * F :=
  (((- ax) * A), sh, (- bm)).
Definition end_torsor_gen (A ax sh bm : F) : F * F * F :=
  ((ax * A), (- sh), bm).

End GenRecover.
