(* GENERATED on every run by /verif/harness/cmd/translate from preprocess/structure.go (MakeSystemOfEquations, addDispConstraints)
   and preprocess/element.go (setEquationTerms, addTermsToStiffnessMatrix, addTermsToLoadVector) — never edited by hand. *)
From Coq Require Import List.
Import ListNotations.

(* the six equation numbers a finite element's 6x6 matrix is placed at: t the numbers of its trailing node, l of its leading node *)
Definition asm_slice_numbers (t l : nat * nat * nat) : list nat :=
  [fst (fst t); snd (fst t); snd t; fst (fst l); snd (fst l); snd l].

(* the entries of the load vector a node's net load (global axes) is added to: d the numbers of the node *)
Definition asm_load_terms {F : Type} (d : nat * nat * nat) (fx fy mz : F) : list (nat * F) :=
  [(fst (fst d), fx); (snd (fst d), fy); (snd d, mz)].

(* the numbers of a supported node that get the trivial equation x = 0 (zero column, identity row, zero load):
   dx dy rz say which components the support holds, d the numbers of the node *)
Definition asm_supported_numbers (dx dy rz : bool) (d : nat * nat * nat) : list nat :=
  (if dx then [fst (fst d)] else []) ++ (if dy then [snd (fst d)] else []) ++ (if rz then [snd d] else []).

(* MakeSystemOfEquations: every bar in turn (its stiffness terms, then its load terms), then the trivial equation for
   the numbers no bar refers to, then the supports — plain loops, nothing started concurrently (checked on the syntax tree) *)
Inductive asm_step := AsmBarStiffness | AsmBarLoads | AsmTrivialRows | AsmSupports.
Definition asm_per_bar : list asm_step := [AsmBarStiffness; AsmBarLoads].
Definition asm_after_bars : list asm_step := [AsmTrivialRows; AsmSupports].
Definition asm_bars_one_after_the_other : bool := true.
(* a stiffness term is added unless nums.IsCloseToZero says it is negligible *)
Definition asm_skips_negligible_terms : bool := true.
