(* GENERATED on every run by /verif/harness/cmd/translate from process/solve_displacements.go
   (computeGlobalDisplacements, ensureSolutionIsGoodEnough) — never edited by hand. *)
From Coq Require Import ZArith List.
From Inkfem Require Import Num.NumOps.
Import ListNotations.
Local Open Scope num_scope.

(* err is the --error option (SolveOptions.MaxDisplacementsError) *)
Definition accept_bound {F : Type} {O : NumOps F} (err : F) : F := err.
Definition reported_error {F : Type} {O : NumOps F} (err : F) : F := err.

(* ensureSolutionIsGoodEnough: residual = sysVector - sysMatrix * solution; every equation i in 0 .. length-1;
   rejects when not (|residual i| <= bound) or solution i is infinite: checked textually by the translator,
   modelled by Model/Recover.v accept. *)
Definition accept_visits_every_equation : bool := true.
