(* Slicing of a bar into a chain of nodes (preprocess/element_preprocess.go,
   slice_loaded.go, slice_not_loaded.go, slice_axial.go; structure/element.go
   IsAxialMember).  Hand-written model, tied to the code by correspondence stage B. *)
From Coq Require Import ZArith QArith List Bool.
From Inkfem Require Import Num.NumOps Gen.GenConsts Model.Types.
Import ListNotations.
Local Open Scope num_scope.

Section Slice.
Context {F : Type} {O : NumOps F} {C : NumCmp F}.

(* inkgeom: FloatsEqual a b = |a - b| < 1e-10 (modelled, external library) *)
Definition eps10 : F := nofQ (1 # 10000000000)%Q.
Definition teq (a b : F) : bool := nltb (nabs (a - b)) eps10.
Definition is_min (t : F) : bool := teq t n0.
Definition is_max (t : F) : bool := teq t n1.
Definition is_extreme (t : F) : bool := is_max t || is_min t.
Definition min_dist : F := nofQ c_min_dist.

Definition cl_nodal (l : cload F) : bool := is_min (cl_t l) || is_max (cl_t l).

(* structure.Element.IsAxialMember *)
Definition is_axial (b : bar F) : bool :=
  match b_dl b with
  | _ :: _ => false
  | [] => forallb (fun l => cl_nodal l && negb (term_eqb (cl_term l) MZ)) (b_cl b)
          && negb (lk_rz (b_l1 b)) && negb (lk_rz (b_l2 b))
  end.
Definition has_loads (b : bar F) : bool :=
  match b_cl b, b_dl b with [], [] => false | _, _ => true end.

(* nums.SubTParamCompleteRangeTimes n : 0, 1/n, ..., 1 *)
Definition uniform (n : nat) : list F :=
  map (fun i => nofZ (Z.of_nat i) / nofZ (Z.of_nat n)) (seq 0 n) ++ [n1].

Fixpoint insert (x : F) (l : list F) : list F :=
  match l with
  | [] => [x]
  | y :: r => if nleb x y then x :: l else y :: insert x r
  end.
Definition sort (l : list F) : list F := fold_right insert [] l.

(* keep a position unless it equals (1e-10) the last kept one *)
Fixpoint dedupe_from (last : F) (l : list F) : list F :=
  match l with
  | [] => []
  | x :: r => if teq x last then dedupe_from last r else x :: dedupe_from x r
  end.
Definition dedupe (l : list F) : list F :=
  match l with [] => [] | x :: r => x :: dedupe_from x r end.

Definition cpos (cl : list (cload F)) : list F :=
  map (@cl_t F) (filter (fun l => negb (is_extreme (cl_t l))) cl).
Definition dpos (dl : list (dload F)) : list F :=
  flat_map (fun l => (if is_extreme (dl_t0 l) then [] else [dl_t0 l])
                     ++ (if is_extreme (dl_t1 l) then [] else [dl_t1 l])) dl.

Definition far_from_all (req : list F) (t : F) : bool :=
  forallb (fun r => negb (nleb (nabs (r - t)) min_dist)) req.

(* sliceLoadedElementPositions: ends and load positions always kept; uniform cuts kept
   when farther than min_dist from every required position; sorted; equal ones merged *)
Definition required_positions (cl : list (cload F)) (dl : list (dload F)) : list F :=
  [n0; n1] ++ cpos cl ++ dpos dl.
Definition slice_positions (cl : list (cload F)) (dl : list (dload F)) (n : nat) : list F :=
  let req := required_positions cl dl in
  dedupe (sort (req ++ filter (far_from_all req) (uniform n))).

(* positions of the nodes of a bar, by kind *)
Definition bar_positions (b : bar F) : list F :=
  if is_axial b then [n0; n1]
  else if has_loads b then slice_positions (b_cl b) (b_dl b) c_slices_loaded
  else uniform c_slices_unloaded.

(* g2d.Segment.PointAt: linear interpolation between the end points *)
Definition point_at (b : bar F) (t : F) : F * F :=
  (b_x1 b + (t - n0) * (b_x2 b - b_x1 b) / (n1 - n0),
   b_y1 b + (t - n0) * (b_y2 b - b_y1 b) / (n1 - n0)).

End Slice.
