(* Regular expressions as the readers use them (Go regexp, RE2 syntax, leftmost-first
   submatches): abstract syntax - the terms of Gen/GenRegex.v are regenerated from the compiled
   expressions on every run - and a backtracking matcher with captures.  Agreement of this
   matcher with Go's regexp engine on the readers' expressions is checked by correspondence
   (verdict and every captured group, on grammar-based and mutated lines). *)
From Coq Require Import NArith Arith List String Ascii Bool.
Import ListNotations.

Inductive re :=
| REmpty
| RLit (c : N)
| RClass (ranges : list (N * N))
| RBol | REol
| RCat (a b : re)
| RAlt (a b : re)
| RStar (a : re) | RPlus (a : re) | ROpt (a : re)
| RGrp (k : nat) (a : re).

Definition in_ranges (x : N) (rs : list (N * N)) : bool :=
  existsb (fun r => N.leb (fst r) x && N.leb x (snd r)) rs.

(* captures: group index -> (start, end) positions, most recent first *)
Definition caps : Type := list (nat * (nat * nat)).

Fixpoint rm (fuel : nat) (r : re) (inp : list N) (pos : nat) (c : caps)
         (k : list N -> nat -> caps -> option caps) : option caps :=
  match fuel with
  | 0 => None
  | S f =>
    match r with
    | REmpty => k inp pos c
    | RLit x => match inp with y :: t => if N.eqb x y then k t (S pos) c else None | [] => None end
    | RClass rs => match inp with y :: t => if in_ranges y rs then k t (S pos) c else None | [] => None end
    | RBol => if Nat.eqb pos 0 then k inp pos c else None
    | REol => match inp with [] => k inp pos c | _ => None end
    | RCat a b => rm f a inp pos c (fun i p c' => rm f b i p c' k)
    | RAlt a b => match rm f a inp pos c k with Some r => Some r | None => rm f b inp pos c k end
    | RStar a =>
      match rm f a inp pos c (fun i p c' => if Nat.eqb p pos then None else rm f (RStar a) i p c' k) with
      | Some r => Some r
      | None => k inp pos c
      end
    | RPlus a => rm f a inp pos c (fun i p c' => rm f (RStar a) i p c' k)
    | ROpt a => match rm f a inp pos c k with Some r => Some r | None => k inp pos c end
    | RGrp n a => rm f a inp pos c (fun i p c' => k i p ((n, (pos, p)) :: c'))
    end
  end.

Definition codes (s : string) : list N := map N_of_ascii (list_ascii_of_string s).

(* search semantics of MatchString / FindStringSubmatch: leftmost start position *)
Fixpoint search_from (fuel : nat) (r : re) (inp : list N) (pos : nat) : option caps :=
  match rm fuel r inp pos [] (fun _ _ c => Some c) with
  | Some c => Some c
  | None => match inp with [] => None | _ :: t => search_from fuel r t (S pos) end
  end.

Definition rfuel (r : re) (s : string) : nat := 400 + 3 * String.length s.
Definition rsearch (r : re) (s : string) : option caps := search_from (rfuel r s) r (codes s) 0.
Definition rmatches (r : re) (s : string) : bool := match rsearch r s with Some _ => true | None => false end.

Fixpoint cap_lookup (n : nat) (c : caps) : option (nat * nat) :=
  match c with [] => None | (k, v) :: t => if Nat.eqb k n then Some v else cap_lookup n t end.
Definition substr (s : string) (a b : nat) : string := String.substring a (b - a) s.
(* the text of group n; the empty string when the group did not take part in the match *)
Definition group (s : string) (c : caps) (n : nat) : string :=
  match cap_lookup n c with Some (a, b) => substr s a b | None => EmptyString end.
