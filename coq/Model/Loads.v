(* Loads on slice nodes (preprocess/slice_loaded.go makeNodesWithConcentratedLoads,
   apply_distributed_loads.go, slice_axial.go, preprocess.go own weight;
   structure/load/distributed_load.go ValueAt).  The arithmetic of the equivalent nodal
   loads comes from Gen/GenLoads.v (regenerated from the source). *)
From Coq Require Import ZArith QArith List Bool.
From Inkfem Require Import Num.NumOps Gen.GenConsts Gen.GenLoads Model.Types Model.Slice.
Import ListNotations.
Local Open Scope num_scope.

Section Loads.
Context {F : Type} {O : NumOps F} {C : NumCmp F}.

Definition term_tor (tm : term) (v : F) : tor F :=
  match tm with FX => (v, n0, n0) | FY => (n0, v, n0) | MZ => (n0, n0, v) end.

(* local torsor of a concentrated load on a bar with direction (c, s) *)
Definition cl_local_tor (c s : F) (l : cload F) : tor F :=
  let t := term_tor (cl_term l) (cl_v l) in
  if cl_local l then t else to_local c s t.

(* external load of the node at t: every concentrated load whose position equals t (1e-10) *)
Definition ext_at (b : bar F) (t : F) : tor F :=
  fold_left (fun acc l => if teq t (cl_t l) then tor_add acc (cl_local_tor (b_c b) (b_s b) l) else acc)
            (b_cl b) tor0.

Definition mk_node (b : bar F) (t : F) (ext : tor F) : pnode F :=
  let p := point_at b t in
  {| pn_t := t; pn_x := fst p; pn_y := snd p; pn_ext := ext; pn_left := tor0; pn_right := tor0 |}.

(* DistributedLoad.ValueAt: zero strictly outside the span (1e-10), linear inside *)
Definition dl_value_at (l : dload F) (t : F) : F :=
  if (nltb t (dl_t0 l) && negb (teq t (dl_t0 l))) || (nltb (dl_t1 l) t && negb (teq t (dl_t1 l)))
  then n0
  else dl_v0 l + (t - dl_t0 l) * (dl_v1 l - dl_v0 l) / (dl_t1 l - dl_t0 l).

Definition dl_tor_at (c s : F) (l : dload F) (t : F) : tor F :=
  let tt := term_tor (dl_term l) (dl_value_at l t) in
  if dl_local l then tt else to_local c s tt.

(* a finite element [ta, tb] is loaded iff its midpoint lies inside the span *)
Definition clampT (t : F) : F := if nltb t n0 then n0 else if nltb n1 t then n1 else t.
Definition in_span (l : dload F) (ta tb : F) : bool :=
  let mid := clampT ((Z#1 / Z#2) * (ta + tb)) in
  negb (nltb mid (dl_t0 l) || nltb (dl_t1 l) mid).

(* Node.DistanceTo between two nodes of the bar: the code takes the Euclidean distance of
   the two positions; for points on the axis that is the projection of their difference on
   the bar direction, which is how it is written here (no square root; equals L (tb - ta)
   for well-formed geometry witnesses, and carries the cancellation of the coordinates in
   its error scale) *)
Definition slice_len (b : bar F) (ta tb : F) : F :=
  let pa := point_at b ta in
  let pb := point_at b tb in
  b_c b * (fst pb - fst pa) + b_s b * (snd pb - snd pa).

(* contribution of one distributed load to the (left load of the trail node, right load of
   the lead node) of the finite element [ta, tb] *)
Definition dl_lump (b : bar F) (l : dload F) (ta tb : F) : tor F * tor F :=
  if in_span l ta tb then
    let s := dl_tor_at (b_c b) (b_s b) l ta in
    let e := dl_tor_at (b_c b) (b_s b) l tb in
    lump_gen (t_fx s) (t_fy s) (t_mz s) (t_fx e) (t_fy e) (t_mz e) (slice_len b ta tb)
  else (tor0, tor0).

Definition add_left (n : pnode F) (t : tor F) : pnode F :=
  {| pn_t := pn_t n; pn_x := pn_x n; pn_y := pn_y n; pn_ext := pn_ext n;
     pn_left := tor_add (pn_left n) t; pn_right := pn_right n |}.
Definition add_right (n : pnode F) (t : tor F) : pnode F :=
  {| pn_t := pn_t n; pn_x := pn_x n; pn_y := pn_y n; pn_ext := pn_ext n;
     pn_left := pn_left n; pn_right := tor_add (pn_right n) t |}.

(* all distributed loads on the finite element between two consecutive nodes *)
Definition slice_lumps (b : bar F) (dl : list (dload F)) (ta tb : F) : tor F * tor F :=
  fold_left (fun acc l => let p := dl_lump b l ta tb in
                          (tor_add (fst acc) (fst p), tor_add (snd acc) (snd p)))
            dl (tor0, tor0).

(* applyDistributedLoadsToNodes: walk the chain; each element adds to the left load of its
   trail node and to the right load of its lead node *)
Fixpoint apply_dist_from (b : bar F) (dl : list (dload F)) (a : pnode F) (rest : list (pnode F))
  : list (pnode F) :=
  match rest with
  | [] => [a]
  | c :: rest' =>
    let p := slice_lumps b dl (pn_t a) (pn_t c) in
    add_left a (fst p) :: apply_dist_from b dl (add_right c (snd p)) rest'
  end.
Definition apply_dist (b : bar F) (dl : list (dload F)) (nodes : list (pnode F)) : list (pnode F) :=
  match nodes with [] => [] | a :: rest => apply_dist_from b dl a rest end.

(* sliceAxialElement: the two end nodes with the net nodal forces (moments dropped) *)
Definition axial_end_load (b : bar F) (at_start : bool) : tor F :=
  fold_left (fun acc l =>
      let t := cl_local_tor (b_c b) (b_s b) l in
      let hit := if at_start then is_min (cl_t l) else negb (is_min (cl_t l)) && is_max (cl_t l) in
      if hit then (t_fx acc + t_fx t, t_fy acc + t_fy t, n0) else acc)
    (b_cl b) tor0.

(* element.AddOwnWeight / WithOwnWeight: one more global FY load over the whole span *)
Definition own_weight_load (b : bar F) : dload F :=
  let v := own_weight_gen (b_rho b) (b_A b) in
  {| dl_term := FY; dl_local := false; dl_t0 := n0; dl_v0 := v; dl_t1 := n1; dl_v1 := v |}.
Definition with_own_weight (b : bar F) : bar F :=
  {| b_n1 := b_n1 b; b_n2 := b_n2 b; b_l1 := b_l1 b; b_l2 := b_l2 b;
     b_x1 := b_x1 b; b_y1 := b_y1 b; b_x2 := b_x2 b; b_y2 := b_y2 b;
     b_L := b_L b; b_c := b_c b; b_s := b_s b;
     b_E := b_E b; b_A := b_A b; b_I := b_I b; b_S := b_S b; b_rho := b_rho b;
     b_cl := b_cl b; b_dl := b_dl b ++ [own_weight_load b] |}.

(* sliceElement *)
Definition slice_bar (b : bar F) : list (pnode F) :=
  if is_axial b then
    if has_loads b then
      [mk_node b n0 (axial_end_load b true); mk_node b n1 (axial_end_load b false)]
    else [mk_node b n0 tor0; mk_node b n1 tor0]
  else if has_loads b then
    apply_dist b (b_dl b)
      (map (fun t => mk_node b t (ext_at b t)) (slice_positions (b_cl b) (b_dl b) c_slices_loaded))
  else map (fun t => mk_node b t tor0) (uniform c_slices_unloaded).

(* preprocess.StructureModel, per bar; the input structure is not modified *)
Definition preprocess_bar (weight : bool) (b : bar F) : list (pnode F) :=
  slice_bar (if weight then with_own_weight b else b).

End Loads.
