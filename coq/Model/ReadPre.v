(* The reader of preprocessed files (io/pre/reader.go, io/pre/read_bars.go), on top of the
   definition reader's line deserialisers.  Regular expressions from Gen/GenRegex.v.
   Tied to the code by correspondence stage P: the model reads the .inkfempre text the
   implementation wrote and every value is compared with the implementation's own sliced
   structure, and with what the implementation reads back. *)
From Coq Require Import ZArith QArith Qabs NArith Arith List String Ascii Bool.
From Inkfem Require Import Model.Types Model.Regex Gen.GenRegex Model.Read.
Import ListNotations.
Local Open Scope string_scope.
Local Close Scope Q_scope.

Record prnode := { pr_t : Q; pr_x : Q; pr_y : Q; pr_ext : tor Q; pr_left : tor Q; pr_right : tor Q; pr_net : tor Q;
                   pr_dof : nat * nat * nat }.
Record prbar := { pb_link : lbar; pb_count : nat; pb_pnodes : list prnode }.
Record prstruct := { ps_major : nat; ps_minor : nat; ps_dofs : nat; ps_weight : bool;
                     ps_nodes : list rnode; ps_bars : list prbar }.

Inductive perr := PDef (e : rerr) | PDofCount | POwnWeight | POrder | PLines | PNodeLine | PChecksum.
Inductive presult (A : Type) := POk (a : A) | PErr (e : perr).
Arguments POk {A} a. Arguments PErr {A} e.

(* strings.Fields (strings.Trim s " {}") for "{a b c}" *)
Fixpoint tfields_acc (s : string) (cur : string) (acc : list string) : list string :=
  match s with
  | EmptyString => rev (match cur with EmptyString => acc | _ => rev_string cur :: acc end)
  | String a r =>
    if is_space a || Ascii.eqb a "{"%char || Ascii.eqb a "}"%char
    then tfields_acc r EmptyString (match cur with EmptyString => acc | _ => rev_string cur :: acc end)
    else tfields_acc r (String a cur) acc
  end.
Definition parse_torsor (s : string) : option (tor Q) :=
  match tfields_acc s EmptyString [] with
  | [a; b; c] => match parse_float a, parse_float b, parse_float c with
                 | NumOk x, NumOk y, NumOk z => Some (x, y, z) | _, _, _ => None end
  | _ => None
  end.

Definition torsor_line (r : re) (line : string) : presult (tor Q) :=
  match rsearch r line with
  | None => PErr PNodeLine
  | Some c => match parse_torsor (group line c 1) with Some t => POk t | None => PErr (PDef ENumber) end
  end.

(* math.Torsor.Equals: every component closer than 1e-10.  The implementation recomputes
   ext + left + right in float64; the model adds exactly and allows the rounding of those
   two additions on top of the 1e-10 of the code. *)
Definition close_sum (net a b c : Q) : bool :=
  Qle_bool (Qabs (net - (a + b + c))%Q)
           ((1 # 10000000000) + (Qabs a + Qabs b + Qabs c) * (1 # 1000000000000000))%Q
  && negb (Qeq_bool (Qabs (net - (a + b + c))%Q) ((1 # 10000000000) + (Qabs a + Qabs b + Qabs c) * (1 # 1000000000000000))%Q).
Definition checksum_ok (n : prnode) : bool :=
  close_sum (t_fx (pr_net n)) (t_fx (pr_ext n)) (t_fx (pr_left n)) (t_fx (pr_right n)) &&
  close_sum (t_fy (pr_net n)) (t_fy (pr_ext n)) (t_fy (pr_left n)) (t_fy (pr_right n)) &&
  close_sum (t_mz (pr_net n)) (t_mz (pr_ext n)) (t_mz (pr_left n)) (t_mz (pr_right n)).

(* one slice node: six lines *)
Definition parse_pnode (ls : list string) : presult prnode :=
  match ls with
  | [l0; l1; l2; l3; l4; l5] =>
    match rsearch re_pre_positionPattern l0 with
    | None => PErr PNodeLine
    | Some c =>
      let g := grp groups_pre_positionPattern l0 c in
      match parse_float (g "t"), parse_float (g "x"), parse_float (g "y") with
      | NumOk t, NumOk x, NumOk y =>
        match torsor_line re_pre_externalLoadPattern l1 with PErr e => PErr e | POk ext =>
        match torsor_line re_pre_leftLoadPattern l2 with PErr e => PErr e | POk lft =>
        match torsor_line re_pre_rightLoadPattern l3 with PErr e => PErr e | POk rgt =>
        match torsor_line re_pre_netLoadPattern l4 with PErr e => PErr e | POk net =>
        match rsearch re_pre_dofPattern l5 with
        | None => PErr PNodeLine
        | Some c5 =>
          match parse_dof (group l5 c5 1) with
          | None => PErr PNodeLine
          | Some d =>
            let n := {| pr_t := clamp_t t; pr_x := x; pr_y := y; pr_ext := ext; pr_left := lft; pr_right := rgt;
                        pr_net := net; pr_dof := d |} in
            if checksum_ok n then POk n else PErr PChecksum
          end
        end end end end end
      | _, _, _ => PErr (PDef ENumber)
      end
    end
  | _ => PErr PLines
  end.

Fixpoint take_nodes (fuel : nat) (count : nat) (lines : list string) : presult (list prnode * list string) :=
  match count with
  | 0 => POk ([], lines)
  | S k =>
    match lines with
    | l0 :: l1 :: l2 :: l3 :: l4 :: l5 :: rest =>
      match parse_pnode [l0; l1; l2; l3; l4; l5] with
      | PErr e => PErr e
      | POk n => match take_nodes fuel k rest with
                 | POk (ns, r) => POk (n :: ns, r)
                 | PErr e => PErr e end
      end
    | _ => PErr PLines
    end
  end.

(* `>> n` of a bar line: the number of slice nodes (2 when absent) *)
Definition bar_count (line : string) : nat :=
  match rsearch re_def_elementDefinitionRegex line with
  | Some c => match grp groups_def_elementDefinitionRegex line c "n_nodes" with
              | EmptyString => 2
              | s => match parse_nat s with Some n => n | None => 2 end
              end
  | None => 2
  end.

Record pstate := { q_section : string; q_nodes : list rnode; q_mats : list rmat; q_secs : list rsec;
                   q_nd : bool; q_md : bool; q_sd : bool; q_bars : list prbar }.
Definition pstate0 : pstate :=
  {| q_section := ""; q_nodes := []; q_mats := []; q_secs := []; q_nd := false; q_md := false; q_sd := false; q_bars := [] |}.
Definition def_state (p : pstate) : rstate :=
  {| s_section := q_section p; s_nodes := q_nodes p; s_mats := q_mats p; s_secs := q_secs p; s_cl := []; s_dl := []; s_bars := [] |}.

(* the loop of Read: a bar line consumes its own six lines per slice node *)
Fixpoint psteps (fuel : nat) (p : pstate) (lines : list string) : presult pstate :=
  match fuel with
  | 0 => PErr PLines
  | S f =>
    match lines with
    | [] => POk p
    | line :: rest =>
      match rsearch re_io_genericSectionHeaderRegex line with
      | Some c =>
        psteps f {| q_section := group line c 1; q_nodes := q_nodes p; q_mats := q_mats p; q_secs := q_secs p;
                    q_nd := q_nd p; q_md := q_md p; q_sd := q_sd p; q_bars := q_bars p |} rest
      | None =>
        let sec := q_section p in
        if String.eqb sec "nodes" then
          match deserialize_node line with
          | Ok n => psteps f {| q_section := sec; q_nodes := upsert rn_id n (q_nodes p); q_mats := q_mats p; q_secs := q_secs p;
                                q_nd := true; q_md := q_md p; q_sd := q_sd p; q_bars := q_bars p |} rest
          | Err e => PErr (PDef e) end
        else if String.eqb sec "materials" then
          match deserialize_material line with
          | Ok m => psteps f {| q_section := sec; q_nodes := q_nodes p; q_mats := upsert rm_name m (q_mats p); q_secs := q_secs p;
                                q_nd := q_nd p; q_md := true; q_sd := q_sd p; q_bars := q_bars p |} rest
          | Err e => PErr (PDef e) end
        else if String.eqb sec "sections" then
          match deserialize_section line with
          | Ok m => psteps f {| q_section := sec; q_nodes := q_nodes p; q_mats := q_mats p; q_secs := upsert rs_name m (q_secs p);
                                q_nd := q_nd p; q_md := q_md p; q_sd := true; q_bars := q_bars p |} rest
          | Err e => PErr (PDef e) end
        else if String.eqb sec "bars" then
          if negb (q_nd p && q_md p && q_sd p) then PErr POrder else
          match deserialize_bar line with
          | Err e => PErr (PDef e)
          | Ok b =>
            match link_bar (def_state p) b with
            | Err e => PErr (PDef e)
            | Ok lb =>
              let n := bar_count line in
              (* GetNextLines: all 6 n lines are fetched before any of them is parsed *)
              if Nat.ltb (List.length rest) (6 * n) then PErr PLines else
              match take_nodes f n rest with
              | PErr e => PErr e
              | POk (ns, rest') =>
                psteps f {| q_section := sec; q_nodes := q_nodes p; q_mats := q_mats p; q_secs := q_secs p;
                            q_nd := q_nd p; q_md := q_md p; q_sd := q_sd p;
                            q_bars := q_bars p ++ [{| pb_link := lb; pb_count := n; pb_pnodes := ns |}] |} rest'
              end
            end
          end
        else PErr (PDef EUnknownHeader)
      end
    end
  end.

Definition read_pre_lines (lines : list string) : presult prstruct :=
  match lines with
  | [] => PErr (PDef EVersion)
  | v :: rest0 =>
    match parse_version v with
    | Err e => PErr (PDef e)
    | Ok (ma, mi) =>
      match rest0 with
      | [] => PErr PLines
      | d :: rest1 =>
        match rsearch re_pre_dofRegex d with
        | None => PErr PDofCount
        | Some cd =>
          match parse_nat (group d cd 1) with
          | None => PErr PDofCount
          | Some dofs =>
            match rest1 with
            | [] => PErr PLines
            | w :: rest =>
              match rsearch re_pre_ownWeightRegex w with
              | None => PErr POwnWeight
              | Some cw =>
                match psteps (S (List.length rest)) pstate0 rest with
                | PErr e => PErr e
                | POk p => POk {| ps_major := ma; ps_minor := mi; ps_dofs := dofs; ps_weight := String.eqb (group w cw 1) "yes";
                                  ps_nodes := q_nodes p; ps_bars := q_bars p |}
                end
              end
            end
          end
        end
      end
    end
  end.

Definition read_pre (text : string) : presult prstruct := read_pre_lines (content_lines text).
