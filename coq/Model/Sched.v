(* preprocess.StructureModel as a transition system (preprocess/preprocess.go): one worker per
   bar slices it and sends the result on a channel buffered for all of them; the collector
   receives as many results as there are bars, in arrival order.  Workers are identified by
   the index of their bar.  The verif hook (a gate before each send) lets the harness impose
   any completion order on the implementation; the model covers all of them. *)
From Coq Require Import Arith List Bool.
Import ListNotations.

Record sstate := { pending : list nat;     (* workers that have not sent yet, in any order *)
                   chan : list nat;        (* results in the channel, oldest first *)
                   received : list nat }.  (* what the collector holds, in arrival order *)

Definition sinit (n : nat) : sstate := {| pending := seq 0 n; chan := []; received := [] |}.

(* capacity of the channel = number of bars *)
Inductive sstep (cap : nat) : sstate -> sstate -> Prop :=
| step_send : forall s l1 i l2, pending s = l1 ++ i :: l2 -> length (chan s) < cap ->
    sstep cap s {| pending := l1 ++ l2; chan := chan s ++ [i]; received := received s |}
| step_recv : forall s x r, chan s = x :: r ->
    sstep cap s {| pending := pending s; chan := r; received := received s ++ [x] |}.

Inductive sreach (cap : nat) (s0 : sstate) : sstate -> Prop :=
| sreach_init : sreach cap s0 s0
| sreach_step : forall s s', sreach cap s0 s -> sstep cap s s' -> sreach cap s0 s'.

Definition sfinal (s : sstate) : Prop := pending s = [] /\ chan s = [].
