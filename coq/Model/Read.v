(* The definition-file reader (io/lines_reader.go, io/read_utils.go, io/headers.go,
   io/read_version.go, io/def/*.go; structure/element_builder.go Build): line splitting,
   comment / blank skipping, section dispatch, per-line deserialisation through the regular
   expressions of Gen/GenRegex.v (regenerated from the compiled expressions on every run),
   decimal numbers, deferred linking of bars with nodes / materials / sections / loads.
   Hand-written control flow, tied to the code by correspondence stage A. *)
From Coq Require Import ZArith QArith Qabs NArith Arith List String Ascii Bool.
From Inkfem Require Import Model.Types Model.Regex Gen.GenRegex.
Import ListNotations.
Local Open Scope string_scope.
Local Close Scope Q_scope.

(* ---------------- characters and lines ---------------- *)
(* unicode.IsSpace on single bytes: \t \n \v \f \r and space *)
Definition is_space (a : ascii) : bool :=
  let n := N_of_ascii a in ((N.leb 9 n && N.leb n 13) || N.eqb n 32)%N.

Fixpoint ltrim (s : string) : string :=
  match s with
  | String a r => if is_space a then ltrim r else s
  | EmptyString => EmptyString
  end.
Fixpoint rev_string_acc (s acc : string) : string :=
  match s with EmptyString => acc | String a r => rev_string_acc r (String a acc) end.
Definition rev_string (s : string) : string := rev_string_acc s EmptyString.
Definition trim (s : string) : string := rev_string (ltrim (rev_string (ltrim s))).

Definition starts_with_hash (s : string) : bool :=
  match s with String a _ => Ascii.eqb a "#"%char | EmptyString => false end.
Definition should_ignore (line : string) : bool :=
  let t := trim line in
  match t with EmptyString => true | _ => starts_with_hash t end.

(* bufio.ScanLines: lines end at \n; one trailing \r is dropped; a final line without \n counts;
   nothing after the last \n *)
Fixpoint split_lines_acc (s : string) (cur : string) : list string :=
  match s with
  | EmptyString => match cur with EmptyString => [] | _ => [rev_string cur] end
  | String a r =>
    if Ascii.eqb a "010"%char then rev_string cur :: split_lines_acc r EmptyString
    else split_lines_acc r (String a cur)
  end.
Definition drop_cr (s : string) : string :=
  match rev_string s with
  | String a r => if Ascii.eqb a "013"%char then rev_string r else s
  | EmptyString => s
  end.
Definition split_lines (s : string) : list string := map drop_cr (split_lines_acc s EmptyString).

(* the lines the readers see: trimmed, without blank lines and comments *)
Definition content_lines (text : string) : list string :=
  filter (fun l => negb (should_ignore l)) (map trim (split_lines text)).

(* ---------------- numbers ---------------- *)
Definition digit_of (a : ascii) : option Z :=
  let n := N_of_ascii a in
  if (N.leb 48 n && N.leb n 57)%N then Some (Z.of_N (n - 48)%N) else None.

(* reads a run of digits: (value, number of digits, rest) *)
Fixpoint read_digits (s : string) (acc : Z) (cnt : nat) : Z * nat * string :=
  match s with
  | String a r => match digit_of a with Some d => read_digits r (acc * 10 + d)%Z (S cnt) | None => (acc, cnt, s) end
  | EmptyString => (acc, cnt, s)
  end.

Definition read_sign (s : string) : bool * string :=   (* true = negative *)
  match s with
  | String a r => if Ascii.eqb a "-"%char then (true, r) else if Ascii.eqb a "+"%char then (false, r) else (false, s)
  | EmptyString => (false, s)
  end.

Inductive num_result := NumOk (q : Q) | NumOverflow | NumSyntax.

(* largest magnitude that still rounds to a finite float64: 2^1024 - 2^970 (exclusive) *)
Definition float_limit : Q := inject_Z (2 ^ 1024 - 2 ^ 970)%Z.

(* strconv.ParseFloat on the decimal grammar [+-]?digits[.digits][(e|E)[+-]?digits]: the exact
   decimal value (rounding to the nearest float64 is the implementation's business; the
   correspondence allows half an ulp), NumOverflow where ParseFloat reports a range error *)
Definition parse_float (s : string) : num_result :=
  let '(neg, s1) := read_sign s in
  let '(ip, n1, s2) := read_digits s1 0%Z 0%nat in
  match n1 with
  | 0%nat => NumSyntax
  | _ =>
    let '(fp, n2, s3) :=
      match s2 with
      | String a r => if Ascii.eqb a "."%char then read_digits r ip 0%nat else (ip, 0%nat, s2)
      | EmptyString => (ip, 0%nat, s2)
      end in
    let frac_ok := match s2 with
                   | String a _ => if Ascii.eqb a "."%char then negb (Nat.eqb n2 0) else true
                   | EmptyString => true end in
    let '(e, s4, exp_ok) :=
      match s3 with
      | String a r =>
        if Ascii.eqb a "e"%char || Ascii.eqb a "E"%char then
          let '(eneg, r1) := read_sign r in
          let '(ev, n3, r2) := read_digits r1 0%Z 0%nat in
          ((if eneg then - ev else ev)%Z, r2, negb (Nat.eqb n3 0))
        else (0%Z, s3, true)
      | EmptyString => (0%Z, s3, true)
      end in
    match s4 with
    | EmptyString =>
      if frac_ok && exp_ok then
        let ex := (e - Z.of_nat n2)%Z in
        let mant := if neg then (- fp)%Z else fp in
        if Z.eqb fp 0 then NumOk 0%Q
        else if Z.ltb 400 (ex + Z.of_nat (n1 + n2))%Z then NumOverflow
        else if Z.ltb ex (-800) then NumOk 0%Q
        else
          let q := if Z.leb 0 ex then inject_Z (mant * 10 ^ ex)%Z else Qmake mant (Z.to_pos (10 ^ (- ex))%Z) in
          if Qle_bool float_limit (Qabs q) then NumOverflow else NumOk q
      else NumSyntax
    | _ => NumSyntax
    end
  end.

Definition parse_nat (s : string) : option nat :=
  let '(v, n, rest) := read_digits s 0%Z 0%nat in
  match n, rest with S _, EmptyString => Some (Z.to_nat v) | _, _ => None end.

(* ---------------- the structure a definition file describes ---------------- *)
Record rnode := { rn_id : string; rn_x : Q; rn_y : Q; rn_c : link; rn_dof : option (nat * nat * nat) }.
Record rmat := { rm_name : string; rm_vals : list Q }.    (* density young shear poisson yield ultimate *)
Record rsec := { rs_name : string; rs_vals : list Q }.    (* area istrong iweak sstrong sweak *)
Record rcload := { rc_bar : string; rc_load : cload Q }.
Record rdload := { rd_bar : string; rd_load : dload Q }.
Record rbar := { rb_id : string; rb_n1 : string; rb_l1 : link; rb_n2 : string; rb_l2 : link;
                 rb_mat : string; rb_sec : string }.

(* a bar linked with what it refers to *)
Record lbar := { lb_bar : rbar; lb_start : rnode; lb_end : rnode; lb_material : rmat; lb_section : rsec;
                 lb_cl : list (cload Q); lb_dl : list (dload Q) }.
Record rstruct := { st_major : nat; st_minor : nat; st_nodes : list rnode; st_bars : list lbar }.

Inductive rerr :=
| EVersion | EUnknownHeader | ENode | EMaterial | ESection | ELoad | ETerm | EBar | ENumber
| ENoStart | ENoEnd | ENoSection | ENoMaterial | ELoadUnknownBar.
Inductive result (A : Type) := Ok (a : A) | Err (e : rerr).
Arguments Ok {A} a. Arguments Err {A} e.

(* ---------------- per-line deserialisation ---------------- *)
Fixpoint gindex (table : list (nat * string)) (name : string) : nat :=
  match table with
  | [] => 0%nat
  | (k, n) :: t => if String.eqb n name then k else gindex t name
  end.
Definition grp (table : list (nat * string)) (s : string) (c : caps) (name : string) : string :=
  group s c (gindex table name).

Fixpoint contains (needle hay : string) : bool :=
  match hay with
  | EmptyString => match needle with EmptyString => true | _ => false end
  | String _ r => if String.prefix needle hay then true else contains needle r
  end.
(* constraintFromString *)
Definition constraint_of (s : string) : link :=
  {| lk_dx := contains "dx" s; lk_dy := contains "dy" s; lk_rz := contains "rz" s |}.

Definition bindn {A} (r : num_result) (f : Q -> result A) : result A :=
  match r with NumOk q => f q | _ => Err ENumber end.

(* strings.Fields (strings.Trim s " []") for "[a b c]" *)
Fixpoint fields_acc (s : string) (cur : string) (acc : list string) : list string :=
  match s with
  | EmptyString => rev (match cur with EmptyString => acc | _ => rev_string cur :: acc end)
  | String a r =>
    if is_space a || Ascii.eqb a "["%char || Ascii.eqb a "]"%char
    then fields_acc r EmptyString (match cur with EmptyString => acc | _ => rev_string cur :: acc end)
    else fields_acc r (String a cur) acc
  end.
Definition parse_dof (s : string) : option (nat * nat * nat) :=
  match fields_acc s EmptyString [] with
  | [a; b; c] => match parse_nat a, parse_nat b, parse_nat c with
                 | Some x, Some y, Some z => Some (x, y, z) | _, _, _ => None end
  | _ => None
  end.

Definition deserialize_node (line : string) : result rnode :=
  match rsearch re_def_nodeDefinitionRegex line with
  | None => Err ENode
  | Some c =>
    let g := grp groups_def_nodeDefinitionRegex line c in
    bindn (parse_float (g "x")) (fun x =>
    bindn (parse_float (g "y")) (fun y =>
    let dof := match g "dof" with EmptyString => None | d => parse_dof d end in
    Ok {| rn_id := g "id"; rn_x := x; rn_y := y; rn_c := constraint_of (g "constraints"); rn_dof := dof |}))
  end.

Fixpoint floats_of (line : string) (c : caps) (idx : list nat) : result (list Q) :=
  match idx with
  | [] => Ok []
  | k :: t => bindn (parse_float (group line c k)) (fun q =>
              match floats_of line c t with Ok l => Ok (q :: l) | Err e => Err e end)
  end.

Definition deserialize_material (line : string) : result rmat :=
  match rsearch re_def_materialDefinitionRegex line with
  | None => Err EMaterial
  | Some c => match floats_of line c [2; 3; 4; 5; 6; 7]%nat with
              | Ok l => Ok {| rm_name := group line c 1; rm_vals := l |} | Err e => Err e end
  end.
Definition deserialize_section (line : string) : result rsec :=
  match rsearch re_def_sectionDefinitionRegex line with
  | None => Err ESection
  | Some c => match floats_of line c [2; 3; 4; 5; 6]%nat with
              | Ok l => Ok {| rs_name := group line c 1; rs_vals := l |} | Err e => Err e end
  end.

Definition term_of (s : string) : option term :=
  if String.eqb s "fx" then Some FX else if String.eqb s "fy" then Some FY else if String.eqb s "mz" then Some MZ else None.
(* nums.MakeTParam clamps to [0, 1] *)
Definition clamp_t (q : Q) : Q := if Qle_bool q 0 then 0%Q else if Qle_bool 1 q then 1%Q else q.

Inductive rload := LConc (l : rcload) | LDist (l : rdload).
Definition deserialize_load (line : string) : result rload :=
  match rsearch re_def_distLoadDefinitionRegex line with
  | Some c =>
    match term_of (group line c 1) with
    | None => Err ETerm
    | Some tm =>
      match floats_of line c [4; 5; 6; 7]%nat with
      | Ok [t0; v0; t1; v1] =>
        Ok (LDist {| rd_bar := group line c 3;
                     rd_load := {| dl_term := tm; dl_local := String.eqb (group line c 2) "l";
                                   dl_t0 := clamp_t t0; dl_v0 := v0; dl_t1 := clamp_t t1; dl_v1 := v1 |} |})
      | Ok _ => Err ELoad
      | Err e => Err e
      end
    end
  | None =>
    match rsearch re_def_concLoadDefinitionRegex line with
    | Some c =>
      match term_of (group line c 1) with
      | None => Err ETerm
      | Some tm =>
        match floats_of line c [4; 5]%nat with
        | Ok [t; v] =>
          Ok (LConc {| rc_bar := group line c 3;
                       rc_load := {| cl_term := tm; cl_local := String.eqb (group line c 2) "l"; cl_t := clamp_t t; cl_v := v |} |})
        | Ok _ => Err ELoad
        | Err e => Err e
        end
      end
    | None => Err ELoad
    end
  end.

Definition deserialize_bar (line : string) : result rbar :=
  match rsearch re_def_elementDefinitionRegex line with
  | None => Err EBar
  | Some c =>
    let g := grp groups_def_elementDefinitionRegex line c in
    Ok {| rb_id := g "id"; rb_n1 := g "start_node"; rb_l1 := constraint_of (g "start_link");
          rb_n2 := g "end_node"; rb_l2 := constraint_of (g "end_link"); rb_mat := g "material"; rb_sec := g "section" |}
  end.

(* ---------------- the file ---------------- *)
Definition parse_version (line : string) : result (nat * nat) :=
  match rsearch re_io_versionRegex line with
  | None => Err EVersion
  | Some c => match parse_nat (group line c 1), parse_nat (group line c 2) with
              | Some a, Some b => Ok (a, b) | _, _ => Err EVersion end
  end.

Record rstate := {
  s_section : string;
  s_nodes : list rnode; s_mats : list rmat; s_secs : list rsec;     (* later definitions of a key override *)
  s_cl : list rcload; s_dl : list rdload; s_bars : list rbar         (* in reading order *)
}.
Definition state0 : rstate :=
  {| s_section := ""; s_nodes := []; s_mats := []; s_secs := []; s_cl := []; s_dl := []; s_bars := [] |}.

Definition set_section (st : rstate) (h : string) : rstate :=
  {| s_section := h; s_nodes := s_nodes st; s_mats := s_mats st; s_secs := s_secs st; s_cl := s_cl st; s_dl := s_dl st; s_bars := s_bars st |}.

(* maps keyed by id / name: a second definition replaces the first *)
Fixpoint upsert {A} (key : A -> string) (x : A) (l : list A) : list A :=
  match l with
  | [] => [x]
  | y :: t => if String.eqb (key y) (key x) then x :: t else y :: upsert key x t
  end.
Fixpoint lookup_by {A} (key : A -> string) (k : string) (l : list A) : option A :=
  match l with [] => None | y :: t => if String.eqb (key y) k then Some y else lookup_by key k t end.

Definition step (st : rstate) (line : string) : result rstate :=
  if rmatches re_io_genericSectionHeaderRegex line then
    match rsearch re_io_genericSectionHeaderRegex line with
    | Some c => Ok (set_section st (group line c 1))
    | None => Err EUnknownHeader
    end
  else
    let sec := s_section st in
    if String.eqb sec "nodes" then
      match deserialize_node line with
      | Ok n => Ok {| s_section := sec; s_nodes := upsert rn_id n (s_nodes st); s_mats := s_mats st; s_secs := s_secs st;
                      s_cl := s_cl st; s_dl := s_dl st; s_bars := s_bars st |}
      | Err e => Err e end
    else if String.eqb sec "materials" then
      match deserialize_material line with
      | Ok m => Ok {| s_section := sec; s_nodes := s_nodes st; s_mats := upsert rm_name m (s_mats st); s_secs := s_secs st;
                      s_cl := s_cl st; s_dl := s_dl st; s_bars := s_bars st |}
      | Err e => Err e end
    else if String.eqb sec "sections" then
      match deserialize_section line with
      | Ok m => Ok {| s_section := sec; s_nodes := s_nodes st; s_mats := s_mats st; s_secs := upsert rs_name m (s_secs st);
                      s_cl := s_cl st; s_dl := s_dl st; s_bars := s_bars st |}
      | Err e => Err e end
    else if String.eqb sec "loads" then
      match deserialize_load line with
      | Ok (LConc l) => Ok {| s_section := sec; s_nodes := s_nodes st; s_mats := s_mats st; s_secs := s_secs st;
                              s_cl := s_cl st ++ [l]; s_dl := s_dl st; s_bars := s_bars st |}
      | Ok (LDist l) => Ok {| s_section := sec; s_nodes := s_nodes st; s_mats := s_mats st; s_secs := s_secs st;
                              s_cl := s_cl st; s_dl := s_dl st ++ [l]; s_bars := s_bars st |}
      | Err e => Err e end
    else if String.eqb sec "bars" then
      match deserialize_bar line with
      | Ok b => Ok {| s_section := sec; s_nodes := s_nodes st; s_mats := s_mats st; s_secs := s_secs st;
                      s_cl := s_cl st; s_dl := s_dl st; s_bars := s_bars st ++ [b] |}
      | Err e => Err e end
    else Err EUnknownHeader.

Fixpoint steps (st : rstate) (lines : list string) : result rstate :=
  match lines with
  | [] => Ok st
  | l :: t => match step st l with Ok st' => steps st' t | Err e => Err e end
  end.

(* BarFromDeserialization + ElementBuilder.Build *)
Definition link_bar (st : rstate) (b : rbar) : result lbar :=
  match lookup_by rn_id (rb_n1 b) (s_nodes st) with
  | None => Err ENoStart
  | Some n1 =>
    match lookup_by rn_id (rb_n2 b) (s_nodes st) with
    | None => Err ENoEnd
    | Some n2 =>
      match lookup_by rs_name (rb_sec b) (s_secs st) with
      | None => Err ENoSection
      | Some sc =>
        match lookup_by rm_name (rb_mat b) (s_mats st) with
        | None => Err ENoMaterial
        | Some m =>
          Ok {| lb_bar := b; lb_start := n1; lb_end := n2; lb_material := m; lb_section := sc;
                lb_cl := map rc_load (filter (fun l => String.eqb (rc_bar l) (rb_id b)) (s_cl st));
                lb_dl := map rd_load (filter (fun l => String.eqb (rd_bar l) (rb_id b)) (s_dl st)) |}
        end
      end
    end
  end.
Fixpoint link_bars (st : rstate) (bs : list rbar) : result (list lbar) :=
  match bs with
  | [] => Ok []
  | b :: t => match link_bar st b with
              | Ok lb => match link_bars st t with Ok l => Ok (lb :: l) | Err e => Err e end
              | Err e => Err e end
  end.
(* ensureLoadsAreAppliedToBars *)
Definition loads_have_bars (st : rstate) : bool :=
  forallb (fun l => existsb (fun b => String.eqb (rb_id b) (rc_bar l)) (s_bars st)) (s_cl st) &&
  forallb (fun l => existsb (fun b => String.eqb (rb_id b) (rd_bar l)) (s_bars st)) (s_dl st).

Definition read_lines (lines : list string) : result rstruct :=
  match lines with
  | [] => Err EVersion
  | v :: rest =>
    match parse_version v with
    | Err e => Err e
    | Ok (ma, mi) =>
      match steps state0 rest with
      | Err e => Err e
      | Ok st =>
        match link_bars st (s_bars st) with
        | Err e => Err e
        | Ok bars => if loads_have_bars st then Ok {| st_major := ma; st_minor := mi; st_nodes := s_nodes st; st_bars := bars |}
                     else Err ELoadUnknownBar
        end
      end
    end
  end.

Definition read_def (text : string) : result rstruct := read_lines (content_lines text).
