(* Assembly of the global system (preprocess/structure.go MakeSystemOfEquations,
   addDispConstraints; preprocess/element.go addTermsToStiffnessMatrix, addTermsToLoadVector),
   including the semantics of inkmath's SparseMat that matter (AddToValue accumulates,
   SetZeroCol / SetIdentityRow).  Slice stiffness comes from Gen/GenStiffness.v. *)
From Coq Require Import ZArith QArith List Bool Arith.
From Inkfem Require Import Num.NumOps Gen.GenStiffness Model.Types Model.Slice Model.Dof.
Import ListNotations.
Local Open Scope num_scope.

Section Assemble.
Context {F : Type} {O : NumOps F} {C : NumCmp F}.

(* a sliced, numbered bar *)
Record pbar := { pb_bar : bar F; pb_nodes : list (pnode F); pb_dofs : list dof3 }.

Definition d3_list (d : dof3) : list nat := [fst (fst d); snd (fst d); snd d].

(* nums.IsCloseToZero: |v| < 1e-10 — such stiffness terms are not added (element.go) *)
Definition close_to_zero (v : F) : bool := teq v n0.

(* the 36 terms of one finite element, placed at its six equation numbers *)
Definition slice_contribs (b : bar F) (na nb : pnode F) (da db : dof3) : list (nat * nat * F) :=
  let k := stiff_gen (b_L b) (b_c b) (b_s b) (pn_t na) (pn_t nb) (b_E b) (b_A b) (b_I b) in
  let ds := d3_list da ++ d3_list db in
  flat_map (fun i => flat_map (fun j =>
      let v := entry k i j in
      if close_to_zero v then [] else [(nth i ds 0%nat, nth j ds 0%nat, v)])
    (seq 0 6)) (seq 0 6).

Fixpoint bar_contribs_from (b : bar F) (na : pnode F) (da : dof3)
         (rest : list (pnode F * dof3)) : list (nat * nat * F) :=
  match rest with
  | [] => []
  | (nb, db) :: rest' => slice_contribs b na nb da db ++ bar_contribs_from b nb db rest'
  end.
Definition bar_contribs (p : pbar) : list (nat * nat * F) :=
  match combine (pb_nodes p) (pb_dofs p) with
  | [] => []
  | (na, da) :: rest => bar_contribs_from (pb_bar p) na da rest
  end.

(* load vector terms of a bar: the net load of every node, projected to global axes *)
Definition node_fterms (b : bar F) (nd : pnode F * dof3) : list (nat * F) :=
  let g := to_global (b_c b) (b_s b) (pn_net (fst nd)) in
  [(fst (fst (snd nd)), t_fx g); (snd (fst (snd nd)), t_fy g); (snd (snd nd), t_mz g)].
Definition bar_fterms (p : pbar) : list (nat * F) :=
  flat_map (node_fterms (pb_bar p)) (combine (pb_nodes p) (pb_dofs p)).

Definition all_contribs (bars : list pbar) : list (nat * nat * F) := flat_map bar_contribs bars.
Definition all_fterms (bars : list pbar) : list (nat * F) := flat_map bar_fterms bars.

(* value-level reading of the accumulated sparse matrix / dense vector *)
Definition kraw_at (cs : list (nat * nat * F)) (i j : nat) : F :=
  fold_left (fun acc c => if Nat.eqb (fst (fst c)) i && Nat.eqb (snd (fst c)) j then acc + snd c else acc) cs n0.
Definition fraw_at (fs : list (nat * F)) (i : nat) : F :=
  fold_left (fun acc c => if Nat.eqb (fst c) i then acc + snd c else acc) fs n0.
Definition row_empty (cs : list (nat * nat * F)) (i : nat) : bool :=
  forallb (fun c => negb (Nat.eqb (fst (fst c)) i)) cs.

(* supported equation numbers: constrained components of the structural nodes *)
Definition supported_of (nodes : list (link * dof3)) : list nat :=
  flat_map (fun p => let l := fst p in let d := snd p in
    (if lk_dx l then [fst (fst d)] else []) ++ (if lk_dy l then [snd (fst d)] else []) ++
    (if lk_rz l then [snd d] else [])) nodes.
Definition is_supported (sup : list nat) (i : nat) : bool := existsb (Nat.eqb i) sup.

Definition delta (i j : nat) : F := if Nat.eqb i j then n1 else n0.

(* the system handed to the solver *)
Definition k_final (cs : list (nat * nat * F)) (sup : list nat) (i j : nat) : F :=
  if is_supported sup i || is_supported sup j then delta i j
  else if row_empty cs i then delta i j
  else kraw_at cs i j.
Definition f_final (fs : list (nat * F)) (sup : list nat) (i : nat) : F :=
  if is_supported sup i then n0 else fraw_at fs i.

(* K u at row i, for u given as a function *)
Definition row_times (cs : list (nat * nat * F)) (sup : list nat) (n : nat) (u : nat -> F) (i : nat) : F :=
  fold_left (fun acc j => acc + k_final cs sup i j * u j) (seq 0 n) n0.

End Assemble.
Arguments pbar : clear implicits.
