(* Data of the executable model: structures as the reader produces them, sliced bars as
   the preprocessor produces them.  Polymorphic in the number type; node and bar
   identifiers are indices assigned by the harness. *)
From Coq Require Import ZArith QArith List Bool.
From Inkfem Require Import Num.NumOps.
Import ListNotations.

Inductive term := FX | FY | MZ.
Definition term_eqb (a b : term) : bool :=
  match a, b with FX, FX | FY, FY | MZ, MZ => true | _, _ => false end.

(* true = the component is constrained (dx, dy, rz) *)
Record link := { lk_dx : bool; lk_dy : bool; lk_rz : bool }.
Definition rigid : link := {| lk_dx := true; lk_dy := true; lk_rz := true |}.

Section Types.
Context {F : Type}.

Definition tor : Type := (F * F * F)%type.
Definition t_fx (t : tor) : F := fst (fst t).
Definition t_fy (t : tor) : F := snd (fst t).
Definition t_mz (t : tor) : F := snd t.

Record cload := { cl_term : term; cl_local : bool; cl_t : F; cl_v : F }.
Record dload := { dl_term : term; dl_local : bool; dl_t0 : F; dl_v0 : F; dl_t1 : F; dl_v1 : F }.

(* A bar with its geometry witnesses: (b_L, b_c, b_s) stand for length and direction
   cosines; well-formed iff c L = x2 - x1, s L = y2 - y1, c^2 + s^2 = 1, L > 0. *)
Record bar := {
  b_n1 : nat; b_n2 : nat; b_l1 : link; b_l2 : link;
  b_x1 : F; b_y1 : F; b_x2 : F; b_y2 : F;
  b_L : F; b_c : F; b_s : F;
  b_E : F; b_A : F; b_I : F; b_S : F; b_rho : F;
  b_cl : list cload; b_dl : list dload }.

(* slice node: position parameter, coordinates, external / left / right local loads *)
Record pnode := { pn_t : F; pn_x : F; pn_y : F; pn_ext : tor; pn_left : tor; pn_right : tor }.

(* structural node: coordinates and external constraint *)
Record snode := { sn_x : F; sn_y : F; sn_c : link }.

End Types.
Arguments cload : clear implicits.
Arguments dload : clear implicits.
Arguments bar : clear implicits.
Arguments pnode : clear implicits.
Arguments snode : clear implicits.
Arguments tor : clear implicits.

Section TorOps.
Context {F : Type} {O : NumOps F}.
Local Open Scope num_scope.
Definition tor0 : tor F := (n0, n0, n0).
Definition tor_add (a b : tor F) : tor F := (t_fx a + t_fx b, t_fy a + t_fy b, t_mz a + t_mz b).
Definition tor_sub (a b : tor F) : tor F := (t_fx a - t_fx b, t_fy a - t_fy b, t_mz a - t_mz b).
(* global -> local (RefFrame.ProjectProjections) and local -> global (ProjectionsToGlobal) *)
Definition to_local (c s : F) (t : tor F) : tor F :=
  (t_fx t * c + t_fy t * s, t_fy t * c - t_fx t * s, t_mz t).
Definition to_global (c s : F) (t : tor F) : tor F :=
  (t_fx t * c - t_fy t * s, t_fx t * s + t_fy t * c, t_mz t).
Definition pn_net (n : pnode F) : tor F := tor_add (tor_add (pn_ext n) (pn_left n)) (pn_right n).
End TorOps.

(* change of number type (used to run the model at the execution instance) *)
Section Map.
Context {A B : Type} (f : A -> B).
Definition tor_map (t : tor A) : tor B := (f (t_fx t), f (t_fy t), f (t_mz t)).
Definition cload_map (l : cload A) : cload B :=
  {| cl_term := cl_term l; cl_local := cl_local l; cl_t := f (cl_t l); cl_v := f (cl_v l) |}.
Definition dload_map (l : dload A) : dload B :=
  {| dl_term := dl_term l; dl_local := dl_local l; dl_t0 := f (dl_t0 l); dl_v0 := f (dl_v0 l);
     dl_t1 := f (dl_t1 l); dl_v1 := f (dl_v1 l) |}.
Definition bar_map (b : bar A) : bar B :=
  {| b_n1 := b_n1 b; b_n2 := b_n2 b; b_l1 := b_l1 b; b_l2 := b_l2 b;
     b_x1 := f (b_x1 b); b_y1 := f (b_y1 b); b_x2 := f (b_x2 b); b_y2 := f (b_y2 b);
     b_L := f (b_L b); b_c := f (b_c b); b_s := f (b_s b);
     b_E := f (b_E b); b_A := f (b_A b); b_I := f (b_I b); b_S := f (b_S b); b_rho := f (b_rho b);
     b_cl := map cload_map (b_cl b); b_dl := map dload_map (b_dl b) |}.
Definition pnode_map (n : pnode A) : pnode B :=
  {| pn_t := f (pn_t n); pn_x := f (pn_x n); pn_y := f (pn_y n);
     pn_ext := tor_map (pn_ext n); pn_left := tor_map (pn_left n); pn_right := tor_map (pn_right n) |}.
Definition snode_map (n : snode A) : snode B := {| sn_x := f (sn_x n); sn_y := f (sn_y n); sn_c := sn_c n |}.
End Map.
