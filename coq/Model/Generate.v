(* generate (generate/reticular.go): the node grid and the bar loop of the reticular frame.
   All index arithmetic (row predicates, loop bounds, end-node expressions, bar count formula,
   the beam load) comes from Gen/GenReticular.v, regenerated from the Go source on every run;
   the loops are written here and tied to the code by correspondence on the binary's output. *)
From Coq Require Import ZArith QArith Arith Bool List.
From Inkfem Require Import Model.Types Gen.GenReticular.
Import ListNotations.
Local Open Scope nat_scope.

Record gnode := { gn_id : nat; gn_x : Q; gn_y : Q; gn_fixed : bool }.
Record gbar := { gb_id : nat; gb_n1 : nat; gb_n2 : nat; gb_loaded : bool; gb_rigid : bool }.

(* generateNodes: rows of cols nodes, numbered along the rows by a running counter *)
Definition gen_nodes (spans levels : nat) (span height : Q) : list gnode :=
  let cols := ret_node_cols spans in
  flat_map (fun i => map (fun j =>
      {| gn_id := ret_node_id (i * cols + j); gn_x := ret_node_x i j span height;
         gn_y := ret_node_y i j span height; gn_fixed := ret_node_fixed i |})
    (seq 0 cols)) (seq 0 (ret_node_rows levels)).

(* the values the loop variable takes *)
Definition loop_indices (nnodes : nat) : list nat :=
  filter (ret_loop_cond nnodes) (seq ret_loop_start (S nnodes)).

(* generateBars: at every index possibly a beam, then possibly a column; barIndex runs along *)
Fixpoint bars_from (rows cols : nat) (is : list nat) (barIndex : nat) : list gbar :=
  match is with
  | [] => []
  | i :: rest =>
    let b1 := if ret_beam_cond rows cols i
              then [{| gb_id := ret_beam_id barIndex; gb_n1 := ret_beam_start rows cols i; gb_n2 := ret_beam_end rows cols i;
                       gb_loaded := ret_beam_loaded; gb_rigid := ret_beam_rigid |}] else [] in
    let k1 := barIndex + length b1 in
    let b2 := if ret_column_cond rows cols i
              then [{| gb_id := ret_column_id k1; gb_n1 := ret_column_start rows cols i; gb_n2 := ret_column_end rows cols i;
                       gb_loaded := ret_column_loaded; gb_rigid := ret_column_rigid |}] else [] in
    b1 ++ b2 ++ bars_from rows cols rest (k1 + length b2)
  end.

Definition gen_bars (spans levels : nat) : list gbar :=
  let rows := ret_rows levels in let cols := ret_cols spans in
  bars_from rows cols (loop_indices (rows * cols)) 0.

(* ---- what the documentation promises, written over the grid ---- *)
Definition idx (spans r j : nat) : nat := r * (spans + 1) + j + 1.
(* (start node, end node, carries the load) of the bars that start at grid position (r, j) *)
Definition spec_at (spans levels r j : nat) : list (nat * nat * bool) :=
  (if Nat.ltb j spans && Nat.leb 1 r then [(idx spans r j, idx spans r (j + 1), true)] else []) ++
  (if Nat.ltb r levels then [(idx spans r j, idx spans (r + 1) j, false)] else []).
Definition spec_bars (spans levels : nat) : list (nat * nat * bool) :=
  flat_map (fun r => flat_map (spec_at spans levels r) (seq 0 (spans + 1))) (seq 0 (levels + 1)).
Definition bar_proj (b : gbar) : nat * nat * bool := (gb_n1 b, gb_n2 b, gb_loaded b).
