(* Equation numbering (preprocess/structure.go AssignDof; structure/node.go).  Hand-written
   model, tied to the code by correspondence stage C (numbers of every slice node, of every
   structural node, and the count, compared exactly on the implementation's bar order). *)
From Coq Require Import Arith List Bool Lia.
From Inkfem Require Import Model.Types.
Import ListNotations.

(* what numbering needs to know about a sliced bar *)
Record skel := { sk_n1 : nat; sk_n2 : nat; sk_l1 : link; sk_l2 : link; sk_nn : nat }.

Definition dof3 : Type := (nat * nat * nat)%type.
Definition ndofs : Type := list (nat * dof3).

Fixpoint lookup (n : nat) (m : ndofs) : option dof3 :=
  match m with
  | [] => None
  | (k, d) :: r => if Nat.eqb k n then Some d else lookup n r
  end.

(* assignNodeDof: a structural node gets three fresh numbers on its first visit *)
Definition assign_node (n : nat) (next : nat) (m : ndofs) : nat * ndofs * dof3 :=
  match lookup n m with
  | Some d => (next, m, d)
  | None => (next + 3, (n, (next, next + 1, next + 2)) :: m, (next, next + 1, next + 2))
  end.

(* endNodesDof: a bar end takes the node's number for the components its link constrains and
   a fresh number for each released component, in the order dx, dy, rz *)
Definition end_dofs (lk : link) (nd : dof3) (next : nat) : dof3 * nat :=
  let '(ndx, ndy, nrz) := nd in
  let '(dx, k1) := if lk_dx lk then (ndx, next) else (next, S next) in
  let '(dy, k2) := if lk_dy lk then (ndy, k1) else (k1, S k1) in
  let '(rz, k3) := if lk_rz lk then (nrz, k2) else (k2, S k2) in
  ((dx, dy, rz), k3).

Fixpoint fresh_triples (k count : nat) : list dof3 :=
  match count with
  | 0 => []
  | S c => (k, k + 1, k + 2) :: fresh_triples (k + 3) c
  end.

Definition assign_bar (next : nat) (m : ndofs) (s : skel) : nat * ndofs * list dof3 :=
  let '(k0, m1, d1) := assign_node (sk_n1 s) next m in
  let '(first, k1) := end_dofs (sk_l1 s) d1 k0 in
  let mids := fresh_triples k1 (sk_nn s - 2) in
  let k2 := k1 + 3 * (sk_nn s - 2) in
  let '(k3, m2, d2) := assign_node (sk_n2 s) k2 m1 in
  let '(last, k4) := end_dofs (sk_l2 s) d2 k3 in
  (k4, m2, first :: mids ++ [last]).

Fixpoint assign_from (next : nat) (m : ndofs) (bars : list skel) : nat * ndofs * list (list dof3) :=
  match bars with
  | [] => (next, m, [])
  | s :: rest =>
    let '(k, m', ds) := assign_bar next m s in
    let '(k', m'', dss) := assign_from k m' rest in
    (k', m'', ds :: dss)
  end.

(* AssignDof on the bars in the order the implementation processes them *)
Definition assign (bars : list skel) : nat * ndofs * list (list dof3) := assign_from 0 [] bars.
Definition dof_count (bars : list skel) : nat := fst (fst (assign bars)).
Definition node_dofs (bars : list skel) : ndofs := snd (fst (assign bars)).
Definition bar_dofs (bars : list skel) : list (list dof3) := snd (assign bars).
