(* solve [-p] as a transition system over an abstract file system: the main flow and the
   background .inkfempre writer interleave in every possible way; leaving the main flow ends
   the process, whatever the writer was doing.  The synchronisation skeleton is parametrised
   by the facts Gen/GenCli.v reads off cmd/solve.go on every run.  The two extreme schedules
   are imposed on the binary through the verif hooks and compared with this model. *)
From Coq Require Import Arith List Bool.
Import ListNotations.

Inductive fstate := Missing | Partial | Complete.
Definition fstate_eqb (a b : fstate) : bool :=
  match a, b with Missing, Missing | Partial, Partial | Complete, Complete => true | _, _ => false end.

Record skeleton := { sk_add_before_spawn : bool; sk_writer_signals_done : bool; sk_waits_at_end : bool;
                     sk_pre_created_first : bool; sk_sol_created_after_solve : bool }.

Inductive outcome := Running | ExitOk | Crashed.
(* main program counter: 0 read+preprocess, 1 create pre (when done by main), 2 Add, 3 spawn, 4 solve,
   5 create sol, 6 write sol, 7 wait, 8 return.  writer: 0 not started, 1 started, 2 writing, 3 closing/Done, 4 finished *)
Record state := { mpc : nat; wpc : nat; wg : nat; pre : fstate; sol : fstate; out : outcome;
                  solvable : bool; pre_creatable : bool; sol_creatable : bool }.

Definition upd_m (s : state) (m : nat) : state :=
  {| mpc := m; wpc := wpc s; wg := wg s; pre := pre s; sol := sol s; out := out s; solvable := solvable s;
     pre_creatable := pre_creatable s; sol_creatable := sol_creatable s |}.
Definition crash (s : state) : state :=
  {| mpc := mpc s; wpc := wpc s; wg := wg s; pre := pre s; sol := sol s; out := Crashed; solvable := solvable s;
     pre_creatable := pre_creatable s; sol_creatable := sol_creatable s |}.

(* steps of the main flow (with -p) *)
Definition main_steps (k : skeleton) (s : state) : list state :=
  match out s with
  | Running =>
    match mpc s with
    | 0 => [upd_m s 1]
    | 1 => if sk_pre_created_first k then
             (if pre_creatable s then [{| mpc := 2; wpc := wpc s; wg := wg s; pre := Partial; sol := sol s; out := Running;
                                          solvable := solvable s; pre_creatable := true; sol_creatable := sol_creatable s |}]
              else [crash s])
           else [upd_m s 2]
    | 2 => if sk_add_before_spawn k then
             [{| mpc := 3; wpc := wpc s; wg := S (wg s); pre := pre s; sol := sol s; out := Running; solvable := solvable s;
                 pre_creatable := pre_creatable s; sol_creatable := sol_creatable s |}]
           else [upd_m s 3]
    | 3 => [{| mpc := 4; wpc := 1; wg := wg s; pre := pre s; sol := sol s; out := Running; solvable := solvable s;
               pre_creatable := pre_creatable s; sol_creatable := sol_creatable s |}]
    | 4 => if solvable s then [upd_m s 5] else [crash s]
    | 5 => if sol_creatable s then
             [{| mpc := 6; wpc := wpc s; wg := wg s; pre := pre s; sol := Partial; out := Running; solvable := solvable s;
                 pre_creatable := pre_creatable s; sol_creatable := true |}]
           else [crash s]
    | 6 => [{| mpc := 7; wpc := wpc s; wg := wg s; pre := pre s; sol := Complete; out := Running; solvable := solvable s;
               pre_creatable := pre_creatable s; sol_creatable := sol_creatable s |}]
    | 7 => if sk_waits_at_end k then (if Nat.eqb (wg s) 0 then [upd_m s 8] else []) else [upd_m s 8]
    | 8 => [{| mpc := 9; wpc := wpc s; wg := wg s; pre := pre s; sol := sol s; out := ExitOk; solvable := solvable s;
               pre_creatable := pre_creatable s; sol_creatable := sol_creatable s |}]
    | _ => []
    end
  | _ => []
  end.

(* steps of the background writer *)
Definition writer_steps (k : skeleton) (s : state) : list state :=
  match out s with
  | Running =>
    match wpc s with
    | 1 =>
      let g := if sk_add_before_spawn k then wg s else S (wg s) in
      if sk_pre_created_first k then
        [{| mpc := mpc s; wpc := 2; wg := g; pre := pre s; sol := sol s; out := Running; solvable := solvable s;
            pre_creatable := pre_creatable s; sol_creatable := sol_creatable s |}]
      else if pre_creatable s then
        [{| mpc := mpc s; wpc := 2; wg := g; pre := Partial; sol := sol s; out := Running; solvable := solvable s;
            pre_creatable := true; sol_creatable := sol_creatable s |}]
      else [crash s]   (* a panic in a goroutine takes the process down *)
    | 2 => [s;        (* one more chunk written, still incomplete *)
            {| mpc := mpc s; wpc := 3; wg := wg s; pre := Complete; sol := sol s; out := Running; solvable := solvable s;
               pre_creatable := pre_creatable s; sol_creatable := sol_creatable s |}]
    | 3 => [{| mpc := mpc s; wpc := 4; wg := if sk_writer_signals_done k then Nat.pred (wg s) else wg s; pre := pre s; sol := sol s;
               out := Running; solvable := solvable s; pre_creatable := pre_creatable s; sol_creatable := sol_creatable s |}]
    | _ => []
    end
  | _ => []
  end.

Definition successors (k : skeleton) (s : state) : list state := main_steps k s ++ writer_steps k s.

Definition init (solvable pre_ok sol_ok : bool) : state :=
  {| mpc := 0; wpc := 0; wg := 0; pre := Missing; sol := Missing; out := Running;
     solvable := solvable; pre_creatable := pre_ok; sol_creatable := sol_ok |}.

Inductive reachable (k : skeleton) (s0 : state) : state -> Prop :=
| reach_init : reachable k s0 s0
| reach_step : forall s s', reachable k s0 s -> In s' (successors k s) -> reachable k s0 s'.

(* ---- finite exploration, inside Coq ---- *)
Definition outcome_eqb (a b : outcome) : bool :=
  match a, b with Running, Running | ExitOk, ExitOk | Crashed, Crashed => true | _, _ => false end.
Definition state_eqb (a b : state) : bool :=
  Nat.eqb (mpc a) (mpc b) && Nat.eqb (wpc a) (wpc b) && Nat.eqb (wg a) (wg b) && fstate_eqb (pre a) (pre b) &&
  fstate_eqb (sol a) (sol b) && outcome_eqb (out a) (out b) && Bool.eqb (solvable a) (solvable b) &&
  Bool.eqb (pre_creatable a) (pre_creatable b) && Bool.eqb (sol_creatable a) (sol_creatable b).
Definition mem (s : state) (l : list state) : bool := existsb (state_eqb s) l.
Fixpoint add_all (new acc : list state) : list state :=
  match new with [] => acc | x :: r => if mem x acc then add_all r acc else add_all r (acc ++ [x]) end.
Fixpoint explore (fuel : nat) (k : skeleton) (acc : list state) : list state :=
  match fuel with
  | 0 => acc
  | S f => let acc' := add_all (flat_map (successors k) acc) acc in
           if Nat.eqb (length acc') (length acc) then acc else explore f k acc'
  end.
Definition closed (k : skeleton) (l : list state) : bool :=
  forallb (fun s => forallb (fun s' => mem s' l) (successors k s)) l.

(* the contract of solve -p *)
Definition contract (s : state) : bool :=
  match out s with
  | ExitOk => fstate_eqb (sol s) Complete && fstate_eqb (pre s) Complete
  | Crashed => fstate_eqb (sol s) Missing         (* a failure leaves no solution file behind *)
  | Running => true
  end.
