(* plot (plot/structure.go, bounds.go, geometry.go, loads.go, fx.go, fy.go, mz.go,
   ext_constraint.go, units_scale.go, sizes.go): the sequence of drawing events the command
   emits, one constructor per kind of svgo call that the property speaks about, with integer
   coordinates obtained by truncating the scaled positions.  Thresholds, scale factors, the
   margin and the theme tables come from Gen/GenConsts.v (regenerated from the source).
   Tied to the code by correspondence stage S: the SVG written by the binary is parsed (XML)
   into the same events and compared inside Coq. *)
From Coq Require Import ZArith QArith Qround List Bool String.
From Inkfem Require Import Gen.GenConsts Model.Types.
Import ListNotations.
Local Open Scope Q_scope.

(* int(x) of Go: truncation towards zero *)
Definition trunc (q : Q) : Z := if Qle_bool 0 q then Qfloor q else Qceiling q.

Record pnode_in := { pi_id : string; pi_x : Q; pi_y : Q; pi_c : link }.
Record pdload := { pd_term : term; pd_local : bool; pd_t0 : Q; pd_v0 : Q; pd_t1 : Q; pd_v1 : Q }.
Record pbar_in := { pb_id : string; pb_x1 : Q; pb_y1 : Q; pb_x2 : Q; pb_y2 : Q; pb_len : Q;
                    pb_has_loads : bool; pb_dloads : list pdload }.
Record plot_in := { pl_nodes : list pnode_in; pl_bars : list pbar_in; pl_scale : Q; pl_dscale : Q; pl_margin : Z }.

Inductive event :=
| EStart (w h : Z)
| EOpen (what : string)             (* a group / defs / marker / pattern is opened *)
| EClose (what : string)
| EBarLine (id : string) (x1 y1 x2 y2 : Z)
| ENodeCircle (id : string) (x y : Z)
| ESupport (kind : nat) (x y : Z)   (* 1 fixed, 2 pinned, 3 roller (dy); drawn inside its own group *)
| ELoadGroup (x y : Q) (c s : Q)    (* the group of a loaded bar, translated to its scaled start point and turned so that its x axis
                                      runs along the bar: (c, s) the cosine and sine of the turn *)
| EPolygon (x0 x1 : Z) (y0 y1 : Z)  (* vertices (x0,0) (x0,y0) (x1,y1) (x1,0) in the bar's local frame *)
| EEnd.

(* ---- units scale: the median bar length decides ---- *)
Fixpoint insert_q (x : Q) (l : list Q) : list Q :=
  match l with [] => [x] | y :: r => if Qle_bool x y then x :: l else y :: insert_q x r end.
Definition sort_q (l : list Q) : list Q := fold_right insert_q [] l.
Definition median (l : list Q) : Q :=
  let s := sort_q l in let n := List.length s in
  if Nat.even n then (nth (n / 2 - 1) s 0 + nth (n / 2) s 0) / 2 else nth (n / 2) s 0.
Definition units_scale (bars : list pbar_in) : Q :=
  let m := median (map pb_len bars) in
  if negb (Qle_bool c_plot_thr_xsmall m) then c_plot_scale_xsmall
  else if negb (Qle_bool c_plot_thr_small m) then c_plot_scale_small
  else if negb (Qle_bool c_plot_thr_medium m) then c_plot_scale_medium
  else 1.

(* ---- canvas: bounding box of the nodes, scaled, plus the margins ---- *)
Definition qmin (l : list Q) : Q := fold_right (fun x acc => if Qle_bool x acc then x else acc) (hd 0 l) l.
Definition qmax (l : list Q) : Q := fold_right (fun x acc => if Qle_bool acc x then x else acc) (hd 0 l) l.
Definition canvas_size (p : plot_in) : Z * Z :=
  let u := units_scale (pl_bars p) in
  let xs := map pi_x (pl_nodes p) in let ys := map pi_y (pl_nodes p) in
  let w := (qmax xs - qmin xs) * (pl_scale p * u) + inject_Z (2 * pl_margin p) in
  let h := (qmax ys - qmin ys) * (pl_scale p * u) + inject_Z (2 * pl_margin p) in
  (trunc w, trunc h).

(* ---- loads ---- *)
Definition load_polygon (u : Q) (dscale : Q) (b : pbar_in) (l : pdload) : list event :=
  if pd_local l then
    let x0 := trunc (u * (pb_len b * pd_t0 l)) in
    let x1 := trunc (u * (pb_len b * pd_t1 l)) in
    match pd_term l with
    | FY => [EPolygon x0 x1 (trunc (- pd_v0 l * dscale)) (trunc (- pd_v1 l * dscale))]
    | _ => [EPolygon x0 x1 (trunc (pd_v0 l * dscale)) (trunc (pd_v1 l * dscale))]
    end
  else [].
Definition bar_loads (u dscale : Q) (b : pbar_in) : list event :=
  if pb_has_loads b then
    [ELoadGroup (pb_x1 b * u) (pb_y1 b * u) ((pb_x2 b - pb_x1 b) / pb_len b) ((pb_y2 b - pb_y1 b) / pb_len b); EOpen "dloads"] ++ flat_map (load_polygon u dscale b) (pb_dloads b) ++ [EClose "dloads"; EClose "bar-loads"]
  else [].

(* ---- supports of a known kind ---- *)
Definition support_kind (c : link) : nat :=
  match lk_dx c, lk_dy c, lk_rz c with
  | true, true, true => 1
  | true, true, false => 2
  | false, true, false => 3
  | _, _, _ => 0
  end.
Definition is_constrained_l (c : link) : bool := lk_dx c || lk_dy c || lk_rz c.
Definition support_events (u : Q) (n : pnode_in) : list event :=
  if is_constrained_l (pi_c n) then
    [EOpen "support"] ++
    (match support_kind (pi_c n) with 0%nat => [] | k => [ESupport k (trunc (pi_x n * u)) (trunc (pi_y n * u))] end) ++
    [EClose "support"]
  else [].

Definition plot_events (p : plot_in) : list event :=
  let u := units_scale (pl_bars p) in
  let '(w, h) := canvas_size p in
  [EStart w h; EOpen "defs"; EOpen "pattern"; EClose "pattern"; EOpen "marker"; EClose "marker"; EClose "defs"; EOpen "main"] ++
  flat_map (bar_loads u (pl_dscale p)) (pl_bars p) ++
  [EOpen "geometry"] ++
  map (fun b => EBarLine (pb_id b) (trunc (pb_x1 b * u)) (trunc (pb_y1 b * u)) (trunc (pb_x2 b * u)) (trunc (pb_y2 b * u))) (pl_bars p) ++
  map (fun n => ENodeCircle (pi_id n) (trunc (pi_x n * u)) (trunc (pi_y n * u))) (pl_nodes p) ++
  [EClose "geometry"; EOpen "constraints"] ++
  flat_map (support_events u) (pl_nodes p) ++
  [EClose "constraints"; EClose "main"; EEnd].

(* nesting depth after a prefix of events; None when a close has no matching open *)
Fixpoint depth_after (d : nat) (evs : list event) : option nat :=
  match evs with
  | [] => Some d
  | EOpen _ :: r => depth_after (S d) r
  | ELoadGroup _ _ _ _ :: r => depth_after (S d) r
  | EClose _ :: r => match d with 0%nat => None | S d' => depth_after d' r end
  | _ :: r => depth_after d r
  end.
