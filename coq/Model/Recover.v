(* What solve does with the solver's answer (process/element_solution.go, pointvalue.go,
   solution.go): displacements copied per slice node (global and local), slice-wise recovery
   of axial stress, shear force, bending moment and top-fibre stress with the merging of
   equal consecutive values, bar-end torsors and support reactions.  The arithmetic of the
   recovery and of the end torsors comes from Gen/GenRecover.v (regenerated from the source);
   the loops are hand-written and tied to the code by correspondence stage F. *)
From Coq Require Import ZArith QArith List Bool Arith.
From Inkfem Require Import Num.NumOps Gen.GenRecover Model.Types Model.Slice Model.Dof Model.Assemble.
Import ListNotations.
Local Open Scope num_scope.

Section Recover.
Context {F : Type} {O : NumOps F} {C : NumCmp F}.

Definition uget (u : list F) (i : nat) : F := nth i u n0.

(* setDisplacements: (global dx dy rz, local dx dy rz) of a slice node *)
Definition node_global (u : list F) (d : dof3) : tor F :=
  (uget u (fst (fst d)), uget u (snd (fst d)), uget u (snd d)).
Definition node_local (b : bar F) (u : list F) (d : dof3) : tor F :=
  to_local (b_c b) (b_s b) (node_global u d).

(* one (t, value) entry of a result series *)
Definition psv : Type := (F * F)%type.

(* PointSolutionValue.Equals with epsilon: same t (1e-10) and |difference of values| < eps *)
Definition same_psv (eps : F) (a b : psv) : bool :=
  teq (fst a) (fst b) && nltb (nabs (snd a - snd b)) eps.
(* appendIfNotSameAsLast, on a series kept in reverse order *)
Definition push_if_new (eps : F) (acc : list psv) (x : psv) : list psv :=
  match acc with
  | [] => [x]
  | l :: _ => if same_psv eps l x then acc else x :: acc
  end.

(* the four values recover_gen returns at one end *)
Definition q4 : Type := (F * F * F * F)%type.
Definition q_ax (q : q4) : F := fst (fst (fst q)).
Definition q_sh (q : q4) : F := snd (fst (fst q)).
Definition q_bm (q : q4) : F := snd (fst q).
Definition q_tf (q : q4) : F := snd q.

(* recovery on the finite element between two consecutive slice nodes *)
Definition slice_recover (b : bar F) (u : list F) (na nb : pnode F) (da db : dof3) : q4 * q4 :=
  let la := node_local b u da in
  let lb := node_local b u db in
  let len := b_L b * (pn_t nb - pn_t na) in
  recover_gen (b_E b) (b_I b) (b_S b) (b_A b) len
    (t_fx la) (t_fy la) (t_mz la) (t_fx lb) (t_fy lb) (t_mz lb)
    (t_fx (pn_left na)) (t_fy (pn_left na)) (t_mz (pn_left na))
    (t_fx (pn_right nb)) (t_fy (pn_right nb)) (t_mz (pn_right nb)).

(* the four series (axial, shear, bending, top fibre), each in reverse order *)
Record series4 := { s_ax : list psv; s_sh : list psv; s_bm : list psv; s_tf : list psv }.
Definition series0 : series4 := {| s_ax := []; s_sh := []; s_bm := []; s_tf := [] |}.

Definition add_slice (eps : F) (acc : series4) (ta tb : F) (r : q4 * q4) : series4 :=
  let a := fst r in let l := snd r in
  {| s_ax := (tb, q_ax l) :: push_if_new eps (s_ax acc) (ta, q_ax a);
     s_sh := (tb, q_sh l) :: push_if_new eps (s_sh acc) (ta, q_sh a);
     s_bm := (tb, q_bm l) :: push_if_new eps (s_bm acc) (ta, q_bm a);
     s_tf := (tb, q_tf l) :: push_if_new eps (s_tf acc) (ta, q_tf a) |}.

Fixpoint stresses_from (eps : F) (b : bar F) (u : list F) (acc : series4)
         (na : pnode F) (da : dof3) (rest : list (pnode F * dof3)) : series4 :=
  match rest with
  | [] => acc
  | (nb, db) :: rest' =>
    stresses_from eps b u (add_slice eps acc (pn_t na) (pn_t nb) (slice_recover b u na nb da db)) nb db rest'
  end.

(* computeStresses; the result lists are in listing order *)
Definition compute_stresses (eps : F) (p : pbar F) (u : list F) : series4 :=
  match combine (pb_nodes p) (pb_dofs p) with
  | [] => series0
  | (na, da) :: rest =>
    let r := stresses_from eps (pb_bar p) u series0 na da rest in
    {| s_ax := rev (s_ax r); s_sh := rev (s_sh r); s_bm := rev (s_bm r); s_tf := rev (s_tf r) |}
  end.

(* the six displacement series *)
Definition displ_global (p : pbar F) (u : list F) : list (F * tor F) :=
  map (fun nd => (pn_t (fst nd), node_global u (snd nd))) (combine (pb_nodes p) (pb_dofs p)).
Definition displ_local (p : pbar F) (u : list F) : list (F * tor F) :=
  map (fun nd => (pn_t (fst nd), node_local (pb_bar p) u (snd nd))) (combine (pb_nodes p) (pb_dofs p)).

(* GlobalStartTorsor / GlobalEndTorsor from the first / last listed values *)
Definition first_val (l : list psv) : F := match l with [] => n0 | x :: _ => snd x end.
Definition last_val (l : list psv) : F := first_val (rev l).
Definition start_torsor (p : pbar F) (s : series4) : tor F :=
  to_global (b_c (pb_bar p)) (b_s (pb_bar p))
    (start_torsor_gen (b_A (pb_bar p)) (first_val (s_ax s)) (first_val (s_sh s)) (first_val (s_bm s))).
Definition end_torsor (p : pbar F) (s : series4) : tor F :=
  to_global (b_c (pb_bar p)) (b_s (pb_bar p))
    (end_torsor_gen (b_A (pb_bar p)) (last_val (s_ax s)) (last_val (s_sh s)) (last_val (s_bm s))).

(* globalExternalLoadAt: net - left - right of the node, in global axes *)
Definition ext_global (b : bar F) (n : pnode F) : tor F :=
  to_global (b_c b) (b_s b) (tor_sub (tor_sub (pn_net n) (pn_left n)) (pn_right n)).

Definition first_node (p : pbar F) : pnode F :=
  hd {| pn_t := n0; pn_x := n0; pn_y := n0; pn_ext := tor0; pn_left := tor0; pn_right := tor0 |} (pb_nodes p).
Definition last_node (p : pbar F) : pnode F :=
  last (pb_nodes p) {| pn_t := n0; pn_x := n0; pn_y := n0; pn_ext := tor0; pn_left := tor0; pn_right := tor0 |}.

(* reactionInNode: over the bars in solution order; a bar contributes through its start node,
   else through its end node *)
Definition reaction_at (eps : F) (bars : list (pbar F)) (u : list F) (node : nat) : tor F :=
  fold_left (fun acc p =>
      let s := compute_stresses eps p u in
      if Nat.eqb (b_n1 (pb_bar p)) node then
        tor_sub (tor_add acc (start_torsor p s)) (ext_global (pb_bar p) (first_node p))
      else if Nat.eqb (b_n2 (pb_bar p)) node then
        tor_sub (tor_add acc (end_torsor p s)) (ext_global (pb_bar p) (last_node p))
      else acc)
    bars tor0.

(* ---- the decision solve takes about the solver's answer (ensureSolutionIsGoodEnough) ----
   The answer is given as a list of optional numbers: None stands for a value that is not a
   finite number (NaN, +Inf, -Inf).  K and f are the system handed to the solver. *)
Definition all_finite (o : list (option F)) : bool := forallb (fun x => match x with Some _ => true | None => false end) o.
Definition strip (o : list (option F)) : list F := map (fun x => match x with Some v => v | None => n0 end) o.

(* residual of equation i for a matrix given by its stored entries *)
Definition row_dot (K : list (nat * nat * F)) (u : list F) (i : nat) : F :=
  fold_left (fun acc e => if Nat.eqb (fst (fst e)) i then acc + snd e * uget u (snd (fst e)) else acc) K n0.
Definition residual (K : list (nat * nat * F)) (f u : list F) (i : nat) : F := uget f i - row_dot K u i.

Definition accept (eps : F) (K : list (nat * nat * F)) (f : list F) (o : list (option F)) : option (list F) :=
  if all_finite o && Nat.eqb (length o) (length f)
     && forallb (fun i => nleb (nabs (residual K f (strip o) i)) eps) (seq 0 (length f))
  then Some (strip o) else None.

End Recover.

(* Solution.NodeReactions: one entry per externally constrained structural node, and for no
   other node.  nodes: (index, external constraint). *)
Section Reactions.
Context {F : Type} {O : NumOps F} {C : NumCmp F}.
Definition is_constrained (l : link) : bool := lk_dx l || lk_dy l || lk_rz l.
Definition node_reactions (eps : F) (bars : list (pbar F)) (u : list F) (nodes : list (nat * link))
  : list (nat * tor F) :=
  map (fun n => (fst n, reaction_at eps bars u (fst n))) (filter (fun n => is_constrained (snd n)) nodes).
End Reactions.
