(* The output side: the three files inkfem writes (.inkfem, .inkfempre, .inkfemsol) are produced
   by text/template from io/*/…template.txt.  This file models the fragment of text/template those
   templates use - literal text, printing a field (or a variable, or a field of a variable),
   range over a list (or a map in key order) with 0, 1 or 2 variables, if / else - as an
   interpreter over the parse tree, which Gen/GenTemplates.v holds as regenerated from the
   template files on every run.  Numbers arrive already printed: how Go formats a float (%v, %f) is
   outside the model (the harness hands over the strings Go itself printed), the STRUCTURE of the
   document is inside. *)
From Coq Require Import String Ascii List Bool.
Import ListNotations.
Local Open Scope string_scope.

Definition nl : string := String "010"%char "".

Inductive tnode : Type :=
| TText (s : string)
| TField (var path : string)                               (* {{.A.B}}, {{$v}}, {{$v.A.B}} *)
| TRange (kvar evar var path : string) (body : list tnode) (* {{range [$k,] [$e :=] src}} body {{end}} *)
| TIf (var path : string) (yes no : list tnode).

(* What a template sees of the data: for the current value ("dot"), the printed form of every
   field path the template prints, the elements of every path it ranges over (each with its
   printed key - empty for lists), and the truth value of every path it tests. *)
Inductive ctxt : Type :=
| Ctx (leaves : list (string * string)) (lists : list (string * list (string * ctxt))) (bools : list (string * bool)).

Definition c_leaves (c : ctxt) := match c with Ctx l _ _ => l end.
Definition c_lists (c : ctxt) := match c with Ctx _ l _ => l end.
Definition c_bools (c : ctxt) := match c with Ctx _ _ b => b end.

Fixpoint assoc_s {A} (k : string) (l : list (string * A)) : option A :=
  match l with
  | [] => None
  | (k', v) :: r => if String.eqb k k' then Some v else assoc_s k r
  end.

(* a variable holds either the printed key of a range or an element *)
Inductive binding := BKey (s : string) | BCtx (c : ctxt).
Definition env : Type := list (string * binding).

(* the value a (variable, path) pair refers to: the context to look the path up in *)
Definition source (dot : ctxt) (e : env) (var : string) : option ctxt :=
  if String.eqb var "" then Some dot
  else match assoc_s var e with Some (BCtx c) => Some c | _ => None end.

Definition print_field (dot : ctxt) (e : env) (var path : string) : string :=
  match (if String.eqb var "" then None else assoc_s var e) with
  | Some (BKey k) => k
  | _ => match source dot e var with
         | Some c => match assoc_s path (c_leaves c) with Some s => s | None => "<no value>" end
         | None => "<no value>"
         end
  end.

Definition bind (name : string) (b : binding) (e : env) : env :=
  if String.eqb name "" then e else (name, b) :: e.

Fixpoint render_node (n : tnode) (dot : ctxt) (e : env) {struct n} : string :=
  match n with
  | TText s => s
  | TField var path => print_field dot e var path
  | TRange kvar evar var path body =>
    match source dot e var with
    | Some c =>
      match assoc_s path (c_lists c) with
      | Some items =>
        String.concat "" (map (fun it =>
            let e' := bind evar (BCtx (snd it)) (bind kvar (BKey (fst it)) e) in
            (fix render_list (l : list tnode) : string :=
               match l with
               | [] => ""
               | x :: r => render_node x (snd it) e' ++ render_list r
               end) body) items)
      | None => ""
      end
    | None => ""
    end
  | TIf var path yes no =>
    let branch := match source dot e var with
                  | Some c => match assoc_s path (c_bools c) with Some true => yes | _ => no end
                  | None => no
                  end in
    (fix render_list (l : list tnode) : string :=
       match l with
       | [] => ""
       | x :: r => render_node x dot e ++ render_list r
       end) branch
  end.

Fixpoint render_list (l : list tnode) (dot : ctxt) (e : env) : string :=
  match l with
  | [] => ""
  | x :: r => render_node x dot e ++ render_list r dot e
  end.

(* Template.Execute *)
Definition render (t : list tnode) (data : ctxt) : string := render_list t data [].
