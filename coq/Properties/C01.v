(* C01 — Reported displacements are the exact linear-elastic frame response.
   Statements only; proofs live in Proofs/FieldProofs.v (with Proofs/BeamProofs.v and
   Proofs/RecoverProofs.v).  Exactness certificate: the displacements solve reports at the
   slice nodes determine, element by element, a polynomial field (Spec/Beam.v); the theorems
   say that this field satisfies the Euler-Bernoulli differential equations for the user's
   linear loads on every element, takes the reported values at every listed position, is
   continuous in u, v, v' across slice nodes and has section forces that jump by exactly the
   concentrated load at every node in equilibrium - i.e. it is the exact solution of the bar,
   not an approximation - and that the displacement error of an approximate solver answer is
   bounded by the requested error times the conditioning of the system.
   lump_gen and recover_gen are regenerated from the Go source on every run. *)
From Coq Require Import ZArith QArith Qabs List Bool Arith Lia.
From Inkfem Require Import Num.NumOps Gen.GenStiffness Gen.GenLoads Gen.GenRecover Spec.Stiffness Spec.Beam Spec.Superposition
  Model.Types Model.Slice Model.Dof Model.Assemble Model.Recover Proofs.RecoverProofs Proofs.FieldProofs Proofs.SystemProofs Gen.GenAssemble Proofs.AssembleShape Gen.GenPcg Gen.GenSolver Proofs.PcgProofs Proofs.PcgExact.
Import ListNotations.
Local Open Scope Q_scope.

Theorem C01_element_field_exact : forall b u na nb da db p1 q1 p2 q2 x,
  good_bar b -> ~ slice_len b na nb == 0 ->
  let f := field_of b u na nb da db p1 q1 p2 q2 in
  let len := slice_len b na nb in
  let la := node_local b u da in let lb := node_local b u db in
  (b_E b * b_A b) * peval (pderiv (pderiv (fst f))) x == - lin p1 p2 len x /\
  (b_E b * b_I b) * peval (pderiv (pderiv (pderiv (pderiv (snd f))))) x == lin q1 q2 len x /\
  peval (fst f) 0 == t_fx la /\ peval (fst f) len == t_fx lb /\
  peval (snd f) 0 == t_fy la /\ peval (pderiv (snd f)) 0 == t_mz la /\
  peval (snd f) len == t_fy lb /\ peval (pderiv (snd f)) len == t_mz lb.
Proof. exact field_exact. Qed.
Print Assumptions C01_element_field_exact.

Theorem C01_field_forces_are_recovered : forall b u na nb da db p1 q1 p2 q2,
  good_bar b -> ~ slice_len b na nb == 0 ->
  lumped na nb (slice_len b na nb) p1 q1 0 p2 q2 0 ->
  let f := field_of b u na nb da db p1 q1 p2 q2 in
  let len := slice_len b na nb in
  let r := slice_recover b u na nb da db in
  nvm_eq (nvm b (fst r)) (N_of (b_E b * b_A b) (fst f) 0, V_of (b_E b * b_I b) (snd f) 0, M_of (b_E b * b_I b) (snd f) 0) /\
  nvm_eq (nvm b (snd r)) (N_of (b_E b * b_A b) (fst f) len, V_of (b_E b * b_I b) (snd f) len, M_of (b_E b * b_I b) (snd f) len).
Proof. exact field_forces_are_recovered. Qed.
Print Assumptions C01_field_forces_are_recovered.

Theorem C01_field_across_node : forall b u n0 n1 n2 d0 d1 d2 p1 q1 p2 q2 p1' q1' p2' q2',
  good_bar b -> ~ slice_len b n0 n1 == 0 -> ~ slice_len b n1 n2 == 0 ->
  lumped n0 n1 (slice_len b n0 n1) p1 q1 0 p2 q2 0 ->
  lumped n1 n2 (slice_len b n1 n2) p1' q1' 0 p2' q2' 0 ->
  node_equilibrium b u n0 n1 n2 d0 d1 d2 ->
  let f := field_of b u n0 n1 d0 d1 p1 q1 p2 q2 in
  let g := field_of b u n1 n2 d1 d2 p1' q1' p2' q2' in
  let l := slice_len b n0 n1 in
  let EA := b_E b * b_A b in let EI := b_E b * b_I b in
  peval (fst g) 0 == peval (fst f) l /\
  peval (snd g) 0 == peval (snd f) l /\
  peval (pderiv (snd g)) 0 == peval (pderiv (snd f)) l /\
  N_of EA (fst g) 0 == N_of EA (fst f) l - t_fx (pn_ext n1) /\
  V_of EI (snd g) 0 == V_of EI (snd f) l + t_fy (pn_ext n1) /\
  M_of EI (snd g) 0 == M_of EI (snd f) l - t_mz (pn_ext n1).
Proof. exact field_across_node. Qed.
Print Assumptions C01_field_across_node.

(* the hypothesis node_equilibrium of C01_field_across_node is not an assumption about the structure:
   it is what the interior rows of the system say.  Whatever u solves the system the model hands to
   the solver, every interior slice node of every bar is in equilibrium (hypotheses computed, and
   evaluated on the implementation's own sliced structures by correspondence stage D) - so the
   element fields of a solved structure join into one C1 field per bar whose section forces jump
   by exactly the concentrated loads *)
Theorem C01_solved_structure_has_equilibrated_interior_nodes : forall n sup u bars,
  nums_below_b n bars = true -> interior_private_b n sup bars = true -> forallb slices_sound_b bars = true ->
  solves n bars sup u ->
  forall B1 p B2, bars = B1 ++ p :: B2 -> interior_ok (pb_bar p) u (pbar_nds p).
Proof. exact system_gives_interior_equilibrium_b. Qed.
Print Assumptions C01_solved_structure_has_equilibrated_interior_nodes.

(* bars that share a joint degree of freedom report the same joint movement (with C16: same
   physical unknown <-> same number) *)
Theorem C01_shared_number_same_movement : forall (u : list Q) (d1 d2 : dof3),
  (fst (fst d1) = fst (fst d2) -> t_fx (node_global u d1) = t_fx (node_global u d2)) /\
  (snd (fst d1) = snd (fst d2) -> t_fy (node_global u d1) = t_fy (node_global u d2)) /\
  (snd d1 = snd d2 -> t_mz (node_global u d1) = t_mz (node_global u d2)).
Proof. exact same_number_same_movement. Qed.
Print Assumptions C01_shared_number_same_movement.

(* the tolerance derived from the requested solver error and the conditioning *)
Theorem C01_error_bound : forall n Kinv K f u ustar eps,
  left_inverse n Kinv K ->
  (forall i, (i < n)%nat -> mat_vec n K ustar i == f i) ->
  (forall i, (i < n)%nat -> Qabs (f i - mat_vec n K u i) <= eps) ->
  forall i, (i < n)%nat -> Qabs (u i - ustar i) <= eps * fsum n (fun k => Qabs (Kinv i k)).
Proof. exact error_bound. Qed.
Print Assumptions C01_error_bound.

(* uniqueness: two exact solutions of a system with a left inverse coincide *)
Theorem C01_unique : forall n Kinv K f u1 u2,
  left_inverse n Kinv K ->
  (forall i, (i < n)%nat -> mat_vec n K u1 i == f i) ->
  (forall i, (i < n)%nat -> mat_vec n K u2 i == f i) ->
  forall i, (i < n)%nat -> u1 i == u2 i.
Proof. exact unique_solution. Qed.
Print Assumptions C01_unique.

(* Non-vacuity: the inverse of [[2,-1],[-1,2]] is a left inverse *)
Example C01_left_inverse_exists :
  let K := fun i j => match i, j with 0%nat, 0%nat => 2 | 0%nat, 1%nat => -1 | 1%nat, 0%nat => -1 | 1%nat, 1%nat => 2 | _, _ => 0 end in
  let Kinv := fun i j => match i, j with 0%nat, 0%nat => 2 # 3 | 0%nat, 1%nat => 1 # 3 | 1%nat, 0%nat => 1 # 3 | 1%nat, 1%nat => 2 # 3 | _, _ => 0 end in
  left_inverse 2 Kinv K.
Proof.
  intros K Kinv i j Hi Hj.
  assert (Hi' : (i = 0 \/ i = 1)%nat) by lia.
  assert (Hj' : (j = 0 \/ j = 1)%nat) by lia.
  destruct Hi' as [-> | ->]; destruct Hj' as [-> | ->]; unfold fsum, K, Kinv; cbn; reflexivity.
Qed.

(* the system whose solution is reported is put together as preprocess/element.go writes it (Gen/GenAssemble.v,
   regenerated on every run: it also checks on the syntax tree that the bars are taken one after the other by plain
   loops, nothing started concurrently): each finite element at the six numbers listed there, each node's net load at
   the three entries listed there *)
Theorem C01_system_is_put_together_as_the_source_writes_it : forall (b : bar Q) na nb da db (nd : pnode Q) (d : dof3) i j,
  kraw_at (slice_contribs b na nb da db) i j ==
    placed (stiff_gen (b_L b) (b_c b) (b_s b) (pn_t na) (pn_t nb) (b_E b) (b_A b) (b_I b)) (asm_slice_numbers da db) i j /\
  (let g := to_global (b_c b) (b_s b) (pn_net nd) in
   fraw_at (node_fterms b (nd, d)) i == fraw_at (asm_load_terms d (t_fx g) (t_fy g) (t_mz g)) i) /\
  asm_bars_one_after_the_other = true.
Proof. intros; split; [apply slice_placed_as_written | split; [apply node_load_as_written | apply steps_as_written]]. Qed.
Print Assumptions C01_system_is_put_together_as_the_source_writes_it.

(* from the solver's own stopping test to the exact response (model of its loop in Gen/GenPcg.v, the tolerance it is handed in
   Gen/GenSolver.v, both regenerated): when the loop leaves because every entry of its r is within error / 2, the answer it returns
   is within  error x sum_k |K^-1 i k|  of the exact solution of the system, entry by entry - the tolerance of C01_error_bound, now
   reached from what the solver itself tests *)
Theorem C01_what_the_solver_finds_good_enough_is_near_the_exact_response :
  forall (n : nat) (Kinv K : nat -> nat -> Q) (f ustar : nat -> Q) (e : Q) (k : nat),
  left_inverse n Kinv K ->
  (forall i, (i < n)%nat -> mat_vec n K ustar i == f i) ->
  0 <= e ->
  (forall i, (i < n)%nat -> Qabs (pcg_r (pcg_iter n K k (pcg_init n K f)) i) <= solver_tolerance (O:=QOps) e) ->
  forall i, (i < n)%nat -> Qabs (pcg_answer n K f k i - ustar i) <= e * fsum n (fun j => Qabs (Kinv i j)).
Proof. exact good_enough_for_the_solver_is_near_the_exact_response. Qed.
Print Assumptions C01_what_the_solver_finds_good_enough_is_near_the_exact_response.
