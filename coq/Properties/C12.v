(* C12 — A written .inkfempre file can be read back and solves to the same result.
   Statements only; proofs live in Proofs/ReadPreProofs.v.  The model of the reader of
   preprocessed files (Model/ReadPre.v over the regular expressions regenerated from io/pre and
   io/def) is tied to the implementation by stage P: on every run it reads, inside Coq, the
   .inkfempre text the implementation wrote, and every value (bars, slice nodes, positions,
   external / left / right loads, equation numbers, count, own-weight flag) is compared with
   the implementation's own sliced structure.  That the implementation's reader accepts what
   its writer wrote and that solving from the file equals solving directly is decided on the
   implementation by the round-trip and history oracles of the check. *)
From Coq Require Import ZArith QArith Qabs NArith Arith List String Ascii Bool.
From Inkfem Require Import Model.Types Model.Regex Gen.GenRegex Model.Read Model.ReadPre Proofs.ReadPreProofs
  Model.Template Gen.GenTemplates Proofs.TemplateProofs Num.NumOps Model.Assemble Proofs.SystemProofs Proofs.RecordedSystem.
Import ListNotations.
Local Open Scope string_scope.
Local Close Scope Q_scope.

(* an accepted file: version, equation count and own-weight flag are those written in it (they
   are taken from the file, not recomputed); every bar block holds exactly the announced
   number of slice nodes, six lines each, and every slice node passed the net-load check *)
Theorem C12_accepted_file : forall lines s, read_pre_lines lines = POk s ->
  Forall bar_block_ok (ps_bars s) /\
  exists v d w rest cd cw, lines = v :: d :: w :: rest /\ parse_version v = Ok (ps_major s, ps_minor s) /\
    rsearch re_pre_dofRegex d = Some cd /\ parse_nat (group d cd 1) = Some (ps_dofs s) /\
    rsearch re_pre_ownWeightRegex w = Some cw /\ ps_weight s = String.eqb (group w cw 1) "yes".
Proof. exact read_pre_ok. Qed.
Print Assumptions C12_accepted_file.

Theorem C12_bar_block : forall fuel count lines ns rest,
  take_nodes fuel count lines = POk (ns, rest) ->
  List.length ns = count /\ List.length lines = 6 * count + List.length rest /\ Forall (fun n => checksum_ok n = true) ns.
Proof. exact take_nodes_spec. Qed.
Print Assumptions C12_bar_block.

(* the reader's checksum accepts every node whose printed net load is the sum of the three
   printed loads: a writer that prints numbers which read back to themselves is never rejected *)
Theorem C12_checksum_accepts_exact_sums : forall (n : prnode),
  (t_fx (pr_net n) == t_fx (pr_ext n) + t_fx (pr_left n) + t_fx (pr_right n))%Q ->
  (t_fy (pr_net n) == t_fy (pr_ext n) + t_fy (pr_left n) + t_fy (pr_right n))%Q ->
  (t_mz (pr_net n) == t_mz (pr_ext n) + t_mz (pr_left n) + t_mz (pr_right n))%Q ->
  checksum_ok n = true.
Proof. exact checksum_exact_sum. Qed.
Print Assumptions C12_checksum_accepts_exact_sums.

(* the writer: io/pre/preprocess.template.txt (regenerated parse tree, model of text/template tied to Go's
   output by stage G) renders, for EVERY sliced structure, exactly the documented layout: version,
   dof_count, includes_own_weight yes / no, |nodes| with constraint and equation numbers, |materials|,
   |sections|, |bars| with ">> count" and the printed block of every slice node *)
Theorem C12_preprocessed_file_is_the_documented_layout : forall d : pre_doc,
  render tmpl_preprocess (pre_ctx d) = spec_preprocess d.
Proof. exact preprocess_template_renders_the_documented_layout. Qed.
Print Assumptions C12_preprocessed_file_is_the_documented_layout.

(* "solves to the same result": the system of equations is a function of what the file records - per bar its length,
   direction, material and section values, per slice node its position, its three loads and its equation numbers.  Two
   sliced structures that agree on those (the one solve slices itself and the one read back from the file: stage P
   compares exactly these values on every run) get the same matrix, the same load vector and the same solutions,
   whatever else differs (names, the user's loads, coordinates, end links) *)
Theorem C12_what_the_file_records_determines_the_system_and_its_solutions :
  forall (n : nat) (bars bars' : list (pbar Q)) (sup : list nat) (u : list Q),
  Forall2 recorded_alike bars bars' ->
  (forall i j, k_final (all_contribs bars') sup i j = k_final (all_contribs bars) sup i j) /\
  (forall i, (f_final (all_fterms bars') sup i == f_final (all_fterms bars) sup i)%Q) /\
  (solves n bars sup u <-> solves n bars' sup u).
Proof. exact recorded_values_determine_the_system. Qed.
Print Assumptions C12_what_the_file_records_determines_the_system_and_its_solutions.

(* Non-vacuity: a sliced bar and another that differs in what the file does not use (coordinates, the user's loads, links) *)
Example C12_recorded_alike_relates_different_bars :
  let b := {| b_n1 := 0; b_n2 := 1; b_l1 := rigid; b_l2 := rigid; b_x1 := 0; b_y1 := 0; b_x2 := 3; b_y2 := 4;
              b_L := 5; b_c := 3 # 5; b_s := 4 # 5; b_E := 1; b_A := 1; b_I := 1; b_S := 1; b_rho := 0;
              b_cl := []; b_dl := [] |}%Q in
  let b' := {| b_n1 := 7; b_n2 := 9; b_l1 := rigid; b_l2 := rigid; b_x1 := 100; b_y1 := -20; b_x2 := 103; b_y2 := -16;
              b_L := 5; b_c := 3 # 5; b_s := 4 # 5; b_E := 1; b_A := 1; b_I := 1; b_S := 2; b_rho := 3;
              b_cl := [ {| cl_term := FY; cl_local := true; cl_t := 1 # 2; cl_v := -100 |} ]; b_dl := [] |}%Q in
  let nd t x (f : Q) := {| pn_t := t; pn_x := x; pn_y := 0; pn_ext := (0, f, 0); pn_left := (0, 0, 0); pn_right := (0, 0, 0) |}%Q in
  recorded_alike {| pb_bar := b; pb_nodes := [nd 0 0 (1 # 2); nd 1 5 (-3)]%Q; pb_dofs := [(0, 1, 2)%nat; (3, 4, 5)%nat] |}
                 {| pb_bar := b'; pb_nodes := [nd 0 100 (2 # 4); nd 1 103 (-6 # 2)]%Q; pb_dofs := [(0, 1, 2)%nat; (3, 4, 5)%nat] |}.
Proof.
  constructor; try reflexivity. cbn [pb_nodes].
  repeat constructor; cbn; reflexivity.
Qed.

(* a small preprocessed file, read inside Coq *)
Example C12_reads_a_preprocessed_file :
  let nl := String "010"%char "" in
  match read_pre ("inkfem v1.1" ++ nl ++ "dof_count: 6" ++ nl ++ "includes_own_weight: no" ++ nl ++
                  "|nodes|" ++ nl ++ "a -> 0 0 { dx dy rz } | [0 1 2]" ++ nl ++ "b -> 100 0 { } | [3 4 5]" ++ nl ++
                  "|materials|" ++ nl ++ "'m' -> 1 2 3 4 5 6" ++ nl ++ "|sections|" ++ nl ++ "'s' -> 1 2 3 4 5" ++ nl ++
                  "|bars|" ++ nl ++ "1 -> a { dx dy rz } b { dx dy rz } 'm' 's' >> 2" ++ nl ++
                  "0.00000000000000000 : 0 0" ++ nl ++ "ext   : {0 -1.5 0}" ++ nl ++ "left  : {0 -2 0.25}" ++ nl ++ "right : {0 0 0}" ++ nl ++
                  "net   : {0 -3.5 0.25}" ++ nl ++ "dof   : [0 1 2]" ++ nl ++
                  "1.00000000000000000 : 100 0" ++ nl ++ "ext   : {0 0 0}" ++ nl ++ "left  : {0 0 0}" ++ nl ++ "right : {0 -2 -0.25}" ++ nl ++
                  "net   : {0 -2 -0.25}" ++ nl ++ "dof   : [3 4 5]" ++ nl) with
  | POk s => ps_dofs s = 6%nat /\ ps_weight s = false /\
             match ps_bars s with [b] => List.length (pb_pnodes b) = 2%nat | _ => False end
  | PErr _ => False
  end.
Proof. vm_compute. repeat split. Qed.
