(* C10 — Definition files are parsed faithfully and survive a write/read round trip.
   Statements only; proofs live in Proofs/ReadProofs.v.  The reader model (Model/Read.v) runs
   the regular expressions of Gen/GenRegex.v, regenerated from the expressions the Go readers
   compile on every run, and is tied to io/def by correspondence stage A: on every run it
   reads, inside Coq, the same texts as the implementation (many layouts of many structures,
   shipped examples, single-fault corruptions) and every field, or the class of the error, is
   compared.  The write side (text/template + %v formatting) is exercised through the
   implementation's own write -> read round trip; see DESIGN.md for what is assumed of
   strconv and fmt. *)
From Coq Require Import ZArith QArith NArith Arith List String Ascii Bool.
From Inkfem Require Import Model.Types Model.Regex Gen.GenRegex Model.Read Proofs.ReadProofs Proofs.NumberProofs
  Model.Template Gen.GenTemplates Proofs.TemplateProofs.
Import ListNotations.
Local Open Scope string_scope.
Local Close Scope Q_scope.

(* an accepted text: the version is what the header says, every content line is a section
   header or defines, by its section's grammar, an entity that is in the result; bars are
   linked with the node / material / section they name; loads belong to defined bars *)
Theorem C10_accepted_text_is_fully_read : forall v rest s, read_lines (v :: rest) = Ok s ->
  parse_version v = Ok (st_major s, st_minor s) /\
  exists st, steps state0 rest = Ok st /\
    Forall (fun p => accounted st (fst p) (snd p)) (sections_along "" rest) /\
    st_nodes s = s_nodes st /\ map lb_bar (st_bars s) = s_bars st /\
    Forall (fun lb => link_bar st (lb_bar lb) = Ok lb) (st_bars s) /\
    (forall l, In l (s_cl st) -> exists b, In b (s_bars st) /\ rb_id b = rc_bar l) /\
    (forall l, In l (s_dl st) -> exists b, In b (s_bars st) /\ rb_id b = rd_bar l).
Proof. exact read_lines_ok. Qed.
Print Assumptions C10_accepted_text_is_fully_read.

(* a linked bar refers to exactly what its line names, and carries exactly the loads written
   for its id, in file order *)
Theorem C10_bar_links : forall st b lb, link_bar st b = Ok lb ->
  lb_bar lb = b /\ rn_id (lb_start lb) = rb_n1 b /\ In (lb_start lb) (s_nodes st) /\
  rn_id (lb_end lb) = rb_n2 b /\ In (lb_end lb) (s_nodes st) /\
  rm_name (lb_material lb) = rb_mat b /\ In (lb_material lb) (s_mats st) /\
  rs_name (lb_section lb) = rb_sec b /\ In (lb_section lb) (s_secs st) /\
  lb_cl lb = map rc_load (filter (fun l => String.eqb (rc_bar l) (rb_id b)) (s_cl st)) /\
  lb_dl lb = map rd_load (filter (fun l => String.eqb (rd_bar l) (rb_id b)) (s_dl st)).
Proof. exact link_bar_ok. Qed.
Print Assumptions C10_bar_links.

(* comments and blank lines anywhere, and white space around a line, change nothing *)
Theorem C10_ignored_lines_invisible : forall (l1 l2 : list string) (x : string),
  should_ignore (trim x) = true ->
  filter (fun l => negb (should_ignore l)) (map trim (l1 ++ x :: l2)) =
  filter (fun l => negb (should_ignore l)) (map trim (l1 ++ l2)).
Proof. exact ignored_lines_invisible. Qed.
Print Assumptions C10_ignored_lines_invisible.

Theorem C10_leading_space_invisible : forall p s, all_space p = true -> ltrim (p ++ s) = ltrim s.
Proof. exact ltrim_pad. Qed.
Print Assumptions C10_leading_space_invisible.

(* the writer: io/def/definition.template.txt (regenerated parse tree, model of text/template tied to Go's
   output by stage G) renders, for EVERY structure, exactly the documented layout: version, |nodes|,
   |materials|, |sections|, |loads| - per bar its concentrated then its distributed loads, each line
   naming the term, l / g and c / d, the BAR'S OWN id, positions and values - and |bars| *)
Theorem C10_definition_file_is_the_documented_layout : forall d : def_doc,
  render tmpl_definition (def_ctx d) = spec_definition d.
Proof. exact definition_template_renders_the_documented_layout. Qed.
Print Assumptions C10_definition_file_is_the_documented_layout.

(* numbers: the decimal grammar, scientific notation included, denotes its exact value *)
Example C10_number_spellings :
  parse_float "1e-3" = NumOk (1 # 1000)%Q /\ parse_float "-0.0025E+3" = NumOk (Qmake (-25) 10)%Q /\
  parse_float "+0012.50" = NumOk (Qmake 1250 100)%Q /\ parse_float "7" = NumOk (inject_Z 7) /\
  parse_float "1e400" = NumOverflow /\ parse_float "1." = NumSyntax /\ parse_float ".5" = NumSyntax /\
  parse_float "1e" = NumSyntax /\ parse_float "2.5e-900" = NumOk 0%Q.
Proof. vm_compute. repeat split. Qed.

(* ... for every numeral, not only for examples.  A numeral is a sign, a non-empty run of integer digits and a run of
   fraction digits (at most 300 digits in all), with or without an exponent part; the number reader of the model returns
   exactly its value:  +-(all digits) / 10^(fraction digits)  and, with the exponent e,  +-(all digits) x 10^(e - fraction
   digits)  (scale10 z k is z x 10^k).  So whatever a writer prints in this grammar is read back as the number it stands
   for, and two spellings of one value are read alike. *)
Theorem C10_every_decimal_numeral_is_read_as_its_value : forall m : numeral, well_formed m ->
  exists q, parse_float (numeral_string m) = NumOk q /\ (q == numeral_value m)%Q.
Proof. exact numeral_is_read_as_its_value. Qed.
Print Assumptions C10_every_decimal_numeral_is_read_as_its_value.

Theorem C10_every_numeral_with_an_exponent_is_read_as_its_value : forall (m : numeral) (e : exponent), well_formed_e m e ->
  exists q, parse_float (numeral_string m ++ exponent_string e) = NumOk q /\ (q == enumeral_value m e)%Q.
Proof. exact numeral_with_exponent_is_read_as_its_value. Qed.
Print Assumptions C10_every_numeral_with_an_exponent_is_read_as_its_value.

Theorem C10_scale10_is_multiplication_by_a_power_of_ten : forall z k : Z, (scale10 z k == inject_Z z * (10 # 1) ^ k)%Q.
Proof. exact scale10_is_a_power. Qed.
Print Assumptions C10_scale10_is_multiplication_by_a_power_of_ten.

Theorem C10_spellings_of_one_value_are_read_alike : forall m m' : numeral, well_formed m -> well_formed m' ->
  (numeral_value m == numeral_value m')%Q ->
  exists q q', parse_float (numeral_string m) = NumOk q /\ parse_float (numeral_string m') = NumOk q' /\ (q == q')%Q.
Proof. exact spellings_of_one_value_are_read_alike. Qed.
Print Assumptions C10_spellings_of_one_value_are_read_alike.

(* the documented grammar on a small file, every kind of line, read inside Coq *)
Example C10_reads_a_definition :
  let nl := String "010"%char "" in
  match read_def ("inkfem v1.1" ++ nl ++ "|nodes|" ++ nl ++ "a -> 0 1.5e1 { dx dy }" ++ nl ++ "# comment" ++ nl ++ "b->2 0 {}" ++ nl ++
                  "|materials|" ++ nl ++ "'s t' -> 1 2 3 4 5 6" ++ nl ++ "|sections|" ++ nl ++ "'i' -> 1 2 3 4 5" ++ nl ++
                  "|loads|" ++ nl ++ "fy ld 1 0 -1 1 -2" ++ nl ++ "|bars|" ++ nl ++ "1 -> a {dx dy rz} b { dx dy } 's t' 'i'" ++ nl) with
  | Ok s => List.length (st_nodes s) = 2%nat /\ List.length (st_bars s) = 1%nat /\
            match st_bars s with [lb] => List.length (lb_dl lb) = 1%nat /\ rn_id (lb_start lb) = "a" /\ lk_rz (rb_l2 (lb_bar lb)) = false | _ => False end
  | Err _ => False
  end.
Proof. vm_compute. repeat split. Qed.
