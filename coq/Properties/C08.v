(* C08 — Results are independent of input ordering, naming, formatting and scheduling.
   Statements only; proofs live in Proofs/SchedProofs.v, Proofs/OrderProofs.v (with
   Proofs/DofProofs.v, Proofs/AssembleProofs.v, Proofs/ReadProofs.v).
   Scheduling: the collection protocol of StructureModel (Model/Sched.v) for every number of
   bars and every interleaving never blocks before all bars have arrived and collects each bar
   exactly once; whatever the arrival order (and whatever the sort afterwards does with ties)
   the equation numbering encodes the same partition of unknowns (C16) and the assembled
   system is the same sum (C17).  The harness imposes every completion order on the
   implementation through the verif gate and compares.  Ordering / formatting of the file:
   comments, blank lines and padding are invisible (C10) and definitions with different keys
   commute; section / line / bar order, renaming and the physical results are compared on the
   implementation. *)
From Coq Require Import Arith List Bool Permutation String.
From Inkfem Require Import Model.Types Model.Dof Model.Sched Model.Regex Model.Read Spec.Unknowns
  Proofs.DofProofs Proofs.SchedProofs Proofs.OrderProofs Gen.GenAssemble Proofs.AssembleShape.
Import ListNotations.

(* no run deadlocks: until every bar has been collected some step is enabled, for every number
   of bars and every interleaving *)
Theorem C08_no_deadlock : forall n s, sreach n (sinit n) s -> sfinal s \/ exists s', sstep n s s'.
Proof. exact no_deadlock. Qed.
Print Assumptions C08_no_deadlock.

(* every step makes progress (2 x pending + in flight decreases): runs are finite *)
Theorem C08_progress : forall cap s s', sstep cap s s' -> measure s' < measure s.
Proof. exact step_decreases. Qed.
Print Assumptions C08_progress.

(* when the collection is over each bar has arrived exactly once *)
Theorem C08_collects_every_bar_once : forall n s, sreach n (sinit n) s -> sfinal s -> Permutation (received s) (seq 0 n).
Proof. exact collects_all. Qed.
Print Assumptions C08_collects_every_bar_once.

(* any completion order of the workers, followed by any reordering (the sort): same partition
   of slice-node components into unknowns as in the order of the definition *)
Theorem C08_any_schedule_same_numbering : forall (bars : list skel) (s : sstate) (order : list nat),
  Forall wf_skel bars ->
  sreach (List.length bars) (sinit (List.length bars)) s -> sfinal s ->
  Permutation order (received s) ->
  forall i j ni nj c d, i < List.length order -> j < List.length order ->
  valid (map (skel_at bars) order) i ni -> valid (map (skel_at bars) order) j nj ->
  (num_at (map (skel_at bars) order) i ni c = num_at (map (skel_at bars) order) j nj d <->
   num_at bars (nth i order 0) ni c = num_at bars (nth j order 0) nj d).
Proof. exact any_schedule_same_partition. Qed.
Print Assumptions C08_any_schedule_same_numbering.

(* the order of definitions with different ids / names in the file does not matter to the maps *)
Theorem C08_definitions_commute : forall (A : Type) (key : A -> string) (x y : A) (l : list A) (k : string),
  key x <> key y ->
  lookup_by key k (upsert key x (upsert key y l)) = lookup_by key k (upsert key y (upsert key x l)).
Proof. exact @upsert_commutes. Qed.
Print Assumptions C08_definitions_commute.

(* scheduling has no part in the assembly: the translator (Gen/GenAssemble.v, regenerated on every run) finds
   MakeSystemOfEquations, setEquationTerms, addTermsToStiffnessMatrix and addTermsToLoadVector to be plain loops over
   the bars, slices and nodes in their stored order - no goroutine, channel or lock - which is what the model folds over *)
Theorem C08_assembly_takes_the_bars_one_after_the_other :
  asm_per_bar = [AsmBarStiffness; AsmBarLoads] /\ asm_after_bars = [AsmTrivialRows; AsmSupports] /\
  asm_bars_one_after_the_other = true /\ asm_skips_negligible_terms = true.
Proof. exact steps_as_written. Qed.
Print Assumptions C08_assembly_takes_the_bars_one_after_the_other.
