(* C17 — The global system is the superposition of all bar contributions.
   Statements only; proofs live in Proofs/AssembleProofs.v.  The model (Model/Assemble.v) is
   tied to preprocess/structure.go and preprocess/element.go by correspondence stage D; the
   slice stiffness is Gen/GenStiffness.v (regenerated from the source). *)
From Coq Require Import ZArith QArith Qabs List Bool Arith Sorted Permutation.
From Inkfem Require Import Num.NumOps Gen.GenStiffness Gen.GenRecover Model.Types Model.Slice Model.Dof Model.Assemble Model.Recover
  Spec.Superposition Proofs.AssembleProofs Proofs.FieldProofs Proofs.SystemProofs Gen.GenAssemble Proofs.AssembleShape Proofs.AssembleSteps.
Import ListNotations.
Local Open Scope Q_scope.

(* the accumulated matrix is the sum over bars, and per bar over slices, of the slice
   stiffness placed at the slice's equation numbers *)
Theorem C17_K_is_sum_over_bars : forall (bars : list (pbar Q)) i j,
  kraw_at (all_contribs bars) i j == qsum (map (fun p => kraw_at (bar_contribs p) i j) bars).
Proof. exact kraw_sum_over_bars. Qed.
Print Assumptions C17_K_is_sum_over_bars.

Theorem C17_slice_is_placed : forall (b : bar Q) na nb da db i j,
  kraw_at (slice_contribs b na nb da db) i j ==
  placed (stiff_gen (b_L b) (b_c b) (b_s b) (pn_t na) (pn_t nb) (b_E b) (b_A b) (b_I b))
         (slice_numbers da db) i j.
Proof. exact slice_contribs_placed. Qed.
Print Assumptions C17_slice_is_placed.

(* the same with the six numbers as preprocess/element.go lists them (Gen/GenAssemble.v, regenerated on every run,
   which also checks on the syntax tree that the bars are assembled one after the other by plain loops) *)
Theorem C17_slice_is_placed_at_the_numbers_the_source_lists : forall (b : bar Q) na nb da db i j,
  kraw_at (slice_contribs b na nb da db) i j ==
  placed (stiff_gen (b_L b) (b_c b) (b_s b) (pn_t na) (pn_t nb) (b_E b) (b_A b) (b_I b))
         (asm_slice_numbers da db) i j.
Proof. exact slice_placed_as_written. Qed.
Print Assumptions C17_slice_is_placed_at_the_numbers_the_source_lists.

Theorem C17_node_load_reaches_the_entries_the_source_adds_it_to : forall (b : bar Q) (nd : pnode Q) (d : dof3) i,
  let g := to_global (b_c b) (b_s b) (pn_net nd) in
  fraw_at (node_fterms b (nd, d)) i == fraw_at (asm_load_terms d (t_fx g) (t_fy g) (t_mz g)) i.
Proof. exact node_load_as_written. Qed.
Print Assumptions C17_node_load_reaches_the_entries_the_source_adds_it_to.

Theorem C17_steps_of_the_assembly_as_the_source_takes_them :
  asm_per_bar = [AsmBarStiffness; AsmBarLoads] /\ asm_after_bars = [AsmTrivialRows; AsmSupports] /\
  asm_bars_one_after_the_other = true /\ asm_skips_negligible_terms = true.
Proof. exact steps_as_written. Qed.
Print Assumptions C17_steps_of_the_assembly_as_the_source_takes_them.

(* without tiny terms the 1e-10 filter is invisible *)
Theorem C17_filter_invisible : forall k, no_tiny k ->
  forall p q, (p < 6)%nat -> (q < 6)%nat -> filtered (entry k p q) == entry k p q.
Proof. exact filtered_id. Qed.
Print Assumptions C17_filter_invisible.

(* load vector: every equation receives the sum of the global net loads of the slice nodes
   that carry its number, whatever bar they belong to *)
Theorem C17_f_is_sum_over_bars : forall (bars : list (pbar Q)) i,
  fraw_at (all_fterms bars) i == qsum (map (fun p => fraw_at (bar_fterms p) i) bars).
Proof. exact fraw_sum_over_bars. Qed.
Print Assumptions C17_f_is_sum_over_bars.

Theorem C17_f_node_terms : forall (b : bar Q) (nd : pnode Q) (d : dof3) i,
  let g := to_global (b_c b) (b_s b) (pn_net nd) in
  fraw_at (node_fterms b (nd, d)) i ==
    (if Nat.eqb (fst (fst d)) i then t_fx g else 0) + (if Nat.eqb (snd (fst d)) i then t_fy g else 0)
    + (if Nat.eqb (snd d) i then t_mz g else 0).
Proof. exact node_fterms_at. Qed.
Print Assumptions C17_f_node_terms.

(* loads and stiffness add up regardless of bar order *)
Theorem C17_order_independent : forall (bars bars' : list (pbar Q)) i j, Permutation bars bars' ->
  kraw_at (all_contribs bars) i j == kraw_at (all_contribs bars') i j /\
  fraw_at (all_fterms bars) i == fraw_at (all_fterms bars') i.
Proof. exact assemble_order_independent. Qed.
Print Assumptions C17_order_independent.

(* symmetric *)
Theorem C17_symmetric : forall (bars : list (pbar Q)) sup i j, Forall wf_pbar bars ->
  k_final (all_contribs bars) sup i j == k_final (all_contribs bars) sup j i.
Proof. exact k_final_symmetric. Qed.
Print Assumptions C17_symmetric.

(* supported equations become trivial with zero right-hand side; nothing else is altered *)
Theorem C17_constraints_only_touch : forall (cs : list (nat * nat * Q)) (fs : list (nat * Q)) sup i j,
  (is_supported sup i = true ->
     k_final cs sup i j == (if Nat.eqb i j then 1 else 0) /\
     k_final cs sup j i == (if Nat.eqb j i then 1 else 0) /\ f_final fs sup i == 0) /\
  (is_supported sup i = false -> is_supported sup j = false -> row_empty cs i = false ->
     k_final cs sup i j == kraw_at cs i j) /\
  (is_supported sup i = false -> f_final fs sup i == fraw_at fs i) /\
  (is_supported sup i = false -> is_supported sup j = false -> row_empty cs i = true ->
     k_final cs sup i j == (if Nat.eqb i j then 1 else 0)).
Proof. exact constraints_only_touch. Qed.
Print Assumptions C17_constraints_only_touch.

(* the numbers the source picks for a supported node (addDispConstraints, regenerated as asm_supported_numbers) get the
   trivial equation: unit diagonal, zero row and column, zero load *)
Theorem C17_numbers_the_source_picks_for_a_support_get_the_trivial_equation :
  forall (cs : list (nat * nat * Q)) (fs : list (nat * Q)) (nodes : list (link * dof3)) l d i j,
  In (l, d) nodes -> In i (asm_supported_numbers (lk_dx l) (lk_dy l) (lk_rz l) d) ->
  k_final cs (supported_of nodes) i j == (if Nat.eqb i j then 1 else 0) /\
  k_final cs (supported_of nodes) j i == (if Nat.eqb j i then 1 else 0) /\
  f_final fs (supported_of nodes) i == 0.
Proof. exact supported_number_is_trivial. Qed.
Print Assumptions C17_numbers_the_source_picks_for_a_support_get_the_trivial_equation.

(* the superposition, operationally: start from an empty matrix and vector; bar after bar do what setEquationTerms does, in its
   order (asm_per_bar, regenerated): AddToValue for every stiffness term, an addition for every load term; then what
   MakeSystemOfEquations does after the bars, in its order (asm_after_bars, regenerated): the trivial equation for every number
   below the count whose row is still empty, then SetZeroCol / SetIdentityRow / SetZero for every supported number in turn.
   What these operations end with is, entry for entry, the system (k_final, f_final) that every other theorem speaks about *)
Theorem C17_the_operations_of_the_source_in_its_order_yield_the_system : forall (n : nat) (bars : list (pbar Q)) (sup : list nat),
  (forall i j, (i < n)%nat -> sm (assemble n bars sup) i j = k_final (all_contribs bars) sup i j) /\
  (forall i, sv (assemble n bars sup) i = f_final (all_fterms bars) sup i).
Proof. exact steps_of_the_source_yield_the_system. Qed.
Print Assumptions C17_the_operations_of_the_source_in_its_order_yield_the_system.

(* what the superposition means for a displacement vector: row i of (accumulated matrix) x u is the sum
   of the forces the finite elements exert at number i - each element's stiffness (as assembled)
   times that element's own six displacements, placed at its six numbers *)
Theorem C17_matrix_times_u_is_sum_of_element_forces : forall n (u : list Q) (bars : list (pbar Q)) i,
  Forall (nums_below n) (all_slices bars) ->
  fsum n (fun j => kraw_at (all_contribs bars) i j * uget u j) == fraw_at (k_terms u bars) i.
Proof. exact raw_row_is_element_forces. Qed.

(* Non-vacuity: a two-node bar of length 5 satisfies wf_pbar *)
Example C17_hypotheses_satisfiable :
  let b := {| b_n1 := 0; b_n2 := 1; b_l1 := rigid; b_l2 := rigid; b_x1 := 0; b_y1 := 0; b_x2 := 3; b_y2 := 4;
              b_L := 5; b_c := 3 # 5; b_s := 4 # 5; b_E := 1; b_A := 1; b_I := 1; b_S := 1; b_rho := 0;
              b_cl := []; b_dl := [] |} in
  let nd t := {| pn_t := t; pn_x := 0; pn_y := 0; pn_ext := (0, 0, 0); pn_left := (0, 0, 0); pn_right := (0, 0, 0) |} in
  wf_pbar {| pb_bar := b; pb_nodes := [nd 0; nd 1]; pb_dofs := [(0, 1, 2)%nat; (3, 4, 5)%nat] |}.
Proof.
  cbn. split; [reflexivity | split; [discriminate |]].
  repeat constructor.
Qed.
