(* C18 — Plots are well-formed SVG and geometrically faithful.
   Statements only; proofs live in Proofs/PlotProofs.v.  The event model of plot
   (Model/Plot.v; thresholds, scale factors, margin and theme tables regenerated from the
   source in Gen/GenConsts.v) is tied to the binary by stage S: the written SVG is parsed by an
   XML parser (which decides well-formedness of the real document) into the same events and
   compared, position by position, inside Coq. *)
From Coq Require Import ZArith QArith List Bool String.
From Inkfem Require Import Gen.GenConsts Model.Types Model.Plot Proofs.PlotProofs.
Import ListNotations.

(* every structure: what is opened is closed, in order, and nothing else is closed *)
Theorem C18_events_balanced : forall p, depth_after 0 (plot_events p) = Some 0%nat.
Proof. exact events_balanced. Qed.
Print Assumptions C18_events_balanced.

(* the document starts with the canvas, whose size is the node bounding box times scale times
   units scale plus twice the margin (truncated) *)
Theorem C18_canvas : forall p, hd EEnd (plot_events p) = EStart (fst (canvas_size p)) (snd (canvas_size p)).
Proof. exact canvas_first. Qed.
Print Assumptions C18_canvas.

(* exactly one line per bar, with id bar__ID, joining the scaled, truncated positions of its end nodes *)
Theorem C18_one_line_per_bar : forall p,
  let u := units_scale (pl_bars p) in
  sel is_barline (plot_events p) =
  map (fun b => EBarLine (pb_id b) (trunc (pb_x1 b * u)) (trunc (pb_y1 b * u)) (trunc (pb_x2 b * u)) (trunc (pb_y2 b * u))) (pl_bars p).
Proof. exact one_line_per_bar. Qed.
Print Assumptions C18_one_line_per_bar.

Theorem C18_one_circle_per_node : forall p,
  let u := units_scale (pl_bars p) in
  sel is_circle (plot_events p) = map (fun n => ENodeCircle (pi_id n) (trunc (pi_x n * u)) (trunc (pi_y n * u))) (pl_nodes p).
Proof. exact one_circle_per_node. Qed.
Print Assumptions C18_one_circle_per_node.

Theorem C18_one_symbol_per_known_support : forall p,
  let u := units_scale (pl_bars p) in
  sel is_support (plot_events p) =
  flat_map (fun n => match support_kind (pi_c n) with 0%nat => [] | k => [ESupport k (trunc (pi_x n * u)) (trunc (pi_y n * u))] end) (pl_nodes p).
Proof. exact one_glyph_per_known_support. Qed.
Print Assumptions C18_one_symbol_per_known_support.

Theorem C18_one_polygon_per_local_load : forall p,
  let u := units_scale (pl_bars p) in
  sel is_polygon (plot_events p) =
  flat_map (fun b => if pb_has_loads b then flat_map (load_polygon u (pl_dscale p) b) (pb_dloads b) else []) (pl_bars p).
Proof. exact one_polygon_per_local_load. Qed.
Print Assumptions C18_one_polygon_per_local_load.

Theorem C18_polygon_spans_its_load : forall u ds b l x0 x1 y0 y1,
  In (EPolygon x0 x1 y0 y1) (load_polygon u ds b l) ->
  x0 = trunc (u * (pb_len b * pd_t0 l)%Q) /\ x1 = trunc (u * (pb_len b * pd_t1 l)%Q).
Proof. exact polygon_spans. Qed.
Print Assumptions C18_polygon_spans_its_load.

(* the loads of a bar are drawn in a group of their own, one per loaded bar, put at the bar's scaled start point and turned
   along the bar (compared with the rotate(...) of the written SVG by stage S) ... *)
Theorem C18_one_turned_group_per_loaded_bar : forall p,
  let u := units_scale (pl_bars p) in
  sel is_loadgroup (plot_events p) = flat_map (fun b => if pb_has_loads b then [load_group_of u b] else []) (pl_bars p).
Proof. exact one_turned_group_per_loaded_bar. Qed.
Print Assumptions C18_one_turned_group_per_loaded_bar.

(* ... so that the polygon vertex drawn at local (x, 0), x = u * length * t, is the scaled point of the bar at position t *)
Theorem C18_load_group_lies_along_the_bar : forall (u : Q) (b : pbar_in) (t : Q), ~ (pb_len b == 0)%Q ->
  let c := ((pb_x2 b - pb_x1 b) / pb_len b)%Q in let s := ((pb_y2 b - pb_y1 b) / pb_len b)%Q in
  let x := (u * (pb_len b * t))%Q in
  (pb_x1 b * u + c * x == u * (pb_x1 b + t * (pb_x2 b - pb_x1 b)))%Q /\
  (pb_y1 b * u + s * x == u * (pb_y1 b + t * (pb_y2 b - pb_y1 b)))%Q.
Proof. exact load_group_lies_along_the_bar. Qed.
Print Assumptions C18_load_group_lies_along_the_bar.

(* light and dark themes: same keys, and every setting that is not a colour has the same value *)
Theorem C18_themes_differ_only_in_colours :
  forallb (fun k => match assoc k c_plot_theme_light, assoc k c_plot_theme_dark with
                    | Some a, Some b => String.eqb a b | _, _ => false end) non_colour_keys = true /\
  map fst c_plot_theme_light = map fst c_plot_theme_dark.
Proof. exact themes_differ_only_in_colours. Qed.
Print Assumptions C18_themes_differ_only_in_colours.
