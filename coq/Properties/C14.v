(* C14 — Invalid input and I/O failures are reported, never absorbed.
   Statements only; proofs live in Proofs/ReadProofs.v.  For every text: the reader model
   returns either an error or a structure, and in the second case every content line has been
   accounted for (no part of the input is silently ignored), no reference dangles and every
   load is attached to a defined bar.  The model is tied to the implementation by stage A
   (same verdict and same class of error on every corrupted text of every run) and the
   command-line consequences (non-zero status, message, no .inkfemsol left behind) are
   enumerated on the binary. *)
From Coq Require Import ZArith QArith NArith Arith List String Ascii Bool.
From Inkfem Require Import Model.Types Model.Regex Gen.GenRegex Model.Read Proofs.ReadProofs.
Import ListNotations.
Local Open Scope string_scope.
Local Close Scope Q_scope.

Theorem C14_every_line_accounted : forall lines st st',
  steps st lines = Ok st' ->
  extends st st' /\ Forall (fun p => accounted st' (fst p) (snd p)) (sections_along (s_section st) lines).
Proof. exact steps_account. Qed.
Print Assumptions C14_every_line_accounted.

Theorem C14_accepted_text_has_no_loose_ends : forall v rest s, read_lines (v :: rest) = Ok s ->
  parse_version v = Ok (st_major s, st_minor s) /\
  exists st, steps state0 rest = Ok st /\
    Forall (fun p => accounted st (fst p) (snd p)) (sections_along "" rest) /\
    st_nodes s = s_nodes st /\ map lb_bar (st_bars s) = s_bars st /\
    Forall (fun lb => link_bar st (lb_bar lb) = Ok lb) (st_bars s) /\
    (forall l, In l (s_cl st) -> exists b, In b (s_bars st) /\ rb_id b = rc_bar l) /\
    (forall l, In l (s_dl st) -> exists b, In b (s_bars st) /\ rb_id b = rd_bar l).
Proof. exact read_lines_ok. Qed.
Print Assumptions C14_accepted_text_has_no_loose_ends.

(* missing or damaged version header *)
Theorem C14_bad_header_is_an_error : forall lines,
  (lines = [] \/ exists v rest, lines = v :: rest /\ rsearch re_io_versionRegex v = None) -> read_lines lines = Err EVersion.
Proof. exact read_needs_version. Qed.
Print Assumptions C14_bad_header_is_an_error.

(* a bar that names an undefined node, material or section *)
Theorem C14_dangling_bar_reference_is_an_error : forall st b,
  (lookup_by rn_id (rb_n1 b) (s_nodes st) = None \/ lookup_by rn_id (rb_n2 b) (s_nodes st) = None \/
   lookup_by rs_name (rb_sec b) (s_secs st) = None \/ lookup_by rm_name (rb_mat b) (s_mats st) = None) ->
  exists e, link_bar st b = Err e.
Proof. exact link_bar_dangling. Qed.
Print Assumptions C14_dangling_bar_reference_is_an_error.

(* a line outside any known section (unknown section name, or before the first header) *)
Theorem C14_unknown_section_is_an_error : forall st line,
  rmatches re_io_genericSectionHeaderRegex line = false -> ~ known_section (s_section st) -> step st line = Err EUnknownHeader.
Proof. exact step_unknown_section. Qed.
Print Assumptions C14_unknown_section_is_an_error.

(* one bad line anywhere makes the whole text an error *)
Theorem C14_error_propagates : forall l1 st st1 x l2 e,
  steps st l1 = Ok st1 -> step st1 x = Err e -> steps st (l1 ++ x :: l2) = Err e.
Proof. exact steps_error_propagates. Qed.
Print Assumptions C14_error_propagates.

(* Non-vacuity and the listed fault kinds, read inside Coq *)
Example C14_faults_are_errors :
  let nl := String "010"%char "" in
  let ok := "inkfem v1.1" ++ nl ++ "|nodes|" ++ nl ++ "a -> 0 0 {dx dy rz}" ++ nl ++ "b -> 1 0 {}" ++ nl ++ "|materials|" ++ nl ++ "'m' -> 1 2 3 4 5 6" ++ nl ++
            "|sections|" ++ nl ++ "'s' -> 1 2 3 4 5" ++ nl in
  (exists s, read_def (ok ++ "|bars|" ++ nl ++ "1 -> a {dx dy rz} b {dx dy rz} 'm' 's'" ++ nl) = Ok s) /\
  read_def (ok ++ "|bars|" ++ nl ++ "1 -> a {dx dy rz} c {dx dy rz} 'm' 's'" ++ nl) = Err ENoEnd /\
  read_def (ok ++ "|bars|" ++ nl ++ "1 -> a {dx dy rz} b {dx dy rz} 'm' 'x'" ++ nl) = Err ENoSection /\
  read_def (ok ++ "|bars|" ++ nl ++ "1 -> a {dx xy} b {dx dy rz} 'm' 's'" ++ nl) = Err EBar /\
  read_def (ok ++ "|loads|" ++ nl ++ "fy lc 2 0.5 -1" ++ nl ++ "|bars|" ++ nl ++ "1 -> a {dx dy rz} b {dx dy rz} 'm' 's'" ++ nl) = Err ELoadUnknownBar /\
  read_def (ok ++ "|loads|" ++ nl ++ "fz lc 1 0.5 -1" ++ nl) = Err ETerm /\
  read_def (ok ++ "|elements|" ++ nl ++ "1 -> a {} b {} 'm' 's'" ++ nl) = Err EUnknownHeader /\
  read_def ("a -> 0 0 {}" ++ nl) = Err EVersion /\
  read_def (ok ++ "|nodes|" ++ nl ++ "c -> 1e400 0 {}" ++ nl) = Err ENumber.
Proof. vm_compute. repeat split. eexists. reflexivity. Qed.
