(* C06 — Results are linear in the loads (scaling and superposition).
   Statements only; proofs live in Proofs/LinearProofs.v.  lump_gen, recover_gen and the end
   torsor formulas are regenerated from the Go source on every run. *)
From Coq Require Import ZArith QArith Qabs Reals List Bool Arith.
From Inkfem Require Import Num.NumOps Gen.GenLoads Gen.GenRecover Spec.Stiffness
  Model.Types Model.Slice Model.Loads Model.Dof Model.Assemble Model.Recover Spec.Resultant
  Proofs.RecoverProofs Proofs.FieldProofs Proofs.LinearProofs Proofs.ScaleProofs Proofs.LinearBar Proofs.LinearStructure
  Gen.GenPcg Proofs.PcgProofs Proofs.PcgCovariance.
Import ListNotations.

(* equivalent nodal loads: linear in the load intensities, all real numbers *)
Theorem C06_lump_linear_R : forall (a s1 s2 s3 e1 e2 e3 s1' s2' s3' e1' e2' e3' len : R), (len <> 0 ->
  let r := lump_gen (O:=ROps) (a * s1 + s1') (a * s2 + s2') (a * s3 + s3') (a * e1 + e1') (a * e2 + e2') (a * e3 + e3') len in
  let p := lump_gen (O:=ROps) s1 s2 s3 e1 e2 e3 len in
  let q := lump_gen (O:=ROps) s1' s2' s3' e1' e2' e3' len in
  (t_fx (fst r) = a * t_fx (fst p) + t_fx (fst q) /\ t_fy (fst r) = a * t_fy (fst p) + t_fy (fst q) /\
   t_mz (fst r) = a * t_mz (fst p) + t_mz (fst q) /\
   t_fx (snd r) = a * t_fx (snd p) + t_fx (snd q) /\ t_fy (snd r) = a * t_fy (snd p) + t_fy (snd q) /\
   t_mz (snd r) = a * t_mz (snd p) + t_mz (snd q)))%R.
Proof. exact lump_linear_R. Qed.
Print Assumptions C06_lump_linear_R.

Local Open Scope Q_scope.

Theorem C06_lump_linear_Q : forall (a s1 s2 s3 e1 e2 e3 s1' s2' s3' e1' e2' e3' len : Q), ~ len == 0 ->
  let r := lump_gen (O:=QOps) (a * s1 + s1') (a * s2 + s2') (a * s3 + s3') (a * e1 + e1') (a * e2 + e2') (a * e3 + e3') len in
  let p := lump_gen (O:=QOps) s1 s2 s3 e1 e2 e3 len in
  let q := lump_gen (O:=QOps) s1' s2' s3' e1' e2' e3' len in
  t_fx (fst r) == a * t_fx (fst p) + t_fx (fst q) /\ t_fy (fst r) == a * t_fy (fst p) + t_fy (fst q) /\
  t_mz (fst r) == a * t_mz (fst p) + t_mz (fst q) /\
  t_fx (snd r) == a * t_fx (snd p) + t_fx (snd q) /\ t_fy (snd r) == a * t_fy (snd p) + t_fy (snd q) /\
  t_mz (snd r) == a * t_mz (snd p) + t_mz (snd q).
Proof. exact lump_linear_Q. Qed.
Print Assumptions C06_lump_linear_Q.

(* force recovery: linear in displacements and nodal loads taken together *)
Theorem C06_recover_linear : forall (a E I S A len : Q)
  (d1 d2 d3 d4 d5 d6 l1 l2 l3 l4 l5 l6 d1' d2' d3' d4' d5' d6' l1' l2' l3' l4' l5' l6' : Q),
  ~ len == 0 -> ~ A == 0 -> ~ S == 0 ->
  let z := recover_gen (O:=QOps) E I S A len (a * d1 + d1') (a * d2 + d2') (a * d3 + d3') (a * d4 + d4') (a * d5 + d5') (a * d6 + d6')
             (a * l1 + l1') (a * l2 + l2') (a * l3 + l3') (a * l4 + l4') (a * l5 + l5') (a * l6 + l6') in
  let x := recover_gen (O:=QOps) E I S A len d1 d2 d3 d4 d5 d6 l1 l2 l3 l4 l5 l6 in
  let y := recover_gen (O:=QOps) E I S A len d1' d2' d3' d4' d5' d6' l1' l2' l3' l4' l5' l6' in
  q4_lin a (fst x) (fst y) (fst z) /\ q4_lin a (snd x) (snd y) (snd z).
Proof. exact recover_linear. Qed.
Print Assumptions C06_recover_linear.

Theorem C06_end_torsors_linear : forall (a A ax sh bm ax' sh' bm' : Q),
  let z := start_torsor_gen (O:=QOps) A (a * ax + ax') (a * sh + sh') (a * bm + bm') in
  let x := start_torsor_gen (O:=QOps) A ax sh bm in let y := start_torsor_gen (O:=QOps) A ax' sh' bm' in
  let z' := end_torsor_gen (O:=QOps) A (a * ax + ax') (a * sh + sh') (a * bm + bm') in
  let x' := end_torsor_gen (O:=QOps) A ax sh bm in let y' := end_torsor_gen (O:=QOps) A ax' sh' bm' in
  (t_fx z == a * t_fx x + t_fx y /\ t_fy z == a * t_fy x + t_fy y /\ t_mz z == a * t_mz x + t_mz y) /\
  (t_fx z' == a * t_fx x' + t_fx y' /\ t_fy z' == a * t_fy x' + t_fy y' /\ t_mz z' == a * t_mz x' + t_mz y').
Proof. exact end_torsors_linear. Qed.
Print Assumptions C06_end_torsors_linear.

(* the load vector entry of a node is linear in its net load *)
Theorem C06_load_vector_linear : forall (b : bar Q) (a : Q) (n1 n2 n3 : pnode Q) (d : dof3) i,
  tor_eqQ (pn_net n3) (a * t_fx (pn_net n1) + t_fx (pn_net n2), a * t_fy (pn_net n1) + t_fy (pn_net n2),
                       a * t_mz (pn_net n1) + t_mz (pn_net n2)) ->
  fraw_at (node_fterms b (n3, d)) i == a * fraw_at (node_fterms b (n1, d)) i + fraw_at (node_fterms b (n2, d)) i.
Proof. exact node_fterms_linear. Qed.
Print Assumptions C06_load_vector_linear.

(* the system: scaling and superposition of solutions *)
Theorem C06_solution_linear : forall n K a f1 f2 u1 u2,
  (forall i, (i < n)%nat -> mat_vec n K u1 i == f1 i) ->
  (forall i, (i < n)%nat -> mat_vec n K u2 i == f2 i) ->
  forall i, (i < n)%nat -> mat_vec n K (fun j => a * u1 j + u2 j) i == a * f1 i + f2 i.
Proof. exact solution_linear. Qed.
Print Assumptions C06_solution_linear.

(* stable structure: whatever solves the combined loads is the combination of the solutions *)
Theorem C06_combined_solution_is_combination : forall n Kinv K a f1 f2 u1 u2 w,
  left_inverse n Kinv K ->
  (forall i, (i < n)%nat -> mat_vec n K u1 i == f1 i) ->
  (forall i, (i < n)%nat -> mat_vec n K u2 i == f2 i) ->
  (forall i, (i < n)%nat -> mat_vec n K w i == a * f1 i + f2 i) ->
  forall i, (i < n)%nat -> w i == a * u1 i + u2 i.
Proof. exact combined_solution_is_combination. Qed.
Print Assumptions C06_combined_solution_is_combination.

(* a structure without loads has an identically zero solution *)
Theorem C06_zero_loads_zero_solution : forall n Kinv K u,
  left_inverse n Kinv K -> (forall i, (i < n)%nat -> mat_vec n K u i == 0) ->
  forall i, (i < n)%nat -> u i == 0.
Proof. exact zero_loads_zero_solution. Qed.
Print Assumptions C06_zero_loads_zero_solution.

(* a whole bar (Model/Slice.v slice_bar: positions from the loads, the regenerated lump_gen per
   finite element, concentrated loads at their node, bar-end loads of a pinned bar): multiplying
   every concentrated and distributed load of the bar by a keeps the slicing (same number of
   nodes, same positions, same coordinates) and multiplies the external, left and right load of
   every node by a.  a = 0: a bar whose loads all have value zero has only zero nodal loads. *)
Theorem C06_scaling_the_loads_of_a_bar_scales_every_nodal_load : forall (a : Q) (b : bar Q),
  Forall2 (fun n n' => pn_t n' = pn_t n /\ pn_x n' = pn_x n /\ pn_y n' = pn_y n /\
             tor_eq (pn_ext n') (tscale a (pn_ext n)) /\ tor_eq (pn_left n') (tscale a (pn_left n)) /\
             tor_eq (pn_right n') (tscale a (pn_right n)))
          (slice_bar b) (slice_bar (scale_bar a b)).
Proof. exact slice_bar_scales. Qed.
Print Assumptions C06_scaling_the_loads_of_a_bar_scales_every_nodal_load.

(* not vacuous: a bar with a partial trapezoidal load and a point load is cut at the load's ends and
   at the point load, and its nodes do carry loads *)
Definition c06_bar : bar Q := {| b_n1 := 0; b_n2 := 1; b_l1 := rigid; b_l2 := rigid; b_x1 := 0; b_y1 := 0; b_x2 := 3; b_y2 := 4;
  b_L := 5; b_c := 3 # 5; b_s := 4 # 5; b_E := 1; b_A := 1; b_I := 1; b_S := 1; b_rho := 0;
  b_cl := [ {| cl_term := FY; cl_local := false; cl_t := 1 # 3; cl_v := - (7 # 1) |} ];
  b_dl := [ {| dl_term := FY; dl_local := true; dl_t0 := 1 # 4; dl_v0 := - (2 # 1); dl_t1 := 3 # 4; dl_v1 := - (5 # 1) |} ] |}.
Example C06_bar_example : length (slice_bar c06_bar) = 14%nat /\
  existsb (fun n => negb (Qeq_bool (t_fy (pn_ext n)) 0)) (slice_bar c06_bar) = true /\
  existsb (fun n => negb (Qeq_bool (t_mz (pn_left n)) 0)) (slice_bar c06_bar) = true.
Proof. vm_compute. repeat split; reflexivity. Qed.

(* linearity proper, for a whole bar: on one layout of loads (kinds, axes, positions) the nodal loads are a linear function
   of the load values.  The bar carrying  a x (values of the first) + (values of the second)  is cut exactly where the two
   are and, at every node, its external, left and right loads are  a x (first) + (second).  Two load sets written on a
   common layout superpose (a = 1); the second set all zero gives scaling. *)
Theorem C06_nodal_loads_of_a_bar_are_linear_in_the_load_values : forall (a : Q) (b1 b2 : bar Q), same_layout b1 b2 ->
  Forall3 (fun n1 n2 n3 => pn_t n2 = pn_t n1 /\ pn_t n3 = pn_t n1 /\ pn_x n3 = pn_x n1 /\ pn_y n3 = pn_y n1 /\
                           tor_eq (pn_ext n3) (tcomb a (pn_ext n1) (pn_ext n2)) /\ tor_eq (pn_left n3) (tcomb a (pn_left n1) (pn_left n2)) /\
                           tor_eq (pn_right n3) (tcomb a (pn_right n1) (pn_right n2)))
          (slice_bar b1) (slice_bar b2) (slice_bar (comb_bar a b1 b2)).
Proof. exact nodal_loads_linear_in_the_load_values. Qed.
Print Assumptions C06_nodal_loads_of_a_bar_are_linear_in_the_load_values.

(* not vacuous: the example bar above and the same layout with other values *)
Definition c06_bar2 : bar Q := {| b_n1 := 0; b_n2 := 1; b_l1 := rigid; b_l2 := rigid; b_x1 := 0; b_y1 := 0; b_x2 := 3; b_y2 := 4;
  b_L := 5; b_c := 3 # 5; b_s := 4 # 5; b_E := 1; b_A := 1; b_I := 1; b_S := 1; b_rho := 0;
  b_cl := [ {| cl_term := FY; cl_local := false; cl_t := 1 # 3; cl_v := 11 # 2 |} ];
  b_dl := [ {| dl_term := FY; dl_local := true; dl_t0 := 1 # 4; dl_v0 := 0; dl_t1 := 3 # 4; dl_v1 := 9 # 1 |} ] |}.
Example C06_layout_example : same_layout c06_bar c06_bar2 /\ length (slice_bar (comb_bar (- (3 # 1)) c06_bar c06_bar2)) = 14%nat.
Proof.
  split; [| vm_compute; reflexivity].
  constructor; try reflexivity; (constructor; [repeat split; reflexivity | constructor]).
Qed.

(* from the load values to the solution, for a whole structure of the model (bars sliced by slice_bar, system assembled
   by Model/Assemble.v at the given equation numbers and supports): on one layout of loads the matrix handed to the solver
   does not depend on the load values, the load vector is linear in them, and  a x u1 + u2  solves the system of the
   structure loaded with  a x (first values) + (second values)  whenever u1 and u2 solve the systems of the two.
   (With a stable structure that solution is the only one: C06_combined_solution_is_combination.) *)
Theorem C06_structure_response_is_linear_in_the_load_values :
  forall (a : Q) (bs1 bs2 : list (bar Q)) (ds : list (list dof3)) (sup : list nat) (n : nat) (u1 u2 : nat -> Q),
  Forall2 same_member bs1 bs2 ->
  let K (bs : list (bar Q)) := k_final (all_contribs (sliced_all bs ds)) sup in
  let f (bs : list (bar Q)) := f_final (all_fterms (sliced_all bs ds)) sup in
  let bs3 := zip_with (comb_bar a) bs1 bs2 in
  (forall i, (i < n)%nat -> mat_vec n (K bs1) u1 i == f bs1 i) ->
  (forall i, (i < n)%nat -> mat_vec n (K bs2) u2 i == f bs2 i) ->
  (forall i j, K bs3 i j = K bs1 i j) /\
  (forall i, f bs3 i == a * f bs1 i + f bs2 i) /\
  (forall i, (i < n)%nat -> mat_vec n (K bs3) (fun j => a * u1 j + u2 j) i == f bs3 i).
Proof. exact structure_response_is_linear_in_the_load_values. Qed.
Print Assumptions C06_structure_response_is_linear_in_the_load_values.

Example C06_members_example : Forall2 same_member [c06_bar] [c06_bar2].
Proof.
  constructor; [| constructor]. constructor; try reflexivity.
  constructor; try reflexivity; (constructor; [repeat split; reflexivity | constructor]).
Qed.

(* scaling holds pass by pass inside the solver (exact arithmetic, model of its loop in Gen/GenPcg.v): the load vector is linear
   in the loads (C06_structure_response_is_linear_in_the_load_values), the matrix does not depend on them, and with every load
   multiplied by a factor every iterate of the loop - converged or not - is the old one multiplied by it.  (What is not scaled is
   the absolute test that stops the loop: the check scales the error asked for together with the loads.) *)
Theorem C06_scaling_the_loads_scales_every_iterate_of_the_solver :
  forall (n : nat) (A : nat -> nat -> Q) (b : nat -> Q) (a : Q) (k i : nat),
  (forall j, ~ A j j == 0) -> ~ a == 0 ->
  pcg_answer n A (fun j => a * b j) k i == a * pcg_answer n A b k i.
Proof. exact iterates_scale_with_the_loads. Qed.
Print Assumptions C06_scaling_the_loads_scales_every_iterate_of_the_solver.
