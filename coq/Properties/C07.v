(* C07 — Results do not depend on where the structure sits or how bars are drawn.
   Statements only; proofs live in Proofs/PlacementProofs.v.  Kernel level, for all real
   angles and over Q: the regenerated stiffness, equivalent-load, recovery and projection
   formulas are covariant under rotation of the structure, mirroring, and drawing a bar from
   its other end.  Translation: none of the kernels takes a coordinate (stiff_gen, lump_gen,
   recover_gen depend on length, direction cosines and sub-span only), so translation
   invariance holds by the very type of the model.  The structure-level statement (whole
   pipeline) is decided per run by the metamorphic oracle of the check, see DESIGN.md. *)
From Coq Require Import ZArith QArith Qabs Reals List Bool Arith.
From Inkfem Require Import Num.NumOps Gen.GenStiffness Gen.GenLoads Gen.GenRecover Spec.Stiffness
  Model.Types Proofs.StiffnessQ Proofs.PlacementProofs.
Import ListNotations.

Theorem C07_stiffness_rotation_covariant_R : forall (L c s t1 t2 E A I : R), (L * (t2 - t1) <> 0 ->
  forall cr sr x1 y1 r1 x2 y2 r2, cr * cr + sr * sr = 1 ->
  let d := [x1; y1; r1; x2; y2; r2] in
  mv (stiff_gen (O:=ROps) L (c * cr - s * sr) (s * cr + c * sr) t1 t2 E A I) (rot_vec cr sr d)
  = rot_vec cr sr (mv (stiff_gen (O:=ROps) L c s t1 t2 E A I) d))%R.
Proof. exact stiff_rotation_R. Qed.
Print Assumptions C07_stiffness_rotation_covariant_R.

Theorem C07_stiffness_mirror_R : forall (L c s t1 t2 E A I : R), (L * (t2 - t1) <> 0 ->
  forall x1 y1 r1 x2 y2 r2,
  let d := [x1; y1; r1; x2; y2; r2] in
  mv (stiff_gen (O:=ROps) L (- c) s t1 t2 E A I) (mirror_vec d)
  = mirror_vec (mv (stiff_gen (O:=ROps) L c s t1 t2 E A I) d))%R.
Proof. exact stiff_mirror_R. Qed.
Print Assumptions C07_stiffness_mirror_R.

Theorem C07_stiffness_reversal_R : forall (L c s t1 t2 E A I : R), (L * (t2 - t1) <> 0 ->
  forall x1 y1 r1 x2 y2 r2,
  let d := [x1; y1; r1; x2; y2; r2] in
  mv (stiff_gen (O:=ROps) L (- c) (- s) t1 t2 E A I) (swap_vec d)
  = swap_vec (mv (stiff_gen (O:=ROps) L c s t1 t2 E A I) d))%R.
Proof. exact stiff_reversal_R. Qed.
Print Assumptions C07_stiffness_reversal_R.

Theorem C07_lump_reversal_R : forall (sFx sFy sMz eFx eFy eMz len : R), (len <> 0 ->
  let a := lump_gen (O:=ROps) sFx sFy sMz eFx eFy eMz len in
  let b := lump_gen (O:=ROps) (- eFx) (- eFy) eMz (- sFx) (- sFy) sMz len in
  t_fx (fst b) = - t_fx (snd a) /\ t_fy (fst b) = - t_fy (snd a) /\ t_mz (fst b) = t_mz (snd a) /\
  t_fx (snd b) = - t_fx (fst a) /\ t_fy (snd b) = - t_fy (fst a) /\ t_mz (snd b) = t_mz (fst a))%R.
Proof. exact lump_reversal_R. Qed.
Print Assumptions C07_lump_reversal_R.

(* diagrams of a bar drawn from its other end: read backwards, axial stress and shear keep
   their sign, bending moment and top-fibre stress change theirs *)
Theorem C07_recover_reversal_R : forall (E I S A len u1 v1 r1 u2 v2 r2 a1 a2 a3 c1 c2 c3 : R),
  (len <> 0 -> A <> 0 -> S <> 0 ->
  let x := recover_gen (O:=ROps) E I S A len u1 v1 r1 u2 v2 r2 a1 a2 a3 c1 c2 c3 in
  let y := recover_gen (O:=ROps) E I S A len (- u2) (- v2) r2 (- u1) (- v1) r1 (- c1) (- c2) c3 (- a1) (- a2) a3 in
  fst y = (fst (fst (fst (snd x))), snd (fst (fst (snd x))), - snd (fst (snd x)), - snd (snd x)) /\
  snd y = (fst (fst (fst (fst x))), snd (fst (fst (fst x))), - snd (fst (fst x)), - snd (fst x)))%R.
Proof. exact recover_reversal_R. Qed.
Print Assumptions C07_recover_reversal_R.

Theorem C07_recover_mirror_R : forall (E I S A len u1 v1 r1 u2 v2 r2 a1 a2 a3 c1 c2 c3 : R),
  (len <> 0 -> A <> 0 -> S <> 0 ->
  let x := recover_gen (O:=ROps) E I S A len u1 v1 r1 u2 v2 r2 a1 a2 a3 c1 c2 c3 in
  let y := recover_gen (O:=ROps) E I S A len u1 (- v1) (- r1) u2 (- v2) (- r2) a1 (- a2) (- a3) c1 (- c2) (- c3) in
  fst y = (fst (fst (fst (fst x))), - snd (fst (fst (fst x))), - snd (fst (fst x)), - snd (fst x)) /\
  snd y = (fst (fst (fst (snd x))), - snd (fst (fst (snd x))), - snd (fst (snd x)), - snd (snd x)))%R.
Proof. exact recover_mirror_R. Qed.
Print Assumptions C07_recover_mirror_R.

Theorem C07_projection_rotation_R : forall (c s cr sr fx fy mz : R), (cr * cr + sr * sr = 1 ->
  to_local (O:=ROps) (c * cr - s * sr) (s * cr + c * sr) (cr * fx - sr * fy, sr * fx + cr * fy, mz)
  = to_local (O:=ROps) c s (fx, fy, mz))%R.
Proof. exact projection_rotation_R. Qed.
Print Assumptions C07_projection_rotation_R.

Theorem C07_projection_reversal_R : forall (c s fx fy mz : R),
  (to_local (O:=ROps) (- c) (- s) (fx, fy, mz) =
   (- t_fx (to_local (O:=ROps) c s (fx, fy, mz)), - t_fy (to_local (O:=ROps) c s (fx, fy, mz)), mz))%R.
Proof. exact projection_reversal_R. Qed.
Print Assumptions C07_projection_reversal_R.

Theorem C07_projection_roundtrip_R : forall (c s fx fy mz : R), (c * c + s * s = 1 ->
  to_global (O:=ROps) c s (to_local (O:=ROps) c s (fx, fy, mz)) = (fx, fy, mz))%R.
Proof. exact projection_roundtrip_R. Qed.
Print Assumptions C07_projection_roundtrip_R.

(* the same over Q, the instance the executable model runs at *)
Theorem C07_stiffness_rotation_covariant_Q : forall (L c s t1 t2 E A I : Q), (~ L * (t2 - t1) == 0 ->
  forall cr sr x1 y1 r1 x2 y2 r2, cr * cr + sr * sr == 1 ->
  let d := [x1; y1; r1; x2; y2; r2] in
  veq (mv (stiff_gen (O:=QOps) L (c * cr - s * sr) (s * cr + c * sr) t1 t2 E A I) (rot_vec cr sr d))
      (rot_vec cr sr (mv (stiff_gen (O:=QOps) L c s t1 t2 E A I) d)))%Q.
Proof. exact stiff_rotation_Q. Qed.
Print Assumptions C07_stiffness_rotation_covariant_Q.

Theorem C07_stiffness_mirror_Q : forall (L c s t1 t2 E A I : Q), (~ L * (t2 - t1) == 0 ->
  forall x1 y1 r1 x2 y2 r2,
  let d := [x1; y1; r1; x2; y2; r2] in
  veq (mv (stiff_gen (O:=QOps) L (- c) s t1 t2 E A I) (mirror_vec d))
      (mirror_vec (mv (stiff_gen (O:=QOps) L c s t1 t2 E A I) d)))%Q.
Proof. exact stiff_mirror_Q. Qed.
Print Assumptions C07_stiffness_mirror_Q.

Theorem C07_stiffness_reversal_Q : forall (L c s t1 t2 E A I : Q), (~ L * (t2 - t1) == 0 ->
  forall x1 y1 r1 x2 y2 r2,
  let d := [x1; y1; r1; x2; y2; r2] in
  veq (mv (stiff_gen (O:=QOps) L (- c) (- s) t1 t2 E A I) (swap_vec d))
      (swap_vec (mv (stiff_gen (O:=QOps) L c s t1 t2 E A I) d)))%Q.
Proof. exact stiff_reversal_Q. Qed.
Print Assumptions C07_stiffness_reversal_Q.
