(* C07 — Results do not depend on where the structure sits or how bars are drawn.
   Statements only; proofs live in Proofs/PlacementProofs.v.  Kernel level, for all real
   angles and over Q: the regenerated stiffness, equivalent-load, recovery and projection
   formulas are covariant under rotation of the structure, mirroring, and drawing a bar from
   its other end.  Translation: none of the kernels takes a coordinate (stiff_gen, lump_gen,
   recover_gen depend on length, direction cosines and sub-span only), so translation
   invariance holds by the very type of the model.  Whole bars of the slicing model: moved by any
   translation, and (loads in the bar's own axes) turned by any angle, a bar is cut at the same
   positions and carries the same nodal loads (Proofs/UnitsBar.v).  The statement for the solved
   structure is decided per run by the metamorphic oracle of the check, see DESIGN.md. *)
From Coq Require Import ZArith QArith Qabs Reals List Bool Arith Lia.
From Inkfem Require Import Num.NumOps Gen.GenStiffness Gen.GenLoads Gen.GenRecover Spec.Stiffness
  Model.Types Model.Slice Model.Loads Spec.Resultant Model.Dof Model.Assemble Proofs.StiffnessQ Proofs.PlacementProofs Proofs.SystemProofs Proofs.UnitsBar Proofs.UnitsStructure Proofs.MovedStructure Proofs.TurnedStructure Spec.Superposition.
Import ListNotations.

Theorem C07_stiffness_rotation_covariant_R : forall (L c s t1 t2 E A I : R), (L * (t2 - t1) <> 0 ->
  forall cr sr x1 y1 r1 x2 y2 r2, cr * cr + sr * sr = 1 ->
  let d := [x1; y1; r1; x2; y2; r2] in
  mv (stiff_gen (O:=ROps) L (c * cr - s * sr) (s * cr + c * sr) t1 t2 E A I) (rot_vec cr sr d)
  = rot_vec cr sr (mv (stiff_gen (O:=ROps) L c s t1 t2 E A I) d))%R.
Proof. exact stiff_rotation_R. Qed.
Print Assumptions C07_stiffness_rotation_covariant_R.

Theorem C07_stiffness_mirror_R : forall (L c s t1 t2 E A I : R), (L * (t2 - t1) <> 0 ->
  forall x1 y1 r1 x2 y2 r2,
  let d := [x1; y1; r1; x2; y2; r2] in
  mv (stiff_gen (O:=ROps) L (- c) s t1 t2 E A I) (mirror_vec d)
  = mirror_vec (mv (stiff_gen (O:=ROps) L c s t1 t2 E A I) d))%R.
Proof. exact stiff_mirror_R. Qed.
Print Assumptions C07_stiffness_mirror_R.

Theorem C07_stiffness_reversal_R : forall (L c s t1 t2 E A I : R), (L * (t2 - t1) <> 0 ->
  forall x1 y1 r1 x2 y2 r2,
  let d := [x1; y1; r1; x2; y2; r2] in
  mv (stiff_gen (O:=ROps) L (- c) (- s) t1 t2 E A I) (swap_vec d)
  = swap_vec (mv (stiff_gen (O:=ROps) L c s t1 t2 E A I) d))%R.
Proof. exact stiff_reversal_R. Qed.
Print Assumptions C07_stiffness_reversal_R.

Theorem C07_lump_reversal_R : forall (sFx sFy sMz eFx eFy eMz len : R), (len <> 0 ->
  let a := lump_gen (O:=ROps) sFx sFy sMz eFx eFy eMz len in
  let b := lump_gen (O:=ROps) (- eFx) (- eFy) eMz (- sFx) (- sFy) sMz len in
  t_fx (fst b) = - t_fx (snd a) /\ t_fy (fst b) = - t_fy (snd a) /\ t_mz (fst b) = t_mz (snd a) /\
  t_fx (snd b) = - t_fx (fst a) /\ t_fy (snd b) = - t_fy (fst a) /\ t_mz (snd b) = t_mz (fst a))%R.
Proof. exact lump_reversal_R. Qed.
Print Assumptions C07_lump_reversal_R.

(* diagrams of a bar drawn from its other end: read backwards, axial stress and shear keep
   their sign, bending moment and top-fibre stress change theirs *)
Theorem C07_recover_reversal_R : forall (E I S A len u1 v1 r1 u2 v2 r2 a1 a2 a3 c1 c2 c3 : R),
  (len <> 0 -> A <> 0 -> S <> 0 ->
  let x := recover_gen (O:=ROps) E I S A len u1 v1 r1 u2 v2 r2 a1 a2 a3 c1 c2 c3 in
  let y := recover_gen (O:=ROps) E I S A len (- u2) (- v2) r2 (- u1) (- v1) r1 (- c1) (- c2) c3 (- a1) (- a2) a3 in
  fst y = (fst (fst (fst (snd x))), snd (fst (fst (snd x))), - snd (fst (snd x)), - snd (snd x)) /\
  snd y = (fst (fst (fst (fst x))), snd (fst (fst (fst x))), - snd (fst (fst x)), - snd (fst x)))%R.
Proof. exact recover_reversal_R. Qed.
Print Assumptions C07_recover_reversal_R.

Theorem C07_recover_mirror_R : forall (E I S A len u1 v1 r1 u2 v2 r2 a1 a2 a3 c1 c2 c3 : R),
  (len <> 0 -> A <> 0 -> S <> 0 ->
  let x := recover_gen (O:=ROps) E I S A len u1 v1 r1 u2 v2 r2 a1 a2 a3 c1 c2 c3 in
  let y := recover_gen (O:=ROps) E I S A len u1 (- v1) (- r1) u2 (- v2) (- r2) a1 (- a2) (- a3) c1 (- c2) (- c3) in
  fst y = (fst (fst (fst (fst x))), - snd (fst (fst (fst x))), - snd (fst (fst x)), - snd (fst x)) /\
  snd y = (fst (fst (fst (snd x))), - snd (fst (fst (snd x))), - snd (fst (snd x)), - snd (snd x)))%R.
Proof. exact recover_mirror_R. Qed.
Print Assumptions C07_recover_mirror_R.

Theorem C07_projection_rotation_R : forall (c s cr sr fx fy mz : R), (cr * cr + sr * sr = 1 ->
  to_local (O:=ROps) (c * cr - s * sr) (s * cr + c * sr) (cr * fx - sr * fy, sr * fx + cr * fy, mz)
  = to_local (O:=ROps) c s (fx, fy, mz))%R.
Proof. exact projection_rotation_R. Qed.
Print Assumptions C07_projection_rotation_R.

Theorem C07_projection_reversal_R : forall (c s fx fy mz : R),
  (to_local (O:=ROps) (- c) (- s) (fx, fy, mz) =
   (- t_fx (to_local (O:=ROps) c s (fx, fy, mz)), - t_fy (to_local (O:=ROps) c s (fx, fy, mz)), mz))%R.
Proof. exact projection_reversal_R. Qed.
Print Assumptions C07_projection_reversal_R.

Theorem C07_projection_roundtrip_R : forall (c s fx fy mz : R), (c * c + s * s = 1 ->
  to_global (O:=ROps) c s (to_local (O:=ROps) c s (fx, fy, mz)) = (fx, fy, mz))%R.
Proof. exact projection_roundtrip_R. Qed.
Print Assumptions C07_projection_roundtrip_R.

(* the same over Q, the instance the executable model runs at *)
Theorem C07_stiffness_rotation_covariant_Q : forall (L c s t1 t2 E A I : Q), (~ L * (t2 - t1) == 0 ->
  forall cr sr x1 y1 r1 x2 y2 r2, cr * cr + sr * sr == 1 ->
  let d := [x1; y1; r1; x2; y2; r2] in
  veq (mv (stiff_gen (O:=QOps) L (c * cr - s * sr) (s * cr + c * sr) t1 t2 E A I) (rot_vec cr sr d))
      (rot_vec cr sr (mv (stiff_gen (O:=QOps) L c s t1 t2 E A I) d)))%Q.
Proof. exact stiff_rotation_Q. Qed.
Print Assumptions C07_stiffness_rotation_covariant_Q.

Theorem C07_stiffness_mirror_Q : forall (L c s t1 t2 E A I : Q), (~ L * (t2 - t1) == 0 ->
  forall x1 y1 r1 x2 y2 r2,
  let d := [x1; y1; r1; x2; y2; r2] in
  veq (mv (stiff_gen (O:=QOps) L (- c) s t1 t2 E A I) (mirror_vec d))
      (mirror_vec (mv (stiff_gen (O:=QOps) L c s t1 t2 E A I) d)))%Q.
Proof. exact stiff_mirror_Q. Qed.
Print Assumptions C07_stiffness_mirror_Q.

Theorem C07_stiffness_reversal_Q : forall (L c s t1 t2 E A I : Q), (~ L * (t2 - t1) == 0 ->
  forall x1 y1 r1 x2 y2 r2,
  let d := [x1; y1; r1; x2; y2; r2] in
  veq (mv (stiff_gen (O:=QOps) L (- c) (- s) t1 t2 E A I) (swap_vec d))
      (swap_vec (mv (stiff_gen (O:=QOps) L c s t1 t2 E A I) d)))%Q.
Proof. exact stiff_reversal_Q. Qed.
Print Assumptions C07_stiffness_reversal_Q.

(* whole bars of the slicing model (Model/Slice.v + Model/Loads.v, tied to preprocess/*.go by stage B) *)
Theorem C07_a_bar_moved_elsewhere_is_sliced_alike_with_the_same_nodal_loads : forall (dx dy : Q) (w : bool) (b : bar Q),
  Forall2 (fun n n' => pn_t n' = pn_t n /\ (pn_x n' == pn_x n + dx)%Q /\ (pn_y n' == pn_y n + dy)%Q /\
                       tor_eq (pn_ext n') (pn_ext n) /\ tor_eq (pn_left n') (pn_left n) /\ tor_eq (pn_right n') (pn_right n))
          (preprocess_bar w b) (preprocess_bar w (moved_bar dx dy b)).
Proof. exact moved_bar_is_sliced_alike. Qed.
Print Assumptions C07_a_bar_moved_elsewhere_is_sliced_alike_with_the_same_nodal_loads.

Theorem C07_a_bar_turned_with_its_loads_is_sliced_alike_with_the_same_nodal_loads : forall (cr sr : Q) (b : bar Q),
  (cr * cr + sr * sr == 1)%Q -> own_axes_only b = true ->
  Forall2 (fun n n' => pn_t n' = pn_t n /\ (pn_x n' == cr * pn_x n - sr * pn_y n)%Q /\ (pn_y n' == sr * pn_x n + cr * pn_y n)%Q /\
                       tor_eq (pn_ext n') (pn_ext n) /\ tor_eq (pn_left n') (pn_left n) /\ tor_eq (pn_right n') (pn_right n))
          (preprocess_bar false b) (preprocess_bar false (turned_bar cr sr b)).
Proof. exact turned_bar_is_sliced_alike. Qed.
Print Assumptions C07_a_bar_turned_with_its_loads_is_sliced_alike_with_the_same_nodal_loads.

(* not vacuous: a bar with loads in its own axes, turned by the 3-4-5 angle *)
Definition c07_bar : bar Q := {| b_n1 := 0; b_n2 := 1; b_l1 := rigid; b_l2 := rigid; b_x1 := 10; b_y1 := 20; b_x2 := 310; b_y2 := 420;
  b_L := 500; b_c := 3 # 5; b_s := 4 # 5; b_E := 1; b_A := 1; b_I := 1; b_S := 1; b_rho := 0;
  b_cl := [ {| cl_term := FX; cl_local := true; cl_t := 1 # 3; cl_v := 70 # 1 |} ];
  b_dl := [ {| dl_term := FY; dl_local := true; dl_t0 := 1 # 4; dl_v0 := - (2 # 1); dl_t1 := 3 # 4; dl_v1 := - (5 # 1) |} ] |}.
Example C07_bar_example : own_axes_only c07_bar = true /\ ((3 # 5) * (3 # 5) + (4 # 5) * (4 # 5) == 1)%Q /\
  length (preprocess_bar false (turned_bar (3 # 5) (4 # 5) c07_bar)) = 14%nat.
Proof. split; [reflexivity|]. split; [reflexivity|]. vm_compute. reflexivity. Qed.

(* the whole structure of the model moved elsewhere (bars sliced with or without own weight, any numbering, any supports):
   the matrix handed to the solver is the same, the load vector is the same up to ==, and the same displacements solve it *)
Theorem C07_a_structure_moved_elsewhere_gets_the_same_system : forall (dx dy : Q) (w : bool) (n : nat) (bs : list (bar Q))
  (ds : list (list dof3)) (sup : list nat) (u : list Q),
  (forall i j, k_final (all_contribs (prepared_all w (moved_all dx dy bs) ds)) sup i j = k_final (all_contribs (prepared_all w bs ds)) sup i j) /\
  (forall i, (f_final (all_fterms (prepared_all w (moved_all dx dy bs) ds)) sup i == f_final (all_fterms (prepared_all w bs ds)) sup i)%Q) /\
  (solves n (prepared_all w bs ds) sup u -> solves n (prepared_all w (moved_all dx dy bs) ds) sup u).
Proof. exact moved_structure_same_system. Qed.
Print Assumptions C07_a_structure_moved_elsewhere_gets_the_same_system.

(* the whole structure of the model turned about the origin by the angle of cosine cr and sine sr: loads in the bars' own axes
   (they turn with the bars), supports that treat dx and dy alike.  kind tells what each equation number stands for (0 dx,
   1 dy, 2 rz), pr gives the other translation number of the same point.  Row i of the new system is the turned combination
   of rows i and pr i of the old one in the turned unknowns, so the turned displacements (each (dx, dy) pair rotated,
   rotations unchanged) solve the new system.  Assumptions as for the unit conversion: no stiffness term of either system
   under the 1e-10 cut-off, a stiffness term in every free equation. *)
Theorem C07_turned_displacements_solve_the_turned_structure :
  forall (cr sr : Q), (cr * cr + sr * sr == 1)%Q -> forall (kind pr : nat -> nat),
  (forall i, kind i = 0%nat -> kind (pr i) = 1%nat /\ pr (pr i) = i) -> (forall i, kind i = 1%nat -> kind (pr i) = 0%nat /\ pr (pr i) = i) ->
  forall (n : nat) (bs : list (bar Q)) (ds : list (list dof3)) (sup : list nat) (u : list Q),
  let S := prepared_all false bs ds in
  let S' := prepared_all false (map (turned_bar cr sr) bs) ds in
  Forall (fun b => own_axes_only b = true) bs ->
  Forall (TurnedStructure.good_slice cr sr kind pr n) (all_slices S) -> Forall (Forall (paired kind pr)) ds ->
  (forall j, (j < n)%nat -> kind j <> 2%nat -> (pr j < n)%nat /\ is_supported sup (pr j) = is_supported sup j) ->
  (forall i, (i < n)%nat -> is_supported sup i = false -> row_empty (all_contribs S) i = false /\ row_empty (all_contribs S') i = false) ->
  solves n S sup u -> solves n S' sup (turn_u cr sr kind pr n u).
Proof. exact turned_structure. Qed.
Print Assumptions C07_turned_displacements_solve_the_turned_structure.

(* not vacuous: a cantilever of two finite elements with a transverse unit load in the middle, turned by the 3-4-5 angle *)
Definition c07_cbar : bar Q := {| b_n1 := 0; b_n2 := 1; b_l1 := rigid; b_l2 := rigid; b_x1 := 0; b_y1 := 0; b_x2 := 2; b_y2 := 0;
  b_L := 2; b_c := 1; b_s := 0; b_E := 1; b_A := 1; b_I := 1; b_S := 1; b_rho := 0; b_cl := []; b_dl := [] |}.
Definition c07_nd (t x y : Q) (e : tor Q) : pnode Q := {| pn_t := t; pn_x := x; pn_y := y; pn_ext := e; pn_left := (0, 0, 0); pn_right := (0, 0, 0) |}.
Definition c07_S : list (pbar Q) :=
  [ {| pb_bar := c07_cbar; pb_nodes := [c07_nd 0 0 0 (0, 0, 0); c07_nd (1 # 2) 1 0 (0, 1, 0); c07_nd 1 2 0 (0, 0, 0)];
       pb_dofs := [(0, 1, 2)%nat; (3, 4, 5)%nat; (6, 7, 8)%nat] |} ].
Definition c07_S' : list (pbar Q) :=
  [ {| pb_bar := turned_bar (3 # 5) (4 # 5) c07_cbar;
       pb_nodes := [c07_nd 0 0 0 (0, 0, 0); c07_nd (1 # 2) (3 # 5) (4 # 5) (0, 1, 0); c07_nd 1 (6 # 5) (8 # 5) (0, 0, 0)];
       pb_dofs := [(0, 1, 2)%nat; (3, 4, 5)%nat; (6, 7, 8)%nat] |} ].
Definition c07_u : list Q := [0; 0; 0; 0; 1 # 3; 1 # 2; 0; 5 # 6; 1 # 2].
Definition c07_kind (i : nat) : nat := nth i [0; 1; 2; 0; 1; 2; 0; 1; 2]%nat 2%nat.
Definition c07_pr (i : nat) : nat := nth i [1; 0; 2; 4; 3; 5; 7; 6; 8]%nat i.

Example C07_turned_structure_hypotheses_satisfiable :
  (forall i, c07_kind i = 0%nat -> c07_kind (c07_pr i) = 1%nat /\ c07_pr (c07_pr i) = i) /\
  (forall i, c07_kind i = 1%nat -> c07_kind (c07_pr i) = 0%nat /\ c07_pr (c07_pr i) = i) /\
  Forall2 (pbar_turned (3 # 5) (4 # 5)) c07_S c07_S' /\
  Forall (TurnedStructure.good_slice (3 # 5) (4 # 5) c07_kind c07_pr 9) (all_slices c07_S) /\
  (forall j, (j < 9)%nat -> c07_kind j <> 2%nat -> (c07_pr j < 9)%nat /\ is_supported [0; 1; 2]%nat (c07_pr j) = is_supported [0; 1; 2]%nat j) /\
  solves 9 c07_S [0; 1; 2]%nat c07_u /\
  map Qred (turn_u (3 # 5) (4 # 5) c07_kind c07_pr 9 c07_u) = [0; 0; 0; - (4 # 15); 1 # 5; 1 # 2; - (2 # 3); 1 # 2; 1 # 2].
Proof.
  split. { intros i. do 9 (destruct i as [|i]; [vm_compute; intros; try discriminate; split; reflexivity|]). destruct i; vm_compute; intros H; discriminate H. }
  split. { intros i. do 9 (destruct i as [|i]; [vm_compute; intros; try discriminate; split; reflexivity|]). destruct i; vm_compute; intros H; discriminate H. }
  split.
  { constructor; [| constructor]. unfold pbar_turned. split; [reflexivity|]. split; [reflexivity|].
    repeat constructor; vm_compute; reflexivity. }
  split.
  { apply Forall_forall. intros sl Hin. vm_compute in Hin.
    destruct Hin as [<- | [<- | []]];
      (split; [apply no_tiny_b_sound; vm_compute; reflexivity|]);
      (split; [apply no_tiny_b_sound; vm_compute; reflexivity|]);
      (split; [vm_compute; discriminate|]);
      (split; [repeat split; reflexivity|]);
      (split; [repeat split; reflexivity|]);
      repeat constructor. }
  split.
  { intros j Hj. do 9 (destruct j as [|j]; [vm_compute; intros; split; [lia || reflexivity | reflexivity]|]). exfalso; lia. }
  split; [| vm_compute; reflexivity].
  intros i Hi. do 9 (destruct i as [|i]; [vm_compute; reflexivity|]). exfalso; lia.
Qed.
