(* C03 — Support reactions balance the applied loads.
   Statements only; proofs live in Proofs/ReactionProofs.v.  The bar-end torsors come from
   start_torsor_gen / end_torsor_gen and the recovery from recover_gen (both regenerated from
   process/element_solution.go on every run); the summation over bars (Model/Recover.v
   reaction_at, node_reactions) is tied to process/solution.go by correspondence stage F. *)
From Coq Require Import ZArith QArith Qabs List Bool Arith Permutation.
From Inkfem Require Import Num.NumOps Gen.GenLoads Gen.GenRecover Spec.Stiffness
  Model.Types Model.Slice Model.Dof Model.Assemble Model.Recover Proofs.RecoverProofs Proofs.ReactionProofs.
Import ListNotations.
Local Open Scope Q_scope.

(* Every bar, any number of slices, every interior node in equilibrium: the torsor the start
   node exerts on the bar (-N0, V0, -M0), the torsor the end node exerts on it (Ne, -Ve, Me) at
   abscissa S, and everything applied to the bar in between balance: axial force, transverse
   force and moment about the bar start.  These two torsors are exactly what solve adds to the
   reactions of the bar's end nodes. *)
Theorem C03_bar_equilibrium : forall (b : bar Q) (u : list Q), good_bar b ->
  forall nb db ld rest na da, chain_ok b u na da ((nb, db, ld) :: rest) ->
  let all := (nb, db, ld) :: rest in
  let s0 := nvm b (fst (slice_recover b u na nb da db)) in
  let e := recovered_last b u na da all in
  let S := chain_length b na all in
  let F := chain_loads b 0 na all in
  - fst (fst s0) + fst (fst e) + fst (fst F) == 0 /\
  snd (fst s0) - snd (fst e) + snd (fst F) == 0 /\
  - snd s0 + snd e - S * snd (fst e) + snd F == 0.
Proof. exact bar_equilibrium. Qed.
Print Assumptions C03_bar_equilibrium.

(* the reaction of a node is the sum, over the bars that start or end there, of the bar-end
   torsor minus the load applied directly on that bar end *)
Theorem C03_reaction_is_sum : forall (eps : Q) (bars : list (pbar Q)) (u : list Q) (node : nat),
  tor_eqQ (reaction_at eps bars u node) (tor_sumQ (map (reaction_part eps u node) bars)).
Proof. exact reaction_is_sum. Qed.
Print Assumptions C03_reaction_is_sum.

Theorem C03_other_bars_do_not_contribute : forall (eps : Q) (u : list Q) (node : nat) (p : pbar Q),
  b_n1 (pb_bar p) <> node -> b_n2 (pb_bar p) <> node -> reaction_part eps u node p = tor0.
Proof. exact reaction_part_elsewhere. Qed.
Print Assumptions C03_other_bars_do_not_contribute.

Theorem C03_reaction_order_independent : forall (eps : Q) (bars bars' : list (pbar Q)) (u : list Q) (node : nat),
  Permutation bars bars' -> tor_eqQ (reaction_at eps bars u node) (reaction_at eps bars' u node).
Proof. exact reaction_order_independent. Qed.
Print Assumptions C03_reaction_order_independent.

(* a reaction is listed for every externally constrained node and for no other node *)
Theorem C03_reaction_keys : forall (eps : Q) (bars : list (pbar Q)) (u : list Q) (nodes : list (nat * link)) n r,
  In (n, r) (node_reactions eps bars u nodes) <->
  (exists l, In (n, l) nodes /\ is_constrained l = true) /\ r = reaction_at eps bars u n.
Proof. exact node_reactions_keys. Qed.
Print Assumptions C03_reaction_keys.

(* Non-vacuity: the two-element cantilever of C02 is a chain in equilibrium *)
Example C03_hypotheses_satisfiable :
  let b := {| b_n1 := 0; b_n2 := 1; b_l1 := rigid; b_l2 := rigid; b_x1 := 0; b_y1 := 0; b_x2 := 2; b_y2 := 0;
              b_L := 2; b_c := 1; b_s := 0; b_E := 1; b_A := 1; b_I := 1; b_S := 1; b_rho := 0;
              b_cl := []; b_dl := [] |} in
  let nd t e := {| pn_t := t; pn_x := 0; pn_y := 0; pn_ext := e; pn_left := (0, 0, 0); pn_right := (0, 0, 0) |} in
  let n0 := nd 0 (0, 0, 0) in let n1 := nd (1 # 2) (0, 1, 0) in let n2 := nd 1 (0, 0, 0) in
  let u := [0; 0; 0; 0; 1 # 3; 1 # 2; 0; 5 # 6; 1 # 2] in
  let z := {| sl_p1 := 0; sl_q1 := 0; sl_m1 := 0; sl_p2 := 0; sl_q2 := 0; sl_m2 := 0 |} in
  good_bar b /\ chain_ok b u n0 (0, 1, 2)%nat [(n1, (3, 4, 5)%nat, z); (n2, (6, 7, 8)%nat, z)].
Proof.
  cbn zeta. split.
  - unfold good_bar; cbn. repeat split; discriminate.
  - cbn [chain_ok]. unfold lumped, node_equilibrium, slice_len, tor_eqQ; cbn.
    repeat split; try discriminate; vm_compute; reflexivity.
Qed.
