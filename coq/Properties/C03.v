(* C03 — Support reactions balance the applied loads.
   Statements only; proofs live in Proofs/ReactionProofs.v.  The bar-end torsors come from
   start_torsor_gen / end_torsor_gen and the recovery from recover_gen (both regenerated from
   process/element_solution.go on every run); the summation over bars (Model/Recover.v
   reaction_at, node_reactions) is tied to process/solution.go by correspondence stage F. *)
From Coq Require Import ZArith QArith Qabs List Bool Arith Permutation Lia.
From Inkfem Require Import Num.NumOps Gen.GenStiffness Gen.GenLoads Gen.GenRecover Spec.Stiffness Spec.Superposition
  Model.Types Model.Slice Model.Dof Model.Assemble Model.Recover Proofs.RecoverProofs Proofs.ReactionProofs
  Proofs.FieldProofs Proofs.SystemProofs Proofs.ReactionLink.
Import ListNotations.
Local Open Scope Q_scope.

(* Every bar, any number of slices, every interior node in equilibrium: the torsor the start
   node exerts on the bar (-N0, V0, -M0), the torsor the end node exerts on it (Ne, -Ve, Me) at
   abscissa S, and everything applied to the bar in between balance: axial force, transverse
   force and moment about the bar start.  These two torsors are exactly what solve adds to the
   reactions of the bar's end nodes. *)
Theorem C03_bar_equilibrium : forall (b : bar Q) (u : list Q), good_bar b ->
  forall nb db ld rest na da, chain_ok b u na da ((nb, db, ld) :: rest) ->
  let all := (nb, db, ld) :: rest in
  let s0 := nvm b (fst (slice_recover b u na nb da db)) in
  let e := recovered_last b u na da all in
  let S := chain_length b na all in
  let F := chain_loads b 0 na all in
  - fst (fst s0) + fst (fst e) + fst (fst F) == 0 /\
  snd (fst s0) - snd (fst e) + snd (fst F) == 0 /\
  - snd s0 + snd e - S * snd (fst e) + snd F == 0.
Proof. exact bar_equilibrium. Qed.
Print Assumptions C03_bar_equilibrium.

(* the reaction of a node is the sum, over the bars that start or end there, of the bar-end
   torsor minus the load applied directly on that bar end *)
Theorem C03_reaction_is_sum : forall (eps : Q) (bars : list (pbar Q)) (u : list Q) (node : nat),
  tor_eqQ (reaction_at eps bars u node) (tor_sumQ (map (reaction_part eps u node) bars)).
Proof. exact reaction_is_sum. Qed.
Print Assumptions C03_reaction_is_sum.

Theorem C03_other_bars_do_not_contribute : forall (eps : Q) (u : list Q) (node : nat) (p : pbar Q),
  b_n1 (pb_bar p) <> node -> b_n2 (pb_bar p) <> node -> reaction_part eps u node p = tor0.
Proof. exact reaction_part_elsewhere. Qed.
Print Assumptions C03_other_bars_do_not_contribute.

Theorem C03_reaction_order_independent : forall (eps : Q) (bars bars' : list (pbar Q)) (u : list Q) (node : nat),
  Permutation bars bars' -> tor_eqQ (reaction_at eps bars u node) (reaction_at eps bars' u node).
Proof. exact reaction_order_independent. Qed.
Print Assumptions C03_reaction_order_independent.

(* a reaction is listed for every externally constrained node and for no other node *)
Theorem C03_reaction_keys : forall (eps : Q) (bars : list (pbar Q)) (u : list Q) (nodes : list (nat * link)) n r,
  In (n, r) (node_reactions eps bars u nodes) <->
  (exists l, In (n, l) nodes /\ is_constrained l = true) /\ r = reaction_at eps bars u n.
Proof. exact node_reactions_keys. Qed.
Print Assumptions C03_reaction_keys.

(* ---- the whole structure, from the system the model hands to the solver (C17) ----
   Row i of "K u = f", for a number that carries no support and has at least one stiffness term,
   says that the forces the finite elements exert at that number (slice stiffness, as assembled, x
   the slice's own displacements) equal the nodal loads assembled there: every unsupported
   equation is an equilibrium equation. *)
Theorem C03_rows_are_equilibrium : forall n bars sup u i,
  Forall (nums_below n) (all_slices bars) -> solves n bars sup u -> (i < n)%nat ->
  is_supported sup i = false -> row_empty (all_contribs bars) i = false ->
  fraw_at (k_terms u bars) i == fraw_at (all_fterms bars) i.
Proof. exact row_is_equilibrium. Qed.
Print Assumptions C03_rows_are_equilibrium.

(* supported numbers: the solution is exactly zero there *)
Theorem C03_supported_numbers_do_not_move : forall n bars sup u i,
  solves n bars sup u -> (i < n)%nat -> is_supported sup i = true -> uget u i == 0.
Proof. exact solves_supported. Qed.
Print Assumptions C03_supported_numbers_do_not_move.

(* GLOBAL EQUILIBRIUM.  support_force u bars i is what the supports must provide at number i:
   element forces minus assembled loads.  For every structure whose finite elements are labelled
   consistently (every number stands for one component at one position; the lead node of an
   element sits where the bar's direction puts it), and every u that solves the system: the support
   forces and ALL assembled nodal loads balance - sum of x components (w_tx), sum of y components
   (w_ty), and sum of moments about ANY point (px, py) (w_rot).  With C04 (the assembled nodal
   loads of a bar are statically equivalent to the user's loads on it) this is the property.
   The proof is the virtual work of a rigid movement: by C20 (rigid_tx / rigid_ty / rigid_rot,
   here in column form) no finite element resists it. *)
Theorem C03_support_forces_in_global_equilibrium : forall n sup u bars (lab : nat -> label),
  Forall (nums_below n) (all_slices bars) ->
  Forall (fun t => (fst t < n)%nat) (all_fterms bars) ->
  solves n bars sup u ->
  (forall i, (i < n)%nat -> row_empty (all_contribs bars) i = true -> fraw_at (all_fterms bars) i == 0) ->
  Forall (fun sl => no_tiny (s_k sl) /\ labelled lab sl /\ ~ slice_len (s_b sl) (s_na sl) (s_nb sl) == 0 /\
                    b_c (s_b sl) * b_c (s_b sl) + b_s (s_b sl) * b_s (s_b sl) == 1) (all_slices bars) ->
  forall w, (w = w_tx lab \/ w = w_ty lab \/ exists px py, w = w_rot lab px py) ->
  fsum n (fun i => if is_supported sup i then w i * support_force u bars i else 0) + wsum w (all_fterms bars) == 0.
Proof. exact support_forces_in_global_equilibrium. Qed.
Print Assumptions C03_support_forces_in_global_equilibrium.

(* THE REPORTED REACTIONS.  reaction_at is what solve lists for a node: over the bars that start or end
   there, the bar-end torsor rebuilt from the first / last listed diagram values, minus the load
   applied on that bar end.  For a node whose three numbers are shared by every bar end that meets it
   (rigid links) and occur nowhere else (meets: the bar starts there, ends there, or does not touch
   it), the reported reaction IS the triple of support forces of the equation form at those numbers -
   so, by the theorem above, the reported reactions of such supports are what balances the loads. *)
Theorem C03_reported_reaction_is_support_force : forall (eps : Q) (u : list Q) (bars : list (pbar Q)) (N : nat) (dN : dof3),
  NoDup (d3_list dN) ->
  (forall p, In p bars -> length (pb_nodes p) = length (pb_dofs p) /\ meets p N dN) ->
  tor_eqQ (reaction_at eps bars u N)
          (support_force u bars (fst (fst dN)), support_force u bars (snd (fst dN)), support_force u bars (snd dN)).
Proof. exact reported_reaction_is_support_force. Qed.
Print Assumptions C03_reported_reaction_is_support_force.

(* ... and at ANY joint: a bar end either carries the node's number in a component (its link
   constrains it) or a number of its own at which its support contribution vanishes - which is what
   that number's own row of the system says (C03_own_number_carries_no_support) - while the node's
   number does not occur in that bar.  Rigid, hinged, sliding ends in any mix. *)
Theorem C03_reported_reaction_is_support_force_at_any_joint : forall (eps : Q) (u : list Q) (bars : list (pbar Q)) (N : nat) (dN : dof3),
  (forall p, In p bars -> length (pb_nodes p) = length (pb_dofs p) /\ meets_gen u p N dN) ->
  tor_eqQ (reaction_at eps bars u N)
          (support_force u bars (fst (fst dN)), support_force u bars (snd (fst dN)), support_force u bars (snd dN)).
Proof. exact reported_reaction_is_support_force_gen. Qed.
Print Assumptions C03_reported_reaction_is_support_force_at_any_joint.

Theorem C03_own_number_carries_no_support : forall n sup u B1 p B2 e,
  let bars := B1 ++ p :: B2 in
  Forall (nums_below n) (all_slices bars) -> solves n bars sup u -> (e < n)%nat ->
  is_supported sup e = false -> row_empty (all_contribs bars) e = false ->
  ~ In e (bars_numbers B1) -> ~ In e (bars_numbers B2) ->
  bar_support u p e == 0.
Proof. exact own_number_no_support. Qed.
Print Assumptions C03_own_number_carries_no_support.

(* THE PROPERTY, for the reported reactions.  nodes: the structural nodes with their external
   constraint and their three numbers.  If each node's reported reaction is the support force at its
   numbers (the two theorems above) and a component its constraint leaves free carries no support
   force (C03_no_support_force_at_free_numbers), then the reactions solve reports and ALL assembled
   nodal loads balance: in x (w_tx), in y (w_ty) and in moment about any point (w_rot px py), where
   node_work w r d = w(dx number) r.fx + w(dy number) r.fy + w(rz number) r.mz. *)
Theorem C03_reported_reactions_in_global_equilibrium : forall (eps : Q) n u bars (lab : nat -> label) (nodes : list (nat * link * dof3)),
  let sup := supported_of (map (fun x => (snd (fst x), snd x)) nodes) in
  NoDup sup -> Forall (fun i => (i < n)%nat) sup ->
  Forall (nums_below n) (all_slices bars) ->
  Forall (fun t => (fst t < n)%nat) (all_fterms bars) ->
  solves n bars sup u ->
  (forall i, (i < n)%nat -> row_empty (all_contribs bars) i = true -> fraw_at (all_fterms bars) i == 0) ->
  Forall (fun sl => no_tiny (s_k sl) /\ labelled lab sl /\ ~ slice_len (s_b sl) (s_na sl) (s_nb sl) == 0 /\
                    b_c (s_b sl) * b_c (s_b sl) + b_s (s_b sl) * b_s (s_b sl) == 1) (all_slices bars) ->
  Forall (node_reaction_ok eps u bars) nodes ->
  forall w, (w = w_tx lab \/ w = w_ty lab \/ exists px py, w = w_rot lab px py) ->
  qsum (map (fun x => node_work w (reaction_at eps bars u (fst (fst x))) (snd x)) nodes) + wsum w (all_fterms bars) == 0.
Proof. exact reported_reactions_in_global_equilibrium. Qed.
Print Assumptions C03_reported_reactions_in_global_equilibrium.

(* no force along a direction the support leaves free: an unsupported number with a row has no
   support force at all *)
Theorem C03_no_support_force_at_free_numbers : forall n bars sup u i,
  Forall (nums_below n) (all_slices bars) -> solves n bars sup u -> (i < n)%nat ->
  is_supported sup i = false -> row_empty (all_contribs bars) i = false ->
  support_force u bars i == 0.
Proof.
  intros n bars sup u i Hn Hs Hi Hsup Hrow. unfold support_force.
  rewrite (row_is_equilibrium n bars sup u i Hn Hs Hi Hsup Hrow). ring.
Qed.
Print Assumptions C03_no_support_force_at_free_numbers.

(* the chain hypothesis of C03_bar_equilibrium is what the system's rows say at the interior nodes
   of a bar (statement and proof: Properties/C02.v C02_chain_from_system) *)

(* Non-vacuity: the two-element cantilever of C02 is a chain in equilibrium *)
Example C03_hypotheses_satisfiable :
  let b := {| b_n1 := 0; b_n2 := 1; b_l1 := rigid; b_l2 := rigid; b_x1 := 0; b_y1 := 0; b_x2 := 2; b_y2 := 0;
              b_L := 2; b_c := 1; b_s := 0; b_E := 1; b_A := 1; b_I := 1; b_S := 1; b_rho := 0;
              b_cl := []; b_dl := [] |} in
  let nd t e := {| pn_t := t; pn_x := 0; pn_y := 0; pn_ext := e; pn_left := (0, 0, 0); pn_right := (0, 0, 0) |} in
  let n0 := nd 0 (0, 0, 0) in let n1 := nd (1 # 2) (0, 1, 0) in let n2 := nd 1 (0, 0, 0) in
  let u := [0; 0; 0; 0; 1 # 3; 1 # 2; 0; 5 # 6; 1 # 2] in
  let z := {| sl_p1 := 0; sl_q1 := 0; sl_m1 := 0; sl_p2 := 0; sl_q2 := 0; sl_m2 := 0 |} in
  good_bar b /\ chain_ok b u n0 (0, 1, 2)%nat [(n1, (3, 4, 5)%nat, z); (n2, (6, 7, 8)%nat, z)].
Proof.
  cbn zeta. split.
  - unfold good_bar; cbn. repeat split; discriminate.
  - cbn [chain_ok]. unfold lumped, node_equilibrium, slice_len, tor_eqQ; cbn.
    repeat split; try discriminate; vm_compute; reflexivity.
Qed.

(* Non-vacuity of the structure-level theorems: the same cantilever as a sliced, numbered
   structure.  u solves the assembled system; every hypothesis holds; the support forces are
   (0, -1, -1) at the clamped numbers 0, 1, 2: they balance the unit load at x = 1. *)
Definition ex_bar : bar Q := {| b_n1 := 0; b_n2 := 1; b_l1 := rigid; b_l2 := rigid; b_x1 := 0; b_y1 := 0; b_x2 := 2; b_y2 := 0;
  b_L := 2; b_c := 1; b_s := 0; b_E := 1; b_A := 1; b_I := 1; b_S := 1; b_rho := 0; b_cl := []; b_dl := [] |}.
Definition ex_nd (t x : Q) (e : tor Q) : pnode Q := {| pn_t := t; pn_x := x; pn_y := 0; pn_ext := e; pn_left := (0, 0, 0); pn_right := (0, 0, 0) |}.
Definition ex_bars : list (pbar Q) :=
  [ {| pb_bar := ex_bar; pb_nodes := [ex_nd 0 0 (0, 0, 0); ex_nd (1 # 2) 1 (0, 1, 0); ex_nd 1 2 (0, 0, 0)];
       pb_dofs := [(0, 1, 2)%nat; (3, 4, 5)%nat; (6, 7, 8)%nat] |} ].
Definition ex_u : list Q := [0; 0; 0; 0; 1 # 3; 1 # 2; 0; 5 # 6; 1 # 2].
Definition ex_sup : list nat := [0; 1; 2]%nat.
Definition ex_lab (i : nat) : label :=
  {| lb_comp := Nat.modulo i 3; lb_x := match Nat.div i 3 with 0%nat => 0 | 1%nat => 1 | _ => 2 end; lb_y := 0 |}.

Example C03_structure_hypotheses_satisfiable :
  Forall (nums_below 9) (all_slices ex_bars) /\
  Forall (fun t => (fst t < 9)%nat) (all_fterms ex_bars) /\
  solves 9 ex_bars ex_sup ex_u /\
  (forall i, (i < 9)%nat -> row_empty (all_contribs ex_bars) i = true -> fraw_at (all_fterms ex_bars) i == 0) /\
  Forall (fun sl => no_tiny (s_k sl) /\ labelled ex_lab sl /\ ~ slice_len (s_b sl) (s_na sl) (s_nb sl) == 0 /\
                    b_c (s_b sl) * b_c (s_b sl) + b_s (s_b sl) * b_s (s_b sl) == 1) (all_slices ex_bars) /\
  map (fun i => Qred (support_force ex_u ex_bars i)) [0; 1; 2]%nat = [0; -1; -1].
Proof.
  split; [apply nums_below_b_sound; vm_compute; reflexivity|].
  split; [repeat constructor|].
  split.
  { intros i Hi. do 9 (destruct i as [|i]; [vm_compute; reflexivity|]). exfalso; lia. }
  split.
  { intros i Hi. do 9 (destruct i as [|i]; [vm_compute; intros; try discriminate; reflexivity|]). exfalso; lia. }
  split; [| vm_compute; reflexivity].
  apply Forall_forall. intros sl Hin. vm_compute in Hin.
  destruct Hin as [<- | [<- | []]];
    (split; [apply no_tiny_b_sound; vm_compute; reflexivity|]);
    (split; [unfold labelled, labelled_node; cbn; repeat split; reflexivity|]);
    (split; [vm_compute; discriminate | vm_compute; reflexivity]).
Qed.

(* ... and the clamped node 0 of that cantilever meets its only bar as the theorem requires: the
   reaction solve reports there is (0, -1, -1) *)
Example C03_reported_reaction_hypotheses_satisfiable :
  NoDup (d3_list (0, 1, 2)%nat) /\
  (forall p, In p ex_bars -> length (pb_nodes p) = length (pb_dofs p) /\ meets p 0%nat (0, 1, 2)%nat).
Proof.
  split; [repeat constructor; cbn; intuition discriminate|].
  intros p [<- | []]. split; [reflexivity|]. left. split; [reflexivity|]. split; [discriminate|].
  eexists _, _, _, _. split; [reflexivity|].
  split; [intros i Hi; cbn in Hi |- *; intuition (subst; discriminate)|].
  split; [unfold good_bar; cbn; repeat split; discriminate|].
  split; [vm_compute; discriminate|].
  split; [apply no_tiny_b_sound; vm_compute; reflexivity|].
  vm_compute. repeat split.
Qed.

(* A joint with a released bar end: the same beam, clamped at node 0 and HINGED to a clamped node 1
   (a propped cantilever).  The bar's end node carries (6, 7, 8): dx and dy are the node's numbers, the
   rotation 8 is the bar end's own; the node's rotation number 9 is referred to by no bar.  u solves the
   ten equations exactly; the reaction solve reports at node 1 is (0, -5/16, 0). *)
Definition ex2_bars : list (pbar Q) :=
  [ {| pb_bar := {| b_n1 := 0; b_n2 := 1; b_l1 := rigid; b_l2 := {| lk_dx := true; lk_dy := true; lk_rz := false |};
                    b_x1 := 0; b_y1 := 0; b_x2 := 2; b_y2 := 0; b_L := 2; b_c := 1; b_s := 0;
                    b_E := 1; b_A := 1; b_I := 1; b_S := 1; b_rho := 0; b_cl := []; b_dl := [] |};
       pb_nodes := [ex_nd 0 0 (0, 0, 0); ex_nd (1 # 2) 1 (0, 1, 0); ex_nd 1 2 (0, 0, 0)];
       pb_dofs := [(0, 1, 2)%nat; (3, 4, 5)%nat; (6, 7, 8)%nat] |} ].
Definition ex2_u : list Q := [0; 0; 0; 0; 7 # 96; 1 # 32; 0; 0; - (1 # 8); 0].
Definition ex2_sup : list nat := [0; 1; 2; 6; 7; 9]%nat.

Example C03_released_joint_hypotheses_satisfiable :
  solves 10 ex2_bars ex2_sup ex2_u /\
  (forall p, In p ex2_bars -> length (pb_nodes p) = length (pb_dofs p) /\ meets_gen ex2_u p 1%nat (6, 7, 9)%nat) /\
  map (fun i => Qred (support_force ex2_u ex2_bars i)) [6; 7; 9]%nat = [0; - (5 # 16); 0].
Proof.
  split.
  { intros i Hi. do 10 (destruct i as [|i]; [vm_compute; reflexivity|]). exfalso; lia. }
  split; [| vm_compute; reflexivity].
  intros p [<- | []]. split; [reflexivity|]. right. left. split; [discriminate|]. split; [reflexivity|].
  eexists _, _, _, _, _, _, _. split; [reflexivity|]. split; [reflexivity|].
  split; [repeat constructor; cbn; intuition discriminate|].
  split.
  { intros k Hk. assert (Hk' : (k = 0 \/ k = 1 \/ k = 2)%nat) by lia.
    destruct Hk' as [-> | [-> | ->]]; [left; reflexivity | left; reflexivity | right; split; vm_compute; reflexivity]. }
  split.
  { intros Q0 HQ i Hi.
    assert (EQ : Q0 = [(ex_nd 0 0 (0, 0, 0), (0, 1, 2)%nat)]).
    { destruct Q0 as [|x [|y [|z Q']]]; cbn in HQ; try discriminate.
      - injection HQ as <-. reflexivity.
      - injection HQ as _ _ HQ. destruct Q'; discriminate. }
    subst Q0. cbn in Hi |- *. intuition (subst; discriminate). }
  split; [unfold good_bar; cbn; repeat split; discriminate|].
  split; [vm_compute; discriminate|].
  split; [apply no_tiny_b_sound; vm_compute; reflexivity|].
  vm_compute. repeat split.
Qed.

(* the cantilever once more: its one supported node meets node_reaction_ok, so the headline theorem
   applies to it as it stands *)
Example C03_reported_balance_hypotheses_satisfiable :
  Forall (node_reaction_ok (1 # 100000) ex_u ex_bars) [(0%nat, rigid, (0, 1, 2)%nat)] /\
  supported_of (map (fun x : nat * link * dof3 => (snd (fst x), snd x)) [(0%nat, rigid, (0, 1, 2)%nat)]) = ex_sup.
Proof.
  split; [| reflexivity].
  constructor; [| constructor]. split.
  - exact (C03_reported_reaction_is_support_force (1 # 100000) ex_u ex_bars 0%nat (0, 1, 2)%nat
             (proj1 C03_reported_reaction_hypotheses_satisfiable) (proj2 C03_reported_reaction_hypotheses_satisfiable)).
  - cbn [fst snd rigid lk_dx lk_dy lk_rz]. repeat split; discriminate.
Qed.
