(* C13 — CLI file contract: outputs are complete, in place, and honour the flags.
   Statements only; proofs live in Proofs/CliProofs.v.  The skeleton the theorems speak about
   is built from Gen/GenCli.v, which the translator reads off cmd/solve.go on every run (where
   the wait-group is incremented, where the files are created, whether the writer signals and
   the main flow waits): if the code's synchronisation changes, the first theorem no longer
   type-checks.  The model's predictions are compared with the binary under the two extreme
   schedules the verif hooks impose (writer first / main flow reaches its end first), and the
   flag semantics are checked on the binary. *)
From Coq Require Import Arith List Bool.
From Coq Require Import QArith.
From Inkfem Require Import Num.NumOps Gen.GenCli Model.Cli Proofs.CliProofs Gen.GenAccept Proofs.AcceptBound.
Import ListNotations.

Definition code_skeleton : skeleton :=
  {| sk_add_before_spawn := cli_add_before_spawn; sk_writer_signals_done := cli_writer_signals_done;
     sk_waits_at_end := cli_waits_at_end; sk_pre_created_first := cli_pre_created_first;
     sk_sol_created_after_solve := cli_sol_created_after_solve |}.

(* every interleaving of the main flow with the background writer, every combination of
   solvable / unsolvable structure and creatable / uncreatable output files: a run that ends
   with status 0 has left a complete .inkfemsol and a complete .inkfempre; a run that fails
   has left no solution file behind *)
Theorem C13_solve_p_contract_under_every_schedule : forall solvable pre_ok sol_ok s,
  reachable code_skeleton (init solvable pre_ok sol_ok) s -> contract s = true.
Proof. exact good_contract. Qed.
Print Assumptions C13_solve_p_contract_under_every_schedule.

(* the exploration argument: an explored set closed under the step relation covers every
   interleaving, of any length *)
Theorem C13_closed_set_covers_all_interleavings : forall (k : skeleton) (s0 : state) (l : list state),
  In s0 l -> closed k l = true -> forall s, reachable k s0 s -> In s l.
Proof. exact reachable_in_closed. Qed.
Print Assumptions C13_closed_set_covers_all_interleavings.

(* the same system with the synchronisation the code had before its repairs, or with the
   wait-group incremented by the writer itself, does violate the contract on some interleaving:
   the theorem above is not vacuous and the model can exhibit the failures *)
Theorem C13_without_wait_refuted : exists s, reachable no_wait (init true true true) s /\ contract s = false.
Proof. exact no_wait_refuted. Qed.
Print Assumptions C13_without_wait_refuted.

Theorem C13_add_in_writer_refuted : exists s, reachable add_in_writer (init true true true) s /\ contract s = false.
Proof. exact add_in_writer_refuted. Qed.
Print Assumptions C13_add_in_writer_refuted.

Theorem C13_create_in_writer_refuted : exists s, reachable create_in_writer (init true false true) s /\ contract s = false.
Proof. exact create_in_writer_refuted. Qed.
Print Assumptions C13_create_in_writer_refuted.

(* -e is the error bound actually enforced: the bound handed to the acceptance test
   (ensureSolutionIsGoodEnough; Model/Recover.v accept, C05_accept_sound / C05_accept_complete) is the
   option itself for every value of it, zero and negative ones included - no default is put in its place *)
Theorem C13_error_option_is_the_bound_enforced : forall e : Q, (accept_bound (O:=QOps) e == e)%Q.
Proof. exact accept_bound_is_the_option. Qed.
Print Assumptions C13_error_option_is_the_bound_enforced.
