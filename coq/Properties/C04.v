(* C04 — Preprocessing conserves every applied load (static equivalence per bar).
   Statements only; proofs live in Proofs/LoadsProofs.v.  lump_gen and own_weight_gen are
   regenerated from preprocess/apply_distributed_loads.go and structure/element.go on every
   run; the slicing / attachment logic (Model/Slice.v, Model/Loads.v) is tied to the code by
   correspondence stage B. *)
From Coq Require Import ZArith QArith Qabs Reals List Bool.
From Inkfem Require Import Num.NumOps Gen.GenLoads Model.Types Model.Slice Model.Loads
  Spec.Resultant Proofs.LoadsProofs.
Import ListNotations.

(* ---- kernel: the two nodal loads of one finite element are statically equivalent to the
   linearly varying load on it (force, and moment about the trail node); all reals ---- *)
Theorem C04_lump_equivalent_R : forall (sFx sFy sMz eFx eFy eMz len : R), (len <> 0)%R ->
  let r := lump_gen (O:=ROps) sFx sFy sMz eFx eFy eMz len in
  let tl := fst r in let ld := snd r in
  (t_fx tl + t_fx ld = (sFx + eFx) / 2 * len)%R /\
  (t_fy tl + t_fy ld = (sFy + eFy) / 2 * len)%R /\
  (t_mz tl + t_mz ld + len * t_fy ld = (sMz + eMz) / 2 * len + len * len * (sFy + 2 * eFy) / 6)%R.
Proof. exact lump_equivalent_R. Qed.
Print Assumptions C04_lump_equivalent_R.

Theorem C04_lump_equivalent_Q : forall (sFx sFy sMz eFx eFy eMz len : Q), ~ (len == 0)%Q ->
  let r := lump_gen (O:=QOps) sFx sFy sMz eFx eFy eMz len in
  let tl := fst r in let ld := snd r in
  (t_fx tl + t_fx ld == (sFx + eFx) / 2 * len)%Q /\
  (t_fy tl + t_fy ld == (sFy + eFy) / 2 * len)%Q /\
  (t_mz tl + t_mz ld + len * t_fy ld == (sMz + eMz) / 2 * len + len * len * (sFy + 2 * eFy) / 6)%Q.
Proof. exact lump_equivalent_Q. Qed.
Print Assumptions C04_lump_equivalent_Q.

(* ---- every bar, every load list: what the slice nodes carry has the resultant of what the
   user applied (both force components, moment about the bar start) ---- *)
Theorem C04_bar_equivalence : forall (b : bar Q),
  wf_geom b -> spans_ok b -> eps_separated b ->
  tor_eq (sum_about_start b (slice_bar b)) (resultant b).
Proof. exact bar_equivalence. Qed.
Print Assumptions C04_bar_equivalence.

(* ---- own weight: exactly density x area x length, downwards in global axes, once ---- *)
Theorem C04_own_weight : forall (b : bar Q), wf_geom b ->
  let w := dl_resultant b (own_weight_load b) in
  tor_eq (resultant (with_own_weight b)) (tor_add (resultant b) w) /\
  (t_fx (to_global (b_c b) (b_s b) w) == 0)%Q /\
  (t_fy (to_global (b_c b) (b_s b) w) == - (b_rho b * b_A b * b_L b))%Q.
Proof. exact own_weight_resultant. Qed.
Print Assumptions C04_own_weight.

Theorem C04_with_weight_equivalence : forall (b : bar Q),
  wf_geom b -> spans_ok b -> eps_separated b ->
  tor_eq (sum_about_start b (preprocess_bar true b)) (resultant (with_own_weight b)).
Proof. exact weighted_bar_equivalence. Qed.
Print Assumptions C04_with_weight_equivalence.

(* ---- histories: preprocessing is a function of the structure it is given and leaves it
   unchanged, so the n-th invocation on the same structure yields what the first did ---- *)
Definition pre_state : Type := (list (bar Q) * option (list (list (pnode Q))))%type.
Definition pre_step (w : bool) (s : pre_state) : pre_state :=
  (fst s, Some (map (preprocess_bar w) (fst s))).
Theorem C04_history : forall (w : bool) (bars : list (bar Q)) (n : nat), (1 <= n)%nat ->
  Nat.iter n (pre_step w) (bars, None) = (bars, Some (map (preprocess_bar w) bars)).
Proof. exact preprocess_history. Qed.
Print Assumptions C04_history.

(* Non-vacuity: an inclined 3-4-5 bar with a partial-span load next to a cut and a load on a cut *)
Example C04_hypotheses_satisfiable :
  let b := {| b_n1 := 0; b_n2 := 1; b_l1 := rigid; b_l2 := rigid; b_x1 := 0; b_y1 := 0; b_x2 := 30; b_y2 := 40;
              b_L := 50; b_c := 3 # 5; b_s := 4 # 5; b_E := 1; b_A := 1; b_I := 1; b_S := 1; b_rho := 1;
              b_cl := [ {| cl_term := FY; cl_local := false; cl_t := 3 # 10; cl_v := -100 |} ];
              b_dl := [ {| dl_term := FY; dl_local := true; dl_t0 := 3005 # 10000; dl_v0 := -10;
                           dl_t1 := 7 # 10; dl_v1 := -30 |} ] |}%Q in
  wf_geom b /\ spans_ok b.
Proof.
  cbn. split.
  - unfold wf_geom; cbn. repeat split; reflexivity.
  - unfold spans_ok; cbn. split; intros l [<-|[]]; cbn; repeat split; discriminate || reflexivity.
Qed.
