(* C20 — Bar stiffness is symmetric, free of rigid-body forces and orientation-covariant.
   stiff_gen is regenerated from structure/element.go (StiffnessGlobalMat) on every run.
   Statements only; proofs live in Proofs/StiffnessR.v and Proofs/StiffnessQ.v. *)
From Coq Require Import ZArith QArith Reals List.
From Inkfem Require Import Num.NumOps Gen.GenStiffness Spec.Stiffness Proofs.StiffnessR Proofs.StiffnessQ.
Import ListNotations.

(* ---- all real angles, lengths, sub-spans, material/section values ---- *)
Theorem C20_symmetric_R : forall (L c s t1 t2 E A I : R), (L * (t2 - t1) <> 0)%R ->
  forall i j : nat, (i < 6)%nat -> (j < 6)%nat ->
  entry (stiff_gen (O:=ROps) L c s t1 t2 E A I) i j = entry (stiff_gen (O:=ROps) L c s t1 t2 E A I) j i.
Proof. exact stiff_symmetric_R. Qed.
Print Assumptions C20_symmetric_R.

Theorem C20_rigid_tx_R : forall (L c s t1 t2 E A I : R), (L * (t2 - t1) <> 0)%R ->
  mv (stiff_gen (O:=ROps) L c s t1 t2 E A I) rigid_tx = [0; 0; 0; 0; 0; 0]%R.
Proof. exact stiff_rigid_tx_R. Qed.
Print Assumptions C20_rigid_tx_R.

Theorem C20_rigid_ty_R : forall (L c s t1 t2 E A I : R), (L * (t2 - t1) <> 0)%R ->
  mv (stiff_gen (O:=ROps) L c s t1 t2 E A I) rigid_ty = [0; 0; 0; 0; 0; 0]%R.
Proof. exact stiff_rigid_ty_R. Qed.
Print Assumptions C20_rigid_ty_R.

(* small rotation about ANY point (px, py), span starting at ANY point (x, y) *)
Theorem C20_rigid_rot_R : forall (L c s t1 t2 E A I : R), (L * (t2 - t1) <> 0)%R -> (c * c + s * s = 1)%R ->
  forall x y px py,
  mv (stiff_gen (O:=ROps) L c s t1 t2 E A I) (rigid_rot c s (L * (t2 - t1))%R x y px py) = [0; 0; 0; 0; 0; 0]%R.
Proof. exact stiff_rigid_rot_R. Qed.
Print Assumptions C20_rigid_rot_R.

(* equals the standard local stiffness rotated by the bar's angle, and its terms are the four
   coefficients EA/l, EI/l^3, EI/l^2, EI/l of the sub-span length l = L (t2 - t1): the
   right-hand side mentions l only through them *)
Theorem C20_rotated_local_and_scaling_R : forall (L c s t1 t2 E A I : R), (L * (t2 - t1) <> 0)%R ->
  let l := (L * (t2 - t1))%R in
  stiff_gen (O:=ROps) L c s t1 t2 E A I
  = rotated_local c s (E * A / l)%R (E * I / (l * l * l))%R (E * I / (l * l))%R (E * I / l)%R.
Proof. exact stiff_rotated_local_R. Qed.
Print Assumptions C20_rotated_local_and_scaling_R.

Theorem C20_psd_R : forall (L c s t1 t2 E A I x1 y1 r1 x2 y2 r2 : R),
  (0 < L * (t2 - t1))%R -> (c * c + s * s = 1)%R -> (0 <= E * A)%R -> (0 <= E * I)%R ->
  let d := [x1; y1; r1; x2; y2; r2] in
  (0 <= dot d (mv (stiff_gen (O:=ROps) L c s t1 t2 E A I) d))%R.
Proof. exact stiff_psd_R. Qed.
Print Assumptions C20_psd_R.

(* ---- the same over Q, the instance that is executed against the implementation ---- *)
Theorem C20_symmetric_Q : forall (L c s t1 t2 E A I : Q), ~ (L * (t2 - t1) == 0)%Q ->
  forall i j : nat, (i < 6)%nat -> (j < 6)%nat ->
  (entry (stiff_gen (O:=QOps) L c s t1 t2 E A I) i j == entry (stiff_gen (O:=QOps) L c s t1 t2 E A I) j i)%Q.
Proof. exact stiff_symmetric_Q. Qed.
Print Assumptions C20_symmetric_Q.

Theorem C20_rigid_tx_Q : forall (L c s t1 t2 E A I : Q), ~ (L * (t2 - t1) == 0)%Q ->
  veq (mv (stiff_gen (O:=QOps) L c s t1 t2 E A I) rigid_tx) zero6.
Proof. exact stiff_rigid_tx_Q. Qed.
Print Assumptions C20_rigid_tx_Q.

Theorem C20_rigid_ty_Q : forall (L c s t1 t2 E A I : Q), ~ (L * (t2 - t1) == 0)%Q ->
  veq (mv (stiff_gen (O:=QOps) L c s t1 t2 E A I) rigid_ty) zero6.
Proof. exact stiff_rigid_ty_Q. Qed.
Print Assumptions C20_rigid_ty_Q.

Theorem C20_rigid_rot_Q : forall (L c s t1 t2 E A I : Q), ~ (L * (t2 - t1) == 0)%Q -> (c * c + s * s == 1)%Q ->
  forall x y px py,
  veq (mv (stiff_gen (O:=QOps) L c s t1 t2 E A I) (rigid_rot c s (L * (t2 - t1))%Q x y px py)) zero6.
Proof. exact stiff_rigid_rot_Q. Qed.
Print Assumptions C20_rigid_rot_Q.

Theorem C20_rotated_local_and_scaling_Q : forall (L c s t1 t2 E A I : Q), ~ (L * (t2 - t1) == 0)%Q ->
  let l := (L * (t2 - t1))%Q in
  meq (stiff_gen (O:=QOps) L c s t1 t2 E A I)
      (rotated_local c s (E * A / l)%Q (E * I / (l * l * l))%Q (E * I / (l * l))%Q (E * I / l)%Q).
Proof. exact stiff_rotated_local_Q. Qed.
Print Assumptions C20_rotated_local_and_scaling_Q.

Theorem C20_psd_Q : forall (L c s t1 t2 E A I x1 y1 r1 x2 y2 r2 : Q),
  (0 < L * (t2 - t1))%Q -> (c * c + s * s == 1)%Q -> (0 <= E * A)%Q -> (0 <= E * I)%Q ->
  let d := [x1; y1; r1; x2; y2; r2] in
  (0 <= dot d (mv (stiff_gen (O:=QOps) L c s t1 t2 E A I) d))%Q.
Proof. exact stiff_psd_Q. Qed.
Print Assumptions C20_psd_Q.

(* Non-vacuity: a 3-4-5 bar, sub-span [1/10, 7/20], meets every hypothesis above. *)
Example C20_hypotheses_satisfiable :
  (0 < 250 * ((7#20) - (1#10)))%Q /\ ((3#5) * (3#5) + (4#5) * (4#5) == 1)%Q
  /\ (0 <= 21000000 * (103#10))%Q /\ (0 <= 21000000 * 171)%Q.
Proof. repeat split; try reflexivity; discriminate. Qed.
