(* C19 — generate emits the documented reticular frame.
   Statements only; proofs live in Proofs/GenerateProofs.v.  Every piece of index arithmetic
   (Gen/GenReticular.v) is regenerated from generate/reticular.go on every run, so the theorems
   are re-checked against the code's current formulas; the loops (Model/Generate.v) are tied
   to the binary's output by correspondence for all grid sizes up to a bound, zeros included. *)
From Coq Require Import ZArith QArith Arith Bool List.
From Inkfem Require Import Model.Types Gen.GenReticular Model.Generate Proofs.GenerateProofs.
Import ListNotations.
Local Open Scope nat_scope.

(* for every number of spans and levels the bars are exactly: one loaded beam between
   horizontal neighbours in every row above the ground, one unloaded column between vertical
   neighbours - in the order the loop produces them *)
Theorem C19_bars_are_the_grid : forall spans levels,
  map bar_proj (gen_bars spans levels) = spec_bars spans levels.
Proof. exact gen_bars_spec. Qed.
Print Assumptions C19_bars_are_the_grid.

(* the slice Go allocates with the barsCount formula is filled exactly: no empty slot, no
   index out of range, whatever the grid size *)
Theorem C19_bars_count_exact : forall spans levels,
  Z.of_nat (length (gen_bars spans levels)) = ret_bars_count (ret_rows_Z (Z.of_nat levels)) (ret_cols_Z (Z.of_nat spans)).
Proof. exact bars_count_exact. Qed.
Print Assumptions C19_bars_count_exact.

Theorem C19_beams_and_columns_counted : forall spans levels,
  length (filter (fun p => snd p) (spec_bars spans levels)) = spans * levels /\
  length (filter (fun p => negb (snd p)) (spec_bars spans levels)) = (spans + 1) * levels.
Proof. exact count_loaded. Qed.
Print Assumptions C19_beams_and_columns_counted.

Theorem C19_bar_ids : forall spans levels,
  map gb_id (gen_bars spans levels) = seq 1 (length (gen_bars spans levels)).
Proof. exact bars_ids. Qed.
Print Assumptions C19_bar_ids.

Theorem C19_bar_ends_are_grid_nodes : forall spans levels n1 n2 ld,
  In (n1, n2, ld) (spec_bars spans levels) ->
  1 <= n1 <= (spans + 1) * (levels + 1) /\ 1 <= n2 <= (spans + 1) * (levels + 1) /\ n1 <> n2.
Proof. exact bars_end_nodes_in_grid. Qed.
Print Assumptions C19_bar_ends_are_grid_nodes.

(* (spans+1)(levels+1) nodes numbered along the rows, on the regular grid, bottom row fixed *)
Theorem C19_nodes_are_the_grid : forall spans levels span height,
  map gn_id (gen_nodes spans levels span height) = seq 1 ((levels + 1) * (spans + 1)) /\
  forall nd, In nd (gen_nodes spans levels span height) ->
    exists i j, i <= levels /\ j <= spans /\ gn_id nd = idx spans i j /\
      (gn_x nd == inject_Z (Z.of_nat j) * span)%Q /\ (gn_y nd == inject_Z (Z.of_nat i) * height)%Q /\
      gn_fixed nd = (i =? 0).
Proof. exact gen_nodes_spec. Qed.
Print Assumptions C19_nodes_are_the_grid.

(* all bars rigidly linked; beams carry the one downward uniform local load, columns none *)
Theorem C19_links_and_loads :
  ret_beam_rigid = true /\ ret_column_rigid = true /\ ret_beam_loaded = true /\ ret_column_loaded = false /\
  forall v, ret_load v = {| dl_term := FY; dl_local := true; dl_t0 := 0%Q; dl_v0 := (- v)%Q; dl_t1 := 1%Q; dl_v1 := (- v)%Q |}.
Proof. repeat split. Qed.
Print Assumptions C19_links_and_loads.

(* levels = 0 yields a bar-less definition with its row of fixed nodes *)
Example C19_no_levels : gen_bars 3 0 = [] /\ length (gen_nodes 3 0 1 1) = 4.
Proof. split; reflexivity. Qed.
