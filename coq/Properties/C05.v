(* C05 — Solve either meets the requested error or fails loudly.
   Statements only; proofs live in Proofs/AcceptProofs.v.  The decision function
   (Model/Recover.v accept) models ensureSolutionIsGoodEnough of process/solve_displacements.go
   and is tied to it by correspondence stage E: on every run it is evaluated on the system
   handed to the solver and on the solver's answer (as observed through the verif hook) and
   its verdict is compared with whether the implementation went on to write results.
   The solver itself (inkmath PCG) is an oracle: its answer is an arbitrary list of floats,
   NaN and infinities included (None). *)
From Coq Require Import ZArith QArith Qabs List Bool Arith.
From Inkfem Require Import Num.NumOps Model.Types Model.Slice Model.Dof Model.Assemble Model.Recover
  Proofs.AcceptProofs Gen.GenAccept Proofs.AcceptBound Gen.GenPcg Proofs.PcgProofs.
Import ListNotations.
Local Open Scope Q_scope.

(* whatever the solver answered: an accepted answer is finite and satisfies every equation
   of the system within the requested error *)
Theorem C05_accept_sound : forall eps K f o u,
  accept eps K f o = Some u ->
  ~ In None o /\ u = strip o /\ length u = length f /\
  forall i, (i < length f)%nat -> Qabs (residual K f u i) <= eps.
Proof. exact accept_sound. Qed.
Print Assumptions C05_accept_sound.

(* and every such answer is accepted: the decision is exactly the property *)
Theorem C05_accept_complete : forall eps K f o,
  ~ In None o -> length o = length f ->
  (forall i, (i < length f)%nat -> Qabs (residual K f (strip o) i) <= eps) ->
  accept eps K f o = Some (strip o).
Proof. exact accept_complete. Qed.
Print Assumptions C05_accept_complete.

Theorem C05_nonfinite_rejected : forall eps K f o, In None o -> accept eps K f o = None.
Proof. exact accept_rejects_nonfinite. Qed.
Print Assumptions C05_nonfinite_rejected.

Theorem C05_large_residual_rejected : forall eps K f o i,
  (i < length f)%nat -> ~ Qabs (residual K f (strip o) i) <= eps -> accept eps K f o = None.
Proof. exact accept_rejects_residual. Qed.
Print Assumptions C05_large_residual_rejected.

(* supported degrees of freedom (trivial equations, C17_constraints_only_touch): the accepted
   value is within eps of zero.  "Exactly zero" is what the external solver delivers on an
   identity row; it is observed by the oracle on every run, not provable from /repo's code. *)
Theorem C05_supported_within_eps_partial : forall eps K f o u i,
  accept eps K f o = Some u -> (i < length f)%nat -> trivial_row K i -> uget f i == 0 ->
  Qabs (uget u i) <= eps.
Proof. exact accept_supported. Qed.
Print Assumptions C05_supported_within_eps_partial.

(* "exactly zero", on a model of the solver: Gen/GenPcg.v holds the loop of the preconditioned conjugate gradient of the inkmath
   release that /repo's go.mod pins and /repo's diagonal preconditioner, compared statement by statement with the source on
   every run.  Whatever the step lengths, after any number of passes of the loop the unknown of a trivial equation is exactly
   zero; the supported numbers of every assembled system are such equations.  (In floating point the argument holds while the
   step lengths are finite; otherwise the answer holds a NaN, which C05_nonfinite_rejected turns away.) *)
Theorem C05_trivial_equations_stay_exactly_zero_in_the_solver : forall (n : nat) (A : nat -> nat -> Q) (b : nat -> Q) (i k : nat),
  trivial_equation n A b i -> pcg_answer n A b k i == 0.
Proof. exact trivial_equations_stay_exactly_zero. Qed.
Print Assumptions C05_trivial_equations_stay_exactly_zero_in_the_solver.

Theorem C05_supported_numbers_are_exactly_zero_in_the_solver :
  forall (n : nat) (cs : list (nat * nat * Q)) (fs : list (nat * Q)) (sup : list nat) (i k : nat),
  (i < n)%nat -> is_supported sup i = true -> pcg_answer n (k_final cs sup) (f_final fs sup) k i == 0.
Proof. exact supported_numbers_stay_exactly_zero. Qed.
Print Assumptions C05_supported_numbers_are_exactly_zero_in_the_solver.

(* the vector the solver's loop tests (its r) is, in exact arithmetic, f - K x for the x it would return, after any number of
   passes (C09_what_the_solver_finds_good_enough_passes_the_acceptance_test draws the consequence for the tolerance it is given) *)
Theorem C05_the_residual_the_solver_tests_is_the_residual_of_its_answer : forall (n : nat) (A : nat -> nat -> Q) (b : nat -> Q) (k i : nat),
  pcg_r (pcg_iter n A k (pcg_init n A b)) i == b i - pcg_mv n A (pcg_answer n A b k) i.
Proof. intros. apply the_residual_tested_is_the_residual_of_the_answer. Qed.
Print Assumptions C05_the_residual_the_solver_tests_is_the_residual_of_its_answer.

(* the model of the solver is a solver: 4x + y = 1, x + 3y = 2, z = 0 is solved exactly after two passes (and not after one) *)
Example C05_the_solver_model_solves :
  let A (i j : nat) : Q := match i, j with O, O => 4 | O, 1%nat => 1 | 1%nat, O => 1 | 1%nat, 1%nat => 3 | 2%nat, 2%nat => 1 | _, _ => 0 end in
  let b (i : nat) : Q := match i with O => 1 | 1%nat => 2 | _ => 0 end in
  trivial_equation 3 A b 2 /\
  pcg_answer 3 A b 2 0 == 1 # 11 /\ pcg_answer 3 A b 2 1 == 7 # 11 /\ pcg_answer 3 A b 2 2 == 0 /\ ~ pcg_answer 3 A b 1 0 == 1 # 11.
Proof.
  cbv zeta. split.
  - split; [repeat constructor|]. split; [| reflexivity]. intros [|[|[|j]]] Hj; reflexivity.
  - repeat split; try (vm_compute; reflexivity). vm_compute. discriminate.
Qed.

(* the command: a rejected answer leaves the file system as it was; a solution file that
   appears holds an accepted answer *)
Theorem C05_failed_writes_nothing : forall (A : Type) eps K f o (fs : list (A * list Q)) path,
  solve_outcome eps K f o = Failed -> files_after fs path (solve_outcome eps K f o) = fs.
Proof. exact @failed_writes_nothing. Qed.
Print Assumptions C05_failed_writes_nothing.

Theorem C05_written_is_good : forall (A : Type) eps K f o (fs : list (A * list Q)) path u,
  In (path, u) (files_after fs path (solve_outcome eps K f o)) -> ~ In (path, u) fs ->
  ~ In None o /\ forall i, (i < length f)%nat -> Qabs (residual K f u i) <= eps.
Proof. exact @written_is_good. Qed.
Print Assumptions C05_written_is_good.

(* Non-vacuity: a 2x2 system, an answer within the error is accepted, a NaN is not *)
Example C05_accepts_somewhere :
  let K : list (nat * nat * Q) := [(0%nat, 0%nat, 2); (0%nat, 1%nat, -1); (1%nat, 0%nat, -1); (1%nat, 1%nat, 2)] in
  accept (1 # 100) K [1; 0] [Some (2 # 3); Some (1 # 3)] = Some [2 # 3; 1 # 3] /\
  accept (1 # 100) K [1; 0] [Some (2 # 3); None] = None /\
  accept (1 # 100) K [1; 0] [Some (2 # 3); Some (1 # 2)] = None.
Proof. vm_compute. repeat split. Qed.

(* the bound the acceptance test is given (Gen/GenAccept.v, regenerated from computeGlobalDisplacements)
   is the requested error itself, and the error reported with the displacements is that same number *)
Theorem C05_acceptance_bound_is_the_requested_error : forall e : Q,
  accept_bound (O:=QOps) e == e /\ reported_error (O:=QOps) e == e.
Proof. intro e. split; [apply accept_bound_is_the_option | apply reported_error_is_the_option]. Qed.
Print Assumptions C05_acceptance_bound_is_the_requested_error.
