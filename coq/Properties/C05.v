(* C05 — Solve either meets the requested error or fails loudly.
   Statements only; proofs live in Proofs/AcceptProofs.v.  The decision function
   (Model/Recover.v accept) models ensureSolutionIsGoodEnough of process/solve_displacements.go
   and is tied to it by correspondence stage E: on every run it is evaluated on the system
   handed to the solver and on the solver's answer (as observed through the verif hook) and
   its verdict is compared with whether the implementation went on to write results.
   The solver itself (inkmath PCG) is an oracle: its answer is an arbitrary list of floats,
   NaN and infinities included (None). *)
From Coq Require Import ZArith QArith Qabs List Bool Arith.
From Inkfem Require Import Num.NumOps Model.Types Model.Slice Model.Dof Model.Assemble Model.Recover
  Proofs.AcceptProofs Gen.GenAccept Proofs.AcceptBound.
Import ListNotations.
Local Open Scope Q_scope.

(* whatever the solver answered: an accepted answer is finite and satisfies every equation
   of the system within the requested error *)
Theorem C05_accept_sound : forall eps K f o u,
  accept eps K f o = Some u ->
  ~ In None o /\ u = strip o /\ length u = length f /\
  forall i, (i < length f)%nat -> Qabs (residual K f u i) <= eps.
Proof. exact accept_sound. Qed.
Print Assumptions C05_accept_sound.

(* and every such answer is accepted: the decision is exactly the property *)
Theorem C05_accept_complete : forall eps K f o,
  ~ In None o -> length o = length f ->
  (forall i, (i < length f)%nat -> Qabs (residual K f (strip o) i) <= eps) ->
  accept eps K f o = Some (strip o).
Proof. exact accept_complete. Qed.
Print Assumptions C05_accept_complete.

Theorem C05_nonfinite_rejected : forall eps K f o, In None o -> accept eps K f o = None.
Proof. exact accept_rejects_nonfinite. Qed.
Print Assumptions C05_nonfinite_rejected.

Theorem C05_large_residual_rejected : forall eps K f o i,
  (i < length f)%nat -> ~ Qabs (residual K f (strip o) i) <= eps -> accept eps K f o = None.
Proof. exact accept_rejects_residual. Qed.
Print Assumptions C05_large_residual_rejected.

(* supported degrees of freedom (trivial equations, C17_constraints_only_touch): the accepted
   value is within eps of zero.  "Exactly zero" is what the external solver delivers on an
   identity row; it is observed by the oracle on every run, not provable from /repo's code. *)
Theorem C05_supported_within_eps_partial : forall eps K f o u i,
  accept eps K f o = Some u -> (i < length f)%nat -> trivial_row K i -> uget f i == 0 ->
  Qabs (uget u i) <= eps.
Proof. exact accept_supported. Qed.
Print Assumptions C05_supported_within_eps_partial.

(* the command: a rejected answer leaves the file system as it was; a solution file that
   appears holds an accepted answer *)
Theorem C05_failed_writes_nothing : forall (A : Type) eps K f o (fs : list (A * list Q)) path,
  solve_outcome eps K f o = Failed -> files_after fs path (solve_outcome eps K f o) = fs.
Proof. exact @failed_writes_nothing. Qed.
Print Assumptions C05_failed_writes_nothing.

Theorem C05_written_is_good : forall (A : Type) eps K f o (fs : list (A * list Q)) path u,
  In (path, u) (files_after fs path (solve_outcome eps K f o)) -> ~ In (path, u) fs ->
  ~ In None o /\ forall i, (i < length f)%nat -> Qabs (residual K f u i) <= eps.
Proof. exact @written_is_good. Qed.
Print Assumptions C05_written_is_good.

(* Non-vacuity: a 2x2 system, an answer within the error is accepted, a NaN is not *)
Example C05_accepts_somewhere :
  let K : list (nat * nat * Q) := [(0%nat, 0%nat, 2); (0%nat, 1%nat, -1); (1%nat, 0%nat, -1); (1%nat, 1%nat, 2)] in
  accept (1 # 100) K [1; 0] [Some (2 # 3); Some (1 # 3)] = Some [2 # 3; 1 # 3] /\
  accept (1 # 100) K [1; 0] [Some (2 # 3); None] = None /\
  accept (1 # 100) K [1; 0] [Some (2 # 3); Some (1 # 2)] = None.
Proof. vm_compute. repeat split. Qed.

(* the bound the acceptance test is given (Gen/GenAccept.v, regenerated from computeGlobalDisplacements)
   is the requested error itself, and the error reported with the displacements is that same number *)
Theorem C05_acceptance_bound_is_the_requested_error : forall e : Q,
  accept_bound (O:=QOps) e == e /\ reported_error (O:=QOps) e == e.
Proof. intro e. split; [apply accept_bound_is_the_option | apply reported_error_is_the_option]. Qed.
Print Assumptions C05_acceptance_bound_is_the_requested_error.
