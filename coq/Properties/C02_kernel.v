(* Kernel theorems shared by C01 and C02: on every finite element, for every end
   displacement and every linearly varying distributed force, the exact Euler-Bernoulli
   field (Spec/Beam.v) (i) interpolates the end displacements, (ii) satisfies the
   differential equations at every x, (iii) has end forces equal to (standard local
   stiffness) x (end displacements) minus the code's equivalent nodal loads (lump_gen,
   regenerated from apply_distributed_loads.go), and (iv) has section forces at the two ends
   equal to what the code's stress recovery (recover_gen, regenerated from
   element_solution.go) reports.  Over R (all reals) and Q.  Proofs: Proofs/BeamProofs.v. *)
From Coq Require Import ZArith QArith Reals List.
From Inkfem Require Import Num.NumOps Gen.GenLoads Gen.GenRecover Spec.Stiffness Spec.Beam Model.Types
  Proofs.BeamProofs.
Import ListNotations.

(* ---------------- over R ---------------- *)
Theorem beam_interpolates_R : forall (EA EI l u1 v1 r1 u2 v2 r2 p1 p2 q1 q2 : R),
  (EA <> 0 -> EI <> 0 -> l <> 0 ->
  let u := axial_field (O:=ROps) EA l u1 u2 p1 p2 in
  let v := trans_field (O:=ROps) EI l v1 r1 v2 r2 q1 q2 in
  peval u 0 = u1 /\ peval u l = u2 /\
  peval v 0 = v1 /\ peval (pderiv v) 0 = r1 /\ peval v l = v2 /\ peval (pderiv v) l = r2)%R.
Proof. exact interpolates_R. Qed.
Print Assumptions beam_interpolates_R.

Theorem beam_ode_R : forall (EA EI l u1 v1 r1 u2 v2 r2 p1 p2 q1 q2 x : R),
  (EA <> 0 -> EI <> 0 -> l <> 0 ->
  let u := axial_field (O:=ROps) EA l u1 u2 p1 p2 in
  let v := trans_field (O:=ROps) EI l v1 r1 v2 r2 q1 q2 in
  EA * peval (pderiv (pderiv u)) x = - lin p1 p2 l x /\
  EI * peval (pderiv (pderiv (pderiv (pderiv v)))) x = lin q1 q2 l x)%R.
Proof. exact ode_R. Qed.
Print Assumptions beam_ode_R.

(* end forces of the exact field = k_local d - equivalent nodal loads of the code *)
Theorem beam_end_forces_R : forall (EA EI l u1 v1 r1 u2 v2 r2 p1 p2 q1 q2 : R),
  (EA <> 0 -> EI <> 0 -> l <> 0 ->
  let u := axial_field (O:=ROps) EA l u1 u2 p1 p2 in
  let v := trans_field (O:=ROps) EI l v1 r1 v2 r2 q1 q2 in
  let lump := lump_gen (O:=ROps) p1 q1 0 p2 q2 0 l in
  let feq := [t_fx (fst lump); t_fy (fst lump); t_mz (fst lump); t_fx (snd lump); t_fy (snd lump); t_mz (snd lump)] in
  end_forces EA EI l u v = map (fun p => fst p - snd p) (combine (mv (k_local EA EI l) [u1; v1; r1; u2; v2; r2]) feq))%R.
Proof. exact end_forces_R. Qed.
Print Assumptions beam_end_forces_R.

(* what the code's recovery lists at the two ends of the element are the section forces of
   the exact field: axial stress N/A, shear EI v''', bending moment EI v'', top fibre M/S *)
Theorem beam_recovery_R : forall (E A I S l u1 v1 r1 u2 v2 r2 p1 p2 q1 q2 : R),
  (E <> 0 -> A <> 0 -> I <> 0 -> S <> 0 -> l <> 0 ->
  let u := axial_field (O:=ROps) (E * A) l u1 u2 p1 p2 in
  let v := trans_field (O:=ROps) (E * I) l v1 r1 v2 r2 q1 q2 in
  let lump := lump_gen (O:=ROps) p1 q1 0 p2 q2 0 l in
  let tl := fst lump in let ld := snd lump in
  recover_gen (O:=ROps) E I S A l u1 v1 r1 u2 v2 r2 (t_fx tl) (t_fy tl) (t_mz tl) (t_fx ld) (t_fy ld) (t_mz ld)
  = ((N_of (E * A) u 0 / A, V_of (E * I) v 0, M_of (E * I) v 0, M_of (E * I) v 0 / S),
     (N_of (E * A) u l / A, V_of (E * I) v l, M_of (E * I) v l, M_of (E * I) v l / S)))%R.
Proof. exact recovery_R. Qed.
Print Assumptions beam_recovery_R.

(* statics inside the element: N' = -p, V' = q, M' = V at every x *)
Theorem beam_statics_R : forall (EA EI l u1 v1 r1 u2 v2 r2 p1 p2 q1 q2 x : R),
  (EA <> 0 -> EI <> 0 -> l <> 0 ->
  let u := axial_field (O:=ROps) EA l u1 u2 p1 p2 in
  let v := trans_field (O:=ROps) EI l v1 r1 v2 r2 q1 q2 in
  N_of EA u x = N_of EA u 0 - (p1 * x + (p2 - p1) * x * x / (2 * l)) /\
  V_of EI v x = V_of EI v 0 + (q1 * x + (q2 - q1) * x * x / (2 * l)) /\
  M_of EI v x = M_of EI v 0 + V_of EI v 0 * x + (q1 * x * x / 2 + (q2 - q1) * x * x * x / (6 * l)))%R.
Proof. exact statics_R. Qed.
Print Assumptions beam_statics_R.

(* ---------------- over Q ---------------- *)
Definition qveq (a b : list Q) : Prop := Forall2 Qeq a b.

Theorem beam_end_forces_Q : forall (EA EI l u1 v1 r1 u2 v2 r2 p1 p2 q1 q2 : Q),
  (~ EA == 0 -> ~ EI == 0 -> ~ l == 0 ->
  let u := axial_field (O:=QOps) EA l u1 u2 p1 p2 in
  let v := trans_field (O:=QOps) EI l v1 r1 v2 r2 q1 q2 in
  let lump := lump_gen (O:=QOps) p1 q1 0 p2 q2 0 l in
  let feq := [t_fx (fst lump); t_fy (fst lump); t_mz (fst lump); t_fx (snd lump); t_fy (snd lump); t_mz (snd lump)] in
  qveq (end_forces EA EI l u v)
       (map (fun p => fst p - snd p) (combine (mv (k_local EA EI l) [u1; v1; r1; u2; v2; r2]) feq)))%Q.
Proof. exact end_forces_Q. Qed.
Print Assumptions beam_end_forces_Q.

Theorem beam_recovery_Q : forall (E A I S l u1 v1 r1 u2 v2 r2 p1 p2 q1 q2 : Q),
  (~ E == 0 -> ~ A == 0 -> ~ I == 0 -> ~ S == 0 -> ~ l == 0 ->
  let u := axial_field (O:=QOps) (E * A) l u1 u2 p1 p2 in
  let v := trans_field (O:=QOps) (E * I) l v1 r1 v2 r2 q1 q2 in
  let lump := lump_gen (O:=QOps) p1 q1 0 p2 q2 0 l in
  let tl := fst lump in let ld := snd lump in
  let r := recover_gen (O:=QOps) E I S A l u1 v1 r1 u2 v2 r2 (t_fx tl) (t_fy tl) (t_mz tl) (t_fx ld) (t_fy ld) (t_mz ld) in
  let a := fst r in let b := snd r in
  fst (fst (fst a)) == N_of (E * A) u 0 / A /\ snd (fst (fst a)) == V_of (E * I) v 0 /\
  snd (fst a) == M_of (E * I) v 0 /\ snd a == M_of (E * I) v 0 / S /\
  fst (fst (fst b)) == N_of (E * A) u l / A /\ snd (fst (fst b)) == V_of (E * I) v l /\
  snd (fst b) == M_of (E * I) v l /\ snd b == M_of (E * I) v l / S)%Q.
Proof. exact recovery_Q. Qed.
Print Assumptions beam_recovery_Q.

Theorem beam_ode_Q : forall (EA EI l u1 v1 r1 u2 v2 r2 p1 p2 q1 q2 x : Q),
  (~ EA == 0 -> ~ EI == 0 -> ~ l == 0 ->
  let u := axial_field (O:=QOps) EA l u1 u2 p1 p2 in
  let v := trans_field (O:=QOps) EI l v1 r1 v2 r2 q1 q2 in
  EA * peval (pderiv (pderiv u)) x == - lin p1 p2 l x /\
  EI * peval (pderiv (pderiv (pderiv (pderiv v)))) x == lin q1 q2 l x /\
  peval u 0 == u1 /\ peval u l == u2 /\
  peval v 0 == v1 /\ peval (pderiv v) 0 == r1 /\ peval v l == v2 /\ peval (pderiv v) l == r2)%Q.
Proof. exact ode_Q. Qed.
Print Assumptions beam_ode_Q.
