(* C16 — Equation numbering is a bijection that encodes exactly the declared connectivity.
   Statements only; proofs live in Proofs/DofProofs.v.  The model (Model/Dof.v) is tied to
   preprocess/structure.go AssignDof by correspondence stage C. *)
From Coq Require Import Arith List Bool Lia Permutation.
From Inkfem Require Import Model.Types Model.Dof Spec.Unknowns Proofs.DofProofs.
Import ListNotations.

(* every bar gets one triple per slice node *)
Theorem C16_shape : forall bars, Forall wf_skel bars ->
  length (bar_dofs bars) = length bars /\
  forall bi, bi < length bars -> length (nth bi (bar_dofs bars) []) = sk_nn (skel_at bars bi).
Proof. exact assign_shape. Qed.
Print Assumptions C16_shape.

(* a slice-node component carries exactly the number of the unknown it stands for: bar ends
   share the structural node's number where their link constrains the component, everything
   else has a number of its own *)
Theorem C16_number_is_unknowns : forall bars, Forall wf_skel bars ->
  forall bi ni c, valid bars bi ni ->
  num_of_unknown bars (unknown_of bi (skel_at bars bi) ni c) = Some (num_at bars bi ni c).
Proof. exact number_is_unknowns. Qed.
Print Assumptions C16_number_is_unknowns.

(* the numbering of the existing unknowns is a bijection onto 0 .. count-1 *)
Theorem C16_bijection : forall bars, Forall wf_skel bars ->
  (forall u k, exists_unknown bars u -> num_of_unknown bars u = Some k -> k < dof_count bars) /\
  (forall u v k, exists_unknown bars u -> exists_unknown bars v ->
     num_of_unknown bars u = Some k -> num_of_unknown bars v = Some k -> u = v) /\
  (forall k, k < dof_count bars -> exists u, exists_unknown bars u /\ num_of_unknown bars u = Some k) /\
  (forall n, is_end_node bars n -> exists d, lookup n (node_dofs bars) = Some d).
Proof. exact numbering_bijection. Qed.
Print Assumptions C16_bijection.

(* hence: two slice-node components carry the same number iff they are the same unknown *)
Theorem C16_same_number_iff_same_unknown : forall bars, Forall wf_skel bars ->
  forall bi ni c bj nj d, valid bars bi ni -> valid bars bj nj ->
  (num_at bars bi ni c = num_at bars bj nj d <->
   unknown_of bi (skel_at bars bi) ni c = unknown_of bj (skel_at bars bj) nj d).
Proof. exact same_number_iff_same_unknown. Qed.
Print Assumptions C16_same_number_iff_same_unknown.

(* bars rigidly linked to the same node share all three numbers *)
Theorem C16_rigid_bars_share_all_three : forall bars, Forall wf_skel bars ->
  forall bi bj, bi < length bars -> bj < length bars ->
  sk_l1 (skel_at bars bi) = rigid -> sk_l1 (skel_at bars bj) = rigid ->
  sk_n1 (skel_at bars bi) = sk_n1 (skel_at bars bj) ->
  nth 0 (nth bi (bar_dofs bars) []) (0, 0, 0) = nth 0 (nth bj (bar_dofs bars) []) (0, 0, 0).
Proof. exact rigid_bars_share. Qed.
Print Assumptions C16_rigid_bars_share_all_three.

(* any other processing order of the bars (any arrival order of the slicing workers, any
   outcome of the unstable sort) induces the same partition of the components into unknowns *)
Theorem C16_order_independent : forall bars bars' (p : list nat),
  Forall wf_skel bars -> Permutation p (seq 0 (length bars)) ->
  bars' = map (skel_at bars) p ->
  forall i j ni nj c d, i < length p -> j < length p ->
  valid bars' i ni -> valid bars' j nj ->
  (num_at bars' i ni c = num_at bars' j nj d <->
   num_at bars (nth i p 0) ni c = num_at bars (nth j p 0) nj d).
Proof. exact order_independent. Qed.
Print Assumptions C16_order_independent.

(* Non-vacuity: two bars meeting at node 1, the second pinned there *)
Example C16_hypotheses_satisfiable :
  Forall wf_skel [ {| sk_n1 := 0; sk_n2 := 1; sk_l1 := rigid; sk_l2 := rigid; sk_nn := 7 |};
                   {| sk_n1 := 1; sk_n2 := 2; sk_l1 := {| lk_dx := true; lk_dy := true; lk_rz := false |}; sk_l2 := rigid; sk_nn := 11 |} ].
Proof. repeat constructor; unfold wf_skel; cbn; lia. Qed.
