(* C02 — Axial, shear and bending diagrams satisfy statics along every bar.
   Statements only; proofs live in Proofs/RecoverProofs.v (and Proofs/BeamProofs.v for the
   kernel file Properties/C02_kernel.v).  recover_gen is regenerated from
   process/element_solution.go on every run; the loops around it (Model/Recover.v) are tied
   to the code by correspondence stage F. *)
From Coq Require Import ZArith QArith Qabs List Bool Arith.
From Inkfem Require Import Num.NumOps Gen.GenStiffness Gen.GenLoads Gen.GenRecover Spec.Stiffness Spec.Superposition
  Model.Types Model.Slice Model.Dof Model.Assemble Model.Recover Proofs.RecoverProofs Proofs.FieldProofs Proofs.SystemProofs.
Import ListNotations.
Local Open Scope Q_scope.

(* what the recovery lists at the two ends of a finite element are the forces the element
   exchanges with its nodes: stiffness x displacements minus the nodal loads it brought *)
Theorem C02_recovered_are_element_forces : forall (b : bar Q) (u : list Q) (na nb : pnode Q) (da db : dof3),
  good_bar b -> ~ slice_len b na nb == 0 ->
  let r := slice_recover b u na nb da db in
  let t := nvm b (fst r) in let l := nvm b (snd r) in
  Forall2 Qeq (mv (slice_k b na nb) (slice_d b u da db))
    [ - fst (fst t) + t_fx (pn_left na); snd (fst t) + t_fy (pn_left na); - snd t + t_mz (pn_left na);
      fst (fst l) + t_fx (pn_right nb); - snd (fst l) + t_fy (pn_right nb); snd l + t_mz (pn_right nb) ].
Proof. exact recover_end_forces. Qed.
Print Assumptions C02_recovered_are_element_forces.

(* where a concentrated load acts the two listed values differ by exactly that load
   (axial force by -Fx, shear by +Fy, bending moment by -Mz), for every node in equilibrium *)
Theorem C02_jump_is_load : forall (b : bar Q) (u : list Q) (n0 n1 n2 : pnode Q) (d0 d1 d2 : dof3),
  good_bar b -> ~ slice_len b n0 n1 == 0 -> ~ slice_len b n1 n2 == 0 ->
  node_equilibrium b u n0 n1 n2 d0 d1 d2 ->
  let left_of := nvm b (snd (slice_recover b u n0 n1 d0 d1)) in
  let right_of := nvm b (fst (slice_recover b u n1 n2 d1 d2)) in
  fst (fst right_of) == fst (fst left_of) - t_fx (pn_ext n1) /\
  snd (fst right_of) == snd (fst left_of) + t_fy (pn_ext n1) /\
  snd right_of == snd left_of - t_mz (pn_ext n1).
Proof. exact jump_is_load. Qed.
Print Assumptions C02_jump_is_load.

(* along an element: N' = -p, V' = q, M' = V - m for its linear distributed loads *)
Theorem C02_slice_statics : forall (b : bar Q) (u : list Q) (na nb : pnode Q) (da db : dof3) p1 q1 m1 p2 q2 m2,
  good_bar b -> ~ slice_len b na nb == 0 ->
  lumped na nb (slice_len b na nb) p1 q1 m1 p2 q2 m2 ->
  let r := slice_recover b u na nb da db in
  nvm_eq (nvm b (snd r)) (cross_slice (slice_len b na nb) p1 q1 m1 p2 q2 m2 (nvm b (fst r))).
Proof. exact slice_statics. Qed.
Print Assumptions C02_slice_statics.

(* every bar, any number of slices: all listed values equal the section forces obtained by
   marching from the first listed values across every element (its distributed loads) and
   every interior node (its concentrated load) *)
Theorem C02_chain_statics : forall (b : bar Q) (u : list Q), good_bar b ->
  forall rest na da, chain_ok b u na da rest ->
  match rest with
  | [] => True
  | (nb, db, _) :: _ =>
    Forall2 pair_eq (recovered b u na da rest)
                    (march b na rest (nvm b (fst (slice_recover b u na nb da db))))
  end.
Proof. exact chain_statics. Qed.
Print Assumptions C02_chain_statics.

(* ---- where the hypothesis node_equilibrium comes from: the system of equations ----
   For every list of sliced, numbered bars and every u that solves the system the model hands to
   the solver (Model/Assemble.v k_final / f_final, C17): if the three numbers of an interior slice
   node belong to it alone (C16: interior slice nodes have numbers of their own), carry no support
   and have a row, the three rows ARE the node's equilibrium in the bar's axes. *)
Theorem C02_interior_rows_are_node_equilibrium : forall n sup u B1 B2 p P S x0 x1 x2,
  let bars := B1 ++ p :: B2 in
  let b := pb_bar p in
  pbar_nds p = P ++ x0 :: x1 :: x2 :: S ->
  Forall (nums_below n) (all_slices bars) -> solves n bars sup u ->
  good_bar b -> b_c b * b_c b + b_s b * b_s b == 1 ->
  ~ slice_len b (fst x0) (fst x1) == 0 -> ~ slice_len b (fst x1) (fst x2) == 0 ->
  no_tiny (s_k {| s_b := b; s_na := fst x0; s_nb := fst x1; s_da := snd x0; s_db := snd x1 |}) ->
  no_tiny (s_k {| s_b := b; s_na := fst x1; s_nb := fst x2; s_da := snd x1; s_db := snd x2 |}) ->
  NoDup (d3_list (snd x1)) ->
  (forall i, In i (d3_list (snd x1)) ->
     (i < n)%nat /\ is_supported sup i = false /\ row_empty (all_contribs bars) i = false /\
     ~ In i (d3_list (snd x0)) /\ ~ In i (d3_list (snd x2)) /\
     alone i B1 B2 (P ++ [x0]) (x2 :: S)) ->
  node_equilibrium b u (fst x0) (fst x1) (fst x2) (snd x0) (snd x1) (snd x2).
Proof. exact interior_node_equilibrium. Qed.
Print Assumptions C02_interior_rows_are_node_equilibrium.

(* the same for all interior nodes of all bars at once, under hypotheses that are COMPUTED (they are
   evaluated on the implementation's own sliced structures by correspondence stage D) *)
Theorem C02_system_gives_interior_equilibrium : forall n sup u bars,
  nums_below_b n bars = true -> interior_private_b n sup bars = true -> forallb slices_sound_b bars = true ->
  solves n bars sup u ->
  forall B1 p B2, bars = B1 ++ p :: B2 -> interior_ok (pb_bar p) u (pbar_nds p).
Proof. exact system_gives_interior_equilibrium_b. Qed.
Print Assumptions C02_system_gives_interior_equilibrium.

(* hence the chain hypothesis of C02_chain_statics (and of C03_bar_equilibrium, C01_field_across_node)
   holds for every bar of a solved structure whose nodal loads are the lumped loads *)
Theorem C02_chain_from_system : forall n sup u bars,
  Forall (nums_below n) (all_slices bars) -> interior_private n sup bars -> solves n bars sup u ->
  forall B1 p B2 na da rest, bars = B1 ++ p :: B2 -> slices_sound p ->
  pbar_nds p = (na, da) :: map strip_load rest -> chain_static (pb_bar p) na rest ->
  chain_ok (pb_bar p) u na da rest.
Proof. exact system_gives_chain_ok. Qed.
Print Assumptions C02_chain_from_system.

Theorem C02_top_fibre : forall (b : bar Q) (u : list Q) (na nb : pnode Q) (da db : dof3),
  let r := slice_recover b u na nb da db in
  q_tf (fst r) = q_bm (fst r) / b_S b /\ q_tf (snd r) = q_bm (snd r) / b_S b.
Proof. exact top_fibre_is_M_over_S. Qed.
Print Assumptions C02_top_fibre.

Theorem C02_local_is_rotated_global : forall (b : bar Q) (u : list Q) (d : dof3),
  let g := node_global u d in
  node_local b u d = (t_fx g * b_c b + t_fy g * b_s b, t_fy g * b_c b - t_fx g * b_s b, t_mz g).
Proof. exact local_is_rotated_global. Qed.
Print Assumptions C02_local_is_rotated_global.

(* the listing drops a value only when it repeats the last listed one *)
Theorem C02_merge_only_repeats : forall (eps : Q) (acc : list psv) (x : psv),
  push_if_new eps acc x = x :: acc \/
  exists l rest, acc = l :: rest /\ push_if_new eps acc x = acc /\
                 Qabs (snd l - snd x) < eps /\ Qabs (fst l - fst x) < 1 # 10000000000.
Proof. exact push_if_new_spec. Qed.
Print Assumptions C02_merge_only_repeats.

(* Non-vacuity: a two-element chain in equilibrium.  Horizontal bar, E = A = I = S = 1, L = 2,
   nodes at t = 0, 1/2, 1; clamped at 0, unit transverse load at the middle node:
   v(1) = 1/3, r(1) = 1/2 and the end node (free, unloaded) at v(2) = 5/6, r(2) = 1/2. *)
Example C02_chain_hypotheses_satisfiable :
  let b := {| b_n1 := 0; b_n2 := 1; b_l1 := rigid; b_l2 := rigid; b_x1 := 0; b_y1 := 0; b_x2 := 2; b_y2 := 0;
              b_L := 2; b_c := 1; b_s := 0; b_E := 1; b_A := 1; b_I := 1; b_S := 1; b_rho := 0;
              b_cl := []; b_dl := [] |} in
  let nd t e := {| pn_t := t; pn_x := 0; pn_y := 0; pn_ext := e; pn_left := (0, 0, 0); pn_right := (0, 0, 0) |} in
  let n0 := nd 0 (0, 0, 0) in let n1 := nd (1 # 2) (0, 1, 0) in let n2 := nd 1 (0, 0, 0) in
  let u := [0; 0; 0; 0; 1 # 3; 1 # 2; 0; 5 # 6; 1 # 2] in
  let z := {| sl_p1 := 0; sl_q1 := 0; sl_m1 := 0; sl_p2 := 0; sl_q2 := 0; sl_m2 := 0 |} in
  good_bar b /\
  chain_ok b u n0 (0, 1, 2)%nat [(n1, (3, 4, 5)%nat, z); (n2, (6, 7, 8)%nat, z)].
Proof.
  cbn zeta. split.
  - unfold good_bar; cbn. repeat split; discriminate.
  - cbn [chain_ok]. unfold lumped, node_equilibrium, slice_len, tor_eqQ; cbn.
    repeat split; try discriminate; vm_compute; reflexivity.
Qed.
