(* C15 — Every bar is sliced into a well-formed chain of nodes.
   Statements only; proofs live in Proofs/SliceQ.v.  The model (Model/Slice.v, Model/Loads.v)
   is tied to preprocess/*.go by correspondence stage B; slice counts and the minimum cut
   distance come from Gen/GenConsts.v (regenerated from the source). *)
From Coq Require Import ZArith QArith Qabs List Sorted.
From Inkfem Require Import Num.NumOps Gen.GenConsts Model.Types Model.Slice Model.Loads Spec.Chain Proofs.SliceQ.
Import ListNotations.
Local Open Scope Q_scope.

(* positions of a loaded bar, for ANY load lists with t in [0,1] and ANY number of uniform cuts *)
Theorem C15_loaded_positions : forall (cl : list (cload Q)) (dl : list (dload Q)) (n : nat),
  loads_in_unit cl dl -> (0 < n)%nat ->
  chain_ok (slice_positions cl dl n) cl dl /\
  (2 <= length (slice_positions cl dl n) <= n + 1 + n_load_positions cl dl)%nat.
Proof. exact slice_positions_ok. Qed.
Print Assumptions C15_loaded_positions.

(* whole bars: axial / unloaded / loaded, with or without own weight *)
Theorem C15_chain : forall (w : bool) (b : bar Q), loads_in_unit (b_cl b) (b_dl b) ->
  let b' := if w then with_own_weight b else b in
  let nodes := preprocess_bar w b in
  chain_ok (map (@pn_t Q) nodes) (b_cl b') (b_dl b') /\
  (forall nd, In nd nodes ->
     pn_x nd == b_x1 b + pn_t nd * (b_x2 b - b_x1 b) /\
     pn_y nd == b_y1 b + pn_t nd * (b_y2 b - b_y1 b)) /\
  (is_axial b' = true -> length nodes = 2%nat) /\
  (is_axial b' = false -> has_loads b' = false -> length nodes = 7%nat) /\
  (is_axial b' = false -> has_loads b' = true ->
     (2 <= length nodes <= 11 + n_load_positions (b_cl b') (b_dl b'))%nat).
Proof. exact preprocess_bar_chain. Qed.
Print Assumptions C15_chain.

(* Non-vacuity: a bar with a load 5e-4 before its end and one 5e-4 after a uniform cut *)
Example C15_hypotheses_satisfiable :
  loads_in_unit [ {| cl_term := FY; cl_local := true; cl_t := 9995 # 10000; cl_v := -100 |};
                  {| cl_term := FY; cl_local := true; cl_t := 1005 # 10000; cl_v := -100 |} ] [].
Proof. split; [intros l [<-|[<-|[]]]; split; cbn; discriminate | intros l []]. Qed.
