(* C11 — The .inkfemsol file is a complete and faithful record of the solution.
   Statements only; proofs live in Proofs/SeriesProofs.v and Proofs/ReactionProofs.v.  What is
   proved here concerns the series a bar's block is made of (Model/Recover.v, tied to
   process/element_solution.go by stage F): sizes and positions.  That the text written by
   io/sol holds exactly those series, under the ten tags in order, one block per bar and one
   reaction line per supported node, with every number equal to the computed value at the
   printed precision, is decided on every run by an independent parser of the written text
   (the template is exercised, not modelled). *)
From Coq Require Import ZArith QArith Qabs List Bool Arith String.
From Inkfem Require Import Num.NumOps Gen.GenRecover Model.Types Model.Slice Model.Dof Model.Assemble Model.Recover
  Proofs.RecoverProofs Proofs.ReactionProofs Proofs.SeriesProofs Model.Template Gen.GenTemplates Proofs.TemplateProofs.
Import ListNotations.

(* each of the four diagram series of a bar with n slice nodes lists between n and 2n - 2 values *)
Theorem C11_diagram_sizes : forall (eps : Q) (p : pbar Q) (u : list Q),
  List.length (pb_nodes p) = List.length (pb_dofs p) -> (2 <= List.length (pb_nodes p))%nat ->
  let n := List.length (pb_nodes p) in
  let s := compute_stresses eps p u in
  (n <= List.length (s_ax s) <= 2 * n - 2 /\ n <= List.length (s_sh s) <= 2 * n - 2 /\
   n <= List.length (s_bm s) <= 2 * n - 2 /\ n <= List.length (s_tf s) <= 2 * n - 2)%nat.
Proof. exact diagram_sizes. Qed.
Print Assumptions C11_diagram_sizes.

(* one displacement triple per slice node, global and local, at the nodes' own positions *)
Theorem C11_displacement_series : forall (p : pbar Q) (u : list Q),
  List.length (pb_nodes p) = List.length (pb_dofs p) ->
  List.length (displ_global p u) = List.length (pb_nodes p) /\ List.length (displ_local p u) = List.length (pb_nodes p) /\
  map fst (displ_global p u) = map (@pn_t Q) (pb_nodes p) /\ map fst (displ_local p u) = map (@pn_t Q) (pb_nodes p).
Proof. exact displacement_series. Qed.
Print Assumptions C11_displacement_series.

(* one reaction entry per externally constrained node and for no other node *)
Theorem C11_reaction_lines : forall (eps : Q) (bars : list (pbar Q)) (u : list Q) (nodes : list (nat * link)) n r,
  In (n, r) (node_reactions eps bars u nodes) <->
  (exists l, In (n, l) nodes /\ is_constrained l = true) /\ r = reaction_at eps bars u n.
Proof. exact node_reactions_keys. Qed.
Print Assumptions C11_reaction_lines.

(* THE FILE.  io/sol/solution.template.txt, as parsed by text/template/parse and regenerated into
   Gen/GenTemplates.v on every run, rendered by the model of text/template (Model/Template.v, tied to
   Go's own output by correspondence stage G) over ANY solution - any number of reactions, bars and
   series entries, every number already printed - is exactly the documented layout: the version
   header, |reactions| with one line per reaction entry, |bars| with one block per bar holding its
   definition line and the ten tags __gdx__ __gdy__ __grz__ __ldx__ __ldy__ __lrz__ __axial__
   __shear__ __bend__ __bend_axial_stress__ in this order, each followed by one line per entry of
   its series.  spec_solution (Proofs/TemplateProofs.v) writes that layout out independently of the
   template; it is also evaluated against the text Go wrote (stage G). *)
Theorem C11_solution_file_is_the_documented_layout : forall d : sol_doc,
  render tmpl_solution (sol_ctx d) = spec_solution d.
Proof. exact solution_template_renders_the_documented_layout. Qed.
Print Assumptions C11_solution_file_is_the_documented_layout.

Theorem C11_solution_file_starts_with_the_version : forall d : sol_doc,
  exists rest, render tmpl_solution (sol_ctx d) = ("inkfem v" ++ sd_major d ++ "." ++ sd_minor d ++ nl ++ rest)%string.
Proof. exact solution_text_starts_with_version. Qed.
Print Assumptions C11_solution_file_starts_with_the_version.
