(* C11 — The .inkfemsol file is a complete and faithful record of the solution.
   Statements only; proofs live in Proofs/SeriesProofs.v and Proofs/ReactionProofs.v.  What is
   proved here concerns the series a bar's block is made of (Model/Recover.v, tied to
   process/element_solution.go by stage F): sizes and positions.  That the text written by
   io/sol holds exactly those series, under the ten tags in order, one block per bar and one
   reaction line per supported node, with every number equal to the computed value at the
   printed precision, is decided on every run by an independent parser of the written text
   (the template is exercised, not modelled). *)
From Coq Require Import ZArith QArith Qabs List Bool Arith.
From Inkfem Require Import Num.NumOps Gen.GenRecover Model.Types Model.Slice Model.Dof Model.Assemble Model.Recover
  Proofs.RecoverProofs Proofs.ReactionProofs Proofs.SeriesProofs.
Import ListNotations.

(* each of the four diagram series of a bar with n slice nodes lists between n and 2n - 2 values *)
Theorem C11_diagram_sizes : forall (eps : Q) (p : pbar Q) (u : list Q),
  length (pb_nodes p) = length (pb_dofs p) -> (2 <= length (pb_nodes p))%nat ->
  let n := length (pb_nodes p) in
  let s := compute_stresses eps p u in
  (n <= length (s_ax s) <= 2 * n - 2 /\ n <= length (s_sh s) <= 2 * n - 2 /\
   n <= length (s_bm s) <= 2 * n - 2 /\ n <= length (s_tf s) <= 2 * n - 2)%nat.
Proof. exact diagram_sizes. Qed.
Print Assumptions C11_diagram_sizes.

(* one displacement triple per slice node, global and local, at the nodes' own positions *)
Theorem C11_displacement_series : forall (p : pbar Q) (u : list Q),
  length (pb_nodes p) = length (pb_dofs p) ->
  length (displ_global p u) = length (pb_nodes p) /\ length (displ_local p u) = length (pb_nodes p) /\
  map fst (displ_global p u) = map (@pn_t Q) (pb_nodes p) /\ map fst (displ_local p u) = map (@pn_t Q) (pb_nodes p).
Proof. exact displacement_series. Qed.
Print Assumptions C11_displacement_series.

(* one reaction entry per externally constrained node and for no other node *)
Theorem C11_reaction_lines : forall (eps : Q) (bars : list (pbar Q)) (u : list Q) (nodes : list (nat * link)) n r,
  In (n, r) (node_reactions eps bars u nodes) <->
  (exists l, In (n, l) nodes /\ is_constrained l = true) /\ r = reaction_at eps bars u n.
Proof. exact node_reactions_keys. Qed.
Print Assumptions C11_reaction_lines.
