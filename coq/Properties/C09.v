(* C09 — The engine is unit-agnostic.
   Statements only; proofs live in Proofs/UnitsProofs.v.  Kernel level, all reals (and Q for the
   stiffness): expressing the same element in another consistent unit system (length factor lam,
   force factor phi) yields the same stiffness, equivalent loads, recovered forces and own weight
   expressed in the new units.  Slicing and numbering never see a dimensional quantity (they
   work on the parameter t and on link flags), so they are unchanged by construction of the
   model.  The absolute 1e-10 cut-off of the assembly (Model/Assemble.v close_to_zero, explicit
   in C17_filter_invisible) is NOT unit-covariant: see the known finding K-C09-assembly-cutoff. *)
From Coq Require Import ZArith QArith Qabs Reals List Bool Arith.
From Inkfem Require Import Num.NumOps Gen.GenStiffness Gen.GenLoads Gen.GenRecover Spec.Stiffness
  Model.Types Proofs.StiffnessQ Proofs.UnitsProofs Gen.GenSolver Gen.GenAccept Proofs.SolverProofs Proofs.AcceptBound.
Import ListNotations.

Theorem C09_stiffness_units_R : forall (L c s t1 t2 E A I lam phi x1 y1 r1 x2 y2 r2 : R),
  (L * (t2 - t1) <> 0 -> lam <> 0 ->
  let d := [x1; y1; r1; x2; y2; r2] in
  mv (stiff_gen (O:=ROps) (lam * L) c s t1 t2 (E * phi / (lam * lam)) (lam * lam * A) (lam * lam * lam * lam * I)) (scale_disp lam d)
  = scale_force lam phi (mv (stiff_gen (O:=ROps) L c s t1 t2 E A I) d))%R.
Proof. exact stiff_units_R. Qed.
Print Assumptions C09_stiffness_units_R.

Theorem C09_loads_units_R : forall (sFx sFy sMz eFx eFy eMz len lam phi : R), (len <> 0 -> lam <> 0 ->
  let a := lump_gen (O:=ROps) sFx sFy sMz eFx eFy eMz len in
  let b := lump_gen (O:=ROps) (sFx * phi / lam) (sFy * phi / lam) (sMz * phi) (eFx * phi / lam) (eFy * phi / lam) (eMz * phi) (lam * len) in
  t_fx (fst b) = phi * t_fx (fst a) /\ t_fy (fst b) = phi * t_fy (fst a) /\ t_mz (fst b) = phi * lam * t_mz (fst a) /\
  t_fx (snd b) = phi * t_fx (snd a) /\ t_fy (snd b) = phi * t_fy (snd a) /\ t_mz (snd b) = phi * lam * t_mz (snd a))%R.
Proof. exact lump_units_R. Qed.
Print Assumptions C09_loads_units_R.

Theorem C09_recovery_units_R : forall (E I S A len u1 v1 r1 u2 v2 r2 a1 a2 a3 c1 c2 c3 lam phi : R),
  (len <> 0 -> A <> 0 -> S <> 0 -> lam <> 0 ->
  let x := recover_gen (O:=ROps) E I S A len u1 v1 r1 u2 v2 r2 a1 a2 a3 c1 c2 c3 in
  let y := recover_gen (O:=ROps) (E * phi / (lam * lam)) (lam * lam * lam * lam * I) (lam * lam * lam * S) (lam * lam * A) (lam * len)
             (lam * u1) (lam * v1) r1 (lam * u2) (lam * v2) r2
             (phi * a1) (phi * a2) (phi * lam * a3) (phi * c1) (phi * c2) (phi * lam * c3) in
  let sc (q : R * R * R * R) := (phi / (lam * lam) * fst (fst (fst q)), phi * snd (fst (fst q)), phi * lam * snd (fst q), phi / (lam * lam) * snd q) in
  fst y = sc (fst x) /\ snd y = sc (snd x))%R.
Proof. exact recover_units_R. Qed.
Print Assumptions C09_recovery_units_R.

Theorem C09_own_weight_units_R : forall (rho A lam phi : R), (lam <> 0 ->
  own_weight_gen (O:=ROps) (rho * phi / (lam * lam * lam)) (lam * lam * A) = own_weight_gen (O:=ROps) rho A * phi / lam)%R.
Proof. exact own_weight_units_R. Qed.
Print Assumptions C09_own_weight_units_R.

Theorem C09_stiffness_units_Q : forall (L c s t1 t2 E A I lam phi x1 y1 r1 x2 y2 r2 : Q),
  (~ L * (t2 - t1) == 0 -> ~ lam == 0 ->
  let d := [x1; y1; r1; x2; y2; r2] in
  veq (mv (stiff_gen (O:=QOps) (lam * L) c s t1 t2 (E * phi / (lam * lam)) (lam * lam * A) (lam * lam * lam * lam * I)) (scale_disp lam d))
      (scale_force lam phi (mv (stiff_gen (O:=QOps) L c s t1 t2 E A I) d)))%Q.
Proof. exact stiff_units_Q. Qed.
Print Assumptions C09_stiffness_units_Q.

(* the --error option is a force: what solve makes of it (Gen/GenSolver.v, regenerated from
   process/solve_displacements.go) converts with the force factor, with no absolute floor or cap:
   the tolerance handed to the iterative solver and the bound of the acceptance test in the new unit
   system are the old ones times phi.  The iteration budget sees the number of equations only. *)
Theorem C09_solver_tolerance_converts_with_the_force_unit : forall phi e : Q,
  (solver_tolerance (O:=QOps) (phi * e) == phi * solver_tolerance (O:=QOps) e)%Q.
Proof. exact solver_tolerance_units. Qed.
Print Assumptions C09_solver_tolerance_converts_with_the_force_unit.

Theorem C09_acceptance_bound_converts_with_the_force_unit : forall phi e : Q,
  (accept_bound (O:=QOps) (phi * e) == phi * accept_bound (O:=QOps) e)%Q.
Proof. exact accept_bound_units. Qed.
Print Assumptions C09_acceptance_bound_converts_with_the_force_unit.

(* what the solver is asked for is positive and never looser than what will be accepted *)
Theorem C09_solver_aims_within_the_requested_error : forall e : Q, (0 < e ->
  0 < solver_tolerance (O:=QOps) e /\ solver_tolerance (O:=QOps) e <= accept_bound (O:=QOps) e)%Q.
Proof. intros e He. split; [apply solver_tolerance_positive; exact He | apply solver_tolerance_within_bound; apply Qlt_le_weak; exact He]. Qed.
Print Assumptions C09_solver_aims_within_the_requested_error.
