(* C09 — The engine is unit-agnostic.
   Statements only; proofs live in Proofs/UnitsProofs.v.  Kernel level, all reals (and Q for the
   stiffness): expressing the same element in another consistent unit system (length factor lam,
   force factor phi) yields the same stiffness, equivalent loads, recovered forces and own weight
   expressed in the new units.  Slicing and numbering never see a dimensional quantity (they
   work on the parameter t and on link flags), so they are unchanged by construction of the
   model.  The absolute 1e-10 cut-off of the assembly (Model/Assemble.v close_to_zero, explicit
   in C17_filter_invisible) is NOT unit-covariant: see the known finding K-C09-assembly-cutoff. *)
From Coq Require Import ZArith QArith Qabs Reals List Bool Arith Lia.
From Inkfem Require Import Num.NumOps Gen.GenStiffness Gen.GenLoads Gen.GenRecover Spec.Stiffness
  Model.Types Proofs.StiffnessQ Proofs.UnitsProofs Gen.GenSolver Gen.GenAccept Proofs.SolverProofs Proofs.AcceptBound Model.Slice Model.Loads Model.Dof Model.Assemble Spec.Resultant Spec.Superposition Proofs.AssembleProofs Proofs.SystemProofs Proofs.UnitsBar Proofs.UnitsStructure Gen.GenPcg Proofs.PcgProofs Proofs.PcgAccept Proofs.PcgCovariance.
Import ListNotations.

Theorem C09_stiffness_units_R : forall (L c s t1 t2 E A I lam phi x1 y1 r1 x2 y2 r2 : R),
  (L * (t2 - t1) <> 0 -> lam <> 0 ->
  let d := [x1; y1; r1; x2; y2; r2] in
  mv (stiff_gen (O:=ROps) (lam * L) c s t1 t2 (E * phi / (lam * lam)) (lam * lam * A) (lam * lam * lam * lam * I)) (scale_disp lam d)
  = scale_force lam phi (mv (stiff_gen (O:=ROps) L c s t1 t2 E A I) d))%R.
Proof. exact stiff_units_R. Qed.
Print Assumptions C09_stiffness_units_R.

Theorem C09_loads_units_R : forall (sFx sFy sMz eFx eFy eMz len lam phi : R), (len <> 0 -> lam <> 0 ->
  let a := lump_gen (O:=ROps) sFx sFy sMz eFx eFy eMz len in
  let b := lump_gen (O:=ROps) (sFx * phi / lam) (sFy * phi / lam) (sMz * phi) (eFx * phi / lam) (eFy * phi / lam) (eMz * phi) (lam * len) in
  t_fx (fst b) = phi * t_fx (fst a) /\ t_fy (fst b) = phi * t_fy (fst a) /\ t_mz (fst b) = phi * lam * t_mz (fst a) /\
  t_fx (snd b) = phi * t_fx (snd a) /\ t_fy (snd b) = phi * t_fy (snd a) /\ t_mz (snd b) = phi * lam * t_mz (snd a))%R.
Proof. exact lump_units_R. Qed.
Print Assumptions C09_loads_units_R.

Theorem C09_recovery_units_R : forall (E I S A len u1 v1 r1 u2 v2 r2 a1 a2 a3 c1 c2 c3 lam phi : R),
  (len <> 0 -> A <> 0 -> S <> 0 -> lam <> 0 ->
  let x := recover_gen (O:=ROps) E I S A len u1 v1 r1 u2 v2 r2 a1 a2 a3 c1 c2 c3 in
  let y := recover_gen (O:=ROps) (E * phi / (lam * lam)) (lam * lam * lam * lam * I) (lam * lam * lam * S) (lam * lam * A) (lam * len)
             (lam * u1) (lam * v1) r1 (lam * u2) (lam * v2) r2
             (phi * a1) (phi * a2) (phi * lam * a3) (phi * c1) (phi * c2) (phi * lam * c3) in
  let sc (q : R * R * R * R) := (phi / (lam * lam) * fst (fst (fst q)), phi * snd (fst (fst q)), phi * lam * snd (fst q), phi / (lam * lam) * snd q) in
  fst y = sc (fst x) /\ snd y = sc (snd x))%R.
Proof. exact recover_units_R. Qed.
Print Assumptions C09_recovery_units_R.

Theorem C09_own_weight_units_R : forall (rho A lam phi : R), (lam <> 0 ->
  own_weight_gen (O:=ROps) (rho * phi / (lam * lam * lam)) (lam * lam * A) = own_weight_gen (O:=ROps) rho A * phi / lam)%R.
Proof. exact own_weight_units_R. Qed.
Print Assumptions C09_own_weight_units_R.

Theorem C09_stiffness_units_Q : forall (L c s t1 t2 E A I lam phi x1 y1 r1 x2 y2 r2 : Q),
  (~ L * (t2 - t1) == 0 -> ~ lam == 0 ->
  let d := [x1; y1; r1; x2; y2; r2] in
  veq (mv (stiff_gen (O:=QOps) (lam * L) c s t1 t2 (E * phi / (lam * lam)) (lam * lam * A) (lam * lam * lam * lam * I)) (scale_disp lam d))
      (scale_force lam phi (mv (stiff_gen (O:=QOps) L c s t1 t2 E A I) d)))%Q.
Proof. exact stiff_units_Q. Qed.
Print Assumptions C09_stiffness_units_Q.

(* the --error option is a force: what solve makes of it (Gen/GenSolver.v, regenerated from
   process/solve_displacements.go) converts with the force factor, with no absolute floor or cap:
   the tolerance handed to the iterative solver and the bound of the acceptance test in the new unit
   system are the old ones times phi.  The iteration budget sees the number of equations only. *)
Theorem C09_solver_tolerance_converts_with_the_force_unit : forall phi e : Q,
  (solver_tolerance (O:=QOps) (phi * e) == phi * solver_tolerance (O:=QOps) e)%Q.
Proof. exact solver_tolerance_units. Qed.
Print Assumptions C09_solver_tolerance_converts_with_the_force_unit.

Theorem C09_acceptance_bound_converts_with_the_force_unit : forall phi e : Q,
  (accept_bound (O:=QOps) (phi * e) == phi * accept_bound (O:=QOps) e)%Q.
Proof. exact accept_bound_units. Qed.
Print Assumptions C09_acceptance_bound_converts_with_the_force_unit.

(* what the solver is asked for is positive and never looser than what will be accepted *)
Theorem C09_solver_aims_within_the_requested_error : forall e : Q, (0 < e ->
  0 < solver_tolerance (O:=QOps) e /\ solver_tolerance (O:=QOps) e <= accept_bound (O:=QOps) e)%Q.
Proof. intros e He. split; [apply solver_tolerance_positive; exact He | apply solver_tolerance_within_bound; apply Qlt_le_weak; exact He]. Qed.
Print Assumptions C09_solver_aims_within_the_requested_error.

(* ... and (on the model of the solver's loop, Gen/GenPcg.v) an answer the solver itself finds good enough at the tolerance it is
   given passes the acceptance test that follows, whatever the unit of force the error is expressed in: in exact arithmetic
   the second test turns away nothing the first let through *)
Theorem C09_what_the_solver_finds_good_enough_passes_the_acceptance_test :
  forall (n : nat) (A : nat -> nat -> Q) (b : nat -> Q) (e : Q) (k : nat), (0 <= e)%Q ->
  (forall i, (i < n)%nat -> (Qabs (pcg_r (pcg_iter n A k (pcg_init n A b)) i) <= solver_tolerance (O:=QOps) e)%Q) ->
  forall i, (i < n)%nat -> (Qabs (b i - pcg_mv n A (pcg_answer n A b k) i) <= accept_bound (O:=QOps) e)%Q.
Proof. exact good_enough_for_the_solver_is_good_enough. Qed.
Print Assumptions C09_what_the_solver_finds_good_enough_passes_the_acceptance_test.

(* the solver itself is unit-agnostic pass by pass (exact arithmetic, model of its loop in Gen/GenPcg.v): writing a structure in
   other units rescales its system symmetrically - K' i j = c s_i K i j s_j, f' i = d s_i f i with s_i = 1 / lam for a translation
   equation and 1 for a rotation equation, c = d = phi lam - and then the x, r and p of EVERY pass are the old ones rescaled:
   x' = (d / c) x / s (translations x lam, rotations unchanged), r' = d s r (forces x phi, moments x phi lam).  The inverse of the
   diagonal as preconditioner is what makes this exact.  Units enter only where the loop decides to stop, through the absolute
   test of r' = d s r against one number - the listed finding K-C09-absolute-residual-threshold, here with its cause *)
Theorem C09_the_iterates_of_the_solver_convert_with_the_units :
  forall (n : nat) (A : nat -> nat -> Q) (b s : nat -> Q) (c d : Q),
  (forall i, ~ s i == 0)%Q -> (forall i, ~ A i i == 0)%Q -> (~ c == 0)%Q -> (~ d == 0)%Q ->
  forall (A' : nat -> nat -> Q) (b' : nat -> Q),
  (forall i j, A' i j == c * s i * A i j * s j)%Q -> (forall i, b' i == d * s i * b i)%Q ->
  forall k i,
  (pcg_answer n A' b' k i == (d / c) * pcg_answer n A b k i / s i)%Q /\
  (pcg_r (pcg_iter n A' k (pcg_init n A' b')) i == d * s i * pcg_r (pcg_iter n A k (pcg_init n A b)) i)%Q.
Proof. exact iterates_are_covariant. Qed.
Print Assumptions C09_the_iterates_of_the_solver_convert_with_the_units.

(* a system with a translation and a rotation equation, in centimetres and newtons and in metres and kilonewtons (lam = 1/100,
   phi = 1/1000): after one pass - not yet converged - the answers already convert *)
Example C09_iterates_convert_example :
  let A (i j : nat) : Q := match i, j with O, O => 4 | O, 1%nat => 30 | 1%nat, O => 30 | 1%nat, 1%nat => 900 | _, _ => 1 end in
  let b (i : nat) : Q := match i with O => 7 | 1%nat => -200 | _ => 0 end in
  let lam : Q := 1 # 100 in let phi : Q := 1 # 1000 in
  let s (i : nat) : Q := match i with O => / lam | _ => 1 end in
  let A' (i j : nat) : Q := phi * lam * s i * A i j * s j in let b' (i : nat) : Q := phi * lam * s i * b i in
  (pcg_answer 2 A' b' 1 0 == lam * pcg_answer 2 A b 1 0)%Q /\ (pcg_answer 2 A' b' 1 1 == pcg_answer 2 A b 1 1)%Q /\
  ~ (pcg_answer 2 A b 1 0 == pcg_answer 2 A b 2 0)%Q.
Proof. cbv zeta. repeat split; try (vm_compute; reflexivity). vm_compute. discriminate. Qed.

(* a whole bar of the slicing model (Model/Slice.v + Model/Loads.v over the regenerated lump_gen / own_weight_gen;
   tied to preprocess/*.go by correspondence stage B), with or without its own weight: written in another unit
   system - coordinates and length x lam, concentrated forces x phi and moments x phi lam, distributed forces
   x phi / lam and moments x phi, density x phi / lam^3, area x lam^2 - it is cut at exactly the same positions,
   its nodes sit at lam times the coordinates and every external, left and right nodal load is the original one
   with forces x phi and moments x phi lam.  Slicing never sees a dimensional quantity. *)
Theorem C09_a_bar_in_other_units_is_sliced_alike_and_carries_the_converted_loads : forall (lam phi : Q) (w : bool) (b : bar Q),
  ~ (lam == 0)%Q ->
  Forall2 (fun n n' => pn_t n' = pn_t n /\ (pn_x n' == lam * pn_x n)%Q /\ (pn_y n' == lam * pn_y n)%Q /\
                       tor_eq (pn_ext n') (dscale phi (phi * lam) (pn_ext n)) /\ tor_eq (pn_left n') (dscale phi (phi * lam) (pn_left n)) /\
                       tor_eq (pn_right n') (dscale phi (phi * lam) (pn_right n)))
          (preprocess_bar w b) (preprocess_bar w (units_bar lam phi b)).
Proof. exact bar_in_other_units. Qed.
Print Assumptions C09_a_bar_in_other_units_is_sliced_alike_and_carries_the_converted_loads.

(* the general form: any two descriptions of one bar - other units (lam; intensities x f and x m = f lam), another
   place (dx, dy), turned by the angle of cosine cr and sine sr - whose numbers are related up to ==, however they
   are written; loads in the global axes and own weight need the same direction (cr = 1, sr = 0) *)
Theorem C09_related_bars_are_sliced_alike : forall (lam cr sr dx dy f m : Q), ~ (lam == 0)%Q -> (m == f * lam)%Q -> (cr * cr + sr * sr == 1)%Q ->
  forall w b b', (w = true -> (cr == 1 /\ sr == 0)%Q) -> bar_rel lam cr sr dx dy f m b b' ->
  Forall2 (node_rel lam cr sr dx dy f m) (preprocess_bar w b) (preprocess_bar w b').
Proof. exact preprocess_bar_units. Qed.
Print Assumptions C09_related_bars_are_sliced_alike.

(* not vacuous: a loaded inclined bar (cm, N) and the same bar in m, kN; 15 nodes each *)
Definition c09_bar : bar Q := {| b_n1 := 0; b_n2 := 1; b_l1 := rigid; b_l2 := rigid; b_x1 := 0; b_y1 := 0; b_x2 := 300; b_y2 := 400;
  b_L := 500; b_c := 3 # 5; b_s := 4 # 5; b_E := 21000000; b_A := 10; b_I := 171; b_S := 34; b_rho := 785 # 100000000;
  b_cl := [ {| cl_term := MZ; cl_local := true; cl_t := 1 # 3; cl_v := - (700 # 1) |} ];
  b_dl := [ {| dl_term := FY; dl_local := false; dl_t0 := 1 # 4; dl_v0 := - (2 # 1); dl_t1 := 3 # 4; dl_v1 := - (5 # 1) |} ] |}.
Example C09_bar_example :
  length (preprocess_bar true c09_bar) = 14%nat /\ length (preprocess_bar true (units_bar (1 # 100) (1 # 1000) c09_bar)) = 14%nat /\
  bar_rel (1 # 100) 1 0 0 0 ((1 # 1000) / (1 # 100)) (1 # 1000) c09_bar (units_bar (1 # 100) (1 # 1000) c09_bar).
Proof. split; [vm_compute; reflexivity|]. split; [vm_compute; reflexivity|]. apply units_bar_rel. discriminate. Qed.

(* the whole structure of the model: bars sliced (preprocess_bar, with or without own weight), numbered (any numbering whose
   numbers are translation, translation, rotation at every node: rot tells which equations are rotation equations) and
   assembled (Model/Assemble.v, the system handed to the solver).  Written in the other unit system the structure gets the
   system whose rows are the old ones x phi (force equations) or x phi lam (moment equations) in the converted unknowns:
   the converted displacements (translations x lam, rotations unchanged) solve it whenever the original ones solve the
   original system.  Assumed, besides a length for every finite element: no stiffness term of either system falls under
   the absolute 1e-10 cut-off of the assembly (it is not unit-covariant: known finding K-C09-assembly-cutoff) and every
   free equation has a stiffness term in both. *)
Theorem C09_converted_displacements_solve_the_structure_in_other_units :
  forall (lam phi : Q), ~ (lam == 0)%Q -> forall (rot : nat -> bool) (w : bool) (n : nat) (bs : list (bar Q)) (ds : list (list dof3))
         (sup : list nat) (u : list Q),
  let S := prepared_all w bs ds in
  let S' := prepared_all w (map (units_bar lam phi) bs) ds in
  Forall (good_slice lam phi rot n) (all_slices S) -> Forall (Forall (kinded rot)) ds ->
  (forall i, (i < n)%nat -> is_supported sup i = false -> row_empty (all_contribs S) i = false /\ row_empty (all_contribs S') i = false) ->
  solves n S sup u -> solves n S' sup (conv_u lam rot n u).
Proof. exact structure_in_other_units. Qed.
Print Assumptions C09_converted_displacements_solve_the_structure_in_other_units.

(* the same for any two sliced structures related bar by bar (nodes at the same positions carrying the converted loads) *)
Theorem C09_converted_displacements_solve_the_converted_system :
  forall (lam phi : Q), ~ (lam == 0)%Q -> forall (rot : nat -> bool) (n : nat) (S S' : list (pbar Q)) (sup : list nat) (u : list Q),
  Forall2 (pbar_units lam phi) S S' ->
  Forall (good_slice lam phi rot n) (all_slices S) -> Forall (fun p => Forall (kinded rot) (pb_dofs p)) S ->
  (forall i, (i < n)%nat -> is_supported sup i = false -> row_empty (all_contribs S) i = false /\ row_empty (all_contribs S') i = false) ->
  solves n S sup u -> solves n S' sup (conv_u lam rot n u).
Proof. exact converted_displacements_solve_the_converted_system. Qed.
Print Assumptions C09_converted_displacements_solve_the_converted_system.

(* not vacuous: a cantilever of two finite elements with a unit load in the middle (cm, N) and the same in m, kN;
   u solves the first system, every hypothesis holds, and the conclusion is checked by computation as well *)
Definition c09_cbar : bar Q := {| b_n1 := 0; b_n2 := 1; b_l1 := rigid; b_l2 := rigid; b_x1 := 0; b_y1 := 0; b_x2 := 2; b_y2 := 0;
  b_L := 2; b_c := 1; b_s := 0; b_E := 1; b_A := 1; b_I := 1; b_S := 1; b_rho := 0; b_cl := []; b_dl := [] |}.
Definition c09_nd (t x : Q) (e : tor Q) : pnode Q := {| pn_t := t; pn_x := x; pn_y := 0; pn_ext := e; pn_left := (0, 0, 0); pn_right := (0, 0, 0) |}.
Definition c09_S : list (pbar Q) :=
  [ {| pb_bar := c09_cbar; pb_nodes := [c09_nd 0 0 (0, 0, 0); c09_nd (1 # 2) 1 (0, 1, 0); c09_nd 1 2 (0, 0, 0)];
       pb_dofs := [(0, 1, 2)%nat; (3, 4, 5)%nat; (6, 7, 8)%nat] |} ].
Definition c09_S' : list (pbar Q) :=
  [ {| pb_bar := units_bar (1 # 100) (1 # 1000) c09_cbar;
       pb_nodes := [c09_nd 0 0 (0, 0, 0); c09_nd (1 # 2) (1 # 100) (0, 1 # 1000, 0); c09_nd 1 (2 # 100) (0, 0, 0)];
       pb_dofs := [(0, 1, 2)%nat; (3, 4, 5)%nat; (6, 7, 8)%nat] |} ].
Definition c09_u : list Q := [0; 0; 0; 0; 1 # 3; 1 # 2; 0; 5 # 6; 1 # 2].
Definition c09_sup : list nat := [0; 1; 2]%nat.
Definition c09_rot (i : nat) : bool := Nat.eqb (Nat.modulo i 3) 2.

Example C09_structure_hypotheses_satisfiable :
  Forall2 (pbar_units (1 # 100) (1 # 1000)) c09_S c09_S' /\
  Forall (good_slice (1 # 100) (1 # 1000) c09_rot 9) (all_slices c09_S) /\
  Forall (fun p => Forall (kinded c09_rot) (pb_dofs p)) c09_S /\
  (forall i, (i < 9)%nat -> is_supported c09_sup i = false ->
     row_empty (all_contribs c09_S) i = false /\ row_empty (all_contribs c09_S') i = false) /\
  solves 9 c09_S c09_sup c09_u /\
  map Qred (conv_u (1 # 100) c09_rot 9 c09_u) = [0; 0; 0; 0; 1 # 300; 1 # 2; 0; 1 # 120; 1 # 2].
Proof.
  split.
  { constructor; [| constructor]. unfold pbar_units. split; [reflexivity|]. split; [reflexivity|].
    repeat constructor; vm_compute; reflexivity. }
  split.
  { apply Forall_forall. intros sl Hin. vm_compute in Hin.
    destruct Hin as [<- | [<- | []]];
      (split; [apply no_tiny_b_sound; vm_compute; reflexivity|]);
      (split; [apply no_tiny_b_sound; vm_compute; reflexivity|]);
      (split; [vm_compute; discriminate|]);
      (split; [repeat split; reflexivity|]);
      (split; [repeat split; reflexivity|]);
      repeat constructor. }
  split; [repeat constructor|].
  split.
  { intros i Hi. do 9 (destruct i as [|i]; [vm_compute; intros; try discriminate; split; reflexivity|]). exfalso; lia. }
  split; [| vm_compute; reflexivity].
  intros i Hi. do 9 (destruct i as [|i]; [vm_compute; reflexivity|]). exfalso; lia.
Qed.
