(* Proofs about the stress recovery of Model/Recover.v (recover_gen regenerated from
   process/element_solution.go): what the recovered values are in terms of the element's
   stiffness, how they jump across a slice node in equilibrium, how they change along a
   slice, and the resulting statics along the whole chain of a bar. *)
From Coq Require Import ZArith QArith Qabs List Bool Arith Lia Field Lqa.
From Inkfem Require Import Num.NumOps Gen.GenLoads Gen.GenRecover Spec.Stiffness
  Model.Types Model.Slice Model.Dof Model.Assemble Model.Recover.
Import ListNotations.
Local Open Scope Q_scope.

Definition tor_eqQ (a b : tor Q) : Prop := t_fx a == t_fx b /\ t_fy a == t_fy b /\ t_mz a == t_mz b.

(* the six local end displacements of the finite element between two slice nodes *)
Definition slice_d (b : bar Q) (u : list Q) (da db : dof3) : list Q :=
  let la := node_local b u da in let lb := node_local b u db in
  [t_fx la; t_fy la; t_mz la; t_fx lb; t_fy lb; t_mz lb].
Definition slice_len (b : bar Q) (na nb : pnode Q) : Q := b_L b * (pn_t nb - pn_t na).
Definition slice_k (b : bar Q) (na nb : pnode Q) : list (list Q) :=
  k_local (b_E b * b_A b) (b_E b * b_I b) (slice_len b na nb).

(* section forces (axial force, shear, moment) from the recovered (stress, shear, moment, fibre) *)
Definition nvm (b : bar Q) (q : q4) : Q * Q * Q := (b_A b * q_ax q, q_sh q, q_bm q).
Definition nvm_eq (a b : Q * Q * Q) : Prop :=
  fst (fst a) == fst (fst b) /\ snd (fst a) == snd (fst b) /\ snd a == snd b.

Definition good_bar (b : bar Q) : Prop :=
  ~ b_E b == 0 /\ ~ b_A b == 0 /\ ~ b_I b == 0 /\ ~ b_S b == 0.

(* (1) stiffness x displacements of a finite element, in terms of what the recovery lists:
   k d = (-N_t + left.fx, V_t + left.fy, -M_t + left.mz, N_l + right.fx, -V_l + right.fy, M_l + right.mz) *)
Lemma recover_end_forces (b : bar Q) (u : list Q) (na nb : pnode Q) (da db : dof3) :
  good_bar b -> ~ slice_len b na nb == 0 ->
  let r := slice_recover b u na nb da db in
  let t := nvm b (fst r) in let l := nvm b (snd r) in
  Forall2 Qeq (mv (slice_k b na nb) (slice_d b u da db))
    [ - fst (fst t) + t_fx (pn_left na); snd (fst t) + t_fy (pn_left na); - snd t + t_mz (pn_left na);
      fst (fst l) + t_fx (pn_right nb); - snd (fst l) + t_fy (pn_right nb); snd l + t_mz (pn_right nb) ].
Proof.
  intros (HE & HA & HI & HS) Hl. cbv zeta.
  unfold nvm, slice_recover, slice_k, slice_d, slice_len in *.
  generalize (t_fx (node_local b u da)) (t_fy (node_local b u da)) (t_mz (node_local b u da))
             (t_fx (node_local b u db)) (t_fy (node_local b u db)) (t_mz (node_local b u db)).
  intros u1 v1 r1 u2 v2 r2.
  generalize (t_fx (pn_left na)) (t_fy (pn_left na)) (t_mz (pn_left na))
             (t_fx (pn_right nb)) (t_fy (pn_right nb)) (t_mz (pn_right nb)).
  intros a1 a2 a3 c1 c2 c3.
  cbn [nmul nsub QOps] in *.
  set (len := b_L b * (pn_t nb - pn_t na)) in *. clearbody len.
  unfold recover_gen, k_local, k_local_coeffs, mv, dot, vsum, q_ax, q_sh, q_bm. cbn.
  repeat (constructor; try (field; auto)).
Qed.

(* equilibrium of an interior slice node, in the bar's local axes: what the two adjacent
   finite elements take from the node equals the node's net load *)
Definition node_equilibrium (b : bar Q) (u : list Q) (n0 n1 n2 : pnode Q) (d0 d1 d2 : dof3) : Prop :=
  let k01 := mv (slice_k b n0 n1) (slice_d b u d0 d1) in
  let k12 := mv (slice_k b n1 n2) (slice_d b u d1 d2) in
  nth 3 k01 0 + nth 0 k12 0 == t_fx (pn_net n1) /\
  nth 4 k01 0 + nth 1 k12 0 == t_fy (pn_net n1) /\
  nth 5 k01 0 + nth 2 k12 0 == t_mz (pn_net n1).

Lemma Forall2_nth_Qeq (a b : list Q) k : Forall2 Qeq a b -> nth k a 0 == nth k b 0.
Proof.
  intros H. revert k. induction H as [|x y a b Hxy _ IH]; intros [|k]; cbn; try reflexivity; auto.
Qed.

(* (2) where a concentrated load acts, the two listed values differ by exactly that load *)
Lemma jump_is_load (b : bar Q) (u : list Q) (n0 n1 n2 : pnode Q) (d0 d1 d2 : dof3) :
  good_bar b -> ~ slice_len b n0 n1 == 0 -> ~ slice_len b n1 n2 == 0 ->
  node_equilibrium b u n0 n1 n2 d0 d1 d2 ->
  let left_of := nvm b (snd (slice_recover b u n0 n1 d0 d1)) in
  let right_of := nvm b (fst (slice_recover b u n1 n2 d1 d2)) in
  fst (fst right_of) == fst (fst left_of) - t_fx (pn_ext n1) /\
  snd (fst right_of) == snd (fst left_of) + t_fy (pn_ext n1) /\
  snd right_of == snd left_of - t_mz (pn_ext n1).
Proof.
  intros Hb H01 H12 (Ex & Ey & Ez) left_of right_of.
  pose proof (recover_end_forces b u n0 n1 d0 d1 Hb H01) as R01.
  pose proof (recover_end_forces b u n1 n2 d1 d2 Hb H12) as R12.
  cbv zeta in R01, R12.
  rewrite (Forall2_nth_Qeq _ _ 3 R01), (Forall2_nth_Qeq _ _ 0 R12) in Ex.
  rewrite (Forall2_nth_Qeq _ _ 4 R01), (Forall2_nth_Qeq _ _ 1 R12) in Ey.
  rewrite (Forall2_nth_Qeq _ _ 5 R01), (Forall2_nth_Qeq _ _ 2 R12) in Ez.
  cbn [nth] in Ex, Ey, Ez.
  unfold pn_net, tor_add, t_fx, t_fy, t_mz in *. cbn [fst snd] in *.
  unfold left_of, right_of.
  set (L := nvm b (snd (slice_recover b u n0 n1 d0 d1))) in *.
  set (R := nvm b (fst (slice_recover b u n1 n2 d1 d2))) in *.
  cbn [nadd QOps] in *.
  clearbody L R.
  repeat split; lra.
Qed.

(* (3) from the trail end to the lead end of one finite element, whatever its nodal loads *)
Lemma recover_across (b : bar Q) (u : list Q) (na nb : pnode Q) (da db : dof3) :
  good_bar b -> ~ slice_len b na nb == 0 ->
  let r := slice_recover b u na nb da db in
  let t := nvm b (fst r) in let l := nvm b (snd r) in
  fst (fst l) == fst (fst t) - (t_fx (pn_left na) + t_fx (pn_right nb)) /\
  snd (fst l) == snd (fst t) + (t_fy (pn_left na) + t_fy (pn_right nb)) /\
  snd l == snd t + slice_len b na nb * snd (fst t) + slice_len b na nb * t_fy (pn_left na)
           - t_mz (pn_left na) - t_mz (pn_right nb).
Proof.
  intros (HE & HA & HI & HS) Hl. cbv zeta.
  unfold nvm, slice_recover, slice_len in *.
  generalize (t_fx (node_local b u da)) (t_fy (node_local b u da)) (t_mz (node_local b u da))
             (t_fx (node_local b u db)) (t_fy (node_local b u db)) (t_mz (node_local b u db)).
  intros u1 v1 r1 u2 v2 r2.
  generalize (t_fx (pn_left na)) (t_fy (pn_left na)) (t_mz (pn_left na))
             (t_fx (pn_right nb)) (t_fy (pn_right nb)) (t_mz (pn_right nb)).
  intros a1 a2 a3 c1 c2 c3.
  cbn [nmul nsub QOps] in *.
  set (len := b_L b * (pn_t nb - pn_t na)) in *. clearbody len.
  unfold recover_gen, q_ax, q_sh, q_bm. cbn.
  repeat split; field; auto.
Qed.

(* the nodal loads of the element are the code's equivalent loads of linear distributed loads
   p (axial), q (transverse), m (moment) with the given end intensities *)
Definition lumped (na nb : pnode Q) (len p1 q1 m1 p2 q2 m2 : Q) : Prop :=
  tor_eqQ (pn_left na) (fst (lump_gen p1 q1 m1 p2 q2 m2 len)) /\
  tor_eqQ (pn_right nb) (snd (lump_gen p1 q1 m1 p2 q2 m2 len)).

(* statics across an element: N' = -p, V' = q, M' = V - m *)
Definition cross_slice (len p1 q1 m1 p2 q2 m2 : Q) (st : Q * Q * Q) : Q * Q * Q :=
  (fst (fst st) - (p1 + p2) / 2 * len,
   snd (fst st) + (q1 + q2) / 2 * len,
   snd st + snd (fst st) * len + len * len * (2 * q1 + q2) / 6 - (m1 + m2) / 2 * len).
(* statics across a node carrying the concentrated load ext *)
Definition cross_node (ext : tor Q) (st : Q * Q * Q) : Q * Q * Q :=
  (fst (fst st) - t_fx ext, snd (fst st) + t_fy ext, snd st - t_mz ext).

Lemma slice_statics (b : bar Q) (u : list Q) (na nb : pnode Q) (da db : dof3) p1 q1 m1 p2 q2 m2 :
  good_bar b -> ~ slice_len b na nb == 0 ->
  lumped na nb (slice_len b na nb) p1 q1 m1 p2 q2 m2 ->
  let r := slice_recover b u na nb da db in
  nvm_eq (nvm b (snd r)) (cross_slice (slice_len b na nb) p1 q1 m1 p2 q2 m2 (nvm b (fst r))).
Proof.
  intros Hb Hl ((h1 & h2 & h3) & (h4 & h5 & h6)) r.
  destruct (recover_across b u na nb da db Hb Hl) as (A1 & A2 & A3). fold r in A1, A2, A3.
  unfold nvm_eq, cross_slice. cbn [fst snd].
  set (T := nvm b (fst r)) in *. set (L := nvm b (snd r)) in *. clearbody T L.
  set (len := slice_len b na nb) in *. clearbody len.
  rewrite A1, A2, A3, h1, h2, h3, h4, h5, h6.
  unfold lump_gen, t_fx, t_fy, t_mz. cbn.
  repeat split; field; auto.
Qed.

(* (4) the whole chain: starting from the first listed values, cross every element with its
   distributed loads and every interior node with its concentrated load *)
Record slice_load := { sl_p1 : Q; sl_q1 : Q; sl_m1 : Q; sl_p2 : Q; sl_q2 : Q; sl_m2 : Q }.

(* a chain of nodes in equilibrium at every interior node, each element lumped *)
Fixpoint chain_ok (b : bar Q) (u : list Q) (na : pnode Q) (da : dof3)
         (rest : list (pnode Q * dof3 * slice_load)) : Prop :=
  match rest with
  | [] => True
  | (nb, db, ld) :: rest' =>
    ~ slice_len b na nb == 0 /\
    lumped na nb (slice_len b na nb) (sl_p1 ld) (sl_q1 ld) (sl_m1 ld) (sl_p2 ld) (sl_q2 ld) (sl_m2 ld) /\
    match rest' with
    | [] => True
    | (nc, dc, _) :: _ => ~ slice_len b nb nc == 0 /\ node_equilibrium b u na nb nc da db dc
    end /\
    chain_ok b u nb db rest'
  end.

(* section forces by statics, marching from the state [st] just right of node na:
   the list holds, per element, (state at its trail end, state at its lead end) *)
Fixpoint march (b : bar Q) (na : pnode Q) (rest : list (pnode Q * dof3 * slice_load))
         (st : Q * Q * Q) : list ((Q * Q * Q) * (Q * Q * Q)) :=
  match rest with
  | [] => []
  | (nb, _, ld) :: rest' =>
    let lead := cross_slice (slice_len b na nb) (sl_p1 ld) (sl_q1 ld) (sl_m1 ld) (sl_p2 ld) (sl_q2 ld) (sl_m2 ld) st in
    (st, lead) :: march b nb rest' (cross_node (pn_ext nb) lead)
  end.

(* what the code lists, per element *)
Fixpoint recovered (b : bar Q) (u : list Q) (na : pnode Q) (da : dof3)
         (rest : list (pnode Q * dof3 * slice_load)) : list ((Q * Q * Q) * (Q * Q * Q)) :=
  match rest with
  | [] => []
  | (nb, db, _) :: rest' =>
    let r := slice_recover b u na nb da db in
    (nvm b (fst r), nvm b (snd r)) :: recovered b u nb db rest'
  end.

Definition pair_eq (a b : (Q * Q * Q) * (Q * Q * Q)) : Prop := nvm_eq (fst a) (fst b) /\ nvm_eq (snd a) (snd b).

Lemma nvm_eq_refl a : nvm_eq a a.
Proof. repeat split; reflexivity. Qed.
Lemma nvm_eq_trans a b c : nvm_eq a b -> nvm_eq b c -> nvm_eq a c.
Proof. intros (A1 & A2 & A3) (B1 & B2 & B3). repeat split; etransitivity; eauto. Qed.

Lemma cross_slice_proper len p1 q1 m1 p2 q2 m2 s s' :
  nvm_eq s s' -> nvm_eq (cross_slice len p1 q1 m1 p2 q2 m2 s) (cross_slice len p1 q1 m1 p2 q2 m2 s').
Proof. intros (A1 & A2 & A3). unfold cross_slice, nvm_eq. cbn [fst snd]. rewrite A1, A2, A3. repeat split; reflexivity. Qed.
Lemma cross_node_proper ext s s' : nvm_eq s s' -> nvm_eq (cross_node ext s) (cross_node ext s').
Proof. intros (A1 & A2 & A3). unfold cross_node, nvm_eq. cbn [fst snd]. rewrite A1, A2, A3. repeat split; reflexivity. Qed.

Lemma march_proper b rest : forall na s s', nvm_eq s s' -> Forall2 pair_eq (march b na rest s) (march b na rest s').
Proof.
  induction rest as [|[[nb db] ld] rest IH]; intros na s s' H; cbn [march]; constructor.
  - split; [exact H | apply cross_slice_proper; exact H].
  - apply IH. apply cross_node_proper, cross_slice_proper, H.
Qed.

Lemma Forall2_pair_eq_trans a b c : Forall2 pair_eq a b -> Forall2 pair_eq b c -> Forall2 pair_eq a c.
Proof.
  intros H. revert c. induction H as [|x y a b (H1 & H2) _ IH]; intros c Hc; inversion Hc as [|y' z b' c' (G1 & G2) Hr]; subst; constructor.
  - split; eapply nvm_eq_trans; eauto.
  - apply IH; assumption.
Qed.

Theorem chain_statics (b : bar Q) (u : list Q) : good_bar b ->
  forall rest na da, chain_ok b u na da rest ->
  match rest with
  | [] => True
  | (nb, db, _) :: _ =>
    Forall2 pair_eq (recovered b u na da rest)
                    (march b na rest (nvm b (fst (slice_recover b u na nb da db))))
  end.
Proof.
  intros Hb. induction rest as [|[[nb db] ld] rest IH]; intros na da Hok; [exact I|].
  cbn [chain_ok] in Hok. destruct Hok as (Hl & Hlump & Hnext & Hrest).
  cbn [recovered march]. constructor.
  - split; [apply nvm_eq_refl|]. apply slice_statics; assumption.
  - destruct rest as [|[[nc dc] ld'] rest']; [constructor|].
    destruct Hnext as (Hl' & Heq).
    specialize (IH nb db Hrest). cbn beta iota in IH.
    eapply Forall2_pair_eq_trans; [exact IH|].
    apply march_proper.
    (* the state right of node nb: recovered trail of the next element = lead of this one crossed with ext *)
    destruct (jump_is_load b u na nb nc da db dc Hb Hl Hl' Heq) as (J1 & J2 & J3).
    pose proof (slice_statics b u na nb da db _ _ _ _ _ _ Hb Hl Hlump) as (S1 & S2 & S3).
    unfold nvm_eq, cross_node. cbn [fst snd].
    rewrite J1, J2, J3.
    unfold cross_slice in S1, S2, S3 |- *. cbn [fst snd] in S1, S2, S3 |- *.
    rewrite S1, S2, S3. repeat split; reflexivity.
Qed.

(* top-fibre stress is the listed bending moment over the section modulus, at both ends *)
Lemma top_fibre_is_M_over_S (b : bar Q) (u : list Q) (na nb : pnode Q) (da db : dof3) :
  let r := slice_recover b u na nb da db in
  q_tf (fst r) = q_bm (fst r) / b_S b /\ q_tf (snd r) = q_bm (snd r) / b_S b.
Proof. split; reflexivity. Qed.

(* local displacements are the global ones rotated into the bar axes *)
Lemma local_is_rotated_global (b : bar Q) (u : list Q) (d : dof3) :
  let g := node_global u d in
  node_local b u d = (t_fx g * b_c b + t_fy g * b_s b, t_fy g * b_c b - t_fx g * b_s b, t_mz g).
Proof. reflexivity. Qed.

(* merging of equal consecutive values: an entry is dropped only when it repeats the last
   listed one (same position up to 1e-10, value closer than eps) *)
Lemma push_if_new_spec (eps : Q) (acc : list psv) (x : psv) :
  push_if_new eps acc x = x :: acc \/
  exists l rest, acc = l :: rest /\ push_if_new eps acc x = acc /\
                 Qabs (snd l - snd x) < eps /\ Qabs (fst l - fst x) < 1 # 10000000000.
Proof.
  destruct acc as [|l rest]; [left; reflexivity|].
  cbn [push_if_new]. destruct (same_psv eps l x) eqn:E; [right | left; reflexivity].
  exists l, rest. repeat split; try reflexivity.
  - unfold same_psv in E. apply andb_prop in E as [_ E]. cbn [nltb nabs nsub QCmp QOps] in E.
    apply negb_true_iff in E. apply Qnot_le_lt. intro H. apply Qle_bool_iff in H. congruence.
  - unfold same_psv in E. apply andb_prop in E as [E _]. unfold teq, eps10 in E.
    cbn [nltb nabs nsub nofQ QCmp QOps] in E.
    apply negb_true_iff in E. apply Qnot_le_lt. intro H. apply Qle_bool_iff in H. congruence.
Qed.
