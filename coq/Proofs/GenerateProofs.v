(* Proofs for C19: for every number of spans and levels the generated bars are exactly the
   beams and columns of the grid, in number barsCount, with ids 1..n; the nodes are the grid. *)
From Coq Require Import ZArith QArith Arith Bool List Lia.
From Inkfem Require Import Model.Types Gen.GenReticular Model.Generate.
Import ListNotations.
Local Open Scope nat_scope.

Lemma filter_all {A} (f : A -> bool) l : (forall x, In x l -> f x = true) -> filter f l = l.
Proof. induction l as [|a l IH]; intros H; cbn; [reflexivity|]. rewrite (H a) by (left; reflexivity). f_equal. apply IH. intros; apply H; right; assumption. Qed.

Lemma loop_indices_seq n : loop_indices n = seq 1 n.
Proof.
  unfold loop_indices, ret_loop_start, ret_loop_cond.
  replace (S n) with (n + 1) by lia. rewrite seq_app, filter_app. cbn [seq filter].
  replace (Nat.leb (1 + n) n) with false by (symmetry; apply Nat.leb_gt; lia).
  rewrite app_nil_r. apply filter_all. intros i Hi.
  apply in_seq in Hi. apply Nat.leb_le. lia.
Qed.

Lemma map_add_seq c : forall n s, map (fun j => c + j) (seq s n) = seq (c + s) n.
Proof. induction n as [|n IH]; intros s; cbn; [reflexivity|]. rewrite IH. f_equal. f_equal. lia. Qed.

(* seq over the grid, row by row *)
Lemma seq_grid_from spans : forall rows k,
  seq (k * (spans + 1) + 1) (rows * (spans + 1)) =
  flat_map (fun r => map (fun j => idx spans r j) (seq 0 (spans + 1))) (seq k rows).
Proof.
  induction rows as [|rows IH]; intros k; [reflexivity|].
  cbn [seq flat_map]. replace (S rows * (spans + 1)) with ((spans + 1) + rows * (spans + 1)) by lia.
  rewrite seq_app. f_equal.
  - pose proof (map_add_seq (k * (spans + 1) + 1) (spans + 1) 0) as M. rewrite Nat.add_0_r in M. rewrite <- M.
    apply map_ext. intros j. unfold idx. lia.
  - replace (k * (spans + 1) + 1 + (spans + 1)) with (S k * (spans + 1) + 1) by lia. apply IH.
Qed.

Lemma seq_grid spans rows :
  seq 1 (rows * (spans + 1)) = flat_map (fun r => map (fun j => idx spans r j) (seq 0 (spans + 1))) (seq 0 rows).
Proof. apply (seq_grid_from spans rows 0). Qed.

(* the (start, end, loaded) triples generated at one loop index *)
Definition pairs_at (rows cols i : nat) : list (nat * nat * bool) :=
  (if ret_beam_cond rows cols i then [(ret_beam_start rows cols i, ret_beam_end rows cols i, ret_beam_loaded)] else []) ++
  (if ret_column_cond rows cols i then [(ret_column_start rows cols i, ret_column_end rows cols i, ret_column_loaded)] else []).

Lemma bars_from_pairs rows cols : forall is k,
  map bar_proj (bars_from rows cols is k) = flat_map (pairs_at rows cols) is.
Proof.
  induction is as [|i is IH]; intros k; [reflexivity|].
  cbn [bars_from flat_map]. rewrite !map_app, IH. unfold pairs_at.
  destruct (ret_beam_cond rows cols i); destruct (ret_column_cond rows cols i); reflexivity.
Qed.

Lemma bars_from_ids rows cols : forall is k,
  map gb_id (bars_from rows cols is k) = seq (k + 1) (length (bars_from rows cols is k)).
Proof.
  induction is as [|i is IH]; intros k; [reflexivity|].
  cbn [bars_from]. unfold ret_beam_id, ret_column_id.
  destruct (ret_beam_cond rows cols i); destruct (ret_column_cond rows cols i);
    cbn [app map length gb_id]; rewrite ?Nat.add_0_r, IH; cbn [seq length];
    repeat (f_equal; try lia).
Qed.

(* the loop index of a grid position decides as the documentation says *)
Lemma mod_last spans r j : j <= spans -> (Nat.modulo (idx spans r j) (spans + 1) =? 0) = (j =? spans).
Proof.
  intros Hj. unfold idx. replace (r * (spans + 1) + j + 1) with ((j + 1) + r * (spans + 1)) by lia.
  rewrite Nat.mod_add by lia.
  destruct (Nat.eqb_spec j spans) as [->|Hne].
  - rewrite Nat.mod_same by lia. reflexivity.
  - rewrite Nat.mod_small by lia. apply Nat.eqb_neq. lia.
Qed.

Lemma pairs_at_grid spans levels r j : r <= levels -> j <= spans ->
  pairs_at (ret_rows levels) (ret_cols spans) (idx spans r j) = spec_at spans levels r j.
Proof.
  intros Hr Hj. unfold pairs_at, spec_at, ret_beam_cond, ret_column_cond, ret_is_rows_last, ret_is_lowest, ret_is_upper,
    ret_beam_start, ret_beam_end, ret_column_start, ret_column_end, ret_beam_loaded, ret_column_loaded, ret_rows, ret_cols.
  rewrite (mod_last spans r j Hj).
  assert (Hlow : Nat.leb (idx spans r j) (spans + 1) = (r =? 0)).
  { unfold idx. destruct (Nat.eqb_spec r 0) as [->|Hne]; [apply Nat.leb_le; lia | apply Nat.leb_gt; nia]. }
  assert (Hup : Nat.ltb ((spans + 1) * (levels + 1 - 1)) (idx spans r j) = (r =? levels)).
  { unfold idx. replace (levels + 1 - 1) with levels by lia.
    destruct (Nat.eqb_spec r levels) as [->|Hne]; [apply Nat.ltb_lt; nia | apply Nat.ltb_ge; nia]. }
  rewrite Hlow, Hup.
  assert (E1 : idx spans r j + 1 = idx spans r (j + 1)) by (unfold idx; lia).
  assert (E2 : idx spans r j + (spans + 1) = idx spans (r + 1) j) by (unfold idx; lia).
  rewrite E1, E2.
  destruct (Nat.eqb_spec j spans); destruct (Nat.eqb_spec r 0); destruct (Nat.eqb_spec r levels);
    destruct (Nat.ltb_spec j spans); destruct (Nat.leb_spec 1 r); destruct (Nat.ltb_spec r levels);
    cbn; try reflexivity; lia.
Qed.

Lemma flat_map_flat_map {A B C} (f : A -> list B) (g : B -> list C) l :
  flat_map g (flat_map f l) = flat_map (fun a => flat_map g (f a)) l.
Proof. induction l as [|a l IH]; cbn; [reflexivity|]. rewrite flat_map_app, IH. reflexivity. Qed.
Lemma flat_map_map {A B C} (f : A -> B) (g : B -> list C) l : flat_map g (map f l) = flat_map (fun a => g (f a)) l.
Proof. induction l as [|a l IH]; cbn; [reflexivity|]. rewrite IH. reflexivity. Qed.
Lemma flat_map_ext_in {A B} (f g : A -> list B) l : (forall a, In a l -> f a = g a) -> flat_map f l = flat_map g l.
Proof. induction l as [|a l IH]; intros H; cbn; [reflexivity|]. rewrite (H a), IH; auto; [intros; apply H; right; assumption | left; reflexivity]. Qed.

(* for every number of spans and levels: the bars are the beams and columns of the grid *)
Theorem gen_bars_spec spans levels : map bar_proj (gen_bars spans levels) = spec_bars spans levels.
Proof.
  unfold gen_bars, spec_bars. rewrite bars_from_pairs, loop_indices_seq.
  unfold ret_rows at 2, ret_cols at 2. rewrite seq_grid, flat_map_flat_map.
  apply flat_map_ext_in. intros r Hr. rewrite flat_map_map.
  apply flat_map_ext_in. intros j Hj. apply in_seq in Hr. apply in_seq in Hj.
  apply pairs_at_grid; lia.
Qed.

Lemma spec_row_length spans levels r :
  length (flat_map (spec_at spans levels r) (seq 0 (spans + 1))) =
  (if Nat.leb 1 r then spans else 0) + (if Nat.ltb r levels then spans + 1 else 0).
Proof.
  assert (G : forall n, n <= spans + 1 ->
    length (flat_map (spec_at spans levels r) (seq 0 n)) =
    (if Nat.leb 1 r then Nat.min n spans else 0) + (if Nat.ltb r levels then n else 0)).
  { induction n as [|n IH]; intros Hn.
    - cbn [seq flat_map length]. rewrite Nat.min_0_l. destruct (Nat.leb 1 r); destruct (Nat.ltb r levels); reflexivity.
    - rewrite seq_S, flat_map_app, app_length, IH by lia. cbn [flat_map seq plus]. rewrite app_nil_r.
      unfold spec_at. rewrite app_length.
      destruct (Nat.leb 1 r); destruct (Nat.ltb r levels); destruct (Nat.ltb_spec n spans); cbn [andb length]; lia. }
  rewrite G by lia. rewrite Nat.min_r by lia. reflexivity.
Qed.

Lemma spec_bars_length spans levels : length (spec_bars spans levels) = spans * levels + (spans + 1) * levels.
Proof.
  unfold spec_bars.
  assert (G : forall n, n <= levels + 1 ->
    length (flat_map (fun r => flat_map (spec_at spans levels r) (seq 0 (spans + 1))) (seq 0 n)) =
    spans * (n - 1) + (spans + 1) * Nat.min n levels).
  { induction n as [|n IH]; intros Hn; [cbn; lia|].
    rewrite seq_S, flat_map_app, app_length, IH by lia. cbn [flat_map seq plus]. rewrite app_nil_r, spec_row_length.
    destruct (Nat.leb_spec 1 n); destruct (Nat.ltb_spec n levels); nia. }
  rewrite G by lia. replace (levels + 1 - 1) with levels by lia. rewrite Nat.min_r by lia. reflexivity.
Qed.

(* the slice allocated by Go has exactly as many slots as bars are produced: none stays
   empty and no index is out of range *)
Theorem bars_count_exact spans levels :
  Z.of_nat (length (gen_bars spans levels)) = ret_bars_count (ret_rows_Z (Z.of_nat levels)) (ret_cols_Z (Z.of_nat spans)).
Proof.
  rewrite <- (map_length bar_proj), gen_bars_spec, spec_bars_length.
  unfold ret_bars_count, ret_rows_Z, ret_cols_Z. nia.
Qed.

Theorem bars_ids spans levels : map gb_id (gen_bars spans levels) = seq 1 (length (gen_bars spans levels)).
Proof. unfold gen_bars. rewrite bars_from_ids. reflexivity. Qed.

(* beams and columns, counted *)
Lemma count_loaded spans levels :
  length (filter (fun p => snd p) (spec_bars spans levels)) = spans * levels /\
  length (filter (fun p => negb (snd p)) (spec_bars spans levels)) = (spans + 1) * levels.
Proof.
  assert (R : forall r n, n <= spans + 1 ->
    length (filter (fun p => snd p) (flat_map (spec_at spans levels r) (seq 0 n))) = (if Nat.leb 1 r then Nat.min n spans else 0) /\
    length (filter (fun p => negb (snd p)) (flat_map (spec_at spans levels r) (seq 0 n))) = (if Nat.ltb r levels then n else 0)).
  { intros r. induction n as [|n IH]; intros Hn.
    - cbn [seq flat_map filter length]. rewrite Nat.min_0_l. destruct (Nat.leb 1 r); destruct (Nat.ltb r levels); split; reflexivity.
    - destruct (IH ltac:(lia)) as [I1 I2].
      rewrite seq_S, flat_map_app, !filter_app, !app_length, I1, I2. cbn [flat_map seq plus]. rewrite app_nil_r.
      unfold spec_at. rewrite !filter_app, !app_length.
      destruct (Nat.leb 1 r); destruct (Nat.ltb r levels); destruct (Nat.ltb_spec n spans); cbn [andb filter snd negb length]; split; lia. }
  unfold spec_bars.
  assert (G : forall n, n <= levels + 1 ->
    length (filter (fun p => snd p) (flat_map (fun r => flat_map (spec_at spans levels r) (seq 0 (spans + 1))) (seq 0 n))) = spans * (n - 1) /\
    length (filter (fun p => negb (snd p)) (flat_map (fun r => flat_map (spec_at spans levels r) (seq 0 (spans + 1))) (seq 0 n))) = (spans + 1) * Nat.min n levels).
  { induction n as [|n IH]; intros Hn; [cbn; split; lia|].
    destruct (IH ltac:(lia)) as [I1 I2]. destruct (R n (spans + 1) ltac:(lia)) as [R1 R2].
    rewrite seq_S, flat_map_app, !filter_app, !app_length, I1, I2. cbn [flat_map seq plus]. rewrite app_nil_r, R1, R2.
    rewrite Nat.min_r by lia.
    destruct (Nat.leb_spec 1 n); destruct (Nat.ltb_spec n levels); split; nia. }
  destruct (G (levels + 1) ltac:(lia)) as [G1 G2]. rewrite G1, G2.
  replace (levels + 1 - 1) with levels by lia. rewrite Nat.min_r by lia. split; reflexivity.
Qed.

(* every bar joins two nodes of the grid *)
Theorem bars_end_nodes_in_grid spans levels n1 n2 ld :
  In (n1, n2, ld) (spec_bars spans levels) ->
  1 <= n1 <= (spans + 1) * (levels + 1) /\ 1 <= n2 <= (spans + 1) * (levels + 1) /\ n1 <> n2.
Proof.
  unfold spec_bars. rewrite in_flat_map. intros (r & Hr & H). rewrite in_flat_map in H. destruct H as (j & Hj & H).
  apply in_seq in Hr. apply in_seq in Hj. unfold spec_at in H. apply in_app_or in H.
  destruct H as [H|H].
  - destruct (Nat.ltb_spec j spans); destruct (Nat.leb_spec 1 r); cbn [andb] in H; try contradiction.
    destruct H as [H|[]]. injection H as <- <- <-. unfold idx. nia.
  - destruct (Nat.ltb_spec r levels); try contradiction.
    destruct H as [H|[]]. injection H as <- <- <-. unfold idx. nia.
Qed.

(* nodes: ids 1..(spans+1)(levels+1) along the rows, on the regular grid, bottom row fixed *)
Theorem gen_nodes_spec spans levels span height :
  map gn_id (gen_nodes spans levels span height) = seq 1 ((levels + 1) * (spans + 1)) /\
  forall nd, In nd (gen_nodes spans levels span height) ->
    exists i j, i <= levels /\ j <= spans /\ gn_id nd = idx spans i j /\
      (gn_x nd == inject_Z (Z.of_nat j) * span)%Q /\ (gn_y nd == inject_Z (Z.of_nat i) * height)%Q /\
      gn_fixed nd = (i =? 0).
Proof.
  split.
  - unfold gen_nodes, ret_node_cols, ret_node_rows, ret_node_id. rewrite seq_grid.
    rewrite flat_map_concat_map, concat_map, map_map, <- flat_map_concat_map.
    apply flat_map_ext_in. intros i _. rewrite map_map. apply map_ext. intros j. cbn [gn_id]. unfold idx. lia.
  - intros nd Hin. unfold gen_nodes in Hin. rewrite in_flat_map in Hin. destruct Hin as (i & Hi & Hin).
    rewrite in_map_iff in Hin. destruct Hin as (j & <- & Hj).
    apply in_seq in Hi. apply in_seq in Hj. unfold ret_node_rows, ret_node_cols in *.
    exists i, j. cbn [gn_id gn_x gn_y gn_fixed]. unfold ret_node_id, ret_node_x, ret_node_y, ret_node_fixed, idx.
    repeat split; try lia; reflexivity.
Qed.
