(* Proofs for C08: whatever order the concurrently sliced bars arrive in (and whatever
   permutation the sort that follows applies), the equation numbering encodes the same
   partition of unknowns; definitions of different keys commute in the reader's maps. *)
From Coq Require Import Arith List Bool Lia Permutation String.
From Inkfem Require Import Model.Types Model.Dof Model.Sched Model.Regex Model.Read Spec.Unknowns Proofs.DofProofs Proofs.SchedProofs.
Import ListNotations.

Theorem any_schedule_same_partition : forall (bars : list skel) (s : sstate) (order : list nat),
  Forall wf_skel bars ->
  sreach (List.length bars) (sinit (List.length bars)) s -> sfinal s ->
  Permutation order (received s) ->                      (* e.g. the arrival order sorted by geometry *)
  forall i j ni nj c d, i < List.length order -> j < List.length order ->
  valid (map (skel_at bars) order) i ni -> valid (map (skel_at bars) order) j nj ->
  (num_at (map (skel_at bars) order) i ni c = num_at (map (skel_at bars) order) j nj d <->
   num_at bars (nth i order 0) ni c = num_at bars (nth j order 0) nj d).
Proof.
  intros bars s order Hwf Hr Hf Hp.
  assert (P : Permutation order (seq 0 (List.length bars))).
  { eapply Permutation_trans; [exact Hp|]. apply collects_all; assumption. }
  apply (order_independent bars (map (skel_at bars) order) order Hwf P eq_refl).
Qed.

(* the reader's maps: what a lookup sees after a definition *)
Lemma lookup_upsert {A} (key : A -> string) (x : A) (l : list A) (k : string) :
  lookup_by key k (upsert key x l) = if String.eqb (key x) k then Some x else lookup_by key k l.
Proof.
  induction l as [|z t IH]; cbn; [reflexivity|].
  destruct (String.eqb (key z) (key x)) eqn:Ezx; cbn.
  - apply String.eqb_eq in Ezx. rewrite Ezx. destruct (String.eqb (key x) k); reflexivity.
  - rewrite IH. destruct (String.eqb (key z) k) eqn:Ezk; destruct (String.eqb (key x) k) eqn:Exk; try reflexivity.
    apply String.eqb_eq in Ezk, Exk. apply String.eqb_neq in Ezx. congruence.
Qed.

(* definitions with different keys commute: same lookups whatever their order in the file *)
Lemma upsert_commutes {A} (key : A -> string) (x y : A) (l : list A) (k : string) :
  key x <> key y ->
  lookup_by key k (upsert key x (upsert key y l)) = lookup_by key k (upsert key y (upsert key x l)).
Proof.
  intros Hne. rewrite !lookup_upsert.
  destruct (String.eqb (key x) k) eqn:Ex; destruct (String.eqb (key y) k) eqn:Ey; try reflexivity.
  apply String.eqb_eq in Ex, Ey. congruence.
Qed.
